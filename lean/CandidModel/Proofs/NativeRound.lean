import CandidModel.Native
import CandidModel.Proofs.NativeStep
import CandidModel.Proofs.ValRound
import CandidModel.Proofs.LebSigned
/-
  C01 on the native mirror: decoding what was written returns the value.  `wt env renv k t e v` says that `v` is a value
  of the Rust type `t` at its Candid type `e` which the decoder can reach within depth `k` (the same `k` the mirror's
  stack-guard budget is given: `wt` asks for exactly the unfoldings the mirror performs at that budget).  Then, from the
  bytes the value writer produces for `v` followed by anything, with nothing metered, at wire type = expected type, the
  mirror returns `v` and leaves exactly what followed.
-/
namespace Candid.Native
open Candid Candid.Wire Candid.Leb Candid.De

/-- the unfolding `unroll` performs at budget `k` -/
def traceAt (env : Env) (k : Nat) (t : Ty) : Option Ty := if Sub.isName t then env.trace k t else some t

def fieldLabels (vfs : List (Label × Val)) : List Label := vfs.map (·.1)

/-- the elements a sequence value stands for: a blob is the vector of its bytes -/
def elemsOf : Val → Option (List Val)
  | .vec vs => some vs
  | .blob b => some (b.map fun x => Val.nat8 x.toNat)
  | _ => none

/-- values of a sequence type (`Vec`, sets, arrays, bounded vectors) with element type `t'`, at `vec ee`; `extra` is what
the visitor asks beyond the elements (an array's length, a bounded vector's limits) -/
def seqClause (rec : RTy → Ty → Val → Bool) (env : Env) (renv : REnv) (k : Nat) (t' : RTy) (ee : Ty) (v : Val)
    (extra : List Val → Bool) : Bool :=
  match env.trace k ee with
  | none => false
  | some wire =>
    (match exactPrim ee wire with
     | some p => acceptsPrimitive renv (resolveDepth renv) t' p == some true
     | none => true) &&
    (match v, isByte renv (resolveDepth renv) t' with
     | .blob _, true => true
     | .vec _, false => true
     | _, _ => false) &&
    (match elemsOf v with
     | some vs => decide (vs.length < 2 ^ 60) && vs.all (fun x => rec t' ee x) && extra vs
     | none => false)

/-- the limits of a bounded vector -/
def withinB (a b c : Nat) (vs : List Val) : Bool :=
  decide (vs.length ≤ a) && vs.all (fun v => decide (dataSize v ≤ c)) && decide ((vs.map dataSize).sum ≤ b)

/-- values of the Rust type `t` at Candid type `e`, reachable at depth `k`.  Byte sequences are blobs; records carry the
labels of the type; a variant carries its wire index.  Function and service references are left out (see `Props/C01`). -/
def wt (env : Env) (renv : REnv) : Nat → RTy → Ty → Val → Bool
  | 0, _, _, _ => false
  | k + 1, t, e, v =>
    match t with
    | .newtype t' => wt env renv k t' e v
    | .ref x => (match renv.find x with | some t' => wt env renv k t' e v | none => false)
    | _ =>
      match traceAt env k e with
      | none => false
      | some e' =>
        match t, e' with
        | .prim p, .prim q => decide (p = q) && directPrim p && canonPrim p v
        | .nat, .prim .nat => canonPrim .nat v
        | .int, .prim .int => canonPrim .int v
        | .principal, .principal => (match v with | .principal b => decide (b.length ≤ 29) | _ => false)
        | .func, .func _ _ _ =>
          (match v with
           | .func pid m => decide (pid.length ≤ 29) && decide ((strBytes m).length < 2 ^ 63)
           | _ => false)
        | .service, .service _ => (match v with | .service b => decide (b.length ≤ 29) | _ => false)
        | .reserved, .prim .reserved =>
          decide (e = .prim .reserved) && decide (2 ≤ k) && (match v with | .reserved => true | _ => false)
        | .byteBuf, .vec ee =>
          isBlobTy env (.vec ee) && (match v with | .blob b => decide (b.length < 2 ^ 60) | _ => false)
        | .opt t', .opt e2 =>
          (match v with | .none => true | .opt v' => wt env renv k t' e2 v' | _ => false)
        | .seq t', .vec ee => seqClause (wt env renv k) env renv k t' ee v (fun _ => true)
        | .array n t', .vec ee => seqClause (wt env renv k) env renv k t' ee v (fun vs => decide (vs.length = n))
        | .bounded a b c t', .vec ee => seqClause (wt env renv k) env renv k t' ee v (withinB a b c)
        | .u128, .prim .nat => (match v with | .nat n => decide (n < 2 ^ 128) | _ => false)
        | .i128, .prim .int => (match v with | .int i => decide (-(2 : Int) ^ 127 ≤ i ∧ i < (2 : Int) ^ 127) | _ => false)
        | .tuple ts, .record efs =>
          isTupleFields efs.toList &&
            (match v with
             | .record vfs =>
               decide (fieldLabels vfs = efs.toList.map (·.1)) &&
               decide (ts.toList.length = efs.toList.length) && decide (vfs.length = efs.toList.length) &&
                 ((ts.toList.zip (efs.toList.zip vfs)).all fun p => wt env renv k p.1 p.2.1.2 p.2.2.2)
             | _ => false)
        | .strct fs, .record efs =>
          (fs.select (.named "_")).isNone &&
            (match v with
             | .record vfs =>
               decide (fieldLabels vfs = efs.toList.map (·.1)) &&
                 ((efs.toList.zip vfs).all fun p => match fs.select p.1.1 with
                   | some (_, t') => wt env renv k t' p.1.2 p.2.2
                   | none => false)
             | _ => false)
        | .enm vs, .variant efs =>
          (match v with
           | .variant l v' idx =>
             decide (idx < 2 ^ 64) &&
             (match efs.toList[idx]? with
              | some (l', et) =>
                decide (l = l') &&
                (efs.toList.find? (fun p => p.1.getId = l.getId) == some (l', et)) &&
                (match l with
                 | .named nm =>
                   (match vs.select (.named nm) with
                    | some (.unit, _) => decide (et = .prim .null) && (match v' with | .null => true | _ => false)
                    | some (_, t') => wt env renv k t' et v'
                    | none => false)
                 | _ => false)
              | none => false)
           | _ => false)
        | .map kt vt, .vec ee =>
          (match env.trace k ee with
           | some (.record efs) =>
             (match efs.toList with
              | [(l0, ek), (l1, ev)] =>
                decide (l0.getId = 0) && decide (l1.getId = 1) &&
                (match v with
                 | .vec es =>
                   decide (es.length < 2 ^ 60) &&
                   es.all fun en => match en with
                     | .record [(a, kv), (b, vv)] =>
                       decide (a = l0) && decide (b = l1) && wt env renv k kt ek kv && wt env renv k vt ev vv
                     | _ => false
                 | _ => false)
              | _ => false)
           | _ => false)
        | _, _ => false

def inp (st : St) (x : Bytes) : St := { st with input := x }

theorem inp_unmetered (st : St) (x : Bytes) (hu : Unmetered st) : Unmetered (inp st x) := hu

theorem inp_input (st : St) (x : Bytes) : (inp st x).input = x := rfl

theorem inp_inp (st : St) (x y : Bytes) : inp (inp st x) y = inp st y := rfl

theorem inp_self (st : St) : inp st st.input = st := by cases st; rfl

theorem rd_ok {α : Type} (f : Bytes → Outcome (α × Bytes)) (st : St) (a : α) (rest : Bytes)
    (h : f st.input = .ok (a, rest)) : rd f st = .ok a (inp st rest) := by
  unfold rd; rw [h]; rfl

theorem unroll_same (env : Env) (k : Nat) (w e e' : Ty) (st : St) (hu : Unmetered st)
    (hw : traceAt env k w = some e') (he : traceAt env k e = some e') :
    unroll env k w e st = .ok (e', e') st := by
  unfold traceAt at hw he
  unfold unroll
  by_cases hne : Sub.isName e = true
  · simp only [hne, if_true] at he ⊢
    rw [addCost_unmetered_ok st hu]
    simp only [R.bind, he, ofOpt]
    by_cases hnw : Sub.isName w = true
    · simp only [hnw, if_true] at hw ⊢
      rw [addCost_unmetered_ok st hu]
      simp only [R.bind, hw, ofOpt, R.map]
    · simp only [hnw, if_false, Bool.false_eq_true] at hw ⊢
      simp only [Option.some.injEq] at hw
      subst hw
      rfl
  · simp only [hne, if_false, Bool.false_eq_true] at he ⊢
    simp only [Option.some.injEq] at he
    subst he
    simp only [R.bind]
    by_cases hnw : Sub.isName w = true
    · simp only [hnw, if_true] at hw ⊢
      rw [addCost_unmetered_ok st hu]
      simp only [R.bind, hw, ofOpt, R.map]
    · simp only [hnw, if_false, Bool.false_eq_true] at hw ⊢
      simp only [Option.some.injEq] at hw
      subst hw
      rfl

theorem traceAt_full (env : Env) (k : Nat) (e e' : Ty) (h : traceAt env k e = some e') : Sub.traceFull env e = some e' := by
  unfold traceAt at h
  split at h
  · exact Sub.traceFull_of_trace env k e e' h
  · rename_i hn
    simp only [Option.some.injEq] at h
    subst h
    unfold Sub.traceFull
    exact Check.trace_nonvar env _ e (by intro x hx; subst hx; simp [Sub.isName] at hn)

/-- length-prefixed bytes come back -/
theorem lenBytes_ser (st : St) (hu : Unmetered st) (b r : Bytes) (hb : b.length < 2 ^ 63)
    (hin : st.input = uleb b.length ++ b ++ r) : lenBytes st = .ok b (inp st r) := by
  unfold lenBytes
  have h1 : readLenDe st.input = .ok (b.length, b ++ r) := by
    rw [hin, List.append_assoc]; exact readLenDe_uleb _ _ hb
  rw [rd_ok readLenDe st b.length (b ++ r) h1]
  simp only [R.bind]
  rw [addCost_unmetered_ok _ (inp_unmetered st _ hu)]
  simp only [R.bind]
  rw [rd_ok (takeN b.length) (inp st (b ++ r)) b r (by rw [inp_input]; exact takeN_append b r)]
  rfl

theorem bigNum_ok (f : Bytes → Outcome (Val × Bytes)) (st : St) (hu : Unmetered st) (v : Val) (rest : Bytes)
    (h : f st.input = .ok (v, rest)) : bigNum f st = .ok v (inp st rest) := by
  unfold bigNum
  rw [rd_ok f st v rest h]
  simp only [R.bind]
  rw [addCost_unmetered_ok _ (inp_unmetered st _ hu)]
  rfl

theorem natFast_ser (mkv : Nat → Val) (n : Nat) (r : Bytes) : natFast mkv (Impl.natEncode n ++ r) = .ok (mkv n, r) := by
  unfold natFast
  rw [deNat_spec, natEncode_eq_uleb, specReadNat_uleb]

theorem intFast_ser (i : Int) (r : Bytes) : intFast (Impl.intEncode i ++ r) = .ok (.int i, r) := by
  unfold intFast
  rw [deInt_spec, intEncode_eq_sleb, specReadInt_sleb]


/-- the wire type is the expected type, or its unfolding -/
def Rel (env : Env) (w e : Ty) : Prop := w = e ∨ (Sub.isName w = false ∧ Sub.traceFull env e = some w)

theorem Rel.refl (env : Env) (e : Ty) : Rel env e e := Or.inl rfl

theorem rel_traceAt (env : Env) (k : Nat) (w e e' : Ty) (hr : Rel env w e) (he : traceAt env k e = some e') :
    traceAt env k w = some e' := by
  rcases hr with h | ⟨h1, h2⟩
  · subst h; exact he
  · have := traceAt_full env k e e' he
    rw [h2] at this
    simp only [Option.some.injEq] at this
    subst this
    simp [traceAt, h1]

/-- a value of some Rust type at `e` pins down a proper (unnamed) unfolding of `e` -/
theorem wt_shape (env : Env) (renv : REnv) : ∀ (k : Nat) (t : RTy) (e : Ty) (v : Val), wt env renv k t e v = true →
    ∃ e', Sub.traceFull env e = some e' ∧ Sub.isName e' = false := by
  intro k
  induction k with
  | zero => intro t e v h; simp [wt] at h
  | succ k ih =>
    intro t e v h
    cases t with
    | newtype t' => simp only [wt] at h; exact ih t' e v h
    | ref x =>
      simp only [wt] at h
      cases hf : renv.find x with
      | none => simp [hf] at h
      | some t' => rw [hf] at h; exact ih t' e v h
    | _ =>
      simp only [wt] at h
      cases ht : traceAt env k e with
      | none => simp [ht] at h
      | some e' =>
        rw [ht] at h
        refine ⟨e', traceAt_full env k e e' ht, ?_⟩
        cases e' <;> first | rfl | simp at h

/-- the claim for one reader at one value, under an invariant on the flags -/
def Reads1 (elem : Flags → St → NR) (P : Flags → Prop) (v : Val) : Prop :=
  ∀ fl, P fl → ∀ (fs : Nat) (b r : Bytes) (st : St), serVal fs v = .ok b → Unmetered st → st.input = b ++ r →
    ∃ fl', P fl' ∧ elem fl st = .ok (v, fl') (inp st r)

theorem iterF_ser (elem : Flags → St → NR) (P : Flags → Prop) : ∀ (vs : List Val), (∀ v ∈ vs, Reads1 elem P v) →
    ∀ fl, P fl → ∀ (fs : Nat) (bss : List Bytes) (r : Bytes) (st : St), mapOutcomes (serVal fs) vs = .ok bss →
      Unmetered st → st.input = bss.flatten ++ r →
      ∃ fl', P fl' ∧ iterF elem vs.length fl st = .ok (vs, fl') (inp st r) := by
  intro vs
  induction vs with
  | nil =>
    intro _ fl hfl fs bss r st hm hu hin
    simp only [mapOutcomes, Outcome.ok.injEq] at hm
    subst hm
    refine ⟨fl, hfl, ?_⟩
    simp only [List.length_nil, iterF, List.flatten_nil, List.nil_append] at hin ⊢
    rw [← hin, inp_self]
  | cons v vs ih =>
    intro h fl hfl fs bss r st hm hu hin
    obtain ⟨b, bss', h1, h2, h3⟩ := mapOutcomes_cons_ok (serVal fs) v vs bss hm
    subst h3
    simp only [List.flatten_cons, List.append_assoc] at hin
    obtain ⟨fl1, hfl1, e1⟩ := h v (by simp) fl hfl fs b (bss'.flatten ++ r) st h1 hu hin
    obtain ⟨fl2, hfl2, e2⟩ := ih (fun x hx => h x (by simp [hx])) fl1 hfl1 fs bss' r (inp st (bss'.flatten ++ r)) h2
      (inp_unmetered st _ hu) (inp_input st _)
    refine ⟨fl2, hfl2, ?_⟩
    simp only [List.length_cons, iterF, e1, R.bind, e2, R.map, inp_inp]


theorem nPrim_ser (env : Env) (k : Nat) (p : Prim) (cost : Nat) (fl : Flags) (w e : Ty) (st : St) (v : Val)
    (fs : Nat) (b r : Bytes) (hw : traceAt env k w = some (.prim p)) (he : traceAt env k e = some (.prim p))
    (hc : canonPrim p v = true) (hs : serVal fs v = .ok b) (hu : Unmetered st) (hin : st.input = b ++ r) :
    nPrim env k p cost fl w e st = .ok (v, fl) (inp st r) := by
  unfold nPrim
  rw [unroll_same env k w e (.prim p) st hu hw he]
  simp only [R.bind, dePrimExact, and_self, if_true]
  rw [addCost_unmetered_ok st hu]
  simp only [R.bind]
  rw [rd_ok (decPrim p) st v r (by rw [hin]; exact decPrim_ser p v fs b r hc hs)]
  rfl

theorem nText_ser (env : Env) (k : Nat) (fl : Flags) (w e : Ty) (st : St) (v : Val)
    (fs : Nat) (b r : Bytes)
    (hw : traceAt env k w = some (.prim .text)) (he : traceAt env k e = some (.prim .text))
    (hc : canonPrim .text v = true) (hs : serVal fs v = .ok b) (hu : Unmetered st) (hin : st.input = b ++ r) :
    nText env k fl w e st = .ok (v, fl) (inp st r) := by
  cases v <;> simp only [canonPrim] at hc <;> try (exact Bool.noConfusion hc)
  rename_i s
  simp only [decide_eq_true_eq] at hc
  cases fs with
  | zero => simp [serVal] at hs
  | succ fs =>
    simp only [serVal, Outcome.ok.injEq] at hs
    subst hs
    unfold nText
    have hchecked : (if fl.text = true then R.ok () st
        else (unroll env k w e st).bind fun (x : Ty × Ty) s =>
          if x.2 = .prim .text ∧ x.1 = .prim .text then R.ok () s else subErr s) = R.ok () st := by
      by_cases ht : fl.text = true
      · simp [ht]
      · simp only [ht, if_false, Bool.false_eq_true]
        rw [unroll_same env k w e (.prim .text) st hu hw he]
        simp [R.bind]
    simp only [] at hchecked ⊢
    rw [hchecked]
    simp only [R.bind]
    rw [lenBytes_ser st hu (strBytes s) r hc (by rw [hin]; simp [serText])]
    simp only [utf8_strBytes]


theorem omap_ok' {α β : Type} (x : Outcome α) (f : α → β) (b : β) (h : x.map f = .ok b) : ∃ a, x = .ok a ∧ f a = b := by
  cases x <;> simp [Outcome.map] at h
  exact ⟨_, rfl, h⟩

/-- the claim at one depth, for the recursive entry point -/
def RoundAt (env : Env) (renv : REnv) (k : Nat) (rec : RTy → Flags → Ty → Ty → St → NR) : Prop :=
  ∀ (t : RTy) (w e : Ty) (v : Val) (fl : Flags) (fs : Nat) (b r : Bytes) (st : St),
    wt env renv k t e v = true → Rel env w e → FlagsFit fl w e → serVal fs v = .ok b → Unmetered st → st.input = b ++ r →
    ∃ fl', (fl' = fl ∨ fl' = Flags.clear) ∧ rec t fl w e st = .ok (v, fl') (inp st r)

theorem flags_clear_at (env : Env) (k : Nat) (fl : Flags) (w e e' : Ty) (hf : FlagsFit fl w e) (ht : traceAt env k e = some e')
    (h1 : e' ≠ .prim .nat) (h2 : e' ≠ .prim .int) (h3 : e' ≠ .prim .text) : fl = Flags.clear :=
  flags_clear_of env fl w e e' hf (traceAt_full env k e e' ht) h1 h2 h3

theorem deIgnored_reserved (env : Env) (k : Nat) (st : St) (hu : Unmetered st) :
    deIgnored env (k + 2) (.prim .reserved) st = .ok .reserved st := by
  unfold deIgnored deAny
  have hu' : Unmetered { st with untyped := true } := hu
  rw [unroll_plain env k (.prim .reserved) (.prim .reserved) _ rfl rfl]
  simp only [R.bind, deAnyBody, ne_eq, not_true_eq_false, if_false]
  rw [addCost_unmetered_ok _ hu']
  simp only [R.map, R.bind]


/-- a value at a fixed-width primitive type, through newtype wrappers and names, is a canonical value of the primitive -/
theorem wt_prim (env : Env) (renv : REnv) (p : Prim) (sz : Nat) (hp : primSize p = some sz) : ∀ (k : Nat) (t : RTy) (v : Val),
    wt env renv k t (.prim p) v = true → canonPrim p v = true := by
  intro k
  induction k with
  | zero => intro t v h; simp [wt] at h
  | succ k ih =>
    intro t v h
    cases t with
    | newtype t' => simp only [wt] at h; exact ih t' v h
    | ref x =>
      simp only [wt] at h
      cases hf : renv.find x with
      | none => simp [hf] at h
      | some t' => rw [hf] at h; exact ih t' v h
    | prim q =>
      simp only [wt, traceAt, Sub.isName, Bool.false_eq_true, if_false, Bool.and_eq_true, decide_eq_true_eq] at h
      obtain ⟨⟨hq, _⟩, hc⟩ := h
      subst hq
      exact hc
    | _ =>
      exfalso
      (simp only [wt, traceAt, Sub.isName, Bool.false_eq_true, if_false] at h) <;>
        (cases p <;> simp [primSize] at hp <;> simp at h)

theorem flatten_length_of (sz : Nat) : ∀ (bss : List Bytes), (∀ b ∈ bss, b.length = sz) → bss.flatten.length = bss.length * sz := by
  intro bss
  induction bss with
  | nil => intro _; simp
  | cons b bss ih =>
    intro h
    simp only [List.flatten_cons, List.length_append, List.length_cons]
    rw [h b (by simp), ih (fun x hx => h x (by simp [hx])), Nat.add_mul]
    omega

theorem mapOutcomes_mem {α β : Type} (f : α → Outcome β) : ∀ (l : List α) (bs : List β), mapOutcomes f l = .ok bs →
    ∀ b ∈ bs, ∃ a ∈ l, f a = .ok b := by
  intro l
  induction l with
  | nil => intro bs h b hb; simp only [mapOutcomes, Outcome.ok.injEq] at h; subst h; simp at hb
  | cons a l ih =>
    intro bs h b hb
    obtain ⟨b0, bs', h1, h2, h3⟩ := mapOutcomes_cons_ok f a l bs h
    subst h3
    simp only [List.mem_cons] at hb
    rcases hb with hb | hb
    · subst hb; exact ⟨a, by simp, h1⟩
    · obtain ⟨a', ha', hf⟩ := ih bs' h2 b hb
      exact ⟨a', by simp [ha'], hf⟩

theorem mapOutcomes_len {α β : Type} (f : α → Outcome β) : ∀ (l : List α) (bs : List β), mapOutcomes f l = .ok bs →
    bs.length = l.length := by
  intro l
  induction l with
  | nil => intro bs h; simp only [mapOutcomes, Outcome.ok.injEq] at h; subst h; rfl
  | cons a l ih =>
    intro bs h
    obtain ⟨b0, bs', _, h2, h3⟩ := mapOutcomes_cons_ok f a l bs h
    subst h3
    simp [ih bs' h2]

theorem nat8_ser (x : UInt8) : serVal 1 (.nat8 x.toNat) = .ok [x] := by
  have : x.toNat < 256 := x.toNat_lt
  simp [serVal, leBytes, Nat.mod_eq_of_lt this]

theorem bytes_as_vals (bb : Bytes) : bytesOfVals (bb.map fun x => Val.nat8 x.toNat) = some bb := by
  induction bb with
  | nil => rfl
  | cons x bb ih => simp [bytesOfVals, ih]

theorem blob_ser (bb : Bytes) :
    mapOutcomes (serVal 1) (bb.map fun x => Val.nat8 x.toNat) = .ok (bb.map fun x => [x]) := by
  induction bb with
  | nil => rfl
  | cons x bb ih => simp only [List.map_cons, mapOutcomes, nat8_ser, ih]

theorem singletons_flatten (bb : Bytes) : (bb.map fun x => [x]).flatten = bb := by
  induction bb with
  | nil => rfl
  | cons x bb ih => simp [ih]

/-- the elements of a vector come back, on each of the three paths -/
theorem nVecCase_ser (env : Env) (renv : REnv) (k : Nat) (rec : RTy → Flags → Ty → Ty → St → NR)
    (hrec : RoundAt env renv k rec) (vis : SeqVisitor) (t' : RTy) (ee wire : Ty) (vs : List Val) (fs : Nat) (bss : List Bytes)
    (r : Bytes) (st : St)
    (hvis : ∀ (f : Flags → St → NR) (fl : Flags) (s0 : St) (res : Flags) (s' : St),
      iterF f vs.length fl s0 = .ok (vs, res) s' → runSeq vis f vs.length fl s0 = .ok (vs, res) s')
    (htr : env.trace k ee = some wire)
    (hacc : ∀ p, exactPrim ee wire = some p → acceptsPrimitive renv (resolveDepth renv) t' p = some true)
    (hlen : vs.length < 2 ^ 60) (hall : ∀ x ∈ vs, wt env renv k t' ee x = true)
    (hm : mapOutcomes (serVal fs) vs = .ok bss) (hu : Unmetered st)
    (hin : st.input = uleb vs.length ++ bss.flatten ++ r) :
    ∃ fl', (fl' = Flags.clear) ∧
      nVecCase env renv k rec vis t' Flags.clear ee ee st = .ok (vs, fl') (inp st r) := by
  unfold nVecCase
  rw [htr]
  simp only []
  rw [rd_ok readLenDe st vs.length (bss.flatten ++ r) (by rw [hin, List.append_assoc]; exact readLenDe_uleb _ _ (by omega))]
  simp only [R.bind]
  have hu2 : Unmetered (inp st (bss.flatten ++ r)) := inp_unmetered st _ hu
  -- the relation between wire and expected element type, available as soon as there is an element
  have hrel : ∀ x ∈ vs, Rel env wire ee := by
    intro x hx
    obtain ⟨e', h1, h2⟩ := wt_shape env renv k t' ee x (hall x hx)
    have := Sub.traceFull_of_trace env k ee wire htr
    rw [h1] at this
    simp only [Option.some.injEq] at this
    subst this
    exact Or.inr ⟨h2, h1⟩
  cases hx : exactPrim ee wire with
  | some p =>
    simp only []
    have hp := hacc p hx
    obtain ⟨sz, hsz⟩ : ∃ sz, primSize p = some sz := by
      unfold exactPrim at hx
      split at hx
      · split at hx
        · rename_i hc; simp only [Option.some.injEq] at hx; subst hx; exact Option.isSome_iff_exists.mp hc.2
        · simp at hx
      · simp at hx
    have hee : ee = .prim p := by
      unfold exactPrim at hx
      split at hx
      · split at hx
        · simp only [Option.some.injEq] at hx; subst hx; rfl
        · simp at hx
      · simp at hx
    subst hee
    have hszle : sz ≤ 8 := by cases p <;> simp [primSize] at hsz <;> omega
    have hcan : ∀ x ∈ vs, canonPrim p x = true := fun x hx' => wt_prim env renv p sz hsz k t' x (hall x hx')
    have hblen : ∀ b ∈ bss, b.length = sz := by
      intro b hb
      obtain ⟨x, hx', hsx⟩ := mapOutcomes_mem (serVal fs) vs bss hm b hb
      have := decPrim_consumes p sz hsz (b ++ []) [] x (decPrim_ser p x fs b [] (hcan x hx') hsx)
      simpa using this
    have hflat : bss.flatten.length = vs.length * sz := by
      rw [flatten_length_of sz bss hblen, mapOutcomes_len (serVal fs) vs bss hm]
    unfold bulkElems
    simp only [hsz, Option.getD_some, hp]
    have h1 : ¬ (vs.length * (3 + sz) > usizeMax) := by
      unfold usizeMax
      have : vs.length * (3 + sz) ≤ vs.length * 11 := Nat.mul_le_mul_left _ (by omega)
      omega
    rw [if_neg h1, addCost_unmetered_ok _ hu2]
    simp only [R.bind]
    rw [if_neg (by rw [inp_input, List.length_append, hflat]; omega)]
    obtain ⟨fl', hfl', hr⟩ := iterF_ser (bulkElem p) (fun f => f = Flags.clear) vs
      (fun x hx' f hf fs' b' r' st' hs' hu' hin' => by
        subst hf
        refine ⟨Flags.clear, rfl, ?_⟩
        unfold bulkElem
        rw [rd_ok (decPrim p) st' x r' (by rw [hin']; exact decPrim_ser p x fs' b' r' (hcan x hx') hs')]
        rfl)
      Flags.clear rfl fs bss r (inp st (bss.flatten ++ r)) hm hu2 (inp_input st _)
    rw [hvis _ _ _ _ _ hr, inp_inp]
    exact ⟨fl', hfl', rfl⟩
  | none =>
    simp only []
    cases hb : bigOf ee wire with
    | some bg =>
      simp only []
      unfold bigElems
      have h1 : ¬ (vs.length * 3 > usizeMax) := by unfold usizeMax; omega
      rw [if_neg h1, addCost_unmetered_ok _ hu2]
      simp only [R.bind]
      obtain ⟨fl', _, hr⟩ := iterF_ser (fun f s => rec t' f wire ee s) (fun f => f = ⟨some bg, false⟩ ∨ f = Flags.clear) vs
        (fun x hx' f hf fs' b' r' st' hs' hu' hin' => by
          have hfit : FlagsFit f wire ee := by
            rcases hf with h | h <;> subst h
            · exact fits_big bg wire ee hb
            · exact FlagsFit.clear wire ee
          obtain ⟨f', hf', hr'⟩ := hrec t' wire ee x f fs' b' r' st' (hall x hx') (hrel x hx') hfit hs' hu' hin'
          refine ⟨f', ?_, hr'⟩
          rcases hf' with h | h
          · rw [h]; exact hf
          · exact Or.inr h)
        ⟨some bg, false⟩ (Or.inl rfl) fs bss r (inp st (bss.flatten ++ r)) hm hu2 (inp_input st _)
      have hF : ({ Flags.clear with big := some bg } : Flags) = ⟨some bg, false⟩ := rfl
      rw [hF, hvis _ _ _ _ _ hr, inp_inp]
      exact ⟨Flags.clear, rfl, rfl⟩
    | none =>
      simp only []
      unfold genericElems
      obtain ⟨fl', _, hr⟩ := iterF_ser (genericElem rec t' wire ee) (fun f => f = Flags.clear) vs
        (fun x hx' f hf fs' b' r' st' hs' hu' hin' => by
          subst hf
          obtain ⟨f', hf', hr'⟩ := hrec t' wire ee x Flags.clear fs' b' r' st' (hall x hx') (hrel x hx')
            (FlagsFit.clear wire ee) hs' hu' hin'
          refine ⟨f', by rcases hf' with h | h <;> exact h, ?_⟩
          unfold genericElem
          rw [addCost_unmetered_ok st' hu']
          exact hr')
        Flags.clear rfl fs bss r (inp st (bss.flatten ++ r)) hm hu2 (inp_input st _)
      rw [hvis _ _ _ _ _ hr, inp_inp]
      exact ⟨Flags.clear, rfl, rfl⟩

/-- the components of a tuple come back -/
theorem tupleLoop_ser (env : Env) (renv : REnv) (k : Nat) (rec : RTy → Flags → Ty → Ty → St → NR)
    (hrec : RoundAt env renv k rec) : ∀ (ts : List RTy) (es : List (Label × Ty)) (vfs : List (Label × Val)) (i : Nat)
      (fs : Nat) (bss : List Bytes) (r : Bytes) (st : St),
    ts.length = es.length → vfs.length = es.length → fieldLabels vfs = es.map (·.1) →
    (∀ p ∈ ts.zip (es.zip vfs), wt env renv k p.1 p.2.1.2 p.2.2.2 = true) →
    mapOutcomes (fun (p : Label × Val) => serVal fs p.2) vfs = .ok bss → Unmetered st → st.input = bss.flatten ++ r →
    tupleLoop rec ts es es i Flags.clear st = .ok (vfs, [], Flags.clear) (inp st r) := by
  intro ts
  induction ts with
  | nil =>
    intro es vfs i fs bss r st h1 h2 _ _ hm hu hin
    have he : es = [] := by cases es with | nil => rfl | cons _ _ => simp at h1
    subst he
    have hv : vfs = [] := by cases vfs with | nil => rfl | cons _ _ => simp at h2
    subst hv
    simp only [mapOutcomes, Outcome.ok.injEq] at hm
    subst hm
    simp only [List.flatten_nil, List.nil_append] at hin
    simp only [tupleLoop]
    rw [← hin, inp_self]
  | cons t ts ih =>
    intro es vfs i fs bss r st h1 h2 hl hall hm hu hin
    cases es with
    | nil => simp at h1
    | cons ep es' =>
      cases vfs with
      | nil => simp at h2
      | cons vp vfs' =>
        obtain ⟨l, et⟩ := ep
        obtain ⟨lv, v0⟩ := vp
        simp only [fieldLabels, List.map_cons, List.cons.injEq] at hl
        obtain ⟨hlv, hl'⟩ := hl
        subst hlv
        obtain ⟨b0, bss', hb0, hbs, hbb⟩ := mapOutcomes_cons_ok _ (lv, v0) vfs' bss hm
        subst hbb
        simp only [List.flatten_cons, List.append_assoc] at hin
        have hw0 : wt env renv k t et v0 = true := hall (t, ((lv, et), (lv, v0))) (by simp)
        unfold tupleLoop
        rw [addCost_unmetered_ok st hu]
        simp only [R.bind, List.isEmpty_cons, Bool.false_eq_true, false_and, if_false, List.tail_cons]
        obtain ⟨fl1, hfl1, hr⟩ := hrec t et et v0 Flags.clear fs b0 (bss'.flatten ++ r) st hw0 (Rel.refl env et)
          (FlagsFit.clear et et) hb0 hu hin
        have hfl1' : fl1 = Flags.clear := by rcases hfl1 with h | h <;> exact h
        subst hfl1'
        rw [hr]
        simp only [R.bind]
        rw [ih es' vfs' (i + 1) fs bss' r (inp st (bss'.flatten ++ r)) (by simpa using h1) (by simpa using h2) hl'
          (fun p hp => hall p (by simp [hp])) hbs (inp_unmetered st _ hu) (inp_input st _)]
        simp only [R.map, R.bind, inp_inp]

theorem positional_self (efs : List (Label × Ty)) (h : isTupleFields efs = true) : positional efs.length efs = true := by
  unfold positional
  rw [List.take_length]
  exact h

theorem mergeFields_same : ∀ (n : Nat) (fs : List (Label × Ty)), fs.length < n →
    mergeFields n fs fs = fs.map fun p => FieldStep.both p.1 p.2 p.2 := by
  intro n
  induction n with
  | zero => intro fs h; omega
  | succ n ih =>
    intro fs h
    cases fs with
    | nil => rfl
    | cons p fs =>
      obtain ⟨l, t⟩ := p
      simp only [mergeFields, if_true, List.map_cons]
      rw [ih fs (by simp at h; omega)]

/-- the fields of a struct come back -/
theorem structLoop_ser (mk : String → NR) (env : Env) (renv : REnv) (k : Nat) (rec : RTy → Flags → Ty → Ty → St → NR)
    (hrec : RoundAt env renv k rec) (ign : Ty → St → R Val) (sfs : RFields) :
    ∀ (es : List (Label × Ty)) (vfs : List (Label × Val)) (acc : List (Label × Val)) (fs : Nat) (bss : List Bytes)
      (r : Bytes) (st : St),
    fieldLabels vfs = es.map (·.1) →
    (∀ p ∈ es.zip vfs, (match sfs.select p.1.1 with
        | some (_, t') => wt env renv k t' p.1.2 p.2.2
        | none => false) = true) →
    mapOutcomes (fun (p : Label × Val) => serVal fs p.2) vfs = .ok bss → Unmetered st → st.input = bss.flatten ++ r →
    structLoop mk env k rec ign sfs (es.map fun p => FieldStep.both p.1 p.2 p.2) Flags.clear st acc =
      .ok (.record (acc.reverse ++ vfs), Flags.clear) (inp st r) := by
  intro es
  induction es with
  | nil =>
    intro vfs acc fs bss r st hl _ hm hu hin
    have hv : vfs = [] := by cases vfs with | nil => rfl | cons _ _ => simp [fieldLabels] at hl
    subst hv
    simp only [mapOutcomes, Outcome.ok.injEq] at hm
    subst hm
    simp only [List.flatten_nil, List.nil_append] at hin
    simp only [List.map_nil, structLoop]
    rw [addCost_unmetered_ok st hu]
    simp only [R.map, R.bind, List.append_nil]
    rw [← hin, inp_self]
  | cons ep es' ih =>
    intro vfs acc fs bss r st hl hall hm hu hin
    obtain ⟨l, et⟩ := ep
    cases vfs with
    | nil => simp [fieldLabels] at hl
    | cons vp vfs' =>
      obtain ⟨lv, v0⟩ := vp
      simp only [fieldLabels, List.map_cons, List.cons.injEq] at hl
      obtain ⟨hlv, hl'⟩ := hl
      subst hlv
      obtain ⟨b0, bss', hb0, hbs, hbb⟩ := mapOutcomes_cons_ok _ (lv, v0) vfs' bss hm
      subst hbb
      simp only [List.flatten_cons, List.append_assoc] at hin
      have h0 := hall ((lv, et), (lv, v0)) (by simp)
      simp only [] at h0
      cases hsel : sfs.select lv with
      | none => rw [hsel] at h0; exact Bool.noConfusion h0
      | some q =>
        obtain ⟨kd, t⟩ := q
        rw [hsel] at h0
        simp only [] at h0
        obtain ⟨fl1, hfl1, hr⟩ := hrec t et et v0 Flags.clear fs b0 (bss'.flatten ++ r) st h0 (Rel.refl env et)
          (FlagsFit.clear et et) hb0 hu hin
        have hfl1' : fl1 = Flags.clear := by rcases hfl1 with h | h <;> exact h
        subst hfl1'
        simp only [List.map_cons]
        unfold structLoop
        simp only [addCost_unmetered_ok st hu, R.bind, hsel, hr, R.map]
        rw [ih vfs' ((lv, v0) :: acc) fs bss' r (inp st (bss'.flatten ++ r)) hl' (fun p hp => hall p (by simp [hp])) hbs
          (inp_unmetered st _ hu) (inp_input st _)]
        simp only [List.reverse_cons, List.append_assoc, List.singleton_append, inp_inp]

/-- the entries of a map come back -/
theorem mapLoop_ser (mk : String → NR) (env : Env) (renv : REnv) (k : Nat) (rec : RTy → Flags → Ty → Ty → St → NR)
    (hrec : RoundAt env renv k rec) (ign : Ty → St → R Val) (kt vt : RTy) (l0 l1 : Label) (ek ev : Ty) (keyFast : Bool)
    (valFast : Option Big)
    (hkf : keyFast = true → ek = .prim .text) (hvf : valFast = bigOf ev ev) :
    ∀ (es : List Val) (fs : Nat) (bss : List Bytes) (r : Bytes) (st : St),
    (∀ en ∈ es, ∃ kv vv, en = .record [(l0, kv), (l1, vv)] ∧ wt env renv k kt ek kv = true ∧ wt env renv k vt ev vv = true) →
    mapOutcomes (serVal fs) es = .ok bss → Unmetered st → st.input = bss.flatten ++ r →
    mapLoop mk rec ign kt vt l0 l1 ek ev ek ev [] keyFast valFast es.length st = .ok es (inp st r) := by
  have hfk : FlagsFit ⟨none, keyFast⟩ ek ek := by
    refine ⟨by simp, by simp, by simp, ?_⟩
    intro h; exact ⟨hkf h, hkf h⟩
  have hfv : FlagsFit ⟨valFast, false⟩ ev ev := by
    cases hb : valFast with
    | none => exact FlagsFit.clear ev ev
    | some bg => exact fits_big bg ev ev (by rw [← hvf, hb])
  intro es
  induction es with
  | nil =>
    intro fs bss r st _ hm hu hin
    simp only [mapOutcomes, Outcome.ok.injEq] at hm
    subst hm
    simp only [List.flatten_nil, List.nil_append] at hin
    simp only [List.length_nil, mapLoop]
    rw [addCost_unmetered_ok st hu]
    simp only [R.map, R.bind]
    rw [← hin, inp_self]
  | cons en es ih =>
    intro fs bss r st hall hm hu hin
    obtain ⟨kv, vv, hen, hwk, hwv⟩ := hall en (by simp)
    subst hen
    obtain ⟨b0, bss', hb0, hbs, hbb⟩ := mapOutcomes_cons_ok _ _ es bss hm
    subst hbb
    cases fs with
    | zero => simp [serVal] at hb0
    | succ fs =>
      simp only [serVal] at hb0
      obtain ⟨bl, hbl, hbb⟩ := omap_ok' _ _ _ hb0
      subst hbb
      obtain ⟨bk, bl1, hbk, hbl1, h3⟩ := mapOutcomes_cons_ok _ _ _ bl hbl
      subst h3
      obtain ⟨bv, bl2, hbv, hbl2, h4⟩ := mapOutcomes_cons_ok _ _ _ bl1 hbl1
      subst h4
      simp only [mapOutcomes, Outcome.ok.injEq] at hbl2
      subst hbl2
      simp only [List.flatten_cons, List.flatten_nil, List.append_nil, List.append_assoc] at hin
      simp only [] at hbk hbv
      simp only [List.length_cons, mapLoop]
      rw [addCost_unmetered_ok st hu]
      simp only [R.bind]
      have h2 : (if (keyFast || valFast.isSome) = true then R.ok () st else addCost st 4) = R.ok () st := by
        split
        · rfl
        · exact addCost_unmetered_ok st hu 4
      rw [h2]
      simp only [R.bind]
      obtain ⟨fl1, _, hr1⟩ := hrec kt ek ek kv ⟨none, keyFast⟩ fs bk (bv ++ (bss'.flatten ++ r)) st hwk (Rel.refl env ek) hfk hbk hu hin
      rw [hr1]
      simp only [R.bind]
      have hu3 : Unmetered (inp st (bv ++ (bss'.flatten ++ r))) := inp_unmetered st _ hu
      have h4 : (if (keyFast || valFast.isSome) = true then R.ok () (inp st (bv ++ (bss'.flatten ++ r)))
          else addCost (inp st (bv ++ (bss'.flatten ++ r))) 3) = R.ok () (inp st (bv ++ (bss'.flatten ++ r))) := by
        split
        · rfl
        · exact addCost_unmetered_ok _ hu3 3
      rw [h4]
      simp only [R.bind]
      obtain ⟨fl2, hfl2, hr2⟩ := hrec vt ev ev vv ⟨valFast, false⟩ fs bv (bss'.flatten ++ r) (inp st (bv ++ (bss'.flatten ++ r)))
        hwv (Rel.refl env ev) hfv hbv hu3 (inp_input st _)
      rw [hr2]
      simp only [R.bind, inp_inp]
      have hcl : ({ fl2 with big := none } : Flags) = Flags.clear := by
        rcases hfl2 with h | h <;> subst h <;> rfl
      rw [hcl]
      simp only [skipTys, R.bind]
      rw [ih (fs + 1) bss' r (inp st (bss'.flatten ++ r)) (fun x hx => hall x (by simp [hx])) hbs (inp_unmetered st _ hu)
        (inp_input st _)]
      simp only [R.map, R.bind, inp_inp]

theorem elemsOf_ser (v : Val) (vs : List Val) (h : elemsOf v = some vs) (fs : Nat) (b : Bytes) (hs : serVal fs v = .ok b) :
    ∃ fs' bss, mapOutcomes (serVal fs') vs = .ok bss ∧ b = uleb vs.length ++ bss.flatten := by
  cases v <;> simp only [elemsOf, Option.some.injEq] at h <;> try (exact absurd h (by simp))
  · -- blob
    rename_i bb
    subst h
    cases fs with
    | zero => simp [serVal] at hs
    | succ fs =>
      simp only [serVal, Outcome.ok.injEq] at hs
      subst hs
      exact ⟨1, bb.map fun x => [x], blob_ser bb, by rw [singletons_flatten]; simp⟩
  · -- vec
    subst h
    cases fs with
    | zero => simp [serVal] at hs
    | succ fs =>
      simp only [serVal] at hs
      obtain ⟨bss, hbss, hbb⟩ := omap_ok' _ _ _ hs
      exact ⟨fs, bss, hbss, hbb.symm⟩

/-! ### references: the check of a type against itself, and the reference's bytes -/

/-- `check_subtype` of a type against itself on the native path: the checker's first test, the memo is left as it was -/
theorem nCheckSubtype_refl (env : Env) (tl : Nat) (t : Ty) (s : St) (hu : Unmetered s) :
    nCheckSubtype env tl t t s = .ok () s := by
  unfold nCheckSubtype
  rw [addCost_unmetered_ok s hu]
  simp only [R.bind]
  have : Sub.subAlg env Sub.defaultFuel s.gamma t t = .yes s.gamma := by
    unfold Sub.defaultFuel
    rw [show (4000 : Nat) = 3999 + 1 from rfl]
    simp [Sub.subAlg]
  rw [this]

/-- a function reference as the writer produces it is read by `deserialize_function` -/
theorem deFuncCase_ser (a b : Tys) (c : List FuncMode) (s : St) (pid : Bytes) (m : String) (r : Bytes)
    (hp : pid.length ≤ 29) (hm : (strBytes m).length < 2 ^ 63) (hu : Unmetered s)
    (hin : s.input = 1 :: (serPrincipal pid ++ serText m) ++ r) :
    deFuncCase (.func a b c) s = .ok (.func pid m) (inp s r) := by
  unfold deFuncCase
  simp only []
  rw [hin]
  simp only [List.cons_append, show ((1 : UInt8) = 0) = False from by decide, if_false, ne_eq, not_true_eq_false]
  have h1 : readPrincipal (serPrincipal pid ++ (serText m ++ r)) = .ok (pid, serText m ++ r) := readPrincipal_ser pid _ hp
  rw [List.append_assoc]
  rw [rd_ok readPrincipal { s with input := serPrincipal pid ++ (serText m ++ r) } pid (serText m ++ r) h1]
  simp only [R.bind]
  have h2 : readLenDe (serText m ++ r) = .ok ((strBytes m).length, strBytes m ++ r) := by
    simp only [serText, List.append_assoc]
    exact readLenDe_uleb _ _ hm
  rw [rd_ok readLenDe _ (strBytes m).length (strBytes m ++ r) (by rw [inp_input]; exact h2)]
  simp only [R.bind]
  rw [rd_ok (takeN (strBytes m).length) _ (strBytes m) r (by rw [inp_input]; exact takeN_append _ _)]
  simp only [R.bind]
  rw [addCost_unmetered_ok _ (by exact hu)]
  simp only [R.bind, utf8_strBytes]
  rfl

/-- a sequence value comes back through any visitor that takes all its elements -/
theorem seqBody_round (env : Env) (renv : REnv) (k : Nat) (rec : RTy → Flags → Ty → Ty → St → NR)
    (hrec : RoundAt env renv k rec) (vis : SeqVisitor) (extra : List Val → Bool)
    (hvis : ∀ vs, extra vs = true → ∀ (f : Flags → St → NR) (fl : Flags) (s0 : St) (res : Flags) (s' : St),
      iterF f vs.length fl s0 = .ok (vs, res) s' → runSeq vis f vs.length fl s0 = .ok (vs, res) s')
    (t' : RTy) (ee : Ty) (v : Val) (fs : Nat) (b r : Bytes) (st : St)
    (hcl : seqClause (wt env renv k) env renv k t' ee v extra = true) (hs : serVal fs v = .ok b)
    (hu : Unmetered st) (hin : st.input = b ++ r) :
    (nVecCase env renv k rec vis t' Flags.clear ee ee st).map
        (fun (q : List Val × Flags) => (seqVal (isByte renv (resolveDepth renv) t') q.1, q.2)) =
      .ok (v, Flags.clear) (inp st r) := by
  unfold seqClause at hcl
  cases htr : env.trace k ee with
  | none => simp [htr] at hcl
  | some wire =>
    rw [htr] at hcl
    simp only [Bool.and_eq_true] at hcl
    obtain ⟨⟨hacc0, hshape⟩, hel⟩ := hcl
    have hacc : ∀ p, exactPrim ee wire = some p → acceptsPrimitive renv (resolveDepth renv) t' p = some true := by
      intro p hp
      rw [hp] at hacc0
      simpa using hacc0
    cases hev : elemsOf v with
    | none => rw [hev] at hel; exact Bool.noConfusion hel
    | some vs =>
      rw [hev] at hel
      simp only [Bool.and_eq_true, decide_eq_true_eq, List.all_eq_true] at hel
      obtain ⟨⟨hlen, hall⟩, hext⟩ := hel
      obtain ⟨fs', bss, hbss, hbb⟩ := elemsOf_ser v vs hev fs b hs
      subst hbb
      obtain ⟨fl', hfl', hr⟩ := nVecCase_ser env renv k rec hrec vis t' ee wire vs fs' bss r st (hvis vs hext) htr hacc hlen
        hall hbss hu hin
      subst hfl'
      rw [hr]
      simp only [R.map, R.bind]
      -- the value the elements denote
      cases v <;> simp only [elemsOf, Option.some.injEq] at hev <;> try (exact absurd hev (by simp))
      · rename_i bb
        subst hev
        cases hby : isByte renv (resolveDepth renv) t' with
        | true => simp only [seqVal, if_true, bytes_as_vals]
        | false => rw [hby] at hshape; exact Bool.noConfusion hshape
      · subst hev
        cases hby : isByte renv (resolveDepth renv) t' with
        | true => rw [hby] at hshape; exact Bool.noConfusion hshape
        | false => simp only [seqVal, Bool.false_eq_true, if_false]

theorem visits_all (vs : List Val) (f : Flags → St → NR) (fl : Flags) (s0 : St) (res : Flags) (s' : St)
    (h : iterF f vs.length fl s0 = .ok (vs, res) s') : runSeq .all f vs.length fl s0 = .ok (vs, res) s' := h

theorem visits_exactly (n : Nat) (vs : List Val) (hn : vs.length = n) (f : Flags → St → NR) (fl : Flags) (s0 : St)
    (res : Flags) (s' : St) (h : iterF f vs.length fl s0 = .ok (vs, res) s') :
    runSeq (.exactly n) f vs.length fl s0 = .ok (vs, res) s' := by
  subst hn
  simp only [runSeq, Nat.min_self, h, R.bind, Nat.lt_irrefl, if_false]

theorem visits_bounded (a b c : Nat) (vs : List Val) (hw : withinB a b c vs = true) (f : Flags → St → NR) (fl : Flags)
    (s0 : St) (res : Flags) (s' : St) (h : iterF f vs.length fl s0 = .ok (vs, res) s') :
    runSeq (.bounded a b c) f vs.length fl s0 = .ok (vs, res) s' := by
  simp only [runSeq]
  rw [iterB_ok_iff]
  refine ⟨h, (within_iff a b c vs 0 0).mpr (Or.inl ?_)⟩
  simp only [withinB, Bool.and_eq_true, decide_eq_true_eq, List.all_eq_true] at hw
  exact ⟨by omega, hw.1.2, by omega⟩

theorem deNBody_round (mk : String → NR) (env : Env) (tl : Nat) (renv : REnv) (k : Nat)
    (rec : RTy → Flags → Ty → Ty → St → NR) (hrec : RoundAt env renv k rec)
    (t : RTy) (w e : Ty) (v : Val) (fl : Flags) (fs : Nat) (b r : Bytes) (st : St)
    (hwt : wt env renv (k + 1) t e v = true) (hrel : Rel env w e) (hf : FlagsFit fl w e) (hs : serVal fs v = .ok b)
    (hu : Unmetered st) (hin : st.input = b ++ r) :
    ∃ fl', (fl' = fl ∨ fl' = Flags.clear) ∧
      deNBody mk env tl renv k rec (deIgnored env k) t fl w e st = .ok (v, fl') (inp st r) := by
  cases t with
  | newtype t' =>
    simp only [wt] at hwt
    unfold deNBody
    simp only []
    rw [addCost_unmetered_ok st hu]
    simp only [R.bind]
    exact hrec t' w e v fl fs b r st hwt hrel hf hs hu hin
  | ref x =>
    simp only [wt] at hwt
    unfold deNBody
    cases hfind : renv.find x with
    | none => simp [hfind] at hwt
    | some t' =>
      rw [hfind] at hwt
      simp only [hfind]
      exact hrec t' w e v fl fs b r st hwt hrel hf hs hu hin
  | prim p =>
    simp only [wt] at hwt
    cases ht : traceAt env k e with
    | none => simp [ht] at hwt
    | some e' =>
      rw [ht] at hwt
      cases e' with
      | prim q =>
        simp only [Bool.and_eq_true, decide_eq_true_eq] at hwt
        obtain ⟨⟨hpq, hd⟩, hc⟩ := hwt
        subst hpq
        have hw := rel_traceAt env k w e _ hrel ht
        unfold deNBody
        cases p <;> simp [directPrim] at hd <;> simp only [] <;>
          first
          | exact ⟨fl, Or.inl rfl, nPrim_ser env k _ _ fl w e st v fs b r hw ht hc hs hu hin⟩
          | exact ⟨fl, Or.inl rfl, nText_ser env k fl w e st v fs b r hw ht hc hs hu hin⟩
      | _ => simp at hwt
  | nat =>
    simp only [wt] at hwt
    cases ht : traceAt env k e with
    | none => simp [ht] at hwt
    | some e' =>
      rw [ht] at hwt
      have he' : e' = .prim .nat := by
        cases e' with
        | prim q => cases q <;> first | rfl | simp at hwt
        | _ => simp at hwt
      subst he'
      simp only [] at hwt
      cases v <;> simp only [canonPrim] at hwt <;> try (exact Bool.noConfusion hwt)
      rename_i n
      cases fs with
      | zero => simp [serVal] at hs
      | succ fs =>
        simp only [serVal, Outcome.ok.injEq] at hs
        subst hs
        have hread : bigNum (natFast Val.nat) st = .ok (.nat n) (inp st r) :=
          bigNum_ok _ st hu _ r (by rw [hin]; exact natFast_ser Val.nat n r)
        unfold deNBody
        simp only [nNat]
        cases hb : fl.big with
        | some bg =>
          cases bg with
          | nat => simp only [withFlags, hread, R.map, R.bind]; exact ⟨fl, Or.inl rfl, rfl⟩
          | int =>
            have := (hf.2.1 hb).1
            subst this
            simp [traceAt, Sub.isName] at ht
          | natAsInt =>
            have := (hf.2.2.1 hb).1
            subst this
            simp [traceAt, Sub.isName] at ht
        | none =>
          simp only []
          rw [unroll_same env k w e _ st hu (rel_traceAt env k w e _ hrel ht) ht]
          simp only [R.bind, if_true, withFlags, hread, R.map]
          exact ⟨fl, Or.inl rfl, rfl⟩
  | int =>
    simp only [wt] at hwt
    cases ht : traceAt env k e with
    | none => simp [ht] at hwt
    | some e' =>
      rw [ht] at hwt
      have he' : e' = .prim .int := by
        cases e' with
        | prim q => cases q <;> first | rfl | simp at hwt
        | _ => simp at hwt
      subst he'
      simp only [] at hwt
      cases v <;> simp only [canonPrim] at hwt <;> try (exact Bool.noConfusion hwt)
      rename_i i
      cases fs with
      | zero => simp [serVal] at hs
      | succ fs =>
        simp only [serVal, Outcome.ok.injEq] at hs
        subst hs
        have hread : bigNum intFast st = .ok (.int i) (inp st r) :=
          bigNum_ok _ st hu _ r (by rw [hin]; exact intFast_ser i r)
        have hw := rel_traceAt env k w e _ hrel ht
        unfold deNBody
        simp only [nInt]
        cases hb : fl.big with
        | some bg =>
          cases bg with
          | nat =>
            have := (hf.1 hb).1
            subst this
            simp [traceAt, Sub.isName] at ht
          | int =>
            have hwl := (hf.2.1 hb).2
            subst hwl
            simp only [withFlags, hread, R.map, R.bind]
            exact ⟨fl, Or.inl rfl, rfl⟩
          | natAsInt =>
            -- the wire type would be `nat` while the expected type is `int`: not when wire and expected type are related
            have h1 := (hf.2.2.1 hb).1
            have h2 := (hf.2.2.1 hb).2
            subst h1 h2
            simp [traceAt, Sub.isName] at hw
        | none =>
          simp only []
          rw [unroll_same env k w e _ st hu hw ht]
          simp only [R.bind, if_true, withFlags, hread, R.map]
          exact ⟨fl, Or.inl rfl, rfl⟩
  | principal =>
    simp only [wt] at hwt
    cases ht : traceAt env k e with
    | none => simp [ht] at hwt
    | some e' =>
      rw [ht] at hwt
      cases e' with
      | principal =>
        simp only [] at hwt
        cases v <;> try (exact Bool.noConfusion hwt)
        rename_i pb
        simp only [decide_eq_true_eq] at hwt
        cases fs with
        | zero => simp [serVal] at hs
        | succ fs =>
          simp only [serVal, Outcome.ok.injEq] at hs
          subst hs
          unfold deNBody
          simp only [nPrincipal]
          rw [unroll_same env k w e _ st hu (rel_traceAt env k w e _ hrel ht) ht]
          simp only [R.bind, dePrincipalBytes]
          rw [rd_ok readPrincipal st pb r (by rw [hin]; exact readPrincipal_ser pb r hwt)]
          simp only [R.bind]
          rw [addCost_unmetered_ok _ (inp_unmetered st r hu)]
          exact ⟨fl, Or.inl rfl, rfl⟩
      | _ => simp at hwt
  | reserved =>
    simp only [wt] at hwt
    cases ht : traceAt env k e with
    | none => simp [ht] at hwt
    | some e' =>
      rw [ht] at hwt
      have he' : e' = .prim .reserved := by
        cases e' with
        | prim q => cases q <;> first | rfl | simp at hwt
        | _ => simp at hwt
      subst he'
      simp only [Bool.and_eq_true, decide_eq_true_eq] at hwt
      obtain ⟨⟨he, hk⟩, hv⟩ := hwt
      subst he
      cases v <;> try (exact Bool.noConfusion hv)
      cases fs with
      | zero => simp [serVal] at hs
      | succ fs =>
        simp only [serVal, Outcome.ok.injEq] at hs
        subst hs
        have hcl : fl = Flags.clear := flags_clear_at env k fl w _ _ hf ht (by simp) (by simp) (by simp)
        subst hcl
        have hw : w = .prim .reserved := by
          have := rel_traceAt env k w _ _ hrel ht
          rcases hrel with h | ⟨_, h⟩
          · exact h
          · rw [traceFull_prim] at h; simp only [Option.some.injEq] at h; exact h.symm
        subst hw
        unfold deNBody
        simp only [ignF_clear]
        obtain ⟨k', hk'⟩ : ∃ k', k = k' + 2 := ⟨k - 2, by omega⟩
        subst hk'
        rw [deIgnored_reserved env k' st hu]
        simp only [List.nil_append] at hin
        refine ⟨Flags.clear, Or.inl rfl, ?_⟩
        simp only [R.map, R.bind]
        rw [← hin, inp_self]
  | byteBuf =>
    simp only [wt] at hwt
    cases ht : traceAt env k e with
    | none => simp [ht] at hwt
    | some e' =>
      rw [ht] at hwt
      cases e' with
      | vec ee =>
        simp only [Bool.and_eq_true] at hwt
        obtain ⟨hblob, hv⟩ := hwt
        cases v <;> try (exact Bool.noConfusion hv)
        rename_i bb
        simp only [decide_eq_true_eq] at hv
        cases fs with
        | zero => simp [serVal] at hs
        | succ fs =>
          simp only [serVal, Outcome.ok.injEq] at hs
          subst hs
          unfold deNBody
          simp only [nByteBuf]
          rw [unroll_same env k w e _ st hu (rel_traceAt env k w e _ hrel ht) ht]
          simp only [R.bind, hblob, if_true, deBlobCase]
          rw [lenBytes_ser st hu bb r (by omega) (by rw [hin])]
          exact ⟨fl, Or.inl rfl, rfl⟩
      | _ => simp at hwt
  | opt t' =>
    simp only [wt] at hwt
    cases ht : traceAt env k e with
    | none => simp [ht] at hwt
    | some e' =>
      rw [ht] at hwt
      cases e' with
      | opt e2 =>
        simp only [] at hwt
        have hcl : fl = Flags.clear := flags_clear_at env k fl w e _ hf ht (by simp) (by simp) (by simp)
        subst hcl
        unfold deNBody
        simp only []
        rw [unroll_same env k w e _ st hu (rel_traceAt env k w e _ hrel ht) ht]
        simp only [R.bind, nOptCase]
        rw [addCost_unmetered_ok st hu]
        simp only [R.bind]
        cases v <;> try (exact Bool.noConfusion hwt)
        · -- none
          cases fs with
          | zero => simp [serVal] at hs
          | succ fs =>
            simp only [serVal, Outcome.ok.injEq] at hs
            subst hs
            simp only [List.cons_append, List.nil_append] at hin
            rw [hin]
            simp only [if_true]
            exact ⟨Flags.clear, Or.inl rfl, rfl⟩
        · -- some
          rename_i v'
          cases fs with
          | zero => simp [serVal] at hs
          | succ fs =>
            simp only [serVal] at hs
            obtain ⟨b', hb', hbb⟩ := omap_ok' _ _ _ hs
            subst hbb
            simp only [List.cons_append] at hin
            rw [hin]
            simp only [show ((1 : UInt8) = 0) = False from by decide, if_false, if_true]
            obtain ⟨fl', hfl', hr⟩ := hrec t' e2 e2 v' Flags.clear fs b' r { st with input := b' ++ r } hwt
              (Rel.refl env e2) (FlagsFit.clear e2 e2) hb' hu rfl
            unfold nRecoverable
            rw [hr]
            exact ⟨fl', hfl', rfl⟩
      | _ => simp at hwt
  | seq t' =>
    simp only [wt] at hwt
    cases ht : traceAt env k e with
    | none => simp [ht] at hwt
    | some e' =>
      rw [ht] at hwt
      cases e' with
      | vec ee =>
        simp only [] at hwt
        have hcl : fl = Flags.clear := flags_clear_at env k fl w e _ hf ht (by simp) (by simp) (by simp)
        subst hcl
        unfold deNBody
        simp only [Bool.false_eq_true, if_false, R.bind]
        rw [unroll_same env k w e _ st hu (rel_traceAt env k w e _ hrel ht) ht]
        simp only [R.bind]
        rw [addCost_unmetered_ok st hu]
        simp only [R.bind]
        exact ⟨Flags.clear, Or.inl rfl, seqBody_round env renv k rec hrec .all _ (fun vs _ => visits_all vs) t' ee v fs b r st
          hwt hs hu hin⟩
      | _ => simp at hwt
  | array n t' =>
    simp only [wt] at hwt
    cases ht : traceAt env k e with
    | none => simp [ht] at hwt
    | some e' =>
      rw [ht] at hwt
      cases e' with
      | vec ee =>
        simp only [] at hwt
        have hcl : fl = Flags.clear := flags_clear_at env k fl w e _ hf ht (by simp) (by simp) (by simp)
        subst hcl
        unfold deNBody
        simp only [if_true, R.bind]
        rw [addCost_unmetered_ok st hu]
        simp only [R.bind]
        rw [unroll_same env k w e _ st hu (rel_traceAt env k w e _ hrel ht) ht]
        simp only [R.bind]
        rw [addCost_unmetered_ok st hu]
        simp only [R.bind]
        exact ⟨Flags.clear, Or.inl rfl, seqBody_round env renv k rec hrec (.exactly n) _
          (fun vs hx => visits_exactly n vs (by simpa using hx)) t' ee v fs b r st hwt hs hu hin⟩
      | _ => simp at hwt
  | bounded a b' c t' =>
    simp only [wt] at hwt
    cases ht : traceAt env k e with
    | none => simp [ht] at hwt
    | some e' =>
      rw [ht] at hwt
      cases e' with
      | vec ee =>
        simp only [] at hwt
        have hcl : fl = Flags.clear := flags_clear_at env k fl w e _ hf ht (by simp) (by simp) (by simp)
        subst hcl
        unfold deNBody
        simp only [Bool.false_eq_true, if_false, R.bind]
        rw [unroll_same env k w e _ st hu (rel_traceAt env k w e _ hrel ht) ht]
        simp only [R.bind]
        rw [addCost_unmetered_ok st hu]
        simp only [R.bind]
        exact ⟨Flags.clear, Or.inl rfl, seqBody_round env renv k rec hrec (.bounded a b' c) _
          (fun vs hx => visits_bounded a b' c vs hx) t' ee v fs b r st hwt hs hu hin⟩
      | _ => simp at hwt
  | tuple ts =>
    simp only [wt] at hwt
    cases ht : traceAt env k e with
    | none => simp [ht] at hwt
    | some e' =>
      rw [ht] at hwt
      cases e' with
      | record efs =>
        simp only [Bool.and_eq_true] at hwt
        obtain ⟨htup, hval⟩ := hwt
        cases v <;> try (exact Bool.noConfusion hval)
        rename_i vfs
        simp only [Bool.and_eq_true, decide_eq_true_eq, List.all_eq_true] at hval
        obtain ⟨⟨⟨hlab, hlen1⟩, hlen2⟩, hall⟩ := hval
        have hcl : fl = Flags.clear := flags_clear_at env k fl w e _ hf ht (by simp) (by simp) (by simp)
        subst hcl
        cases fs with
        | zero => simp [serVal] at hs
        | succ fs =>
          simp only [serVal] at hs
          obtain ⟨bss, hbss, hbb⟩ := omap_ok' _ _ _ hs
          subst hbb
          unfold deNBody
          simp only []
          rw [addCost_unmetered_ok st hu]
          simp only [R.bind]
          rw [unroll_same env k w e _ st hu (rel_traceAt env k w e _ hrel ht) ht]
          simp only [R.bind]
          rw [addCost_unmetered_ok st hu]
          simp only [R.bind, nTupleCase, htup, positional_self efs.toList htup, Bool.not_true, Bool.false_eq_true, if_false]
          rw [tupleLoop_ser env renv k rec hrec ts.toList efs.toList vfs 0 fs bss r st hlen1 hlen2
            hlab hall hbss hu hin]
          simp only [R.bind, skipFields, R.map]
          exact ⟨Flags.clear, Or.inl rfl, rfl⟩
      | _ => simp at hwt
  | strct sfs =>
    simp only [wt] at hwt
    cases ht : traceAt env k e with
    | none => simp [ht] at hwt
    | some e' =>
      rw [ht] at hwt
      cases e' with
      | record efs =>
        simp only [Bool.and_eq_true] at hwt
        obtain ⟨_, hval⟩ := hwt
        cases v <;> try (exact Bool.noConfusion hval)
        rename_i vfs
        simp only [Bool.and_eq_true, decide_eq_true_eq, List.all_eq_true] at hval
        obtain ⟨hlab, hall⟩ := hval
        have hcl : fl = Flags.clear := flags_clear_at env k fl w e _ hf ht (by simp) (by simp) (by simp)
        subst hcl
        cases fs with
        | zero => simp [serVal] at hs
        | succ fs =>
          simp only [serVal] at hs
          obtain ⟨bss, hbss, hbb⟩ := omap_ok' _ _ _ hs
          subst hbb
          unfold deNBody
          simp only []
          rw [unroll_same env k w e _ st hu (rel_traceAt env k w e _ hrel ht) ht]
          simp only [R.bind]
          rw [addCost_unmetered_ok st hu]
          simp only [R.bind]
          rw [mergeFields_same _ efs.toList (by omega)]
          rw [structLoop_ser mk env renv k rec hrec (deIgnored env k) sfs efs.toList vfs [] fs bss r st hlab hall hbss hu hin]
          exact ⟨Flags.clear, Or.inl rfl, rfl⟩
      | _ => simp at hwt
  | enm vs =>
    simp only [wt] at hwt
    cases ht : traceAt env k e with
    | none => simp [ht] at hwt
    | some e' =>
      rw [ht] at hwt
      cases e' with
      | variant efs =>
        simp only [] at hwt
        cases v <;> try (exact Bool.noConfusion hwt)
        rename_i l v' idx
        simp only [Bool.and_eq_true, decide_eq_true_eq] at hwt
        obtain ⟨hidx, hrest⟩ := hwt
        cases hget : efs.toList[idx]? with
        | none => rw [hget] at hrest; exact Bool.noConfusion hrest
        | some ep =>
          obtain ⟨l', et⟩ := ep
          rw [hget] at hrest
          simp only [Bool.and_eq_true, decide_eq_true_eq, beq_iff_eq] at hrest
          obtain ⟨⟨hll, hfind⟩, hsel⟩ := hrest
          subst hll
          have hcl : fl = Flags.clear := flags_clear_at env k fl w e _ hf ht (by simp) (by simp) (by simp)
          subst hcl
          cases fs with
          | zero => simp [serVal] at hs
          | succ fs =>
            simp only [serVal] at hs
            obtain ⟨b', hb', hbb⟩ := omap_ok' _ _ _ hs
            subst hbb
            unfold deNBody
            simp only []
            rw [unroll_same env k w e _ st hu (rel_traceAt env k w e _ hrel ht) ht]
            simp only [R.bind]
            rw [addCost_unmetered_ok st hu]
            simp only [R.bind, nEnumCase]
            rw [rd_ok readLebCrate st idx (b' ++ r) (by rw [hin, List.append_assoc]; exact readLebCrate_uleb _ _ hidx)]
            simp only [R.bind, inp_input, hget, hfind]
            have hu2 : Unmetered (inp st (b' ++ r)) := inp_unmetered st _ hu
            rw [addCost_unmetered_ok _ hu2]
            simp only [R.bind]
            rw [addCost_unmetered_ok _ hu2]
            simp only [R.bind]
            cases l with
            | named nm =>
              simp only [] at hsel ⊢
              cases hs2 : vs.select (.named nm) with
              | none => rw [hs2] at hsel; exact Bool.noConfusion hsel
              | some q =>
                obtain ⟨kd, t'⟩ := q
                rw [hs2] at hsel
                cases kd with
                | unit =>
                  simp only [Bool.and_eq_true, decide_eq_true_eq] at hsel
                  obtain ⟨het, hv'⟩ := hsel
                  subst het
                  cases v' <;> try (exact Bool.noConfusion hv')
                  cases fs with
                  | zero => simp [serVal] at hb'
                  | succ fs =>
                    simp only [serVal, Outcome.ok.injEq] at hb'
                    subst hb'
                    simp only [and_self, if_true]
                    rw [addCost_unmetered_ok _ hu2]
                    exact ⟨Flags.clear, Or.inl rfl, rfl⟩
                | newtype =>
                  simp only [] at hsel ⊢
                  rw [addCost_unmetered_ok _ hu2]
                  simp only [R.bind]
                  obtain ⟨fl1, _, hr⟩ := hrec t' et et v' Flags.clear fs b' r (inp st (b' ++ r)) hsel (Rel.refl env et)
                    (FlagsFit.clear et et) hb' hu2 (inp_input st _)
                  rw [hr]
                  exact ⟨Flags.clear, Or.inl rfl, rfl⟩
                | tuple =>
                  simp only [] at hsel ⊢
                  rw [addCost_unmetered_ok _ hu2]
                  simp only [R.bind]
                  obtain ⟨fl1, _, hr⟩ := hrec t' et et v' Flags.clear fs b' r (inp st (b' ++ r)) hsel (Rel.refl env et)
                    (FlagsFit.clear et et) hb' hu2 (inp_input st _)
                  rw [hr]
                  exact ⟨Flags.clear, Or.inl rfl, rfl⟩
                | strct =>
                  simp only [] at hsel ⊢
                  rw [addCost_unmetered_ok _ hu2]
                  simp only [R.bind]
                  obtain ⟨fl1, _, hr⟩ := hrec t' et et v' Flags.clear fs b' r (inp st (b' ++ r)) hsel (Rel.refl env et)
                    (FlagsFit.clear et et) hb' hu2 (inp_input st _)
                  rw [hr]
                  exact ⟨Flags.clear, Or.inl rfl, rfl⟩
            | id h => exact Bool.noConfusion hsel
            | unnamed h => exact Bool.noConfusion hsel
      | _ => simp at hwt
  | map kt vt =>
    simp only [wt] at hwt
    cases ht : traceAt env k e with
    | none => simp [ht] at hwt
    | some e' =>
      rw [ht] at hwt
      cases e' with
      | vec ee =>
        simp only [] at hwt
        cases htr : env.trace k ee with
        | none => simp [htr] at hwt
        | some ee' =>
          rw [htr] at hwt
          cases ee' with
          | record efs =>
            simp only [] at hwt
            cases hl : efs.toList with
            | nil => simp [hl] at hwt
            | cons p1 r1 =>
              cases r1 with
              | nil => simp [hl] at hwt
              | cons p2 r2 =>
                cases r2 with
                | cons p3 r3 => simp [hl] at hwt
                | nil =>
                  obtain ⟨l0, ek⟩ := p1
                  obtain ⟨l1, ev⟩ := p2
                  rw [hl] at hwt
                  simp only [Bool.and_eq_true, decide_eq_true_eq] at hwt
                  obtain ⟨⟨h0, h1⟩, hval⟩ := hwt
                  cases v <;> try (exact Bool.noConfusion hval)
                  rename_i es
                  simp only [Bool.and_eq_true, decide_eq_true_eq, List.all_eq_true] at hval
                  obtain ⟨hlen, hall⟩ := hval
                  have hcl : fl = Flags.clear := flags_clear_at env k fl w e _ hf ht (by simp) (by simp) (by simp)
                  subst hcl
                  cases fs with
                  | zero => simp [serVal] at hs
                  | succ fs =>
                    simp only [serVal] at hs
                    obtain ⟨bss, hbss, hbb⟩ := omap_ok' _ _ _ hs
                    subst hbb
                    have hentries : ∀ en ∈ es, ∃ kv vv, en = .record [(l0, kv), (l1, vv)] ∧
                        wt env renv k kt ek kv = true ∧ wt env renv k vt ev vv = true := by
                      intro en hen
                      have := hall en hen
                      cases en <;> try (exact Bool.noConfusion this)
                      rename_i fl0
                      cases fl0 with
                      | nil => exact Bool.noConfusion this
                      | cons a1 t1 =>
                        cases t1 with
                        | nil => exact Bool.noConfusion this
                        | cons a2 t2 =>
                          cases t2 with
                          | cons _ _ => exact Bool.noConfusion this
                          | nil =>
                            obtain ⟨la, kv⟩ := a1
                            obtain ⟨lb, vv⟩ := a2
                            simp only [Bool.and_eq_true, decide_eq_true_eq] at this
                            obtain ⟨⟨⟨ha, hb⟩, hk⟩, hv⟩ := this
                            subst ha hb
                            exact ⟨kv, vv, rfl, hk, hv⟩
                    unfold deNBody
                    simp only []
                    rw [unroll_same env k w e _ st hu (rel_traceAt env k w e _ hrel ht) ht]
                    simp only [R.bind]
                    rw [addCost_unmetered_ok st hu]
                    simp only [R.bind, nMapCase, htr, hl, h0, h1, and_self, if_true]
                    rw [rd_ok readLenDe st es.length (bss.flatten ++ r)
                      (by rw [hin, List.append_assoc]; exact readLenDe_uleb _ _ (by omega))]
                    simp only [R.bind]
                    have hu2 : Unmetered (inp st (bss.flatten ++ r)) := inp_unmetered st _ hu
                    have hcost : (if ((decide (ek = .prim .text) && decide (ek = .prim .text)) || (bigOf ev ev).isSome) = true then
                          (if es.length * 7 > usizeMax then R.err .limit else addCost (inp st (bss.flatten ++ r)) (es.length * 7))
                        else R.ok () (inp st (bss.flatten ++ r))) = R.ok () (inp st (bss.flatten ++ r)) := by
                      split
                      · rw [if_neg (by unfold usizeMax; omega)]
                        exact addCost_unmetered_ok _ hu2 _
                      · rfl
                    rw [hcost]
                    simp only [R.bind, List.map_nil]
                    rw [mapLoop_ser mk env renv k rec hrec (deIgnored env k) kt vt l0 l1 ek ev _ _
                      (fun h => by simp only [Bool.and_eq_true, decide_eq_true_eq] at h; exact h.1) rfl
                      es (fs) bss r (inp st (bss.flatten ++ r)) hentries hbss hu2 (inp_input st _)]
                    simp only [R.map, R.bind, inp_inp]
                    exact ⟨Flags.clear, Or.inl rfl, rfl⟩
          | _ => simp at hwt
      | _ => simp at hwt
  | u128 =>
    simp only [wt] at hwt
    cases ht : traceAt env k e with
    | none => simp [ht] at hwt
    | some e' =>
      rw [ht] at hwt
      have he' : e' = .prim .nat := by
        cases e' with
        | prim q => cases q <;> first | rfl | simp at hwt
        | _ => simp at hwt
      subst he'
      simp only [] at hwt
      cases v <;> try (exact Bool.noConfusion hwt)
      rename_i n
      simp only [decide_eq_true_eq] at hwt
      cases fs with
      | zero => simp [serVal] at hs
      | succ fs =>
        simp only [serVal, Outcome.ok.injEq] at hs
        subst hs
        unfold deNBody
        simp only [nU128]
        rw [unroll_same env k w e _ st hu (rel_traceAt env k w e _ hrel ht) ht]
        simp only [R.bind, and_self, if_true]
        rw [addCost_unmetered_ok st hu]
        simp only [R.bind]
        have hdec : nat128 (Impl.natEncode n ++ r) = .ok (.nat n, r) := by
          unfold nat128
          rw [natEncode_eq_uleb, decodeNat128_spec, splitLeb_append _ _ (uleb_terminated n)]
          simp only [uval_uleb, hwt, if_true]
        rw [rd_ok nat128 st (.nat n) r (by rw [hin]; exact hdec)]
        exact ⟨fl, Or.inl rfl, rfl⟩
  | i128 =>
    simp only [wt] at hwt
    cases ht : traceAt env k e with
    | none => simp [ht] at hwt
    | some e' =>
      rw [ht] at hwt
      have he' : e' = .prim .int := by
        cases e' with
        | prim q => cases q <;> first | rfl | simp at hwt
        | _ => simp at hwt
      subst he'
      simp only [] at hwt
      cases v <;> try (exact Bool.noConfusion hwt)
      rename_i i
      simp only [decide_eq_true_eq] at hwt
      cases fs with
      | zero => simp [serVal] at hs
      | succ fs =>
        simp only [serVal, Outcome.ok.injEq] at hs
        subst hs
        unfold deNBody
        simp only [nI128]
        rw [unroll_same env k w e _ st hu (rel_traceAt env k w e _ hrel ht) ht]
        simp only [R.bind, ne_eq, not_true_eq_false, if_false]
        rw [addCost_unmetered_ok st hu]
        simp only [R.bind]
        have hdec : Impl.decodeInt128 (Impl.intEncode i ++ r) = .ok (i, r) := by
          rw [intEncode_eq_sleb, decodeInt128_exact, splitLeb_append _ _ (sleb_terminated i)]
          simp only [sval_sleb, hwt, and_self, if_true]
        rw [rd_ok _ st (.int i) r (by rw [hin]; simp only [hdec])]
        exact ⟨fl, Or.inl rfl, rfl⟩
  | empty =>
    exfalso
    simp only [wt] at hwt
    cases h : traceAt env k e with
    | none => simp [h] at hwt
    | some e' => rw [h] at hwt; cases e' <;> simp at hwt
  | func =>
    simp only [wt] at hwt
    cases ht : traceAt env k e with
    | none => simp [ht] at hwt
    | some e' =>
      rw [ht] at hwt
      cases e' with
      | func a b c =>
        simp only [] at hwt
        cases v <;> try (exact Bool.noConfusion hwt)
        rename_i pid mm
        simp only [Bool.and_eq_true, decide_eq_true_eq] at hwt
        have hcl : fl = Flags.clear := flags_clear_at env k fl w e _ hf ht (by simp) (by simp) (by simp)
        subst hcl
        cases fs with
        | zero => simp [serVal] at hs
        | succ fs =>
          simp only [serVal, Outcome.ok.injEq] at hs
          subst hs
          unfold deNBody
          simp only [nViaAny, Flags.clear, Option.isSome_none, Bool.false_eq_true, if_false]
          rw [unroll_same env k w e _ st hu (rel_traceAt env k w e _ hrel ht) ht]
          simp only [R.bind]
          rw [nCheckSubtype_refl env tl _ st hu]
          simp only [R.bind]
          rw [deFuncCase_ser a b c st pid mm r hwt.1 hwt.2 hu hin]
          exact ⟨Flags.clear, Or.inl rfl, rfl⟩
      | _ => simp at hwt
  | service =>
    simp only [wt] at hwt
    cases ht : traceAt env k e with
    | none => simp [ht] at hwt
    | some e' =>
      rw [ht] at hwt
      cases e' with
      | service ms =>
        simp only [] at hwt
        cases v <;> try (exact Bool.noConfusion hwt)
        rename_i pb
        simp only [decide_eq_true_eq] at hwt
        have hcl : fl = Flags.clear := flags_clear_at env k fl w e _ hf ht (by simp) (by simp) (by simp)
        subst hcl
        cases fs with
        | zero => simp [serVal] at hs
        | succ fs =>
          simp only [serVal, Outcome.ok.injEq] at hs
          subst hs
          unfold deNBody
          simp only [nViaAny, Flags.clear, Option.isSome_none, Bool.false_eq_true, if_false]
          rw [unroll_same env k w e _ st hu (rel_traceAt env k w e _ hrel ht) ht]
          simp only [R.bind]
          rw [nCheckSubtype_refl env tl _ st hu]
          simp only [R.bind, dePrincipalBytes]
          rw [rd_ok readPrincipal st pb r (by rw [hin]; exact readPrincipal_ser pb r hwt)]
          simp only [R.bind]
          rw [addCost_unmetered_ok _ (inp_unmetered st r hu)]
          exact ⟨Flags.clear, Or.inl rfl, rfl⟩
      | _ => simp at hwt


/-- **native decoding inverts encoding**, at every depth -/
theorem deN_round (mk : String → NR) (env : Env) (tl : Nat) (renv : REnv) : ∀ (k : Nat),
    RoundAt env renv k (deN mk env tl renv k) := by
  intro k
  induction k with
  | zero => intro t w e v fl fs b r st hwt; simp [wt] at hwt
  | succ k ih =>
    intro t w e v fl fs b r st hwt hrel hf hs hu hin
    unfold deN
    exact deNBody_round mk env tl renv k _ ih t w e v fl fs b r st hwt hrel hf hs hu hin

end Candid.Native
