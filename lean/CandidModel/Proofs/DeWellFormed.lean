import CandidModel.Proofs.De
import CandidModel.Proofs.DeNeutral
import CandidModel.Proofs.LebSigned
/- helper lemmas for C02: whatever the decoder mirror (`De`) accepts is a well-formed message for the specification's
   reader — every entry point consumes exactly one value of the wire type it was given -/
namespace Candid.De
open Candid Candid.Wire Candid.Leb

/-- `i` starts with a value of wire type `w` (as the specification's reader sees it) followed by `o` -/
def Reads (env : Env) (w : Ty) (i o : Bytes) : Prop := ∃ n v, decVal env n w i = .ok (v, o)

theorem decMany_mono (f g : Bytes → Outcome (Val × Bytes)) (h : ∀ bs r, f bs = .ok r → g bs = .ok r) :
    ∀ (n : Nat) (bs : Bytes) (r : List Val × Bytes), decMany f n bs = .ok r → decMany g n bs = .ok r := by
  intro n
  induction n with
  | zero => intro bs r hr; simpa [decMany] using hr
  | succ n ih =>
    intro bs r hr
    simp only [decMany] at hr ⊢
    cases hf : f bs with
    | ok x =>
      obtain ⟨v, rest⟩ := x
      rw [hf] at hr
      rw [h bs _ hf]
      simp only [] at hr ⊢
      cases hm : decMany f n rest with
      | ok y => rw [hm] at hr; rw [ih rest y hm]; exact hr
      | err k => rw [hm] at hr; simp at hr
      | panic p => rw [hm] at hr; simp at hr
    | err k => rw [hf] at hr; simp at hr
    | panic p => rw [hf] at hr; simp at hr

theorem decFields_mono (f g : Ty → Bytes → Outcome (Val × Bytes)) (h : ∀ t bs r, f t bs = .ok r → g t bs = .ok r) :
    ∀ (fs : List (Label × Ty)) (bs : Bytes) (r : List (Label × Val) × Bytes),
      decFields f fs bs = .ok r → decFields g fs bs = .ok r := by
  intro fs
  induction fs with
  | nil => intro bs r hr; simpa [decFields] using hr
  | cons p fs ih =>
    intro bs r hr
    obtain ⟨l, t⟩ := p
    simp only [decFields] at hr ⊢
    cases hf : f t bs with
    | ok x =>
      obtain ⟨v, rest⟩ := x
      rw [hf] at hr
      rw [h t bs _ hf]
      simp only [] at hr ⊢
      cases hm : decFields f fs rest with
      | ok y => rw [hm] at hr; rw [ih rest y hm]; exact hr
      | err k => rw [hm] at hr; simp at hr
      | panic p => rw [hm] at hr; simp at hr
    | err k => rw [hf] at hr; simp at hr
    | panic p => rw [hf] at hr; simp at hr

theorem map_ok_iff {α β : Type} (x : Outcome α) (f : α → β) (b : β) :
    x.map f = .ok b ↔ ∃ a, x = .ok a ∧ f a = b := by
  cases x <;> simp [Outcome.map]

/-- more nesting budget never changes a successful read -/
theorem decVal_mono (env : Env) : ∀ (n : Nat) (t : Ty) (bs : Bytes) (r : Val × Bytes),
    decVal env n t bs = .ok r → decVal env (n + 1) t bs = .ok r := by
  intro n
  induction n with
  | zero => intro t bs r h; simp [decVal] at h
  | succ n ih =>
    intro t bs r h
    cases t with
    | prim p => simpa [decVal] using h
    | principal => simpa [decVal] using h
    | var x =>
      have e1 : decVal env (n + 1) (.var x) bs = (match env.find x with | some t' => decVal env n t' bs | none => .err .other) := rfl
      have e2 : decVal env (n + 1 + 1) (.var x) bs = (match env.find x with | some t' => decVal env (n + 1) t' bs | none => .err .other) := rfl
      rw [e1] at h; rw [e2]
      cases hf : env.find x with
      | none => rw [hf] at h; simp at h
      | some t' => rw [hf] at h; simp only [] at h ⊢; exact ih t' bs r h
    | opt t' =>
      have e1 : decVal env (n + 1) (.opt t') bs = (match (generalizing := false) bs with
        | [] => .err .eof
        | b :: r => if b = 0 then .ok (.none, r) else if b = 1 then (decVal env n t' r).map fun (v, r') => (.opt v, r')
                    else .err .malformed) := rfl
      have e2 : decVal env (n + 1 + 1) (.opt t') bs = (match (generalizing := false) bs with
        | [] => .err .eof
        | b :: r => if b = 0 then .ok (.none, r) else if b = 1 then (decVal env (n + 1) t' r).map fun (v, r') => (.opt v, r')
                    else .err .malformed) := rfl
      rw [e1] at h; rw [e2]
      cases bs with
      | nil => simp at h
      | cons b rest =>
        simp only [] at h ⊢
        split
        · rename_i hb; rw [if_pos hb] at h; exact h
        · rename_i hb
          rw [if_neg hb] at h
          split
          · rename_i hb1
            rw [if_pos hb1] at h
            obtain ⟨a, ha, hfa⟩ := (map_ok_iff _ _ _).mp h
            rw [ih t' rest a ha]
            exact (map_ok_iff _ _ _).mpr ⟨a, rfl, hfa⟩
          · rename_i hb1; rw [if_neg hb1] at h; simp at h
    | vec t' =>
      have e1 : decVal env (n + 1) (.vec t') bs = (match readLenDe bs with
        | .ok (k, r) => (decMany (decVal env n t') k r).map fun (vs, r') => (.vec vs, r')
        | .err k => .err k
        | .panic s => .panic s) := rfl
      have e2 : decVal env (n + 1 + 1) (.vec t') bs = (match readLenDe bs with
        | .ok (k, r) => (decMany (decVal env (n + 1) t') k r).map fun (vs, r') => (.vec vs, r')
        | .err k => .err k
        | .panic s => .panic s) := rfl
      rw [e1] at h; rw [e2]
      cases hl : readLenDe bs with
      | ok x =>
        obtain ⟨k, rest⟩ := x
        rw [hl] at h
        simp only [] at h ⊢
        obtain ⟨a, ha, hfa⟩ := (map_ok_iff _ _ _).mp h
        rw [decMany_mono _ _ (fun bs r hr => ih t' bs r hr) k rest a ha]
        exact (map_ok_iff _ _ _).mpr ⟨a, rfl, hfa⟩
      | err k => rw [hl] at h; simp at h
      | panic p => rw [hl] at h; simp at h
    | record fs =>
      have e1 : decVal env (n + 1) (.record fs) bs =
          (decFields (decVal env n) fs.toList bs).map fun (vs, r) => (.record vs, r) := rfl
      have e2 : decVal env (n + 1 + 1) (.record fs) bs =
          (decFields (decVal env (n + 1)) fs.toList bs).map fun (vs, r) => (.record vs, r) := rfl
      rw [e1] at h; rw [e2]
      obtain ⟨a, ha, hfa⟩ := (map_ok_iff _ _ _).mp h
      rw [decFields_mono _ _ (fun t bs r hr => ih t bs r hr) _ _ a ha]
      exact (map_ok_iff _ _ _).mpr ⟨a, rfl, hfa⟩
    | variant fs =>
      have e1 : decVal env (n + 1) (.variant fs) bs = (match readLebCrate bs with
        | .ok (i, r) => (match fs.toList[i]? with
            | none => .err .malformed
            | some (l, t') => (decVal env n t' r).map fun (v, r') => (.variant l v i, r'))
        | .err k => .err k
        | .panic s => .panic s) := rfl
      have e2 : decVal env (n + 1 + 1) (.variant fs) bs = (match readLebCrate bs with
        | .ok (i, r) => (match fs.toList[i]? with
            | none => .err .malformed
            | some (l, t') => (decVal env (n + 1) t' r).map fun (v, r') => (.variant l v i, r'))
        | .err k => .err k
        | .panic s => .panic s) := rfl
      rw [e1] at h; rw [e2]
      cases hl : readLebCrate bs with
      | ok x =>
        obtain ⟨i, rest⟩ := x
        rw [hl] at h
        simp only [] at h ⊢
        cases hg : fs.toList[i]? with
        | none => rw [hg] at h; simp at h
        | some q =>
          obtain ⟨l, t'⟩ := q
          rw [hg] at h
          simp only [] at h ⊢
          obtain ⟨a, ha, hfa⟩ := (map_ok_iff _ _ _).mp h
          rw [ih t' rest a ha]
          exact (map_ok_iff _ _ _).mpr ⟨a, rfl, hfa⟩
      | err k => rw [hl] at h; simp at h
      | panic p => rw [hl] at h; simp at h
    | func a r' m => exact h
    | service ms => exact h
    | future => exact h
    | knot k => exact h
    | unknown => exact h
    | cls a t => exact h

theorem decVal_le (env : Env) (n m : Nat) (hnm : n ≤ m) (t : Ty) (bs : Bytes) (r : Val × Bytes)
    (h : decVal env n t bs = .ok r) : decVal env m t bs = .ok r := by
  induction hnm with
  | refl => exact h
  | step _ ih => exact decVal_mono env _ t bs r ih

/-- through a chain of aliases -/
theorem decVal_trace (env : Env) : ∀ (k : Nat) (e t' : Ty) (n : Nat) (bs : Bytes) (r : Val × Bytes),
    env.trace k e = some t' → decVal env n t' bs = .ok r → decVal env (n + k) e bs = .ok r := by
  intro k
  induction k with
  | zero => intro e t' n bs r h; simp [Env.trace] at h
  | succ k ih =>
    intro e t' n bs r h hd
    cases e with
    | var x =>
      simp only [Env.trace] at h
      have e1 : n + (k + 1) = (n + k) + 1 := by omega
      rw [e1]
      have e2 : decVal env (n + k + 1) (.var x) bs = (match env.find x with | some t' => decVal env (n + k) t' bs | none => .err .other) := rfl
      rw [e2]
      cases hf : env.find x with
      | none => rw [hf] at h; simp at h
      | some d => rw [hf] at h; simp only [] at h ⊢; exact ih d t' n bs r h hd
    | _ =>
      simp only [Env.trace, Option.some.injEq] at h
      subst h
      exact decVal_le env n _ (by omega) _ bs r hd

theorem Reads.of_trace {env : Env} {k : Nat} {e t' : Ty} {i o : Bytes} (ht : env.trace k e = some t')
    (h : Reads env t' i o) : Reads env e i o := by
  obtain ⟨n, v, hv⟩ := h
  exact ⟨n + k, v, decVal_trace env k e t' n i (v, o) ht hv⟩


/-! ### inversion of the decoder monad -/

theorem bind_ok_inv {α β : Type} {x : R α} {f : α → St → R β} {b : β} {st' : St} (h : x.bind f = .ok b st') :
    ∃ a s, x = .ok a s ∧ f a s = .ok b st' := by
  cases x with
  | ok a s => exact ⟨a, s, rfl, h⟩
  | sub d q => simp [R.bind] at h
  | err k => simp [R.bind] at h
  | panic p => simp [R.bind] at h

theorem rmap_ok_inv {α β : Type} {x : R α} {f : α → β} {b : β} {st' : St} (h : x.map f = .ok b st') :
    ∃ a, x = .ok a st' ∧ f a = b := by
  obtain ⟨a, s, hx, hf⟩ := bind_ok_inv h
  simp only [R.ok.injEq] at hf
  obtain ⟨h1, h2⟩ := hf
  subst h2
  exact ⟨a, hx, h1⟩

theorem addCost_input {st s : St} {c : Nat} {u : Unit} (h : addCost st c = .ok u s) : s.input = st.input := by
  cases u; exact (addCost_same st c s h).1

theorem rd_ok_inv {α : Type} {f : Bytes → Outcome (α × Bytes)} {st st' : St} {a : α} (h : rd f st = .ok a st') :
    f st.input = .ok (a, st'.input) := by
  unfold rd at h
  cases hf : f st.input with
  | ok x =>
    obtain ⟨a', rest⟩ := x
    rw [hf] at h
    simp only [R.ok.injEq] at h
    obtain ⟨h1, h2⟩ := h
    subst h1; subst h2
    rfl
  | err k => rw [hf] at h; simp at h
  | panic p => rw [hf] at h; simp at h

theorem ofOpt_ok_inv {α : Type} {o : Option α} {k : ErrKind} {st st' : St} {a : α} (h : ofOpt o k st = .ok a st') :
    o = some a ∧ st' = st := by
  cases o with
  | none => simp [ofOpt] at h
  | some x => simp only [ofOpt, R.ok.injEq] at h; exact ⟨by rw [h.1], h.2.symm⟩

theorem subErr_ne_ok {α : Type} (st : St) (a : α) (st' : St) : (subErr st : R α) ≠ .ok a st' := by
  simp [subErr]

/-! ### leaves -/

theorem Reads.prim_of (env : Env) (p : Prim) (i o : Bytes) (v : Val) (h : decPrim p i = .ok (v, o)) :
    Reads env (.prim p) i o := ⟨1, v, by simpa [decVal] using h⟩

theorem Reads.null (env : Env) (i : Bytes) : Reads env (.prim .null) i i := Reads.prim_of env .null i i .null rfl
theorem Reads.reserved (env : Env) (i : Bytes) : Reads env (.prim .reserved) i i :=
  Reads.prim_of env .reserved i i .reserved rfl

theorem Reads.null_inv {env : Env} {i o : Bytes} (h : Reads env (.prim .null) i o) : o = i := by
  obtain ⟨n, v, hv⟩ := h
  cases n with
  | zero => simp [decVal] at hv
  | succ n => simp only [decVal, decPrim, Outcome.ok.injEq, Prod.mk.injEq] at hv; exact hv.2.symm

/-- a big number read with the implementation's decoder, then charged -/
theorem bigNum_nat_reads (env : Env) (mk : Nat → Val) (st st' : St) (v : Val) (h : bigNum (natAs mk) st = .ok v st') :
    Reads env (.prim .nat) st.input st'.input := by
  unfold bigNum at h
  obtain ⟨a, s, h1, h2⟩ := bind_ok_inv h
  obtain ⟨_, h3, _⟩ := rmap_ok_inv h2
  have hi := addCost_input h3
  have hr := rd_ok_inv h1
  rw [hi]
  unfold natAs at hr
  rw [natDecode_spec] at hr
  cases hs : specReadNat st.input with
  | none => rw [hs] at hr; simp at hr
  | some x =>
    rw [hs] at hr
    obtain ⟨n, r⟩ := x
    simp only [Outcome.ok.injEq, Prod.mk.injEq] at hr
    refine Reads.prim_of env .nat _ _ (.nat n) ?_
    simp only [decPrim, hs]
    rw [← hr.2]

theorem bigNum_int_reads (env : Env) (st st' : St) (v : Val) (h : bigNum intAs st = .ok v st') :
    Reads env (.prim .int) st.input st'.input := by
  unfold bigNum at h
  obtain ⟨a, s, h1, h2⟩ := bind_ok_inv h
  obtain ⟨_, h3, _⟩ := rmap_ok_inv h2
  have hi := addCost_input h3
  have hr := rd_ok_inv h1
  rw [hi]
  unfold intAs at hr
  rw [intDecode_spec] at hr
  cases hs : specReadInt st.input with
  | none => rw [hs] at hr; simp at hr
  | some x =>
    rw [hs] at hr
    obtain ⟨n, r⟩ := x
    simp only [Outcome.ok.injEq, Prod.mk.injEq] at hr
    refine Reads.prim_of env .int _ _ (.int n) ?_
    simp only [decPrim, hs]
    rw [← hr.2]

theorem dePrimExact_reads (env : Env) (p : Prim) (c : Nat) (w e : Ty) (st st' : St) (v : Val)
    (h : dePrimExact p c w e st = .ok v st') : Reads env w st.input st'.input := by
  unfold dePrimExact at h
  split at h
  · rename_i hc
    obtain ⟨_, s, h1, h2⟩ := bind_ok_inv h
    have hi := addCost_input h1
    have hr := rd_ok_inv h2
    rw [hi] at hr
    rw [hc.2]
    exact Reads.prim_of env p _ _ v hr
  · exact absurd h (subErr_ne_ok _ _ _)

theorem lenBytes_ok_inv {st st' : St} {b : Bytes} (h : lenBytes st = .ok b st') :
    ∃ n r, readLenDe st.input = .ok (n, r) ∧ takeN n r = .ok (b, st'.input) := by
  unfold lenBytes at h
  obtain ⟨n, s, h1, h2⟩ := bind_ok_inv h
  obtain ⟨_, s2, h3, h4⟩ := bind_ok_inv h2
  have hr1 := rd_ok_inv h1
  have hi := addCost_input h3
  have hr2 := rd_ok_inv h4
  rw [hi] at hr2
  exact ⟨n, s.input, hr1, hr2⟩

theorem dePrincipalBytes_ok_inv {st st' : St} {b : Bytes} (h : dePrincipalBytes st = .ok b st') :
    readPrincipal st.input = .ok (b, st'.input) := by
  unfold dePrincipalBytes at h
  obtain ⟨a, s, h1, h2⟩ := bind_ok_inv h
  obtain ⟨_, h3, h4⟩ := rmap_ok_inv h2
  have hi := addCost_input h3
  have hr := rd_ok_inv h1
  subst h4
  rw [hi]; exact hr


/-! ### sequences of values -/

/-- `i` starts with values of the wire types `ts`, one after the other, followed by `o` -/
def ReadsSeq (env : Env) : List Ty → Bytes → Bytes → Prop
  | [], i, o => o = i
  | t :: ts, i, o => ∃ mid, Reads env t i mid ∧ ReadsSeq env ts mid o

theorem ReadsSeq.append {env : Env} : ∀ {ts us : List Ty} {i mid o : Bytes},
    ReadsSeq env ts i mid → ReadsSeq env us mid o → ReadsSeq env (ts ++ us) i o := by
  intro ts
  induction ts with
  | nil => intro us i mid o h1 h2; simp only [ReadsSeq] at h1; subst h1; exact h2
  | cons t ts ih =>
    intro us i mid o h1 h2
    obtain ⟨m, hr, hs⟩ := h1
    exact ⟨m, hr, ih hs h2⟩

theorem readsSeq_decFields (env : Env) : ∀ (fs : List (Label × Ty)) (i o : Bytes),
    ReadsSeq env (fs.map (·.2)) i o → ∃ m vs, decFields (decVal env m) fs i = .ok (vs, o) := by
  intro fs
  induction fs with
  | nil => intro i o h; simp only [List.map_nil, ReadsSeq] at h; subst h; exact ⟨0, [], rfl⟩
  | cons p fs ih =>
    intro i o h
    obtain ⟨l, t⟩ := p
    obtain ⟨mid, ⟨n1, v, hv⟩, hs⟩ := h
    obtain ⟨n2, vs, hvs⟩ := ih mid o hs
    refine ⟨max n1 n2, (l, v) :: vs, ?_⟩
    simp only [decFields]
    rw [decVal_le env n1 _ (Nat.le_max_left _ _) t i _ hv]
    simp only []
    rw [decFields_mono (decVal env n2) (decVal env (max n1 n2))
      (fun t bs r hr => decVal_le env n2 _ (Nat.le_max_right _ _) t bs r hr) fs mid _ hvs]

theorem readsSeq_decMany (env : Env) (t : Ty) : ∀ (n : Nat) (i o : Bytes),
    ReadsSeq env (List.replicate n t) i o → ∃ m vs, decMany (decVal env m t) n i = .ok (vs, o) := by
  intro n
  induction n with
  | zero => intro i o h; simp only [List.replicate, ReadsSeq] at h; subst h; exact ⟨0, [], rfl⟩
  | succ n ih =>
    intro i o h
    obtain ⟨mid, ⟨n1, v, hv⟩, hs⟩ := h
    obtain ⟨n2, vs, hvs⟩ := ih mid o hs
    refine ⟨max n1 n2, v :: vs, ?_⟩
    simp only [decMany]
    rw [decVal_le env n1 _ (Nat.le_max_left _ _) t i _ hv]
    simp only []
    rw [decMany_mono (decVal env n2 t) (decVal env (max n1 n2) t)
      (fun bs r hr => decVal_le env n2 _ (Nat.le_max_right _ _) t bs r hr) n mid _ hvs]

theorem readsSeq_decArgs (env : Env) : ∀ (ts : List Ty) (i o : Bytes),
    ReadsSeq env ts i o → ∃ m vs, decArgs env m ts i = .ok (vs, o) := by
  intro ts
  induction ts with
  | nil => intro i o h; simp only [ReadsSeq] at h; subst h; exact ⟨0, [], rfl⟩
  | cons t ts ih =>
    intro i o h
    obtain ⟨mid, ⟨n1, v, hv⟩, hs⟩ := h
    obtain ⟨n2, vs, hvs⟩ := ih mid o hs
    have hmono : ∀ (ts : List Ty) (bs : Bytes) (r : List Val × Bytes),
        decArgs env n2 ts bs = .ok r → decArgs env (max n1 n2) ts bs = .ok r := by
      intro ts
      induction ts with
      | nil => intro bs r hr; simpa [decArgs] using hr
      | cons u us ihu =>
        intro bs r hr
        simp only [decArgs] at hr ⊢
        cases hd : decVal env n2 u bs with
        | ok x =>
          obtain ⟨w, rest⟩ := x
          rw [hd] at hr
          rw [decVal_le env n2 _ (Nat.le_max_right _ _) u bs _ hd]
          simp only [] at hr ⊢
          cases hm : decArgs env n2 us rest with
          | ok y => rw [hm] at hr; rw [ihu rest y hm]; exact hr
          | err k => rw [hm] at hr; simp at hr
          | panic p => rw [hm] at hr; simp at hr
        | err k => rw [hd] at hr; simp at hr
        | panic p => rw [hd] at hr; simp at hr
    refine ⟨max n1 n2, v :: vs, ?_⟩
    simp only [decArgs]
    rw [decVal_le env n1 _ (Nat.le_max_left _ _) t i _ hv]
    simp only []
    rw [hmono ts mid _ hvs]

/-- `iterV` reads `n` values when each round reads one -/
theorem iterV_reads (env : Env) (t : Ty) (f : St → R Val)
    (hf : ∀ s v s', f s = .ok v s' → Reads env t s.input s'.input) :
    ∀ (n : Nat) (st st' : St) (vs : List Val), iterV f n st = .ok vs st' →
      ReadsSeq env (List.replicate n t) st.input st'.input := by
  intro n
  induction n with
  | zero =>
    intro st st' vs h
    simp only [iterV, R.ok.injEq] at h
    simp only [List.replicate, ReadsSeq]
    rw [h.2]
  | succ n ih =>
    intro st st' vs h
    simp only [iterV] at h
    obtain ⟨v, s, h1, h2⟩ := bind_ok_inv h
    obtain ⟨vs', h3, _⟩ := rmap_ok_inv h2
    exact ⟨s.input, hf st v s h1, ih s st' vs' h3⟩

theorem Reads.vec_of {env : Env} {ww : Ty} {i r o : Bytes} {n : Nat} (hl : readLenDe i = .ok (n, r))
    (hs : ReadsSeq env (List.replicate n ww) r o) : Reads env (.vec ww) i o := by
  obtain ⟨m, vs, hvs⟩ := readsSeq_decMany env ww n r o hs
  refine ⟨m + 1, .vec vs, ?_⟩
  simp only [decVal, hl, hvs, Outcome.map]

theorem Reads.record_of {env : Env} {wfs : Fields} {i o : Bytes}
    (hs : ReadsSeq env (wfs.toList.map (·.2)) i o) : Reads env (.record wfs) i o := by
  obtain ⟨m, vs, hvs⟩ := readsSeq_decFields env wfs.toList i o hs
  refine ⟨m + 1, .record vs, ?_⟩
  simp only [decVal, hvs, Outcome.map]

theorem ReadsSeq.map_trace {env : Env} {k : Nat} {ww wire : Ty} (ht : env.trace k ww = some wire) :
    ∀ {n : Nat} {i o : Bytes}, ReadsSeq env (List.replicate n wire) i o → ReadsSeq env (List.replicate n ww) i o := by
  intro n
  induction n with
  | zero => intro i o h; exact h
  | succ n ih =>
    intro i o h
    obtain ⟨mid, hr, hs⟩ := h
    exact ⟨mid, Reads.of_trace ht hr, ih hs⟩


/-! ### bytes of a blob -/

theorem reads_nat8_bytes (env : Env) : ∀ (n : Nat) (r : Bytes), n ≤ r.length →
    ReadsSeq env (List.replicate n (.prim .nat8)) r (r.drop n) := by
  intro n
  induction n with
  | zero => intro r _; simp [ReadsSeq]
  | succ n ih =>
    intro r h
    cases r with
    | nil => simp at h
    | cons x rest =>
      refine ⟨rest, ?_, ?_⟩
      · refine Reads.prim_of env .nat8 _ _ (.nat8 x.toNat) ?_
        simp [decPrim, readFixed, takeN, Outcome.map, leVal]
      · simpa using ih rest (by simpa using h)

theorem takeN_ok_inv {n : Nat} {r b o : Bytes} (h : takeN n r = .ok (b, o)) : n ≤ r.length ∧ o = r.drop n := by
  unfold takeN at h
  split at h
  · rename_i hle
    simp only [Outcome.ok.injEq, Prod.mk.injEq] at h
    exact ⟨hle, h.2.symm⟩
  · simp at h

theorem reads_blob (env : Env) (w : Ty) (hb : isBlobTy env w = true) (i o b : Bytes) (n : Nat) (r : Bytes)
    (hl : readLenDe i = .ok (n, r)) (ht : takeN n r = .ok (b, o)) : Reads env w i o := by
  unfold isBlobTy at hb
  cases w with
  | vec ww =>
    simp only [] at hb
    cases htr : Sub.traceFull env ww with
    | none => rw [htr] at hb; simp at hb
    | some t =>
      rw [htr] at hb
      have : t = .prim .nat8 := by
        cases t with
        | prim p => cases p <;> first | rfl | exact Bool.noConfusion hb
        | _ => exact Bool.noConfusion hb
      subst this
      obtain ⟨hle, ho⟩ := takeN_ok_inv ht
      subst ho
      exact Reads.vec_of hl (ReadsSeq.map_trace htr (reads_nat8_bytes env n r hle))
  | _ => exact Bool.noConfusion hb

/-! ### which expected types the decoder may be driven with -/

mutual
/-- no `future` placeholder, every name in the set `S` -/
def cleanTy (S : List String) : Ty → Bool
  | .var x => S.contains x
  | .future | .knot _ | .unknown => false
  | .opt t | .vec t => cleanTy S t
  | .record fs | .variant fs => cleanFields S fs
  | _ => true
def cleanFields (S : List String) : Fields → Bool
  | .nil => true
  | .cons _ t r => cleanTy S t && cleanFields S r
end

/-- the definitions of the names in `S` are clean again -/
def CleanCtx (env : Env) (S : List String) : Prop := ∀ x ∈ S, ∃ t, env.find x = some t ∧ cleanTy S t = true

/-- the expected type is clean, or the value is being skipped at its own wire type -/
def FO (S : List String) (vis : Visitor) (w e : Ty) : Prop := cleanTy S e = true ∨ (vis = .ignored ∧ e = w)

theorem cleanFields_mem (S : List String) : ∀ (fs : Fields) (p : Label × Ty), cleanFields S fs = true → p ∈ fs.toList →
    cleanTy S p.2 = true
  | .nil, _, _, h => by simp [Fields.toList] at h
  | .cons l t r, p, hs, h => by
    simp only [cleanFields, Bool.and_eq_true] at hs
    simp only [Fields.toList, List.mem_cons] at h
    rcases h with rfl | h
    · exact hs.1
    · exact cleanFields_mem S r p hs.2 h

theorem trace_clean (env : Env) (S : List String) (hc : CleanCtx env S) : ∀ (k : Nat) (e e' : Ty),
    cleanTy S e = true → env.trace k e = some e' → cleanTy S e' = true := by
  intro k
  induction k with
  | zero => intro e e' _ h; simp [Env.trace] at h
  | succ k ih =>
    intro e e' hce h
    cases e with
    | var x =>
      simp only [Env.trace] at h
      simp only [cleanTy, List.contains_eq_mem, decide_eq_true_eq] at hce
      obtain ⟨t, hf, ht⟩ := hc x hce
      rw [hf] at h
      exact ih t e' ht h
    | _ => simp only [Env.trace, Option.some.injEq] at h; subst h; exact hce

/-! ### record fields in merge order -/

def wireOf : List FieldStep → List Ty
  | [] => []
  | .both _ _ wt :: r => wt :: wireOf r
  | .wireOnly wt :: r => wt :: wireOf r
  | .expectOnly _ _ :: r => wireOf r
  | .expectTail _ _ :: r => wireOf r

def stepOk (S : List String) (vis : Visitor) : FieldStep → Prop
  | .both _ et wt => FO S vis wt et
  | .expectOnly _ et => cleanTy S et = true
  | .expectTail _ et => cleanTy S et = true
  | .wireOnly _ => True

theorem mergeFields_wire : ∀ (n : Nat) (es ws : List (Label × Ty)), es.length + ws.length < n →
    wireOf (mergeFields n es ws) = ws.map (·.2) := by
  intro n
  induction n with
  | zero => intro es ws h; omega
  | succ n ih =>
    intro es ws h
    cases es with
    | nil =>
      cases ws with
      | nil => rfl
      | cons q ws =>
        obtain ⟨wl, wt⟩ := q
        simp only [mergeFields, wireOf, List.map_cons]
        rw [ih [] ws (by simp at h ⊢; omega)]
    | cons p es =>
      obtain ⟨l, et⟩ := p
      cases ws with
      | nil =>
        simp only [mergeFields, wireOf]
        rw [ih es [] (by simp at h ⊢; omega)]
      | cons q ws =>
        obtain ⟨wl, wt⟩ := q
        simp only [mergeFields]
        split
        · simp only [wireOf, List.map_cons]
          rw [ih es ws (by simp at h ⊢; omega)]
        · split
          · simp only [wireOf]
            rw [ih es ((wl, wt) :: ws) (by simp at h ⊢; omega)]
          · simp only [wireOf, List.map_cons]
            rw [ih ((l, et) :: es) ws (by simp at h ⊢; omega)]

theorem mergeFields_clean (S : List String) (vis : Visitor) : ∀ (n : Nat) (es ws : List (Label × Ty)),
    (∀ p ∈ es, cleanTy S p.2 = true) → ∀ s ∈ mergeFields n es ws, stepOk S vis s := by
  intro n
  induction n with
  | zero => intro es ws _ s hs; simp [mergeFields] at hs
  | succ n ih =>
    intro es ws hc s hs
    cases es with
    | nil =>
      cases ws with
      | nil => simp [mergeFields] at hs
      | cons q ws =>
        obtain ⟨wl, wt⟩ := q
        simp only [mergeFields, List.mem_cons] at hs
        rcases hs with rfl | hs
        · trivial
        · exact ih [] ws hc s hs
    | cons p es =>
      obtain ⟨l, et⟩ := p
      have het : cleanTy S et = true := hc (l, et) (by simp)
      have hc' : ∀ p ∈ es, cleanTy S p.2 = true := fun p hp => hc p (by simp [hp])
      cases ws with
      | nil =>
        simp only [mergeFields, List.mem_cons] at hs
        rcases hs with rfl | hs
        · exact het
        · exact ih es [] hc' s hs
      | cons q ws =>
        obtain ⟨wl, wt⟩ := q
        simp only [mergeFields] at hs
        split at hs
        · simp only [List.mem_cons] at hs
          rcases hs with rfl | hs
          · exact Or.inl het
          · exact ih es ws hc' s hs
        · split at hs
          · simp only [List.mem_cons] at hs
            rcases hs with rfl | hs
            · exact het
            · exact ih es _ hc' s hs
          · simp only [List.mem_cons] at hs
            rcases hs with rfl | hs
            · trivial
            · exact ih _ ws hc s hs

/-- merging a field list with itself pairs every field with itself -/
theorem mergeFields_self (S : List String) : ∀ (n : Nat) (fs : List (Label × Ty)),
    ∀ s ∈ mergeFields n fs fs, stepOk S .ignored s := by
  intro n
  induction n with
  | zero => intro fs s hs; simp [mergeFields] at hs
  | succ n ih =>
    intro fs s hs
    cases fs with
    | nil => simp [mergeFields] at hs
    | cons p fs =>
      obtain ⟨l, t⟩ := p
      simp only [mergeFields, if_true, List.mem_cons] at hs
      rcases hs with rfl | hs
      · exact Or.inr ⟨rfl, rfl⟩
      · exact ih fs s hs


/-! ### the branches of `deserialize_any` -/

def HA (env : Env) (S : List String) (vis : Visitor) (dAny : Ty → Ty → St → R Val) : Prop :=
  ∀ w e st v st', FO S vis w e → dAny w e st = .ok v st' → Reads env w st.input st'.input
def HI (env : Env) (dIgn : Ty → St → R Val) : Prop :=
  ∀ w st v st', dIgn w st = .ok v st' → Reads env w st.input st'.input
def HF (env : Env) (S : List String) (vis : Visitor) (dFld : List FieldStep → St → List (Label × Val) → R Val) : Prop :=
  ∀ steps st acc v st', (∀ s ∈ steps, stepOk S vis s) → dFld steps st acc = .ok v st' →
    ReadsSeq env (wireOf steps) st.input st'.input

theorem Reads.opt_none (env : Env) (w2 : Ty) (rest : Bytes) : Reads env (.opt w2) (0 :: rest) rest :=
  ⟨1, .none, by simp [decVal]⟩

theorem Reads.opt_some {env : Env} {w2 : Ty} {rest o : Bytes} (h : Reads env w2 rest o) :
    Reads env (.opt w2) (1 :: rest) o := by
  obtain ⟨n, v, hv⟩ := h
  exact ⟨n + 1, .opt v, by simp [decVal, hv, Outcome.map]⟩

theorem deOptCase_reads (env : Env) (S : List String) (hc : CleanCtx env S) (vis : Visitor) (fuel : Nat)
    (recv : Ty → Ty → St → R Val) (hr : HA env S vis recv) (w e2 : Ty) (hfo : FO S vis w (.opt e2))
    (s1 st' : St) (v : Val) (h : deOptCase env fuel recv w e2 s1 = .ok v st') : Reads env w s1.input st'.input := by
  unfold deOptCase at h
  split at h
  · simp only [R.ok.injEq] at h; rw [← h.2]; exact Reads.null env _
  · simp only [R.ok.injEq] at h; rw [← h.2]; exact Reads.reserved env _
  · rename_i w2
    split at h
    · simp at h
    · rename_i b rest hin
      rw [hin]
      split at h
      · rename_i hb
        simp only [R.ok.injEq] at h
        rw [← h.2, hb]
        exact Reads.opt_none env w2 rest
      · split at h
        · rename_i _ hb
          rw [hb]
          have hfo' : FO S vis w2 e2 := by
            rcases hfo with h1 | ⟨h1, h2⟩
            · exact Or.inl (by simpa [cleanTy] using h1)
            · right; refine ⟨h1, ?_⟩; simp only [Ty.opt.injEq] at h2; exact h2
          exact Reads.opt_some (hr w2 e2 _ v st' hfo' h)
        · simp at h
  · rename_i hn1 hn2 hn3
    split at h
    · simp at h
    · rename_i e2' htr
      have hfo' : FO S vis w e2' := by
        rcases hfo with h1 | ⟨_, h2⟩
        · exact Or.inl (trace_clean env S hc fuel e2 e2' (by simpa [cleanTy] using h1) htr)
        · exact absurd h2.symm (hn3 e2)
      exact hr w e2' s1 v st' hfo' h

theorem deBlobCase_reads (env : Env) (w : Ty) (st st' : St) (v : Val) (h : deBlobCase env w st = .ok v st') :
    Reads env w st.input st'.input := by
  unfold deBlobCase at h
  split at h
  · rename_i hb
    obtain ⟨b, h1, _⟩ := rmap_ok_inv h
    obtain ⟨n, r, hl, ht⟩ := lenBytes_ok_inv h1
    exact reads_blob env w hb _ _ b n r hl ht
  · split at h
    · rename_i ww
      obtain ⟨n, s, h1, h2⟩ := bind_ok_inv h
      have hr := rd_ok_inv h1
      split at h2
      · exact absurd h2 (subErr_ne_ok _ _ _)
      · rename_i hn0
        obtain ⟨_, h3, _⟩ := rmap_ok_inv h2
        have hi := addCost_input h3
        have hn : n = 0 := by simpa using hn0
        subst hn
        rw [hi]
        exact Reads.vec_of hr (by simp [ReadsSeq])
    · exact absurd h (subErr_ne_ok _ _ _)

theorem deFuncCase_reads (env : Env) (w : Ty) (s1 st' : St) (v : Val) (h : deFuncCase w s1 = .ok v st') :
    Reads env w s1.input st'.input := by
  unfold deFuncCase at h
  split at h
  · rename_i a r m
    split at h
    · simp at h
    · rename_i b rest hin
      rw [hin]
      split at h
      · simp at h
      · split at h
        · simp at h
        · rename_i hb0 hb1
          have hb : b = 1 := by simpa using hb1
          subst hb
          obtain ⟨pid, s2, h1, h2⟩ := bind_ok_inv h
          obtain ⟨n, s3, h3, h4⟩ := bind_ok_inv h2
          obtain ⟨mb, s4, h5, h6⟩ := bind_ok_inv h4
          obtain ⟨_, s5, h7, h8⟩ := bind_ok_inv h6
          have r1 := rd_ok_inv h1
          have r2 := rd_ok_inv h3
          have r3 := rd_ok_inv h5
          have hi := addCost_input h7
          simp only [] at r1
          split at h8
          · rename_i name hu
            simp only [R.ok.injEq] at h8
            rw [← h8.2, hi]
            refine ⟨1, .func pid name, ?_⟩
            simp [decVal, r1, r2, r3, hu]
          · simp at h8
  · exact absurd h (subErr_ne_ok _ _ _)


theorem Reads.variant_of {env : Env} {wfs : Fields} {i r o : Bytes} {idx : Nat} {wl : Label} {wt : Ty}
    (hl : readLebCrate i = .ok (idx, r)) (hg : wfs.toList[idx]? = some (wl, wt)) (h : Reads env wt r o) :
    Reads env (.variant wfs) i o := by
  obtain ⟨n, v, hv⟩ := h
  exact ⟨n + 1, .variant wl v idx, by simp [decVal, hl, hg, hv, Outcome.map]⟩

theorem deVariantCase_reads (env : Env) (S : List String) (vis : Visitor) (dAny : Ty → Ty → St → R Val)
    (dIgn : Ty → St → R Val) (ha : HA env S vis dAny) (hi : HI env dIgn) (w : Ty) (efs : Fields)
    (hfo : FO S vis w (.variant efs)) (s1 st' : St) (v : Val)
    (h : deVariantCase vis dAny dIgn w efs s1 = .ok v st') : Reads env w s1.input st'.input := by
  unfold deVariantCase at h
  split at h
  · rename_i wfs
    obtain ⟨idx, s2, h1, h2⟩ := bind_ok_inv h
    have hl := rd_ok_inv h1
    split at h2
    · simp at h2
    · rename_i wl wt hget
      split at h2
      · exact absurd h2 (subErr_ne_ok _ _ _)
      · rename_i el et hfind
        obtain ⟨_, s3, h3, h4⟩ := bind_ok_inv h2
        simp only [] at h4
        obtain ⟨_, s4, h5, h6⟩ := bind_ok_inv h4
        have i3 := addCost_input h3
        have i4 := addCost_input h5
        apply Reads.variant_of hl hget
        have hfo' : vis ≠ .ignored → FO S vis wt et := by
          intro hvis
          rcases hfo with h1 | ⟨h1, _⟩
          · left
            have hm := List.mem_of_find?_eq_some hfind
            exact cleanFields_mem S efs (el, et) (by simpa [cleanTy] using h1) hm
          · exact absurd h1 hvis
        have hbind : ((addCost s4 1).bind fun _ s5 =>
              if vis = .ignored then (dIgn wt s5).map fun _ => Val.null
              else (dAny wt et s5).map fun v => Val.variant el v idx) = .ok v st' →
            Reads env wt s2.input st'.input := by
          intro hb
          obtain ⟨_, s5, h7, h8⟩ := bind_ok_inv hb
          have i5 := addCost_input h7
          rw [← i3, ← i4, ← i5]
          split at h8
          · obtain ⟨x, h9, _⟩ := rmap_ok_inv h8
            exact hi wt s5 x st' h9
          · rename_i hvis
            obtain ⟨x, h9, _⟩ := rmap_ok_inv h8
            exact ha wt et s5 x st' (hfo' hvis) h9
        split at h6
        · -- the expected alternative is `null`
          split at h6
          · split at h6
            · rename_i hwt
              obtain ⟨_, h7, _⟩ := rmap_ok_inv h6
              have i5 := addCost_input h7
              rw [← i3, ← i4, ← i5, hwt]
              exact Reads.null env _
            · exact absurd h6 (subErr_ne_ok _ _ _)
          · exact hbind h6
        · rw [if_neg (by simp)] at h6
          exact hbind h6
  · exact absurd h (subErr_ne_ok _ _ _)

theorem exactPrim_inv {e w : Ty} {p : Prim} (h : exactPrim e w = some p) : w = .prim p := by
  unfold exactPrim at h
  split at h
  · rename_i p' q
    split at h
    · rename_i hc
      simp only [Option.some.injEq] at h
      rw [← h, hc.1]
    · simp at h
  · simp at h

theorem deVecCase_reads (env : Env) (S : List String) (vis : Visitor) (fuel : Nat) (dAny : Ty → Ty → St → R Val)
    (dIgn : Ty → St → R Val) (ha : HA env S vis dAny) (hi : HI env dIgn) (w ee : Ty) (hfo : FO S vis w (.vec ee))
    (s1 st' : St) (v : Val) (h : deVecCase env vis fuel dAny dIgn w ee s1 = .ok v st') :
    Reads env w s1.input st'.input := by
  unfold deVecCase at h
  split at h
  · rename_i ww
    split at h
    · simp at h
    · rename_i wire hwire
      obtain ⟨n, s2, h1, h2⟩ := bind_ok_inv h
      have hl := rd_ok_inv h1
      apply Reads.vec_of hl
      apply ReadsSeq.map_trace hwire
      split at h2
      · rename_i p hp
        have hw : wire = .prim p := exactPrim_inv hp
        simp only [] at h2
        split at h2
        · simp at h2
        · obtain ⟨_, s3, h3, h4⟩ := bind_ok_inv h2
          have i3 := addCost_input h3
          split at h4
          · simp at h4
          · obtain ⟨vs, h5, _⟩ := rmap_ok_inv h4
            rw [← i3, hw]
            exact iterV_reads env (.prim p) _ (fun s x s' hx => Reads.prim_of env p _ _ x (rd_ok_inv hx)) n s3 st' vs h5
      · try simp only [] at h2
        split at h2
        · rename_i wp hbig
          split at h2
          · simp at h2
          · obtain ⟨_, s3, h3, h4⟩ := bind_ok_inv h2
            have i3 := addCost_input h3
            obtain ⟨vs, h5, _⟩ := rmap_ok_inv h4
            rw [← i3]
            have hwire : (wp = .nat ∧ wire = .prim .nat) ∨ (wp = .int ∧ wire = .prim .int) := by
              unfold bigPrimOf at hbig
              split at hbig <;> simp at hbig <;> subst hbig <;> simp
            rcases hwire with ⟨hwp, hw⟩ | ⟨hwp, hw⟩
            · rw [hw]
              refine iterV_reads env (.prim .nat) _ (fun s x s' hx => ?_) n s3 st' vs h5
              rw [if_pos hwp] at hx
              exact bigNum_nat_reads env _ s s' x hx
            · rw [hw]
              refine iterV_reads env (.prim .int) _ (fun s x s' hx => ?_) n s3 st' vs h5
              rw [if_neg (by rw [hwp]; decide)] at hx
              exact bigNum_int_reads env s s' x hx
        · obtain ⟨vs, h5, _⟩ := rmap_ok_inv h2
          refine iterV_reads env wire _ (fun s x s' hx => ?_) n s2 st' vs h5
          obtain ⟨_, s3, h3, h4⟩ := bind_ok_inv hx
          have i3 := addCost_input h3
          rw [← i3]
          split at h4
          · exact hi wire s3 x s' h4
          · rename_i hvis
            have hfo' : FO S vis wire ee := by
              rcases hfo with h1 | ⟨h1, _⟩
              · exact Or.inl (by simpa [cleanTy] using h1)
              · exact absurd h1 hvis
            exact ha wire ee s3 x s' hfo' h4
  · exact absurd h (subErr_ne_ok _ _ _)


theorem checkSubtype_input {env : Env} {w e : Ty} {st s : St} {u : Unit} (h : checkSubtype env w e st = .ok u s) :
    s.input = st.input := by
  unfold checkSubtype at h
  obtain ⟨_, s1, h1, h2⟩ := bind_ok_inv h
  have i1 := addCost_input h1
  split at h2
  · simp only [R.ok.injEq] at h2
    rw [← h2.2]; exact i1
  · simp at h2
  · exact absurd h2 (subErr_ne_ok _ _ _)

theorem Reads.principal_of {env : Env} {i o b : Bytes} (h : readPrincipal i = .ok (b, o)) :
    Reads env .principal i o := ⟨1, .principal b, by simp [decVal, h, Outcome.map]⟩
theorem Reads.service_of {env : Env} {ms : Meths} {i o b : Bytes} (h : readPrincipal i = .ok (b, o)) :
    Reads env (.service ms) i o := ⟨1, .service b, by simp [decVal, h, Outcome.map]⟩

theorem deAnyBody_reads (env : Env) (S : List String) (hc : CleanCtx env S) (vis : Visitor) (f : Nat)
    (dAny : Ty → Ty → St → R Val) (dIgn : Ty → St → R Val) (dRec : Ty → Ty → St → R Val)
    (dFld : List FieldStep → St → List (Label × Val) → R Val)
    (ha : HA env S vis dAny) (hi : HI env dIgn) (hr : HA env S vis dRec) (hf : HF env S vis dFld)
    (w e : Ty) (hfo : FO S vis w e) (st st' : St) (v : Val)
    (h : deAnyBody env vis f dAny dIgn dRec dFld w e st = .ok v st') : Reads env w st.input st'.input := by
  unfold deAnyBody at h
  cases e with
  | prim p =>
    cases p <;> simp only [] at h
    case int =>
      split at h
      · exact bigNum_int_reads env st st' v h
      · exact bigNum_nat_reads env _ st st' v h
      · exact absurd h (subErr_ne_ok _ _ _)
    case nat =>
      split at h
      · rename_i hw; rw [hw]; exact bigNum_nat_reads env _ st st' v h
      · exact absurd h (subErr_ne_ok _ _ _)
    case text =>
      split at h
      · rename_i hw
        obtain ⟨b, s, h1, h2⟩ := bind_ok_inv h
        obtain ⟨n, r, hl, ht⟩ := lenBytes_ok_inv h1
        split at h2
        · rename_i str hu
          simp only [R.ok.injEq] at h2
          rw [hw, ← h2.2]
          exact Reads.prim_of env .text _ _ (.text str) (by simp [decPrim, hl, ht, hu])
        · simp at h2
      · exact absurd h (subErr_ne_ok _ _ _)
    case reserved =>
      obtain ⟨x, s, h1, h2⟩ := bind_ok_inv h
      obtain ⟨_, h3, _⟩ := rmap_ok_inv h2
      have i3 := addCost_input h3
      rw [i3]
      split at h1
      · exact hi w st x s h1
      · rename_i hw
        simp only [R.ok.injEq] at h1
        have : w = .prim .reserved := by simpa using hw
        rw [this, ← h1.2]
        exact Reads.reserved env _
    case empty =>
      split at h
      · simp at h
      · exact absurd h (subErr_ne_ok _ _ _)
    all_goals exact dePrimExact_reads env _ _ w _ st st' v h
  | principal =>
    simp only [] at h
    split at h
    · obtain ⟨b, h1, _⟩ := rmap_ok_inv h
      exact Reads.principal_of (dePrincipalBytes_ok_inv h1)
    · obtain ⟨b, h1, _⟩ := rmap_ok_inv h
      exact Reads.service_of (dePrincipalBytes_ok_inv h1)
    · exact absurd h (subErr_ne_ok _ _ _)
  | opt e2 =>
    simp only [] at h
    obtain ⟨_, s1, h1, h2⟩ := bind_ok_inv h
    rw [← addCost_input h1]
    exact deOptCase_reads env S hc vis f dRec hr w e2 hfo s1 st' v h2
  | vec ee =>
    simp only [] at h
    split at h
    · exact deBlobCase_reads env w st st' v h
    · obtain ⟨_, s1, h1, h2⟩ := bind_ok_inv h
      rw [← addCost_input h1]
      exact deVecCase_reads env S vis f dAny dIgn ha hi w ee hfo s1 st' v h2
  | record efs =>
    simp only [] at h
    obtain ⟨_, s1, h1, h2⟩ := bind_ok_inv h
    rw [← addCost_input h1]
    split at h2
    · rename_i wfs
      have hsteps : ∀ s ∈ mergeFields (efs.toList.length + wfs.toList.length + 1) efs.toList wfs.toList, stepOk S vis s := by
        rcases hfo with h1 | ⟨h1, h2⟩
        · exact mergeFields_clean S vis _ _ _ (fun p hp => cleanFields_mem S efs p (by simpa [cleanTy] using h1) hp)
        · simp only [Ty.record.injEq] at h2
          subst h2; subst h1
          exact mergeFields_self S _ _
      have := hf _ s1 [] v st' hsteps h2
      rw [mergeFields_wire _ _ _ (by omega)] at this
      exact Reads.record_of this
    · exact absurd h2 (subErr_ne_ok _ _ _)
  | variant efs =>
    simp only [] at h
    obtain ⟨_, s1, h1, h2⟩ := bind_ok_inv h
    rw [← addCost_input h1]
    exact deVariantCase_reads env S vis dAny dIgn ha hi w efs hfo s1 st' v h2
  | service ms =>
    simp only [] at h
    obtain ⟨_, s1, h1, h2⟩ := bind_ok_inv h
    rw [← checkSubtype_input h1]
    split at h2
    · obtain ⟨b, h3, _⟩ := rmap_ok_inv h2
      exact Reads.service_of (dePrincipalBytes_ok_inv h3)
    · exact absurd h2 (subErr_ne_ok _ _ _)
  | func a r m =>
    simp only [] at h
    obtain ⟨_, s1, h1, h2⟩ := bind_ok_inv h
    rw [← checkSubtype_input h1]
    exact deFuncCase_reads env w s1 st' v h2
  | future =>
    simp only [] at h
    have hw : w = .future := by
      rcases hfo with h1 | ⟨_, h2⟩
      · simp [cleanTy] at h1
      · exact h2.symm
    obtain ⟨n, s1, h1, h2⟩ := bind_ok_inv h
    obtain ⟨_, s2, h3, h4⟩ := bind_ok_inv h2
    obtain ⟨m, s3, h5, h6⟩ := bind_ok_inv h4
    obtain ⟨x, h7, _⟩ := rmap_ok_inv h6
    have r1 := rd_ok_inv h1
    have i2 := addCost_input h3
    have r3 := rd_ok_inv h5
    have r4 := rd_ok_inv h7
    rw [i2] at r3
    rw [hw]
    refine ⟨1, .null, ?_⟩
    simp [decVal, r1, r3, r4, Outcome.map]
  | var x => simp at h
  | knot k => simp at h
  | unknown => simp at h
  | cls a t => simp at h


/-! ### the four entry points, at every depth -/

theorem unroll_inv {env : Env} {fuel : Nat} {w0 e0 w e : Ty} {st0 st : St}
    (h : unroll env fuel w0 e0 st0 = .ok (w, e) st) :
    st.input = st0.input ∧
    (if Sub.isName e0 then env.trace fuel e0 = some e else e = e0) ∧
    (if Sub.isName w0 then env.trace fuel w0 = some w else w = w0) := by
  unfold unroll at h
  simp only [] at h
  obtain ⟨e', s1, h1, h2⟩ := bind_ok_inv h
  have hE : s1.input = st0.input ∧ (if Sub.isName e0 then env.trace fuel e0 = some e' else e' = e0) := by
    split at h1
    · rename_i hn
      obtain ⟨_, s2, h3, h4⟩ := bind_ok_inv h1
      obtain ⟨h5, h6⟩ := ofOpt_ok_inv h4
      rw [if_pos hn, h6, addCost_input h3]
      exact ⟨rfl, h5⟩
    · rename_i hn
      simp only [R.ok.injEq] at h1
      rw [if_neg hn, ← h1.2, h1.1]
      exact ⟨rfl, rfl⟩
  split at h2
  · rename_i hn
    obtain ⟨_, s2, h3, h4⟩ := bind_ok_inv h2
    obtain ⟨w', h5, h6⟩ := rmap_ok_inv h4
    obtain ⟨h7, h8⟩ := ofOpt_ok_inv h5
    simp only [Prod.mk.injEq] at h6
    obtain ⟨rfl, rfl⟩ := h6
    rw [if_pos hn, h8, addCost_input h3]
    exact ⟨hE.1, hE.2, h7⟩
  · rename_i hn
    simp only [R.ok.injEq, Prod.mk.injEq] at h2
    obtain ⟨⟨rfl, rfl⟩, rfl⟩ := h2
    rw [if_neg hn]
    exact ⟨hE.1, hE.2, rfl⟩

theorem deFields_step_reads (env : Env) (S : List String) (hc : CleanCtx env S) (vis : Visitor) (f : Nat)
    (ha : HA env S vis (deAny env vis f)) (hi : HI env (deIgnored env f)) (hf : HF env S vis (deFields env vis f)) :
    HF env S vis (deFields env vis (f + 1)) := by
  intro steps st acc v st' hok h
  cases steps with
  | nil =>
    unfold deFields at h
    obtain ⟨_, h1, _⟩ := rmap_ok_inv h
    simp only [wireOf, ReadsSeq]
    exact addCost_input h1
  | cons step rest =>
    unfold deFields at h
    obtain ⟨_, s1, h1, h2⟩ := bind_ok_inv h
    have i1 := addCost_input h1
    have hrest : ∀ s ∈ rest, stepOk S vis s := fun s hs => hok s (by simp [hs])
    have hstep := hok step (by simp)
    cases step with
    | both l et wt =>
      simp only [] at h2
      obtain ⟨_, s2, h3, h4⟩ := bind_ok_inv h2
      obtain ⟨_, s3, h5, h6⟩ := bind_ok_inv h4
      obtain ⟨x, s4, h7, h8⟩ := bind_ok_inv h6
      have i3 : s3.input = st.input := by rw [addCost_input h5, addCost_input h3, i1]
      simp only [wireOf]
      refine ⟨s4.input, ?_, hf rest s4 _ v st' hrest h8⟩
      rw [← i3]
      split at h7
      · exact hi wt s3 x s4 h7
      · exact ha wt et s3 x s4 hstep h7
    | expectOnly l et =>
      simp only [] at h2
      split at h2
      · simp at h2
      · rename_i et' htr
        split at h2
        · exact absurd h2 (subErr_ne_ok _ _ _)
        · obtain ⟨_, s2, h3, h4⟩ := bind_ok_inv h2
          obtain ⟨_, s3, h5, h6⟩ := bind_ok_inv h4
          obtain ⟨x, s4, h7, h8⟩ := bind_ok_inv h6
          have i3 : s3.input = st.input := by rw [addCost_input h5, addCost_input h3, i1]
          have hcl : cleanTy S et' = true := trace_clean env S hc f et et' hstep htr
          have hnull := (ha (.prim .null) et' s3 x s4 (Or.inl hcl) h7).null_inv
          simp only [wireOf]
          have := hf rest s4 _ v st' hrest h8
          rw [hnull, i3] at this
          exact this
    | expectTail l et =>
      simp only [] at h2
      obtain ⟨_, s2, h3, h4⟩ := bind_ok_inv h2
      obtain ⟨_, s3, h5, h6⟩ := bind_ok_inv h4
      obtain ⟨x, s4, h7, h8⟩ := bind_ok_inv h6
      have i3 : s3.input = st.input := by rw [addCost_input h5, addCost_input h3, i1]
      have hnull := (ha (.prim .null) et s3 x s4 (Or.inl hstep) h7).null_inv
      simp only [wireOf]
      have := hf rest s4 _ v st' hrest h8
      rw [hnull, i3] at this
      exact this
    | wireOnly wt =>
      simp only [] at h2
      obtain ⟨_, s2, h3, h4⟩ := bind_ok_inv h2
      obtain ⟨_, s3, h5, h6⟩ := bind_ok_inv h4
      obtain ⟨x, s4, h7, h8⟩ := bind_ok_inv h6
      have i3 : s3.input = st.input := by rw [addCost_input h5, addCost_input h3, i1]
      simp only [wireOf]
      refine ⟨s4.input, ?_, hf rest s4 _ v st' hrest h8⟩
      rw [← i3]
      exact ha wt (.prim .reserved) s3 x s4 (Or.inl (by simp [cleanTy])) h7

/-- **every entry point of the decoder consumes exactly one value of the wire type it was given** -/
theorem de_reads (env : Env) (S : List String) (hc : CleanCtx env S) : ∀ fuel : Nat,
    (∀ vis, HA env S vis (deAny env vis fuel)) ∧ HI env (deIgnored env fuel) ∧
    (∀ vis, HA env S vis (recoverable env vis fuel)) ∧ (∀ vis, HF env S vis (deFields env vis fuel)) := by
  intro fuel
  induction fuel with
  | zero =>
    refine ⟨?_, ?_, ?_, ?_⟩
    · intro vis w e st v st' _ h; rw [deAny_zero] at h; simp at h
    · intro w st v st' h; rw [deIgnored_zero] at h; simp at h
    · intro vis w e st v st' _ h; rw [recoverable_zero] at h; simp at h
    · intro vis steps st acc v st' _ h; rw [deFields_zero] at h; simp at h
  | succ f ih =>
    obtain ⟨ihAny, ihIgn, ihRec, ihFld⟩ := ih
    refine ⟨?_, ?_, ?_, ?_⟩
    · intro vis w0 e0 st0 v st' hfo h
      rw [deAny_succ] at h
      obtain ⟨we, st, h1, h2⟩ := bind_ok_inv h
      obtain ⟨w, e⟩ := we
      obtain ⟨hin, hE, hW⟩ := unroll_inv h1
      have hfo' : FO S vis w e := by
        rcases hfo with hcl | ⟨hv, heq⟩
        · left
          split at hE
          · exact trace_clean env S hc f e0 e hcl hE
          · rw [hE]; exact hcl
        · right
          refine ⟨hv, ?_⟩
          subst heq
          split at hE
          · rename_i hn
            rw [if_pos hn] at hW
            rw [hE] at hW
            simpa using hW
          · rename_i hn
            rw [if_neg hn] at hW
            rw [hE, hW]
      have := deAnyBody_reads env S hc vis f _ _ _ _ (ihAny vis) ihIgn (ihRec vis) (ihFld vis) w e hfo' st st' v h2
      rw [hin] at this
      split at hW
      · exact Reads.of_trace hW this
      · rw [← hW]; exact this
    · intro w st v st' h
      rw [deIgnored_succ] at h
      obtain ⟨x, s, h1, h2⟩ := bind_ok_inv h
      simp only [R.ok.injEq] at h2
      have := ihAny .ignored w w _ x s (Or.inr ⟨rfl, rfl⟩) h1
      rw [← h2.2]
      exact this
    · intro vis w e st v st' hfo h
      rw [recoverable_succ] at h
      have hinner : ∀ x s, (if vis = .ignored then deIgnored env f w st else deAny env vis f w e st) = .ok x s →
          Reads env w st.input s.input := by
        intro x s hx
        split at hx
        · exact ihIgn w st x s hx
        · exact ihAny vis w e st x s hfo hx
      cases hx : (if vis = Visitor.ignored then deIgnored env f w st else deAny env vis f w e st) with
      | ok x s =>
        rw [hx] at h
        simp only [R.ok.injEq] at h
        rw [← h.2]
        exact hinner x s hx
      | sub dq sq =>
        rw [hx] at h
        simp only [] at h
        obtain ⟨_, s1, h1, h2⟩ := bind_ok_inv h
        obtain ⟨y, h3, _⟩ := rmap_ok_inv h2
        have i1 := addCost_input h1
        have := ihIgn w s1 y st' h3
        rw [i1] at this
        exact this
      | err k => rw [hx] at h; simp at h
      | panic p => rw [hx] at h; simp at h
    · intro vis
      exact deFields_step_reads env S hc vis f (ihAny vis) ihIgn (ihFld vis)


/-! ### the argument sequence and the whole message -/

theorem drain_reads (env : Env) (S : List String) (hc : CleanCtx env S) : ∀ (ws : List Ty) (st st' : St) (u : Unit),
    argLoop.drain env ws st = .ok u st' → ReadsSeq env ws st.input st'.input := by
  intro ws
  induction ws with
  | nil =>
    intro st st' u h
    unfold argLoop.drain at h
    simp only [R.ok.injEq] at h
    simp only [ReadsSeq]; rw [h.2]
  | cons w ws ih =>
    intro st st' u h
    unfold argLoop.drain at h
    obtain ⟨x, s, h1, h2⟩ := bind_ok_inv h
    have := (de_reads env S hc defaultFuel).2.1 w _ x s h1
    exact ⟨s.input, this, ih s st' u h2⟩

theorem argLoop_reads (env : Env) (S : List String) (hc : CleanCtx env S) : ∀ (es ws : List Ty) (st st' : St)
    (acc vs : List Val), (∀ e ∈ es, cleanTy S e = true) → argLoop env es ws st acc = .ok vs st' →
    ReadsSeq env ws st.input [] := by
  intro es
  induction es with
  | nil =>
    intro ws st st' acc vs _ h
    unfold argLoop at h
    obtain ⟨u, s, h1, h2⟩ := bind_ok_inv h
    have hr := drain_reads env S hc ws st s u h1
    split at h2
    · rename_i hemp
      have : s.input = [] := by simpa using hemp
      rw [this] at hr
      exact hr
    · simp at h2
  | cons e es ih =>
    intro ws st st' acc vs hcl h
    unfold argLoop at h
    simp only [] at h
    split at h
    · simp at h
    · rename_i e' htr
      have he' : cleanTy S e' = true := trace_clean env S hc _ e e' (hcl e (by simp)) htr
      have hes : ∀ x ∈ es, cleanTy S x = true := fun x hx => hcl x (by simp [hx])
      split at h
      · split at h
        · obtain ⟨x, s, h1, h2⟩ := bind_ok_inv h
          have hn := ((de_reads env S hc defaultFuel).1 .idl (.prim .null) e' _ x s (Or.inl he') h1).null_inv
          have := ih [] s st' _ vs hes h2
          simp only [ReadsSeq] at this ⊢
          rw [hn] at this
          exact this
        · simp at h
      · rename_i w ws'
        obtain ⟨x, s, h1, h2⟩ := bind_ok_inv h
        have hr := (de_reads env S hc defaultFuel).1 .idl w e' _ x s (Or.inl he') h1
        exact ⟨s.input, hr, ih ws' s st' _ vs hes h2⟩

/-- **The decoder accepts only well-formed messages**: whenever decoding returns values — under any quotas, at any
expected types that are free of the `future` placeholder and closed in the working environment — the bytes are a
header the specification's parser accepts, followed by exactly one well-formed value of each declared argument type,
with nothing left over. -/
theorem decode_ok_wellformed (bs : Bytes) (env : Env) (expected : List Ty) (cfg : Config) (vs : List Val) (st : St)
    (h : decodeWithConfig bs env expected cfg = .ok vs st) :
    ∃ hd body, parseHeader bs = .ok (hd, body) ∧
      ∀ S, CleanCtx (workEnv hd env expected).1 S → (∀ e ∈ (workEnv hd env expected).2, cleanTy S e = true) →
        ∃ m ws, decArgs (workEnv hd env expected).1 m hd.args body = .ok (ws, []) := by
  unfold decodeWithConfig at h
  cases hp : parseHeader bs with
  | err k => rw [hp] at h; simp at h
  | panic q => rw [hp] at h; simp at h
  | ok x =>
    obtain ⟨hd, body⟩ := x
    refine ⟨hd, body, rfl, ?_⟩
    intro S hc hcl
    rw [hp] at h
    simp only [] at h
    have hw : (if expected.isEmpty = true then (hd.table, expected) else mergeEnv hd.table env expected) = workEnv hd env expected := rfl
    rw [hw] at h
    cases hwe : workEnv hd env expected with
    | mk full expected' =>
      rw [hwe] at h hc hcl
      simp only [] at h hc hcl ⊢
      obtain ⟨_, st1, h1, h2⟩ := bind_ok_inv h
      have i1 := addCost_input h1
      have hr := argLoop_reads full S hc expected' hd.args st1 st [] vs hcl h2
      rw [i1] at hr
      exact readsSeq_decArgs full hd.args body [] hr

/-- with no expected types (everything is skipped) no side condition is left -/
theorem decode_skip_wellformed (bs : Bytes) (env : Env) (cfg : Config) (vs : List Val) (st : St)
    (h : decodeWithConfig bs env [] cfg = .ok vs st) :
    ∃ hd body m ws, parseHeader bs = .ok (hd, body) ∧ decArgs hd.table m hd.args body = .ok (ws, []) := by
  obtain ⟨hd, body, hp, hrest⟩ := decode_ok_wellformed bs env [] cfg vs st h
  have hw : workEnv hd env [] = (hd.table, []) := rfl
  rw [hw] at hrest
  obtain ⟨m, ws, hd'⟩ := hrest [] (fun x hx => by simp at hx) (fun e he => by simp at he)
  exact ⟨hd, body, m, ws, hp, hd'⟩

end Candid.De
