import CandidModel.Proofs.De
import CandidModel.Proofs.SubSound
/-
  The untyped decoder mirror against itself at two depth budgets: whenever neither run is starved (`err limit`: the
  budget ran out, at a recursion or while unfolding a name) the two runs end the same way — same value, same state,
  same failure.  This is what lets statements about two decoders that spend their budgets differently be compared.
-/
namespace Candid.De
open Candid Candid.Wire Candid.Leb

/-- agreement unless one side was starved -/
def AM {α : Type} (x y : R α) : Prop := x = .err .limit ∨ y = .err .limit ∨ x = y

theorem AM.refl {α : Type} (x : R α) : AM x x := Or.inr (Or.inr rfl)
theorem AM.left {α : Type} (y : R α) : AM (.err .limit) y := Or.inl rfl
theorem AM.right {α : Type} (x : R α) : AM x (.err .limit) := Or.inr (Or.inl rfl)

theorem AM.bind {α β : Type} {x y : R α} {f g : α → St → R β} (hxy : AM x y) (hfg : ∀ a s, AM (f a s) (g a s)) :
    AM (x.bind f) (y.bind g) := by
  rcases hxy with h | h | h
  · subst h; exact AM.left _
  · subst h; exact AM.right _
  · subst h
    cases x with
    | ok a s => exact hfg a s
    | sub d q => exact AM.refl _
    | err k => exact AM.refl _
    | panic p => exact AM.refl _

theorem AM.map {α β : Type} {x y : R α} (f : α → β) (hxy : AM x y) : AM (x.map f) (y.map f) :=
  AM.bind hxy (fun _ _ => AM.refl _)

theorem AM.ite {α : Type} (c : Prop) [Decidable c] {a b a' b' : R α} (h1 : AM a b) (h2 : AM a' b') :
    AM (if c then a else a') (if c then b else b') := by
  split
  · exact h1
  · exact h2

theorem ofOpt_trace_am (env : Env) (n m : Nat) (t : Ty) (s : St) :
    AM (ofOpt (env.trace n t) .limit s) (ofOpt (env.trace m t) .limit s) := by
  cases h1 : env.trace n t with
  | none => exact AM.left _
  | some a =>
    cases h2 : env.trace m t with
    | none => exact AM.right _
    | some b => rw [Sub.trace_det env n m t a b h1 h2]; exact AM.refl _

theorem unroll_am (env : Env) (n m : Nat) (w e : Ty) (st : St) : AM (unroll env n w e st) (unroll env m w e st) := by
  unfold unroll
  apply AM.bind
  · split
    · exact AM.bind (AM.refl _) (fun _ s => ofOpt_trace_am env n m e s)
    · exact AM.refl _
  · intro e' s1
    split
    · exact AM.bind (AM.refl _) (fun _ s2 => AM.map _ (ofOpt_trace_am env n m w s2))
    · exact AM.refl _

theorem iterV_am (f g : St → R Val) (h : ∀ s, AM (f s) (g s)) : ∀ (k : Nat) (s : St), AM (iterV f k s) (iterV g k s) := by
  intro k
  induction k with
  | zero => intro s; exact AM.refl _
  | succ k ih =>
    intro s
    unfold iterV
    exact AM.bind (h s) (fun v s' => AM.map _ (ih s'))

theorem deOptCase_am (env : Env) (n m : Nat) (r1 r2 : Ty → Ty → St → R Val) (hr : ∀ w e s, AM (r1 w e s) (r2 w e s))
    (w e2 : Ty) (s1 : St) : AM (deOptCase env n r1 w e2 s1) (deOptCase env m r2 w e2 s1) := by
  unfold deOptCase
  split
  · exact AM.refl _
  · exact AM.refl _
  · cases s1.input with
    | nil => exact AM.refl _
    | cons b rest =>
      simp only []
      split
      · exact AM.refl _
      · split
        · exact hr _ _ _
        · exact AM.refl _
  · cases h1 : env.trace n e2 with
    | none => exact AM.left _
    | some a =>
      cases h2 : env.trace m e2 with
      | none => exact AM.right _
      | some b => rw [Sub.trace_det env n m e2 a b h1 h2]; exact hr _ _ _

theorem deVecCase_am (env : Env) (vis : Visitor) (n m : Nat) (a1 a2 : Ty → Ty → St → R Val) (i1 i2 : Ty → St → R Val)
    (ha : ∀ w e s, AM (a1 w e s) (a2 w e s)) (hi : ∀ w s, AM (i1 w s) (i2 w s)) (w ee : Ty) (s1 : St) :
    AM (deVecCase env vis n a1 i1 w ee s1) (deVecCase env vis m a2 i2 w ee s1) := by
  unfold deVecCase
  cases w with
  | vec ww =>
    simp only []
    cases h1 : env.trace n ww with
    | none => exact AM.left _
    | some x =>
      cases h2 : env.trace m ww with
      | none => exact AM.right _
      | some y =>
        rw [Sub.trace_det env n m ww x y h1 h2]
        simp only []
        apply AM.bind (AM.refl _)
        intro k s2
        split
        · exact AM.refl _
        · split
          · exact AM.refl _
          · apply AM.map
            apply iterV_am
            intro s
            apply AM.bind (AM.refl _)
            intro _ s'
            split
            · exact hi _ _
            · exact ha _ _ _
  | _ => exact AM.refl _

theorem deVariantCase_am (vis : Visitor) (a1 a2 : Ty → Ty → St → R Val) (i1 i2 : Ty → St → R Val)
    (ha : ∀ w e s, AM (a1 w e s) (a2 w e s)) (hi : ∀ w s, AM (i1 w s) (i2 w s)) (w : Ty) (efs : Fields) (s1 : St) :
    AM (deVariantCase vis a1 i1 w efs s1) (deVariantCase vis a2 i2 w efs s1) := by
  unfold deVariantCase
  cases w with
  | variant wfs =>
    simp only []
    apply AM.bind (AM.refl _)
    intro idx s2
    split
    · exact AM.refl _
    · split
      · exact AM.refl _
      · apply AM.bind (AM.refl _); intro _ s3
        apply AM.bind (AM.refl _); intro _ s4
        refine AM.ite _ (AM.refl _) ?_
        apply AM.bind (AM.refl _); intro _ s5
        exact AM.ite _ (AM.map _ (hi _ _)) (AM.map _ (ha _ _ _))
  | _ => exact AM.refl _

theorem deAnyBody_am (env : Env) (vis : Visitor) (n m : Nat)
    (a1 a2 : Ty → Ty → St → R Val) (i1 i2 : Ty → St → R Val) (r1 r2 : Ty → Ty → St → R Val)
    (f1 f2 : List FieldStep → St → List (Label × Val) → R Val)
    (ha : ∀ w e s, AM (a1 w e s) (a2 w e s)) (hi : ∀ w s, AM (i1 w s) (i2 w s)) (hr : ∀ w e s, AM (r1 w e s) (r2 w e s))
    (hf : ∀ steps s acc, AM (f1 steps s acc) (f2 steps s acc)) (w e : Ty) (st : St) :
    AM (deAnyBody env vis n a1 i1 r1 f1 w e st) (deAnyBody env vis m a2 i2 r2 f2 w e st) := by
  unfold deAnyBody
  cases e with
  | prim p =>
    cases p <;> simp only [] <;> try (exact AM.refl _)
    -- reserved
    apply AM.bind
    · split
      · exact hi _ _
      · exact AM.refl _
    · intro _ s; exact AM.refl _
  | principal => exact AM.refl _
  | opt e2 =>
    simp only []
    exact AM.bind (AM.refl _) (fun _ s1 => deOptCase_am env n m r1 r2 hr w e2 s1)
  | vec ee =>
    simp only []
    split
    · exact AM.refl _
    · exact AM.bind (AM.refl _) (fun _ s1 => deVecCase_am env vis n m a1 a2 i1 i2 ha hi w ee s1)
  | record efs =>
    simp only []
    apply AM.bind (AM.refl _)
    intro _ s1
    split
    · exact hf _ _ _
    · exact AM.refl _
  | variant efs =>
    simp only []
    exact AM.bind (AM.refl _) (fun _ s1 => deVariantCase_am vis a1 a2 i1 i2 ha hi w efs s1)
  | service ms => exact AM.refl _
  | func a r md => exact AM.refl _
  | future => exact AM.refl _
  | var x => exact AM.refl _
  | knot k => exact AM.refl _
  | unknown => exact AM.refl _
  | cls a t => exact AM.refl _

/-- **the untyped mirror agrees with itself across depth budgets** -/
theorem de_fuel_agree (env : Env) : ∀ (n m : Nat),
    (∀ vis w e s, AM (deAny env vis n w e s) (deAny env vis m w e s)) ∧
    (∀ w s, AM (deIgnored env n w s) (deIgnored env m w s)) ∧
    (∀ vis w e s, AM (recoverable env vis n w e s) (recoverable env vis m w e s)) ∧
    (∀ vis steps s acc, AM (deFields env vis n steps s acc) (deFields env vis m steps s acc)) := by
  intro n
  induction n with
  | zero =>
    intro m
    refine ⟨?_, ?_, ?_, ?_⟩
    · intro vis w e s; rw [deAny_zero]; exact AM.left _
    · intro w s; rw [deIgnored_zero]; exact AM.left _
    · intro vis w e s; rw [recoverable_zero]; exact AM.left _
    · intro vis steps s acc; rw [deFields_zero]; exact AM.left _
  | succ n ih =>
    intro m
    cases m with
    | zero =>
      refine ⟨?_, ?_, ?_, ?_⟩
      · intro vis w e s; rw [deAny_zero]; exact AM.right _
      · intro w s; rw [deIgnored_zero]; exact AM.right _
      · intro vis w e s; rw [recoverable_zero]; exact AM.right _
      · intro vis steps s acc; rw [deFields_zero]; exact AM.right _
    | succ m =>
      obtain ⟨ihA, ihI, ihR, ihF⟩ := ih m
      refine ⟨?_, ?_, ?_, ?_⟩
      · intro vis w0 e0 s
        rw [deAny_succ, deAny_succ]
        apply AM.bind (unroll_am env n m w0 e0 s)
        intro we st
        exact deAnyBody_am env vis n m _ _ _ _ _ _ _ _ (ihA vis) ihI (ihR vis) (ihF vis) we.1 we.2 st
      · intro w s
        rw [deIgnored_succ, deIgnored_succ]
        exact AM.bind (ihA _ _ _ _) (fun _ _ => AM.refl _)
      · intro vis w e s
        rw [recoverable_succ, recoverable_succ]
        have hin : AM (if vis = .ignored then deIgnored env n w s else deAny env vis n w e s)
            (if vis = .ignored then deIgnored env m w s else deAny env vis m w e s) := by
          split
          · exact ihI _ _
          · exact ihA _ _ _ _
        rcases hin with h | h | h
        · rw [h]; exact AM.left _
        · rw [h]; exact AM.right _
        · rw [h]
          cases (if vis = .ignored then deIgnored env m w s else deAny env vis m w e s) with
          | ok v s' => exact AM.refl _
          | sub d q =>
            simp only []
            exact AM.bind (AM.refl _) (fun _ s1 => AM.map _ (ihI _ _))
          | err k => exact AM.refl _
          | panic p => exact AM.refl _
      · intro vis steps s acc
        cases steps with
        | nil => unfold deFields; exact AM.refl _
        | cons step rest =>
          unfold deFields
          apply AM.bind (AM.refl _)
          intro _ s1
          cases step with
          | both l et wt =>
            simp only []
            apply AM.bind (AM.refl _); intro _ s2
            apply AM.bind (AM.refl _); intro _ s3
            apply AM.bind
            · split
              · exact ihI _ _
              · exact ihA _ _ _ _
            · intro v s4; exact ihF _ _ _ _
          | expectOnly l et =>
            simp only []
            cases h1 : env.trace n et with
            | none => exact AM.left _
            | some a =>
              cases h2 : env.trace m et with
              | none => exact AM.right _
              | some b =>
                rw [Sub.trace_det env n m et a b h1 h2]
                simp only []
                split
                · exact AM.refl _
                · apply AM.bind (AM.refl _); intro _ s2
                  apply AM.bind (AM.refl _); intro _ s3
                  exact AM.bind (ihA _ _ _ _) (fun v s4 => ihF _ _ _ _)
          | expectTail l et =>
            simp only []
            apply AM.bind (AM.refl _); intro _ s2
            apply AM.bind (AM.refl _); intro _ s3
            exact AM.bind (ihA _ _ _ _) (fun v s4 => ihF _ _ _ _)
          | wireOnly wt =>
            simp only []
            apply AM.bind (AM.refl _); intro _ s2
            apply AM.bind (AM.refl _); intro _ s3
            exact AM.bind (ihA _ _ _ _) (fun v s4 => ihF _ _ _ _)


/-! ## more budget never starves a run that was not starved -/

/-- the run with the smaller budget is starved, or the two runs end the same way -/
def LEm {α : Type} (x y : R α) : Prop := x = .err .limit ∨ x = y

theorem LEm.refl {α : Type} (x : R α) : LEm x x := Or.inr rfl
theorem LEm.left {α : Type} (y : R α) : LEm (.err .limit) y := Or.inl rfl

theorem LEm.bind {α β : Type} {x y : R α} {f g : α → St → R β} (hxy : LEm x y) (hfg : ∀ a s, LEm (f a s) (g a s)) :
    LEm (x.bind f) (y.bind g) := by
  rcases hxy with h | h
  · subst h; exact LEm.left _
  · subst h
    cases x with
    | ok a s => exact hfg a s
    | sub d q => exact LEm.refl _
    | err k => exact LEm.refl _
    | panic p => exact LEm.refl _

theorem LEm.map {α β : Type} {x y : R α} (f : α → β) (hxy : LEm x y) : LEm (x.map f) (y.map f) :=
  LEm.bind hxy (fun _ _ => LEm.refl _)

theorem LEm.ite {α : Type} (c : Prop) [Decidable c] {a b a' b' : R α} (h1 : LEm a b) (h2 : LEm a' b') :
    LEm (if c then a else a') (if c then b else b') := by
  split
  · exact h1
  · exact h2

theorem trace_succ (env : Env) : ∀ (n : Nat) (t x : Ty), env.trace n t = some x → env.trace (n + 1) t = some x := by
  intro n
  induction n with
  | zero => intro t x h; simp [Env.trace] at h
  | succ n ih =>
    intro t x h
    cases t with
    | var v =>
      simp only [Env.trace] at h ⊢
      cases hf : env.find v with
      | none => simp [hf] at h
      | some d => simp only [hf] at h ⊢; exact ih d x h
    | _ => simp only [Env.trace] at h ⊢; exact h

theorem ofOpt_trace_le (env : Env) (n : Nat) (t : Ty) (s : St) :
    LEm (ofOpt (env.trace n t) .limit s) (ofOpt (env.trace (n + 1) t) .limit s) := by
  cases h1 : env.trace n t with
  | none => exact LEm.left _
  | some a => rw [trace_succ env n t a h1]; exact LEm.refl _

theorem unroll_le (env : Env) (n : Nat) (w e : Ty) (st : St) : LEm (unroll env n w e st) (unroll env (n + 1) w e st) := by
  unfold unroll
  apply LEm.bind
  · split
    · exact LEm.bind (LEm.refl _) (fun _ s => ofOpt_trace_le env n e s)
    · exact LEm.refl _
  · intro e' s1
    split
    · exact LEm.bind (LEm.refl _) (fun _ s2 => LEm.map _ (ofOpt_trace_le env n w s2))
    · exact LEm.refl _

theorem iterV_le (f g : St → R Val) (h : ∀ s, LEm (f s) (g s)) : ∀ (k : Nat) (s : St), LEm (iterV f k s) (iterV g k s) := by
  intro k
  induction k with
  | zero => intro s; exact LEm.refl _
  | succ k ih =>
    intro s
    unfold iterV
    exact LEm.bind (h s) (fun v s' => LEm.map _ (ih s'))

theorem deOptCase_le (env : Env) (n : Nat) (r1 r2 : Ty → Ty → St → R Val) (hr : ∀ w e s, LEm (r1 w e s) (r2 w e s))
    (w e2 : Ty) (s1 : St) : LEm (deOptCase env n r1 w e2 s1) (deOptCase env (n + 1) r2 w e2 s1) := by
  unfold deOptCase
  split
  · exact LEm.refl _
  · exact LEm.refl _
  · cases s1.input with
    | nil => exact LEm.refl _
    | cons b rest =>
      simp only []
      exact LEm.ite _ (LEm.refl _) (LEm.ite _ (hr _ _ _) (LEm.refl _))
  · cases h1 : env.trace n e2 with
    | none => exact LEm.left _
    | some a => rw [trace_succ env n e2 a h1]; exact hr _ _ _

theorem deVecCase_le (env : Env) (vis : Visitor) (n : Nat) (a1 a2 : Ty → Ty → St → R Val) (i1 i2 : Ty → St → R Val)
    (ha : ∀ w e s, LEm (a1 w e s) (a2 w e s)) (hi : ∀ w s, LEm (i1 w s) (i2 w s)) (w ee : Ty) (s1 : St) :
    LEm (deVecCase env vis n a1 i1 w ee s1) (deVecCase env vis (n + 1) a2 i2 w ee s1) := by
  unfold deVecCase
  cases w with
  | vec ww =>
    simp only []
    cases h1 : env.trace n ww with
    | none => exact LEm.left _
    | some x =>
      rw [trace_succ env n ww x h1]
      simp only []
      apply LEm.bind (LEm.refl _)
      intro k s2
      split
      · exact LEm.refl _
      · split
        · exact LEm.refl _
        · apply LEm.map
          apply iterV_le
          intro s
          apply LEm.bind (LEm.refl _)
          intro _ s'
          exact LEm.ite _ (hi _ _) (ha _ _ _)
  | _ => exact LEm.refl _

theorem deVariantCase_le (vis : Visitor) (a1 a2 : Ty → Ty → St → R Val) (i1 i2 : Ty → St → R Val)
    (ha : ∀ w e s, LEm (a1 w e s) (a2 w e s)) (hi : ∀ w s, LEm (i1 w s) (i2 w s)) (w : Ty) (efs : Fields) (s1 : St) :
    LEm (deVariantCase vis a1 i1 w efs s1) (deVariantCase vis a2 i2 w efs s1) := by
  unfold deVariantCase
  cases w with
  | variant wfs =>
    simp only []
    apply LEm.bind (LEm.refl _)
    intro idx s2
    split
    · exact LEm.refl _
    · split
      · exact LEm.refl _
      · apply LEm.bind (LEm.refl _); intro _ s3
        apply LEm.bind (LEm.refl _); intro _ s4
        refine LEm.ite _ (LEm.refl _) ?_
        apply LEm.bind (LEm.refl _); intro _ s5
        exact LEm.ite _ (LEm.map _ (hi _ _)) (LEm.map _ (ha _ _ _))
  | _ => exact LEm.refl _

theorem deAnyBody_le (env : Env) (vis : Visitor) (n : Nat)
    (a1 a2 : Ty → Ty → St → R Val) (i1 i2 : Ty → St → R Val) (r1 r2 : Ty → Ty → St → R Val)
    (f1 f2 : List FieldStep → St → List (Label × Val) → R Val)
    (ha : ∀ w e s, LEm (a1 w e s) (a2 w e s)) (hi : ∀ w s, LEm (i1 w s) (i2 w s)) (hr : ∀ w e s, LEm (r1 w e s) (r2 w e s))
    (hf : ∀ steps s acc, LEm (f1 steps s acc) (f2 steps s acc)) (w e : Ty) (st : St) :
    LEm (deAnyBody env vis n a1 i1 r1 f1 w e st) (deAnyBody env vis (n + 1) a2 i2 r2 f2 w e st) := by
  unfold deAnyBody
  cases e with
  | prim p =>
    cases p <;> simp only [] <;> try (exact LEm.refl _)
    apply LEm.bind
    · exact LEm.ite _ (hi _ _) (LEm.refl _)
    · intro _ s; exact LEm.refl _
  | principal => exact LEm.refl _
  | opt e2 =>
    simp only []
    exact LEm.bind (LEm.refl _) (fun _ s1 => deOptCase_le env n r1 r2 hr w e2 s1)
  | vec ee =>
    simp only []
    exact LEm.ite _ (LEm.refl _) (LEm.bind (LEm.refl _) (fun _ s1 => deVecCase_le env vis n a1 a2 i1 i2 ha hi w ee s1))
  | record efs =>
    simp only []
    apply LEm.bind (LEm.refl _)
    intro _ s1
    split
    · exact hf _ _ _
    · exact LEm.refl _
  | variant efs =>
    simp only []
    exact LEm.bind (LEm.refl _) (fun _ s1 => deVariantCase_le vis a1 a2 i1 i2 ha hi w efs s1)
  | service ms => exact LEm.refl _
  | func a r md => exact LEm.refl _
  | future => exact LEm.refl _
  | var x => exact LEm.refl _
  | knot k => exact LEm.refl _
  | unknown => exact LEm.refl _
  | cls a t => exact LEm.refl _

/-- **more depth budget never starves a run that was not starved**, and never changes its outcome -/
theorem de_fuel_le (env : Env) : ∀ (n : Nat),
    (∀ vis w e s, LEm (deAny env vis n w e s) (deAny env vis (n + 1) w e s)) ∧
    (∀ w s, LEm (deIgnored env n w s) (deIgnored env (n + 1) w s)) ∧
    (∀ vis w e s, LEm (recoverable env vis n w e s) (recoverable env vis (n + 1) w e s)) ∧
    (∀ vis steps s acc, LEm (deFields env vis n steps s acc) (deFields env vis (n + 1) steps s acc)) := by
  intro n
  induction n with
  | zero =>
    refine ⟨?_, ?_, ?_, ?_⟩
    · intro vis w e s; rw [deAny_zero]; exact LEm.left _
    · intro w s; rw [deIgnored_zero]; exact LEm.left _
    · intro vis w e s; rw [recoverable_zero]; exact LEm.left _
    · intro vis steps s acc; rw [deFields_zero]; exact LEm.left _
  | succ n ih =>
    obtain ⟨ihA, ihI, ihR, ihF⟩ := ih
    refine ⟨?_, ?_, ?_, ?_⟩
    · intro vis w0 e0 s
      rw [deAny_succ, deAny_succ]
      apply LEm.bind (unroll_le env n w0 e0 s)
      intro we st
      exact deAnyBody_le env vis n _ _ _ _ _ _ _ _ (ihA vis) ihI (ihR vis) (ihF vis) we.1 we.2 st
    · intro w s
      rw [deIgnored_succ, deIgnored_succ]
      exact LEm.bind (ihA _ _ _ _) (fun _ _ => LEm.refl _)
    · intro vis w e s
      rw [recoverable_succ, recoverable_succ]
      have hin : LEm (if vis = .ignored then deIgnored env n w s else deAny env vis n w e s)
          (if vis = .ignored then deIgnored env (n + 1) w s else deAny env vis (n + 1) w e s) :=
        LEm.ite _ (ihI _ _) (ihA _ _ _ _)
      rcases hin with h | h
      · rw [h]; exact LEm.left _
      · rw [h]
        cases (if vis = .ignored then deIgnored env (n + 1) w s else deAny env vis (n + 1) w e s) with
        | ok v s' => exact LEm.refl _
        | sub d q =>
          simp only []
          exact LEm.bind (LEm.refl _) (fun _ s1 => LEm.map _ (ihI _ _))
        | err k => exact LEm.refl _
        | panic p => exact LEm.refl _
    · intro vis steps s acc
      cases steps with
      | nil => unfold deFields; exact LEm.refl _
      | cons step rest =>
        unfold deFields
        apply LEm.bind (LEm.refl _)
        intro _ s1
        cases step with
        | both l et wt =>
          simp only []
          apply LEm.bind (LEm.refl _); intro _ s2
          apply LEm.bind (LEm.refl _); intro _ s3
          apply LEm.bind
          · exact LEm.ite _ (ihI _ _) (ihA _ _ _ _)
          · intro v s4; exact ihF _ _ _ _
        | expectOnly l et =>
          simp only []
          cases h1 : env.trace n et with
          | none => exact LEm.left _
          | some a =>
            rw [trace_succ env n et a h1]
            simp only []
            split
            · exact LEm.refl _
            · apply LEm.bind (LEm.refl _); intro _ s2
              apply LEm.bind (LEm.refl _); intro _ s3
              exact LEm.bind (ihA _ _ _ _) (fun v s4 => ihF _ _ _ _)
        | expectTail l et =>
          simp only []
          apply LEm.bind (LEm.refl _); intro _ s2
          apply LEm.bind (LEm.refl _); intro _ s3
          exact LEm.bind (ihA _ _ _ _) (fun v s4 => ihF _ _ _ _)
        | wireOnly wt =>
          simp only []
          apply LEm.bind (LEm.refl _); intro _ s2
          apply LEm.bind (LEm.refl _); intro _ s3
          exact LEm.bind (ihA _ _ _ _) (fun v s4 => ihF _ _ _ _)

/-- a run that is not starved keeps its outcome at every larger budget -/
theorem deAny_stable (env : Env) (vis : Visitor) (w e : Ty) (s : St) (n : Nat) (r : R Val)
    (h : deAny env vis n w e s = r) (hr : r ≠ .err .limit) : ∀ d, deAny env vis (n + d) w e s = r := by
  intro d
  induction d with
  | zero => exact h
  | succ d ih =>
    rcases (de_fuel_le env (n + d)).1 vis w e s with h1 | h1
    · rw [ih] at h1; exact absurd h1 hr
    · rw [← Nat.add_assoc, ← h1]; exact ih

end Candid.De
