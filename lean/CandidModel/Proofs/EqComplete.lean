import CandidModel.Proofs.EqSub
import CandidModel.Proofs.SubComplete
/- helper lemmas for C05: the `equal` check never answers "no" on a pair of equal types — what is left of completeness
   once the depth budget is set aside -/
namespace Candid.Wire
open Candid Candid.Sub Candid.De

theorem tyeq_opt_inv {env : Env} {a' b' : Ty} (h : TyEq env (.opt a') (.opt b')) (hne : (.opt a' : Ty) ≠ .opt b') : TyEq env a' b' := by
  have hF := tyeq_unfold h
  unfold FE at hF
  rcases hF with h1 | ⟨_, _, e1, e2, r⟩ | ⟨_, _, e1, e2, r⟩ | ⟨_, _, e1, e2, r⟩ | ⟨_, _, e1, e2, r⟩ |
    ⟨_, _, _, _, _, e1, e2, ra, rr⟩ | ⟨_, _, e1, e2, r⟩ | ⟨_, _, _, _, e1, e2, ri, rt⟩ | ⟨_, _, e1, e2, r⟩ | ⟨_, _, e1, e2, r⟩
  · exact absurd h1 hne
  · cases e1; cases e2; exact r
  all_goals (first | cases e1 | cases e2)

theorem tyeq_vec_inv {env : Env} {a' b' : Ty} (h : TyEq env (.vec a') (.vec b')) (hne : (.vec a' : Ty) ≠ .vec b') : TyEq env a' b' := by
  have hF := tyeq_unfold h
  unfold FE at hF
  rcases hF with h1 | ⟨_, _, e1, e2, r⟩ | ⟨_, _, e1, e2, r⟩ | ⟨_, _, e1, e2, r⟩ | ⟨_, _, e1, e2, r⟩ |
    ⟨_, _, _, _, _, e1, e2, ra, rr⟩ | ⟨_, _, e1, e2, r⟩ | ⟨_, _, _, _, e1, e2, ri, rt⟩ | ⟨_, _, e1, e2, r⟩ | ⟨_, _, e1, e2, r⟩
  · exact absurd h1 hne
  · cases e1
  · cases e1; cases e2; exact r
  all_goals (first | cases e1 | cases e2)

theorem tyeq_record_inv {env : Env} {f1 f2 : Fields} (h : TyEq env (.record f1) (.record f2)) (hne : (.record f1 : Ty) ≠ .record f2) :
    FieldsEq (TyEq env) f1 f2 := by
  have hF := tyeq_unfold h
  unfold FE at hF
  rcases hF with h1 | ⟨_, _, e1, e2, r⟩ | ⟨_, _, e1, e2, r⟩ | ⟨_, _, e1, e2, r⟩ | ⟨_, _, e1, e2, r⟩ |
    ⟨_, _, _, _, _, e1, e2, ra, rr⟩ | ⟨_, _, e1, e2, r⟩ | ⟨_, _, _, _, e1, e2, ri, rt⟩ | ⟨_, _, e1, e2, r⟩ | ⟨_, _, e1, e2, r⟩
  · exact absurd h1 hne
  · cases e1
  · cases e1
  · cases e1; cases e2; exact r
  all_goals (first | cases e1 | cases e2)

theorem tyeq_variant_inv {env : Env} {f1 f2 : Fields} (h : TyEq env (.variant f1) (.variant f2)) (hne : (.variant f1 : Ty) ≠ .variant f2) :
    FieldsEq (TyEq env) f1 f2 := by
  have hF := tyeq_unfold h
  unfold FE at hF
  rcases hF with h1 | ⟨_, _, e1, e2, r⟩ | ⟨_, _, e1, e2, r⟩ | ⟨_, _, e1, e2, r⟩ | ⟨_, _, e1, e2, r⟩ |
    ⟨_, _, _, _, _, e1, e2, ra, rr⟩ | ⟨_, _, e1, e2, r⟩ | ⟨_, _, _, _, e1, e2, ri, rt⟩ | ⟨_, _, e1, e2, r⟩ | ⟨_, _, e1, e2, r⟩
  · exact absurd h1 hne
  · cases e1
  · cases e1
  · cases e1
  · cases e1; cases e2; exact r
  all_goals (first | cases e1 | cases e2)

theorem tyeq_func_inv {env : Env} {a1 r1 a2 r2 : Tys} {m1 m2 : List FuncMode} (h : TyEq env (.func a1 r1 m1) (.func a2 r2 m2))
    (hne : (.func a1 r1 m1 : Ty) ≠ .func a2 r2 m2) :
    m1 = m2 ∧ TyEq env (tupleTy a1) (tupleTy a2) ∧ TyEq env (tupleTy r1) (tupleTy r2) := by
  have hF := tyeq_unfold h
  unfold FE at hF
  rcases hF with h1 | ⟨_, _, e1, e2, r⟩ | ⟨_, _, e1, e2, r⟩ | ⟨_, _, e1, e2, r⟩ | ⟨_, _, e1, e2, r⟩ |
    ⟨_, _, _, _, _, e1, e2, ra, rr⟩ | ⟨_, _, e1, e2, r⟩ | ⟨_, _, _, _, e1, e2, ri, rt⟩ | ⟨_, _, e1, e2, r⟩ | ⟨_, _, e1, e2, r⟩
  · exact absurd h1 hne
  · cases e1
  · cases e1
  · cases e1
  · cases e1
  · cases e1; cases e2; exact ⟨rfl, ra, rr⟩
  all_goals (first | cases e1 | cases e2)

theorem tyeq_service_inv {env : Env} {m1 m2 : Meths} (h : TyEq env (.service m1) (.service m2)) (hne : (.service m1 : Ty) ≠ .service m2) :
    MethsEq (TyEq env) m1 m2 := by
  have hF := tyeq_unfold h
  unfold FE at hF
  rcases hF with h1 | ⟨_, _, e1, e2, r⟩ | ⟨_, _, e1, e2, r⟩ | ⟨_, _, e1, e2, r⟩ | ⟨_, _, e1, e2, r⟩ |
    ⟨_, _, _, _, _, e1, e2, ra, rr⟩ | ⟨_, _, e1, e2, r⟩ | ⟨_, _, _, _, e1, e2, ri, rt⟩ | ⟨_, _, e1, e2, r⟩ | ⟨_, _, e1, e2, r⟩
  · exact absurd h1 hne
  · cases e1
  · cases e1
  · cases e1
  · cases e1
  · cases e1
  · cases e1; cases e2; exact r
  all_goals (first | cases e1 | cases e2)

theorem tyeq_cls_inv {env : Env} {i1 i2 : Tys} {t1 t2 : Ty} (h : TyEq env (.cls i1 t1) (.cls i2 t2)) (hne : (.cls i1 t1 : Ty) ≠ .cls i2 t2) :
    TyEq env (tupleTy i1) (tupleTy i2) ∧ TyEq env t1 t2 := by
  have hF := tyeq_unfold h
  unfold FE at hF
  rcases hF with h1 | ⟨_, _, e1, e2, r⟩ | ⟨_, _, e1, e2, r⟩ | ⟨_, _, e1, e2, r⟩ | ⟨_, _, e1, e2, r⟩ |
    ⟨_, _, _, _, _, e1, e2, ra, rr⟩ | ⟨_, _, e1, e2, r⟩ | ⟨_, _, _, _, e1, e2, ri, rt⟩ | ⟨_, _, e1, e2, r⟩ | ⟨_, _, e1, e2, r⟩
  · exact absurd h1 hne
  · cases e1
  · cases e1
  · cases e1
  · cases e1
  · cases e1
  · cases e1
  · cases e1; cases e2; exact ⟨ri, rt⟩
  all_goals (first | cases e1 | cases e2)

/-- position-by-position checks that never answer "no" -/
theorem zip_ne_no {α : Type} (env : Env) (n : Nat) (key : α → α → Prop) [∀ x y, Decidable (key x y)]
    (l : List ((α × Ty) × (α × Ty))) (g : Gamma)
    (ih : ∀ (g : Gamma) (a b : Ty), TyEq env a b → eqAlg env n g a b ≠ .no)
    (h : ∀ p ∈ l, key p.1.1 p.2.1 ∧ TyEq env p.1.2 p.2.2) :
    allM (fun g (p : (α × Ty) × (α × Ty)) => if ¬ key p.1.1 p.2.1 then Res.no else eqAlg env n g p.1.2 p.2.2) g l ≠ .no := by
  apply allM_ne_no
  intro g0 p hp
  obtain ⟨hk, he⟩ := h p hp
  rw [if_neg (by simpa using hk)]
  exact ih g0 _ _ he

theorem eqAlg_never_rejects (env : Env) : ∀ (n : Nat) (g : Gamma) (a b : Ty), TyEq env a b → eqAlg env n g a b ≠ .no := by
  intro n
  induction n with
  | zero => intro g a b _; simp [eqAlg]
  | succ n ih =>
    intro g a b heq
    unfold eqAlg
    split
    · simp
    · rename_i hab
      split
      · split
        · simp
        · split
          · split
            · simp
            · rename_i d hd
              exact ih _ d b (tyeq_unfoldL hd heq)
          · split
            · simp
            · rename_i d hd
              exact ih _ a d (tyeq_unfoldR hd heq)
          · simp
      · rename_i hnames
        split
        case h_1 => exact ih _ _ _ (tyeq_opt_inv heq hab)
        case h_2 => exact ih _ _ _ (tyeq_vec_inv heq hab)
        case h_3 =>
          have hinv := tyeq_record_inv heq hab
          rw [if_neg (by simpa using hinv.1)]
          exact zip_ne_no env n (fun (x y : Label) => x.getId = y.getId) _ g ih hinv.2
        case h_4 =>
          have hinv := tyeq_variant_inv heq hab
          rw [if_neg (by simpa using hinv.1)]
          exact zip_ne_no env n (fun (x y : Label) => x.getId = y.getId) _ g ih hinv.2
        case h_5 =>
          have hinv := tyeq_service_inv heq hab
          rw [if_neg (by simpa using hinv.1)]
          exact zip_ne_no env n (fun (x y : String) => x = y) _ g ih hinv.2
        case h_6 =>
          obtain ⟨hm, hargs, hrets⟩ := tyeq_func_inv heq hab
          rw [if_neg (by simpa using hm)]
          have h1 := ih g _ _ hargs
          split
          · exact ih _ _ _ hrets
          · intro hc; exact h1 hc
        case h_7 =>
          obtain ⟨hi, ht⟩ := tyeq_cls_inv heq hab
          have h1 := ih g _ _ hi
          split
          · exact ih _ _ _ ht
          · intro hc; exact h1 hc
        case h_8 => simp
        case h_9 => simp
        case h_10 =>
          rename_i hunk hunkb hopt hvec hrec hvar hserv hfunc hcls
          exfalso
          have hna : ∀ x, a ≠ .var x := by intro x hx; subst hx; exact hnames (Or.inl rfl)
          have hnb : ∀ x, b ≠ .var x := by intro x hx; subst hx; exact hnames (Or.inr rfl)
          have hF := tyeq_unfold heq
          unfold FE at hF
          rcases hF with h1 | ⟨x, y, e1, e2, _⟩ | ⟨x, y, e1, e2, _⟩ | ⟨x, y, e1, e2, _⟩ | ⟨x, y, e1, e2, _⟩ |
            ⟨a1, r1, m, a2, r2, e1, e2, _, _⟩ | ⟨x, y, e1, e2, _⟩ | ⟨i1, t1, i2, t2, e1, e2, _, _⟩ | ⟨x, _, e1, _, _⟩ | ⟨x, _, e1, _, _⟩
          · exact hab h1
          · exact hopt x y e1 e2
          · exact hvec x y e1 e2
          · exact hrec x y e1 e2
          · exact hvar x y e1 e2
          · exact hfunc a1 r1 m a2 r2 m e1 e2
          · exact hserv x y e1 e2
          · exact hcls i1 t1 i2 t2 e1 e2
          · exact hna x e1
          · exact hnb x e1

end Candid.Wire
