import CandidModel.Native
import CandidModel.Proofs.DeWellFormed
import CandidModel.Proofs.SubSound
import CandidModel.Proofs.CoerceSound
import CandidModel.Proofs.NativeLocal
/-
  The two situations the native mirror marks instead of modelling are never reached when the expected type is the type of
  the Rust type (`agree`) and the shortcut flags are set only where their literal types are current (`FlagsFit`):
  the outcome of `deN` does not depend on what a marked situation answers.  Along the way: the flags a call returns
  are the ones it was given, or cleared.
-/
namespace Candid.Native
open Candid Candid.Wire Candid.Leb Candid.De

/-- same outcome whatever the marked situations answer, and the returned flags are the given ones or cleared -/
def Good (fl : Flags) (r r' : NR) : Prop :=
  r = r' ∧ ∀ v fl' s, r = .ok (v, fl') s → fl' = fl ∨ fl' = Flags.clear

theorem Good.same {fl : Flags} (r : NR) (h : ∀ v fl' s, r = .ok (v, fl') s → fl' = fl ∨ fl' = Flags.clear) : Good fl r r :=
  ⟨rfl, h⟩

theorem Good.err (fl : Flags) (k : ErrKind) : Good fl (.err k) (.err k) := ⟨rfl, fun _ _ _ h => by cases h⟩
theorem Good.subErr (fl : Flags) (s : St) : Good fl (subErr s) (subErr s) := ⟨rfl, fun _ _ _ h => by simp [De.subErr] at h⟩

theorem Good.withFlags (fl : Flags) (x : R Val) : Good fl (withFlags fl x) (withFlags fl x) := by
  refine ⟨rfl, fun v fl' s h => ?_⟩
  obtain ⟨a, _, ha⟩ := rmap_ok_inv h
  simp only [Prod.mk.injEq] at ha
  exact Or.inl ha.2.symm

theorem Good.bind {α : Type} {fl : Flags} (x : R α) (f g : α → St → NR)
    (h : ∀ a s, x = .ok a s → Good fl (f a s) (g a s)) : Good fl (x.bind f) (x.bind g) := by
  cases x with
  | ok a s => exact h a s rfl
  | sub d q => exact ⟨rfl, fun _ _ _ e => by simp [R.bind] at e⟩
  | err k => exact ⟨rfl, fun _ _ _ e => by simp [R.bind] at e⟩
  | panic p => exact ⟨rfl, fun _ _ _ e => by simp [R.bind] at e⟩

/-- results mapped to carry cleared flags -/
theorem Good.map_clear {α : Type} {fl : Flags} {r r' : R α} (f : α → Val) (h : r = r') :
    Good fl (r.map fun a => (f a, Flags.clear)) (r'.map fun a => (f a, Flags.clear)) := by
  subst h
  refine ⟨rfl, fun v fl' s e => ?_⟩
  obtain ⟨a, _, ha⟩ := rmap_ok_inv e
  simp only [Prod.mk.injEq] at ha
  exact Or.inr ha.2.symm

theorem Good.weaken_clear {r r' : NR} (h : Good Flags.clear r r') (fl : Flags) : Good fl r r' :=
  ⟨h.1, fun v fl' s e => Or.inr (by rcases h.2 v fl' s e with h1 | h1 <;> exact h1)⟩

theorem FlagsFit.clear (w e : Ty) : FlagsFit Flags.clear w e := by
  refine ⟨?_, ?_, ?_, ?_⟩ <;> simp [Flags.clear]

theorem Flags.eq_clear (fl : Flags) (h1 : fl.big = none) (h2 : fl.text = false) : fl = Flags.clear := by
  cases fl; simp_all [Flags.clear]

theorem traceFull_prim (env : Env) (p : Prim) : Sub.traceFull env (.prim p) = some (.prim p) := by
  unfold Sub.traceFull Env.trace; rfl

/-- a set flag pins the expected type to a literal `nat`, `int` or `text` -/
theorem flags_literal (fl : Flags) (w e : Ty) (hf : FlagsFit fl w e) (hne : fl ≠ Flags.clear) :
    e = .prim .nat ∨ e = .prim .int ∨ e = .prim .text := by
  obtain ⟨h1, h2, h3, h4⟩ := hf
  cases hb : fl.big with
  | some b =>
    cases b
    · exact Or.inl (h1 hb).1
    · exact Or.inr (Or.inl (h2 hb).1)
    · exact Or.inr (Or.inl (h3 hb).1)
  | none =>
    cases ht : fl.text with
    | true => exact Or.inr (Or.inr (h4 ht).1)
    | false => exact absurd (Flags.eq_clear fl hb ht) hne

/-- … so the flags are clear wherever the expected type unfolds to anything else -/
theorem flags_clear_of (env : Env) (fl : Flags) (w e e' : Ty) (hf : FlagsFit fl w e) (ht : Sub.traceFull env e = some e')
    (h1 : e' ≠ .prim .nat) (h2 : e' ≠ .prim .int) (h3 : e' ≠ .prim .text) : fl = Flags.clear := by
  by_cases hc : fl = Flags.clear
  · exact hc
  · rcases flags_literal fl w e hf hc with h | h | h <;> subst h <;> rw [traceFull_prim] at ht <;>
      simp only [Option.some.injEq] at ht <;> subst ht <;> simp at h1 h2 h3

/-- what `unroll` hands on: the full unfoldings of both types -/
theorem unroll_traces {env : Env} {fuel : Nat} {w0 e0 w e : Ty} {st0 st : St}
    (h : unroll env fuel w0 e0 st0 = .ok (w, e) st) :
    Sub.traceFull env e0 = some e ∧ Sub.traceFull env w0 = some w := by
  obtain ⟨_, h1, h2⟩ := unroll_inv h
  have key : ∀ (t0 t : Ty), (if Sub.isName t0 then env.trace fuel t0 = some t else t = t0) → Sub.traceFull env t0 = some t := by
    intro t0 t ht
    split at ht
    · exact Sub.traceFull_of_trace env fuel t0 t ht
    · rename_i hn
      subst ht
      unfold Sub.traceFull
      exact Check.trace_nonvar env _ t (by intro x hx; subst hx; simp [Sub.isName] at hn)
  exact ⟨key e0 e h1, key w0 w h2⟩

/-- `agree` looks at the expected type only through its unfolding -/
theorem agree_traced (env : Env) (renv : REnv) : ∀ (k : Nat) (t : RTy) (e e' : Ty),
    Sub.traceFull env e = some e' → agree env renv k t e = agree env renv k t e' := by
  intro k
  induction k with
  | zero => intro t e e' _; rfl
  | succ k ih =>
    intro t e e' h
    have h' : Sub.traceFull env e' = some e' := by
      unfold Sub.traceFull
      exact Check.trace_nonvar env _ e' (Wire.trace_not_var env _ e e' h)
    cases t <;> simp only [agree, h, h'] <;> try rfl
    case newtype t' => exact ih t' e e' h
    case ref x =>
      cases renv.find x with
      | none => rfl
      | some t' => exact ih t' e e' h

theorem ignF_clear (mk : String → NR) (ign : Ty → St → R Val) (w : Ty) (st : St) :
    ignF mk ign Flags.clear w st = (ign w st).map fun v => (v, Flags.clear) := by
  simp [ignF]

theorem ignF_good (mk mk' : String → NR) (ign : Ty → St → R Val) (fl : Flags) (w : Ty) (st : St) (h : fl = Flags.clear) :
    Good fl (ignF mk ign fl w st) (ignF mk' ign fl w st) := by
  subst h
  rw [ignF_clear, ignF_clear]
  exact Good.map_clear (fun v => v) rfl


/-! ## what `agree` says about the unfolded expected type, per Rust type -/

theorem agree_nat_inv {env : Env} {renv : REnv} {k : Nat} {e e' : Ty} (ha : agree env renv (k + 1) .nat e = true)
    (ht : Sub.traceFull env e = some e') : e' = .prim .nat := by
  simp only [agree, ht] at ha
  cases e' with
  | prim p => cases p <;> first | rfl | simp at ha
  | _ => simp at ha

theorem agree_int_inv {env : Env} {renv : REnv} {k : Nat} {e e' : Ty} (ha : agree env renv (k + 1) .int e = true)
    (ht : Sub.traceFull env e = some e') : e' = .prim .int := by
  simp only [agree, ht] at ha
  cases e' with
  | prim p => cases p <;> first | rfl | simp at ha
  | _ => simp at ha

theorem agree_principal_inv {env : Env} {renv : REnv} {k : Nat} {e e' : Ty} (ha : agree env renv (k + 1) .principal e = true)
    (ht : Sub.traceFull env e = some e') : e' = .principal := by
  simp only [agree, ht] at ha
  cases e' with
  | principal => rfl
  | _ => simp at ha

theorem agree_reserved_inv {env : Env} {renv : REnv} {k : Nat} {e e' : Ty} (ha : agree env renv (k + 1) .reserved e = true)
    (ht : Sub.traceFull env e = some e') : e' = .prim .reserved := by
  simp only [agree, ht] at ha
  cases e' with
  | prim p => cases p <;> first | rfl | simp at ha
  | _ => simp at ha

theorem agree_empty_inv {env : Env} {renv : REnv} {k : Nat} {e e' : Ty} (ha : agree env renv (k + 1) .empty e = true)
    (ht : Sub.traceFull env e = some e') : e' = .prim .empty := by
  simp only [agree, ht] at ha
  cases e' with
  | prim p => cases p <;> first | rfl | simp at ha
  | _ => simp at ha

theorem agree_func_inv {env : Env} {renv : REnv} {k : Nat} {e e' : Ty} (ha : agree env renv (k + 1) .func e = true)
    (ht : Sub.traceFull env e = some e') : ∃ a r m, e' = .func a r m := by
  simp only [agree, ht] at ha
  cases e' with
  | func a r m => exact ⟨_, _, _, rfl⟩
  | _ => simp at ha

theorem agree_service_inv {env : Env} {renv : REnv} {k : Nat} {e e' : Ty} (ha : agree env renv (k + 1) .service e = true)
    (ht : Sub.traceFull env e = some e') : ∃ ms, e' = .service ms := by
  simp only [agree, ht] at ha
  cases e' with
  | service ms => exact ⟨_, rfl⟩
  | _ => simp at ha

theorem agree_prim_inv {env : Env} {renv : REnv} {k : Nat} {p : Prim} {e e' : Ty}
    (ha : agree env renv (k + 1) (.prim p) e = true) (ht : Sub.traceFull env e = some e') :
    e' = .prim p ∧ directPrim p = true := by
  simp only [agree, ht] at ha
  cases e' with
  | prim q =>
    simp only [Bool.and_eq_true, decide_eq_true_eq] at ha
    exact ⟨by rw [ha.1], ha.2⟩
  | _ => simp at ha

theorem agree_opt_inv {env : Env} {renv : REnv} {k : Nat} {t : RTy} {e e' : Ty}
    (ha : agree env renv (k + 1) (.opt t) e = true) (ht : Sub.traceFull env e = some e') :
    ∃ e2, e' = .opt e2 ∧ agree env renv k t e2 = true := by
  simp only [agree, ht] at ha
  cases e' with
  | opt e2 => exact ⟨_, rfl, ha⟩
  | _ => simp at ha

theorem agree_seq_inv {env : Env} {renv : REnv} {k : Nat} {t : RTy} {e e' : Ty}
    (ha : agree env renv (k + 1) (.seq t) e = true) (ht : Sub.traceFull env e = some e') :
    ∃ ee, e' = .vec ee ∧ agree env renv k t ee = true := by
  simp only [agree, ht] at ha
  cases e' with
  | vec ee => exact ⟨_, rfl, ha⟩
  | _ => simp at ha

theorem agree_array_inv {env : Env} {renv : REnv} {k n : Nat} {t : RTy} {e e' : Ty}
    (ha : agree env renv (k + 1) (.array n t) e = true) (ht : Sub.traceFull env e = some e') :
    ∃ ee, e' = .vec ee ∧ agree env renv k t ee = true := by
  simp only [agree, ht] at ha
  cases e' with
  | vec ee => exact ⟨_, rfl, ha⟩
  | _ => simp at ha

theorem agree_bounded_inv {env : Env} {renv : REnv} {k a b c : Nat} {t : RTy} {e e' : Ty}
    (ha : agree env renv (k + 1) (.bounded a b c t) e = true) (ht : Sub.traceFull env e = some e') :
    ∃ ee, e' = .vec ee ∧ agree env renv k t ee = true := by
  simp only [agree, ht] at ha
  cases e' with
  | vec ee => exact ⟨_, rfl, ha⟩
  | _ => simp at ha

theorem agree_tuple_inv {env : Env} {renv : REnv} {k : Nat} {ts : RTys} {e e' : Ty}
    (ha : agree env renv (k + 1) (.tuple ts) e = true) (ht : Sub.traceFull env e = some e') :
    ∃ efs, e' = .record efs ∧ ts.toList.length = efs.toList.length ∧
      ∀ p ∈ ts.toList.zip efs.toList, agree env renv k p.1 p.2.2 = true := by
  simp only [agree, ht] at ha
  cases e' with
  | record efs =>
    simp only [Bool.and_eq_true, decide_eq_true_eq, List.all_eq_true] at ha
    exact ⟨efs, rfl, ha.1.2, ha.2⟩
  | _ => simp at ha

theorem agree_strct_inv {env : Env} {renv : REnv} {k : Nat} {fs : RFields} {e e' : Ty}
    (ha : agree env renv (k + 1) (.strct fs) e = true) (ht : Sub.traceFull env e = some e') :
    ∃ efs, e' = .record efs ∧ fs.select (.named "_") = none ∧
      ∀ p ∈ efs.toList, ∀ kd t, fs.select p.1 = some (kd, t) → agree env renv k t p.2 = true := by
  simp only [agree, ht] at ha
  cases e' with
  | record efs =>
    simp only [Bool.and_eq_true, List.all_eq_true, Option.isNone_iff_eq_none] at ha
    refine ⟨efs, rfl, ha.1, fun p hp kd t hs => ?_⟩
    have := ha.2 p hp
    rw [hs] at this
    exact this
  | _ => simp at ha

theorem agree_enm_inv {env : Env} {renv : REnv} {k : Nat} {vs : RFields} {e e' : Ty}
    (ha : agree env renv (k + 1) (.enm vs) e = true) (ht : Sub.traceFull env e = some e') :
    ∃ efs, e' = .variant efs ∧
      ∀ p ∈ efs.toList, ∀ nm kd t, p.1 = .named nm → vs.select (.named nm) = some (kd, t) → kd ≠ .unit →
        agree env renv k t p.2 = true := by
  simp only [agree, ht] at ha
  cases e' with
  | variant efs =>
    simp only [List.all_eq_true] at ha
    refine ⟨efs, rfl, fun p hp nm kd t hl hs hk => ?_⟩
    have := ha p hp
    rw [hl] at this
    simp only [hs] at this
    cases kd <;> first | exact absurd rfl hk | exact this
  | _ => simp at ha

theorem agree_map_inv {env : Env} {renv : REnv} {k : Nat} {kt vt : RTy} {e e' : Ty}
    (ha : agree env renv (k + 1) (.map kt vt) e = true) (ht : Sub.traceFull env e = some e') :
    ∃ ee, e' = .vec ee ∧ ∀ efs l0 ek l1 ev, Sub.traceFull env ee = some (.record efs) → efs.toList = [(l0, ek), (l1, ev)] →
      l0.getId = 0 → l1.getId = 1 → agree env renv k kt ek = true ∧ agree env renv k vt ev = true := by
  simp only [agree, ht] at ha
  cases e' with
  | vec ee =>
    refine ⟨ee, rfl, fun efs l0 ek l1 ev h1 h2 h3 h4 => ?_⟩
    simp only [h1, h2, h3, h4, and_self, if_true, Bool.and_eq_true] at ha
    exact ha
  | _ => simp at ha

/-! ## leaves -/

theorem nNat_good (mk mk' : String → NR) (env : Env) (renv : REnv) (k : Nat) (fl : Flags) (w e : Ty) (st : St)
    (ha : agree env renv (k + 1) .nat e = true) (hf : FlagsFit fl w e) :
    Good fl (nNat mk env k fl w e st) (nNat mk' env k fl w e st) := by
  unfold nNat
  cases hb : fl.big with
  | some b =>
    cases b with
    | nat => exact Good.withFlags fl _
    | int =>
      have := (hf.2.1 hb).1; subst this
      exact absurd (agree_nat_inv ha (traceFull_prim env .int)) (by simp)
    | natAsInt =>
      have := (hf.2.2.1 hb).1; subst this
      exact absurd (agree_nat_inv ha (traceFull_prim env .int)) (by simp)
  | none =>
    simp only []
    refine Good.bind _ _ _ fun p s hx => ?_
    obtain ⟨w', e'⟩ := p
    have he := agree_nat_inv ha (unroll_traces hx).1
    subst he
    simp only [if_true]
    split
    · exact Good.withFlags fl _
    · exact Good.subErr fl s

theorem nInt_good (mk mk' : String → NR) (env : Env) (renv : REnv) (k : Nat) (fl : Flags) (w e : Ty) (st : St)
    (ha : agree env renv (k + 1) .int e = true) (hf : FlagsFit fl w e) :
    Good fl (nInt mk env k fl w e st) (nInt mk' env k fl w e st) := by
  unfold nInt
  have hbody : ∀ (w' : Ty) (s : St), Good fl
      (match w' with
        | .prim .int => withFlags fl (bigNum intFast s)
        | .prim .nat => withFlags fl (bigNum (natFast fun n => .int n) s)
        | _ => subErr s)
      (match w' with
        | .prim .int => withFlags fl (bigNum intFast s)
        | .prim .nat => withFlags fl (bigNum (natFast fun n => .int n) s)
        | _ => subErr s) := by
    intro w' s
    split
    · exact Good.withFlags fl _
    · exact Good.withFlags fl _
    · exact Good.subErr fl s
  cases hb : fl.big with
  | some b =>
    cases b with
    | nat =>
      have := (hf.1 hb).1; subst this
      exact absurd (agree_int_inv ha (traceFull_prim env .nat)) (by simp)
    | int => exact hbody w st
    | natAsInt => exact hbody w st
  | none =>
    simp only []
    refine Good.bind _ _ _ fun p s hx => ?_
    obtain ⟨w', e'⟩ := p
    have he := agree_int_inv ha (unroll_traces hx).1
    subst he
    simp only [if_true]
    exact hbody w' s


theorem nPrincipal_good (mk mk' : String → NR) (env : Env) (renv : REnv) (k : Nat) (fl : Flags) (w e : Ty) (st : St)
    (ha : agree env renv (k + 1) .principal e = true) :
    Good fl (nPrincipal mk env k fl w e st) (nPrincipal mk' env k fl w e st) := by
  unfold nPrincipal
  refine Good.bind _ _ _ fun p s hx => ?_
  obtain ⟨w', e'⟩ := p
  have he := agree_principal_inv ha (unroll_traces hx).1
  subst he
  simp only []
  split
  · exact Good.withFlags fl _
  · exact Good.withFlags fl _
  · exact Good.subErr fl s

theorem nViaAny_good (mk mk' : String → NR) (env : Env) (renv : REnv) (tl k : Nat) (which : RTy) (fl : Flags) (w e : Ty) (st : St)
    (hw : which = .empty ∨ which = .func ∨ which = .service)
    (ha : agree env renv (k + 1) which e = true) (hf : FlagsFit fl w e) :
    Good fl (nViaAny mk env tl k which fl w e st) (nViaAny mk' env tl k which fl w e st) := by
  unfold nViaAny
  have hbig : fl.big = none := by
    cases hb : fl.big with
    | none => rfl
    | some b =>
      exfalso
      have hne : fl ≠ Flags.clear := by intro h; rw [h] at hb; simp [Flags.clear] at hb
      have hlit : e = .prim .nat ∨ e = .prim .int := by
        obtain ⟨h1, h2, h3, _⟩ := hf
        cases b
        · exact Or.inl (h1 hb).1
        · exact Or.inr (h2 hb).1
        · exact Or.inr (h3 hb).1
      rcases hw with h | h | h <;> subst h <;> rcases hlit with h' | h' <;> subst h'
      · exact absurd (agree_empty_inv ha (traceFull_prim env _)) (by simp)
      · exact absurd (agree_empty_inv ha (traceFull_prim env _)) (by simp)
      · obtain ⟨_, _, _, h⟩ := agree_func_inv ha (traceFull_prim env _); exact absurd h (by simp)
      · obtain ⟨_, _, _, h⟩ := agree_func_inv ha (traceFull_prim env _); exact absurd h (by simp)
      · obtain ⟨_, h⟩ := agree_service_inv ha (traceFull_prim env _); exact absurd h (by simp)
      · obtain ⟨_, h⟩ := agree_service_inv ha (traceFull_prim env _); exact absurd h (by simp)
  simp only [hbig, Option.isSome_none, Bool.false_eq_true, if_false]
  refine Good.bind _ _ _ fun p s hx => ?_
  obtain ⟨w', e'⟩ := p
  have ht := (unroll_traces hx).1
  rcases hw with h | h | h <;> subst h
  · have he := agree_empty_inv ha ht
    subst he
    simp only []
    split
    · exact Good.err fl _
    · exact Good.subErr fl s
  · obtain ⟨a, r, m, he⟩ := agree_func_inv ha ht
    subst he
    simp only []
    exact Good.bind _ _ _ fun _ s1 _ => Good.withFlags fl _
  · obtain ⟨ms, he⟩ := agree_service_inv ha ht
    subst he
    simp only []
    refine Good.bind _ _ _ fun _ s1 _ => ?_
    split
    · exact Good.withFlags fl _
    · exact Good.subErr fl s1

/-! ## loops -/

/-- the hypothesis about the recursive entry point at depth `k` -/
def RecOK (env : Env) (renv : REnv) (k : Nat) (rec rec' : RTy → Flags → Ty → Ty → St → NR) : Prop :=
  ∀ t fl w e st, agree env renv k t e = true → FlagsFit fl w e → Good fl (rec t fl w e st) (rec' t fl w e st)

theorem iterF_congr (f g : Flags → St → NR) (F : Flags)
    (h : ∀ fl st, (fl = F ∨ fl = Flags.clear) → Good fl (f fl st) (g fl st)) :
    ∀ (n : Nat) (fl : Flags) (st : St), (fl = F ∨ fl = Flags.clear) → iterF f n fl st = iterF g n fl st := by
  intro n
  induction n with
  | zero => intro fl st _; rfl
  | succ n ih =>
    intro fl st hfl
    unfold iterF
    obtain ⟨e1, e2⟩ := h fl st hfl
    rw [← e1]
    cases hx : f fl st with
    | ok p s =>
      obtain ⟨v, fl1⟩ := p
      simp only [R.bind]
      have hfl1 : fl1 = F ∨ fl1 = Flags.clear := by
        rcases e2 v fl1 s hx with h1 | h1
        · rcases hfl with h2 | h2
          · exact Or.inl (h1.trans h2)
          · exact Or.inr (h1.trans h2)
        · exact Or.inr h1
      rw [ih fl1 s hfl1]
    | sub d q => rfl
    | err k => rfl
    | panic p => rfl

theorem iterB_congr (f g : Flags → St → NR) (F : Flags) (a b c : Nat)
    (h : ∀ fl st, (fl = F ∨ fl = Flags.clear) → Good fl (f fl st) (g fl st)) :
    ∀ (n count total : Nat) (fl : Flags) (st : St), (fl = F ∨ fl = Flags.clear) →
      iterB f a b c n count total fl st = iterB g a b c n count total fl st := by
  intro n
  induction n with
  | zero => intro count total fl st _; rfl
  | succ n ih =>
    intro count total fl st hfl
    unfold iterB
    obtain ⟨e1, e2⟩ := h fl st hfl
    rw [← e1]
    cases hx : f fl st with
    | ok p s =>
      obtain ⟨v, fl1⟩ := p
      simp only [R.bind]
      have hfl1 : fl1 = F ∨ fl1 = Flags.clear := by
        rcases e2 v fl1 s hx with h1 | h1
        · rcases hfl with h2 | h2
          · exact Or.inl (h1.trans h2)
          · exact Or.inr (h1.trans h2)
        · exact Or.inr h1
      rw [ih (count + 1) (total + dataSize v) fl1 s hfl1]
    | sub d q => rfl
    | err k => rfl
    | panic p => rfl

theorem runSeq_congr (f g : Flags → St → NR) (F : Flags) (vis : SeqVisitor)
    (h : ∀ fl st, (fl = F ∨ fl = Flags.clear) → Good fl (f fl st) (g fl st)) (n : Nat) (st : St) :
    runSeq vis f n F st = runSeq vis g n F st := by
  cases vis with
  | all => exact iterF_congr f g F h n F st (Or.inl rfl)
  | exactly m => simp only [runSeq]; rw [iterF_congr f g F h (min m n) F st (Or.inl rfl)]
  | bounded a b c => exact iterB_congr f g F a b c h n 0 0 F st (Or.inl rfl)

theorem skipFields_congr (mk mk' : String → NR) (ign : Ty → St → R Val) : ∀ (ws : List (Label × Ty)) (st : St),
    skipFields mk ign ws Flags.clear st = skipFields mk' ign ws Flags.clear st := by
  intro ws
  induction ws with
  | nil => intro st; rfl
  | cons p ws ih =>
    intro st
    obtain ⟨l, wt⟩ := p
    unfold skipFields
    simp only [ignF_clear]
    cases addCost st 3 with
    | ok u s1 =>
      simp only [R.bind]
      cases ign wt s1 with
      | ok v s2 => simp only [R.map, R.bind]; exact ih s2
      | sub d q => rfl
      | err k => rfl
      | panic x => rfl
    | sub d q => rfl
    | err k => rfl
    | panic x => rfl

theorem skipTys_congr (mk mk' : String → NR) (ign : Ty → St → R Val) : ∀ (ts : List Ty) (st : St),
    skipTys mk ign ts Flags.clear st = skipTys mk' ign ts Flags.clear st := by
  intro ts
  induction ts with
  | nil => intro st; rfl
  | cons t ts ih =>
    intro st
    unfold skipTys
    simp only [ignF_clear]
    cases addCost st 3 with
    | ok u s1 =>
      simp only [R.bind]
      cases ign t s1 with
      | ok v s2 => simp only [R.map, R.bind]; exact ih s2
      | sub d q => rfl
      | err k => rfl
      | panic x => rfl
    | sub d q => rfl
    | err k => rfl
    | panic x => rfl


/-! ## composites -/

theorem fits_big (b : Big) (wire ee : Ty) (h : bigOf ee wire = some b) : FlagsFit ⟨some b, false⟩ wire ee := by
  rcases (bigOf_eq_some ee wire b).mp h with ⟨h1, h2, h3⟩ | ⟨h1, h2, h3⟩ | ⟨h1, h2, h3⟩ <;> subst h1 h2 h3 <;>
    refine ⟨?_, ?_, ?_, ?_⟩ <;> simp

theorem nVecCase_congr (env : Env) (renv : REnv) (k : Nat) (rec rec' : RTy → Flags → Ty → Ty → St → NR)
    (hr : RecOK env renv k rec rec') (vis : SeqVisitor) (t : RTy) (ww ee : Ty) (s1 : St)
    (ha : agree env renv k t ee = true) :
    nVecCase env renv k rec vis t Flags.clear ww ee s1 = nVecCase env renv k rec' vis t Flags.clear ww ee s1 := by
  unfold nVecCase
  cases env.trace k ww with
  | none => rfl
  | some wire =>
    simp only []
    congr 1
    funext n s2
    cases exactPrim ee wire with
    | some p => rfl
    | none =>
      simp only []
      cases hb : bigOf ee wire with
      | some b =>
        simp only []
        unfold bigElems
        split
        · rfl
        · congr 1
          funext _ s3
          have hF : ({ Flags.clear with big := some b } : Flags) = ⟨some b, false⟩ := rfl
          rw [hF]
          rw [runSeq_congr (fun f s => rec t f wire ee s) (fun f s => rec' t f wire ee s) ⟨some b, false⟩ vis
            (fun fl st hfl => by
              rcases hfl with h | h <;> subst h
              · exact hr t _ wire ee st ha (fits_big b wire ee hb)
              · exact hr t _ wire ee st ha (FlagsFit.clear wire ee)) n s3]
      | none =>
        simp only []
        unfold genericElems
        rw [runSeq_congr (genericElem rec t wire ee) (genericElem rec' t wire ee) Flags.clear vis
          (fun fl st hfl => by
            have hfl' : fl = Flags.clear := by rcases hfl with h | h <;> exact h
            subst hfl'
            unfold genericElem
            exact Good.bind _ _ _ fun _ s' _ => hr t _ wire ee s' ha (FlagsFit.clear wire ee)) n s2]

theorem tupleLoop_congr (env : Env) (renv : REnv) (k : Nat) (rec rec' : RTy → Flags → Ty → Ty → St → NR)
    (hr : RecOK env renv k rec rec') : ∀ (ts : List RTy) (es : List (Label × Ty)) (ws : List (Label × Ty)) (i : Nat) (st : St),
    ts.length = es.length → (∀ p ∈ ts.zip es, agree env renv k p.1 p.2.2 = true) →
    tupleLoop rec ts es ws i Flags.clear st = tupleLoop rec' ts es ws i Flags.clear st ∧
    ∀ vs rest fl2 s, tupleLoop rec ts es ws i Flags.clear st = .ok (vs, rest, fl2) s → fl2 = Flags.clear := by
  intro ts
  induction ts with
  | nil =>
    intro es ws i st _ _
    refine ⟨rfl, fun vs rest fl2 s h => ?_⟩
    simp only [tupleLoop, R.ok.injEq, Prod.mk.injEq] at h
    exact h.1.2.2.symm
  | cons t ts ih =>
    intro es ws i st hl ha
    cases es with
    | nil => simp at hl
    | cons ep es' =>
      obtain ⟨l, et⟩ := ep
      have hat : agree env renv k t et = true := ha (t, (l, et)) (by simp)
      have ha' : ∀ p ∈ ts.zip es', agree env renv k p.1 p.2.2 = true := fun p hp => ha p (by simp [hp])
      have hl' : ts.length = es'.length := by simpa using hl
      have step : ∀ (w : Ty) (wsT : List (Label × Ty)) (s1 : St),
          ((rec t Flags.clear w et s1).bind fun (x : Val × Flags) s2 =>
              (tupleLoop rec ts es' wsT (i + 1) x.2 s2).map fun y => ((l, x.1) :: y.1, y.2.1, y.2.2)) =
            ((rec' t Flags.clear w et s1).bind fun (x : Val × Flags) s2 =>
              (tupleLoop rec' ts es' wsT (i + 1) x.2 s2).map fun y => ((l, x.1) :: y.1, y.2.1, y.2.2)) ∧
          ∀ vs rest fl2 s,
            ((rec t Flags.clear w et s1).bind fun (x : Val × Flags) s2 =>
              (tupleLoop rec ts es' wsT (i + 1) x.2 s2).map fun y => ((l, x.1) :: y.1, y.2.1, y.2.2)) = .ok (vs, rest, fl2) s →
            fl2 = Flags.clear := by
        intro w wsT s1
        obtain ⟨e1, e2⟩ := hr t Flags.clear w et s1 hat (FlagsFit.clear w et)
        rw [← e1]
        cases hx : rec t Flags.clear w et s1 with
        | ok p s2 =>
          obtain ⟨v, fl1⟩ := p
          have hfl1 : fl1 = Flags.clear := by rcases e2 v fl1 s2 hx with h | h <;> exact h
          subst hfl1
          simp only [R.bind]
          obtain ⟨i1, i2⟩ := ih es' wsT (i + 1) s2 hl' ha'
          rw [← i1]
          refine ⟨rfl, fun vs rest fl2 s h => ?_⟩
          obtain ⟨q, hq, hq2⟩ := rmap_ok_inv h
          obtain ⟨vs', rest', fl2'⟩ := q
          simp only [Prod.mk.injEq] at hq2
          rw [← hq2.2.2]
          exact i2 vs' rest' fl2' s hq
        | sub d q => exact ⟨rfl, fun _ _ _ _ h => by simp [R.bind] at h⟩
        | err x => exact ⟨rfl, fun _ _ _ _ h => by simp [R.bind] at h⟩
        | panic x => exact ⟨rfl, fun _ _ _ _ h => by simp [R.bind] at h⟩
      unfold tupleLoop
      cases hc : addCost st 3 with
      | ok u s1 =>
        cases ws with
        | nil =>
          simp only [R.bind, List.isEmpty_cons, Bool.false_eq_true, false_and, if_false, List.tail_cons, List.tail_nil]
          exact step _ _ s1
        | cons wp ws' =>
          simp only [R.bind, List.isEmpty_cons, Bool.false_eq_true, false_and, if_false, List.tail_cons]
          exact step _ _ s1
      | sub d q => exact ⟨rfl, fun _ _ _ _ h => by simp [R.bind] at h⟩
      | err x => exact ⟨rfl, fun _ _ _ _ h => by simp [R.bind] at h⟩
      | panic x => exact ⟨rfl, fun _ _ _ _ h => by simp [R.bind] at h⟩

theorem nTupleCase_good (mk mk' : String → NR) (env : Env) (renv : REnv) (k : Nat) (rec rec' : RTy → Flags → Ty → Ty → St → NR)
    (hr : RecOK env renv k rec rec') (ign : Ty → St → R Val) (ts : List RTy) (fl : Flags) (wfs efs : Fields) (s1 : St)
    (hl : ts.length = efs.toList.length) (ha : ∀ p ∈ ts.zip efs.toList, agree env renv k p.1 p.2.2 = true) :
    Good fl (nTupleCase mk rec ign ts Flags.clear wfs efs s1) (nTupleCase mk' rec' ign ts Flags.clear wfs efs s1) := by
  unfold nTupleCase
  split
  · exact Good.subErr fl s1
  · split
    · exact Good.subErr fl s1
    · obtain ⟨e1, e2⟩ := tupleLoop_congr env renv k rec rec' hr ts efs.toList wfs.toList 0 s1 hl ha
      rw [← e1]
      cases hx : tupleLoop rec ts efs.toList wfs.toList 0 Flags.clear s1 with
      | ok p s2 =>
        obtain ⟨vs, rest, fl1⟩ := p
        have := e2 vs rest fl1 s2 hx
        subst this
        simp only [R.bind]
        rw [skipFields_congr mk mk' ign rest s2]
        exact Good.map_clear (fun _ => Val.record vs) rfl
      | sub d q => exact ⟨rfl, fun _ _ _ h => by simp [R.bind] at h⟩
      | err x => exact ⟨rfl, fun _ _ _ h => by simp [R.bind] at h⟩
      | panic x => exact ⟨rfl, fun _ _ _ h => by simp [R.bind] at h⟩


/-- every expected field of a merge step is one of the expected record's fields -/
def StepsFrom (es : List (Label × Ty)) (steps : List FieldStep) : Prop :=
  ∀ step ∈ steps, match step with
    | .both l et _ => (l, et) ∈ es
    | .expectOnly l et => (l, et) ∈ es
    | .expectTail l et => (l, et) ∈ es
    | .wireOnly _ => True

theorem mergeFields_from : ∀ (n : Nat) (es ws : List (Label × Ty)) (all : List (Label × Ty)),
    (∀ p ∈ es, p ∈ all) → StepsFrom all (mergeFields n es ws) := by
  intro n
  induction n with
  | zero => intro es ws all _ step h; simp [mergeFields] at h
  | succ n ih =>
    intro es ws all hsub
    cases es with
    | nil =>
      cases ws with
      | nil => intro step h; simp [mergeFields] at h
      | cons wp ws' =>
        obtain ⟨wl, wt⟩ := wp
        intro step h
        simp only [mergeFields, List.mem_cons] at h
        rcases h with h | h
        · subst h; trivial
        · exact ih [] ws' all hsub step h
    | cons ep es' =>
      obtain ⟨l, et⟩ := ep
      have hsub' : ∀ p ∈ es', p ∈ all := fun p hp => hsub p (by simp [hp])
      have hmem : (l, et) ∈ all := hsub (l, et) (by simp)
      cases ws with
      | nil =>
        intro step h
        simp only [mergeFields, List.mem_cons] at h
        rcases h with h | h
        · subst h; exact hmem
        · exact ih es' [] all hsub' step h
      | cons wp ws' =>
        obtain ⟨wl, wt⟩ := wp
        intro step h
        simp only [mergeFields] at h
        split at h
        · simp only [List.mem_cons] at h
          rcases h with h | h
          · subst h; exact hmem
          · exact ih es' ws' all hsub' step h
        · split at h
          · simp only [List.mem_cons] at h
            rcases h with h | h
            · subst h; exact hmem
            · exact ih es' ((wl, wt) :: ws') all hsub' step h
          · simp only [List.mem_cons] at h
            rcases h with h | h
            · subst h; trivial
            · exact ih ((l, et) :: es') ws' all hsub step h

theorem structLoop_good (mk mk' : String → NR) (env : Env) (renv : REnv) (k : Nat) (rec rec' : RTy → Flags → Ty → Ty → St → NR)
    (hr : RecOK env renv k rec rec') (ign : Ty → St → R Val) (fs : RFields) (hno : fs.select (.named "_") = none)
    (es : List (Label × Ty)) (hes : ∀ p ∈ es, ∀ kd t, fs.select p.1 = some (kd, t) → agree env renv k t p.2 = true) :
    ∀ (steps : List FieldStep) (st : St) (acc : List (Label × Val)), StepsFrom es steps →
      Good Flags.clear (structLoop mk env k rec ign fs steps Flags.clear st acc)
        (structLoop mk' env k rec' ign fs steps Flags.clear st acc) := by
  intro steps
  induction steps with
  | nil =>
    intro st acc _
    unfold structLoop
    exact Good.map_clear (fun _ => Val.record acc.reverse) rfl
  | cons step rest ih =>
    intro st acc hfrom
    have hrest : StepsFrom es rest := fun x hx => hfrom x (by simp [hx])
    have hstep := hfrom step (by simp)
    -- key, cost, value at the field's Rust type (or skipped), then the rest
    have value_good : ∀ (l : Label) (w e : Ty) (s : St),
        (∀ kd t, fs.select l = some (kd, t) → agree env renv k t e = true) →
        ∀ (cont cont' : Option (Label × Val) × Flags → St → NR),
          (∀ o s4, Good Flags.clear (cont (o, Flags.clear) s4) (cont' (o, Flags.clear) s4)) →
          Good Flags.clear
            (((addCost s (labelKeyCost l)).bind fun _ s2 => (addCost s2 1).bind fun _ s3 =>
              match fs.select l with
              | some (_, t) => (rec t Flags.clear w e s3).map fun (x : Val × Flags) => (some (l, x.1), x.2)
              | none => (ignF mk ign Flags.clear w s3).map fun (x : Val × Flags) => ((none : Option (Label × Val)), x.2)).bind cont)
            (((addCost s (labelKeyCost l)).bind fun _ s2 => (addCost s2 1).bind fun _ s3 =>
              match fs.select l with
              | some (_, t) => (rec' t Flags.clear w e s3).map fun (x : Val × Flags) => (some (l, x.1), x.2)
              | none => (ignF mk' ign Flags.clear w s3).map fun (x : Val × Flags) => ((none : Option (Label × Val)), x.2)).bind cont') := by
      intro l w e s hag cont cont' hcont
      cases addCost s (labelKeyCost l) with
      | ok u s2 =>
        simp only [R.bind]
        cases addCost s2 1 with
        | ok u2 s3 =>
          simp only [R.bind]
          cases hsel : fs.select l with
          | some q =>
            obtain ⟨kd, t⟩ := q
            simp only []
            obtain ⟨e1, e2⟩ := hr t Flags.clear w e s3 (hag kd t hsel) (FlagsFit.clear w e)
            rw [← e1]
            cases hx : rec t Flags.clear w e s3 with
            | ok p s4 =>
              obtain ⟨v, fl1⟩ := p
              have hfl1 : fl1 = Flags.clear := by rcases e2 v fl1 s4 hx with h | h <;> exact h
              subst hfl1
              exact hcont _ s4
            | sub d q => exact ⟨rfl, fun _ _ _ h => by simp [R.bind, R.map] at h⟩
            | err x => exact ⟨rfl, fun _ _ _ h => by simp [R.bind, R.map] at h⟩
            | panic x => exact ⟨rfl, fun _ _ _ h => by simp [R.bind, R.map] at h⟩
          | none =>
            simp only [ignF_clear]
            cases ign w s3 with
            | ok v s4 => exact hcont _ s4
            | sub d q => exact ⟨rfl, fun _ _ _ h => by simp [R.bind, R.map] at h⟩
            | err x => exact ⟨rfl, fun _ _ _ h => by simp [R.bind, R.map] at h⟩
            | panic x => exact ⟨rfl, fun _ _ _ h => by simp [R.bind, R.map] at h⟩
        | sub d q => exact ⟨rfl, fun _ _ _ h => by simp [R.bind] at h⟩
        | err x => exact ⟨rfl, fun _ _ _ h => by simp [R.bind] at h⟩
        | panic x => exact ⟨rfl, fun _ _ _ h => by simp [R.bind] at h⟩
      | sub d q => exact ⟨rfl, fun _ _ _ h => by simp [R.bind] at h⟩
      | err x => exact ⟨rfl, fun _ _ _ h => by simp [R.bind] at h⟩
      | panic x => exact ⟨rfl, fun _ _ _ h => by simp [R.bind] at h⟩
    unfold structLoop
    refine Good.bind _ _ _ fun _ s1 _ => ?_
    cases step with
    | both l et wt =>
      simp only []
      exact value_good l wt et s1 (fun kd t hs => hes (l, et) hstep kd t hs) _ _ (fun o s4 => ih s4 _ hrest)
    | expectOnly l et =>
      simp only []
      cases htr : env.trace k et with
      | none => exact Good.err _ _
      | some et' =>
        simp only []
        split
        · exact Good.subErr _ s1
        · refine value_good l (.prim .null) et' s1 (fun kd t hs => ?_) _ _ (fun o s4 => ih s4 _ hrest)
          rw [← agree_traced env renv k t et et' (Sub.traceFull_of_trace env k et et' htr)]
          exact hes (l, et) hstep kd t hs
    | expectTail l et =>
      simp only []
      exact value_good l (.prim .null) et s1 (fun kd t hs => hes (l, et) hstep kd t hs) _ _ (fun o s4 => ih s4 _ hrest)
    | wireOnly wt =>
      simp only [hno, ignF_clear]
      refine Good.bind _ _ _ fun _ s2 _ => Good.bind _ _ _ fun _ s3 _ => ?_
      cases ign wt s3 with
      | ok v s4 => exact ih s4 acc hrest
      | sub d q => exact ⟨rfl, fun _ _ _ h => by simp [R.bind, R.map] at h⟩
      | err x => exact ⟨rfl, fun _ _ _ h => by simp [R.bind, R.map] at h⟩
      | panic x => exact ⟨rfl, fun _ _ _ h => by simp [R.bind, R.map] at h⟩


theorem mapLoop_congr (mk mk' : String → NR) (env : Env) (renv : REnv) (k : Nat) (rec rec' : RTy → Flags → Ty → Ty → St → NR)
    (hr : RecOK env renv k rec rec') (ign : Ty → St → R Val) (kt vt : RTy) (l0 l1 : Label) (ek ev wk wv : Ty) (extra : List Ty)
    (keyFast : Bool) (valFast : Option Big)
    (hak : agree env renv k kt ek = true) (hav : agree env renv k vt ev = true)
    (hkf : keyFast = true → ek = .prim .text ∧ wk = .prim .text) (hvf : valFast = bigOf ev wv) :
    ∀ (n : Nat) (st : St),
      mapLoop mk rec ign kt vt l0 l1 ek ev wk wv extra keyFast valFast n st =
        mapLoop mk' rec' ign kt vt l0 l1 ek ev wk wv extra keyFast valFast n st := by
  have hfk : FlagsFit ⟨none, keyFast⟩ wk ek := by
    refine ⟨?_, ?_, ?_, ?_⟩ <;> simp
    exact hkf
  have hfv : FlagsFit ⟨valFast, false⟩ wv ev := by
    cases hb : valFast with
    | none => exact FlagsFit.clear wv ev
    | some b => exact fits_big b wv ev (by rw [← hvf, hb])
  intro n
  induction n with
  | zero => intro st; rfl
  | succ n ih =>
    intro st
    unfold mapLoop
    simp only []
    congr 1
    funext _ s1
    congr 1
    funext _ s2
    obtain ⟨e1, _⟩ := hr kt ⟨none, keyFast⟩ wk ek s2 hak hfk
    rw [← e1]
    congr 1
    funext x s3
    congr 1
    funext _ s4
    obtain ⟨e3, e4⟩ := hr vt ⟨valFast, false⟩ wv ev s4 hav hfv
    rw [← e3]
    cases hx : rec vt ⟨valFast, false⟩ wv ev s4 with
    | ok p s5 =>
      obtain ⟨vv, fl2⟩ := p
      simp only [R.bind]
      have hcl : ({ fl2 with big := none } : Flags) = Flags.clear := by
        rcases e4 vv fl2 s5 hx with h | h <;> subst h <;> rfl
      rw [hcl, skipTys_congr mk mk' ign extra s5]
      congr 1
      funext _ s6
      rw [ih s6]
    | sub d q => rfl
    | err e => rfl
    | panic e => rfl

theorem nMapCase_good (mk mk' : String → NR) (env : Env) (renv : REnv) (k : Nat) (rec rec' : RTy → Flags → Ty → Ty → St → NR)
    (hr : RecOK env renv k rec rec') (ign : Ty → St → R Val) (kt vt : RTy) (fl : Flags) (ww ee : Ty) (s1 : St)
    (ha : ∀ efs l0 ek l1 ev, Sub.traceFull env ee = some (.record efs) → efs.toList = [(l0, ek), (l1, ev)] →
      l0.getId = 0 → l1.getId = 1 → agree env renv k kt ek = true ∧ agree env renv k vt ev = true) :
    Good fl (nMapCase mk env k rec ign kt vt ww ee s1) (nMapCase mk' env k rec' ign kt vt ww ee s1) := by
  have hempty : ∀ s : St, Good fl
      ((rd readLenDe s).bind fun n s2 => if n ≠ 0 then subErr s2 else (addCost s2 4).map fun _ => ((Val.vec [], Flags.clear) : Val × Flags))
      ((rd readLenDe s).bind fun n s2 => if n ≠ 0 then subErr s2 else (addCost s2 4).map fun _ => ((Val.vec [], Flags.clear) : Val × Flags)) := by
    intro s
    refine Good.bind _ _ _ fun n s2 _ => ?_
    split
    · exact Good.subErr fl s2
    · exact Good.map_clear (fun _ => Val.vec []) rfl
  unfold nMapCase
  cases hte : env.trace k ee with
  | none => exact Good.err fl _
  | some e' =>
    cases htw : env.trace k ww with
    | none => exact Good.err fl _
    | some w' =>
      simp only []
      cases e' with
      | record efs =>
        cases w' with
        | record wfs =>
          simp only []
          cases hl : efs.toList with
          | nil => exact hempty s1
          | cons p1 r1 =>
            cases r1 with
            | nil => exact hempty s1
            | cons p2 r2 =>
              cases r2 with
              | cons p3 r3 => exact hempty s1
              | nil =>
                obtain ⟨l0, ek⟩ := p1
                obtain ⟨l1, ev⟩ := p2
                simp only []
                split
                · rename_i hids
                  obtain ⟨hak, hav⟩ := ha efs l0 ek l1 ev (Sub.traceFull_of_trace env k ee _ hte) hl hids.1 hids.2
                  refine Good.bind _ _ _ fun n s2 _ => ?_
                  refine Good.bind _ _ _ fun _ s3 _ => ?_
                  rw [mapLoop_congr mk mk' env renv k rec rec' hr ign kt vt l0 l1 ek ev _ _ _ _ _ hak hav
                    (fun h => by simpa [Bool.and_eq_true, decide_eq_true_eq] using h) rfl n s3]
                  exact Good.map_clear (fun es => Val.vec es) rfl
                · exact hempty s1
        | _ => exact hempty s1
      | _ => exact hempty s1

theorem nEnumCase_good (mk mk' : String → NR) (env : Env) (renv : REnv) (k : Nat) (rec rec' : RTy → Flags → Ty → Ty → St → NR)
    (hr : RecOK env renv k rec rec') (vs : RFields) (fl : Flags) (w : Ty) (efs : Fields) (s1 : St)
    (ha : ∀ p ∈ efs.toList, ∀ nm kd t, p.1 = .named nm → vs.select (.named nm) = some (kd, t) → kd ≠ .unit →
        agree env renv k t p.2 = true) :
    Good fl (nEnumCase rec vs Flags.clear w efs s1) (nEnumCase rec' vs Flags.clear w efs s1) := by
  unfold nEnumCase
  cases w with
  | variant wfs =>
    simp only []
    refine Good.bind _ _ _ fun idx s2 _ => ?_
    cases wfs.toList[idx]? with
    | none => exact Good.err fl _
    | some wp =>
      obtain ⟨wl, wt⟩ := wp
      simp only []
      cases hfind : efs.toList.find? (fun p => p.1.getId = wl.getId) with
      | none => exact Good.subErr fl s2
      | some ep =>
        obtain ⟨el, et⟩ := ep
        have hmem : (el, et) ∈ efs.toList := List.mem_of_find?_eq_some hfind
        simp only []
        refine Good.bind _ _ _ fun _ s3 _ => Good.bind _ _ _ fun _ s4 _ => ?_
        cases el with
        | named nm =>
          simp only []
          cases hsel : vs.select (.named nm) with
          | none => exact Good.err fl _
          | some q =>
            obtain ⟨kd, t⟩ := q
            have hag : kd ≠ .unit → agree env renv k t et = true := fun hk => ha (.named nm, et) hmem nm kd t rfl hsel hk
            cases kd with
            | unit =>
              simp only []
              split
              · exact Good.map_clear (fun _ => Val.variant (.named nm) .null idx) rfl
              · exact Good.subErr fl s4
            | newtype =>
              simp only []
              refine Good.bind _ _ _ fun _ s5 _ => ?_
              exact Good.map_clear (fun (x : Val × Flags) => Val.variant (.named nm) x.1 idx)
                (hr t Flags.clear wt et s5 (hag (by simp)) (FlagsFit.clear wt et)).1
            | tuple =>
              simp only []
              refine Good.bind _ _ _ fun _ s5 _ => ?_
              exact Good.map_clear (fun (x : Val × Flags) => Val.variant (.named nm) x.1 idx)
                (hr t Flags.clear wt et s5 (hag (by simp)) (FlagsFit.clear wt et)).1
            | strct =>
              simp only []
              refine Good.bind _ _ _ fun _ s5 _ => ?_
              exact Good.map_clear (fun (x : Val × Flags) => Val.variant (.named nm) x.1 idx)
                (hr t Flags.clear wt et s5 (hag (by simp)) (FlagsFit.clear wt et)).1
        | id h => simp only []; exact Good.err fl _
        | unnamed h => simp only []; exact Good.err fl _
  | _ => exact Good.subErr fl s1

theorem nRecoverable_good (mk mk' : String → NR) (env : Env) (renv : REnv) (k : Nat) (rec rec' : RTy → Flags → Ty → Ty → St → NR)
    (hr : RecOK env renv k rec rec') (ign : Ty → St → R Val) (t : RTy) (w e : Ty) (st : St)
    (ha : agree env renv k t e = true) :
    Good Flags.clear (nRecoverable mk rec ign t Flags.clear w e st) (nRecoverable mk' rec' ign t Flags.clear w e st) := by
  unfold nRecoverable
  obtain ⟨e1, e2⟩ := hr t Flags.clear w e st ha (FlagsFit.clear w e)
  rw [← e1]
  cases hx : rec t Flags.clear w e st with
  | ok p s =>
    obtain ⟨v, fl1⟩ := p
    refine ⟨rfl, fun v' fl' s' h => ?_⟩
    simp only [R.ok.injEq, Prod.mk.injEq] at h
    rw [← h.1.2]
    exact e2 v fl1 s hx
  | sub d q =>
    simp only [ignF_clear]
    refine Good.bind _ _ _ fun _ s1 _ => ?_
    cases ign w s1 with
    | ok v s2 => exact ⟨rfl, fun v' fl' s' h => by simp only [R.map, R.bind, R.ok.injEq, Prod.mk.injEq] at h; exact Or.inr h.1.2.symm⟩
    | sub d q => exact ⟨rfl, fun _ _ _ h => by simp [R.bind, R.map] at h⟩
    | err x => exact ⟨rfl, fun _ _ _ h => by simp [R.bind, R.map] at h⟩
    | panic x => exact ⟨rfl, fun _ _ _ h => by simp [R.bind, R.map] at h⟩
  | err x => exact ⟨rfl, fun _ _ _ h => by simp at h⟩
  | panic x => exact ⟨rfl, fun _ _ _ h => by simp at h⟩

theorem nOptCase_good (mk mk' : String → NR) (env : Env) (renv : REnv) (k : Nat) (rec rec' : RTy → Flags → Ty → Ty → St → NR)
    (hr : RecOK env renv k rec rec') (ign : Ty → St → R Val) (t : RTy) (w e2 : Ty) (st : St)
    (ha : agree env renv k t e2 = true) :
    Good Flags.clear (nOptCase mk env k rec ign t Flags.clear w (.opt e2) st)
      (nOptCase mk' env k rec' ign t Flags.clear w (.opt e2) st) := by
  unfold nOptCase
  refine Good.bind _ _ _ fun _ s1 _ => ?_
  simp only []
  have hnone : ∀ s : St, Good Flags.clear (R.ok (Val.none, Flags.clear) s) (R.ok (Val.none, Flags.clear) s) :=
    fun s => ⟨rfl, fun _ _ _ h => by simp only [R.ok.injEq, Prod.mk.injEq] at h; exact Or.inl h.1.2.symm⟩
  split
  · exact hnone s1
  · exact hnone s1
  · rename_i w2
    cases s1.input with
    | nil => exact Good.err _ _
    | cons b rest =>
      simp only []
      split
      · exact hnone _
      · split
        · exact nRecoverable_good mk mk' env renv k rec rec' hr ign t w2 e2 _ ha
        · exact Good.err _ _
  · cases htr : env.trace k e2 with
    | none => exact Good.err _ _
    | some e2' =>
      simp only []
      refine nRecoverable_good mk mk' env renv k rec rec' hr ign t w e2' s1 ?_
      rw [← agree_traced env renv k t e2 e2' (Sub.traceFull_of_trace env k e2 e2' htr)]
      exact ha


/-! ## one call, then all depths -/

theorem iterF_keeps_flags (f : Flags → St → NR) (hf : ∀ fl st v fl' s, f fl st = .ok (v, fl') s → fl' = fl) :
    ∀ (n : Nat) (fl : Flags) (st : St) (vs : List Val) (fl' : Flags) (s : St), iterF f n fl st = .ok (vs, fl') s → fl' = fl := by
  intro n
  induction n with
  | zero => intro fl st vs fl' s h; simp only [iterF, R.ok.injEq, Prod.mk.injEq] at h; exact h.1.2.symm
  | succ n ih =>
    intro fl st vs fl' s h
    unfold iterF at h
    obtain ⟨p, s1, h1, h2⟩ := bind_ok_inv h
    obtain ⟨v, fl1⟩ := p
    have e1 := hf fl st v fl1 s1 h1
    subst e1
    obtain ⟨q, h3, h4⟩ := rmap_ok_inv h2
    obtain ⟨ws, fl2⟩ := q
    simp only [Prod.mk.injEq] at h4
    rw [← h4.2]
    exact ih fl1 s1 ws fl2 s h3

theorem iterB_keeps_flags (f : Flags → St → NR) (hf : ∀ fl st v fl' s, f fl st = .ok (v, fl') s → fl' = fl) (a b c : Nat) :
    ∀ (n count total : Nat) (fl : Flags) (st : St) (vs : List Val) (fl' : Flags) (s : St),
      iterB f a b c n count total fl st = .ok (vs, fl') s → fl' = fl := by
  intro n count total fl st vs fl' s h
  exact iterF_keeps_flags f hf n fl st vs fl' s ((iterB_ok_iff f a b c n count total fl st vs fl' s).mp h).1

theorem runSeq_keeps_flags (f : Flags → St → NR) (hf : ∀ fl st v fl' s, f fl st = .ok (v, fl') s → fl' = fl)
    (vis : SeqVisitor) (n : Nat) (fl : Flags) (st : St) (vs : List Val) (fl' : Flags) (s : St)
    (h : runSeq vis f n fl st = .ok (vs, fl') s) : fl' = fl := by
  cases vis with
  | all => exact iterF_keeps_flags f hf n fl st vs fl' s h
  | exactly m =>
    simp only [runSeq] at h
    obtain ⟨p, s1, h1, h2⟩ := bind_ok_inv h
    obtain ⟨ws, fl1⟩ := p
    split at h2
    · simp at h2
    · simp only [R.ok.injEq, Prod.mk.injEq] at h2
      rw [← h2.1.2]
      exact iterF_keeps_flags f hf (min m n) fl st ws fl1 s1 h1
  | bounded a b c => exact iterB_keeps_flags f hf a b c n 0 0 fl st vs fl' s h

/-- the flags a vector read returns are the given ones or cleared -/
theorem nVecCase_flags (env : Env) (renv : REnv) (k : Nat) (rec : RTy → Flags → Ty → Ty → St → NR) (vis : SeqVisitor)
    (t : RTy) (fl : Flags) (ww ee : Ty) (s1 : St) (vs : List Val) (fl' : Flags) (s : St)
    (h : nVecCase env renv k rec vis t fl ww ee s1 = .ok (vs, fl') s) : fl' = fl ∨ fl' = Flags.clear := by
  unfold nVecCase at h
  cases htr : env.trace k ww with
  | none => rw [htr] at h; simp at h
  | some wire =>
    rw [htr] at h
    simp only [] at h
    obtain ⟨n, s2, _, h2⟩ := bind_ok_inv h
    cases hx : exactPrim ee wire with
    | some p =>
      rw [hx] at h2
      simp only [] at h2
      unfold bulkElems at h2
      simp only [] at h2
      split at h2
      · simp at h2
      · obtain ⟨_, s3, _, h4⟩ := bind_ok_inv h2
        split at h4
        · simp at h4
        · split at h4
          · left
            refine runSeq_keeps_flags (bulkElem p) (fun f st v f' s' hh => ?_) vis n fl s3 vs fl' s h4
            obtain ⟨a, _, ha⟩ := rmap_ok_inv hh
            simp only [Prod.mk.injEq] at ha
            exact ha.2.symm
          · left
            exact runSeq_keeps_flags (fun _ _ => .err .other) (fun f st v f' s' hh => by simp at hh) vis n fl s3 vs fl' s h4
          · simp at h4
    | none =>
      rw [hx] at h2
      simp only [] at h2
      right
      cases hb : bigOf ee wire with
      | some b =>
        rw [hb] at h2
        simp only [] at h2
        unfold bigElems at h2
        split at h2
        · simp at h2
        · obtain ⟨_, s3, _, h4⟩ := bind_ok_inv h2
          obtain ⟨q, _, h6⟩ := rmap_ok_inv h4
          simp only [Prod.mk.injEq] at h6
          exact h6.2.symm
      | none =>
        rw [hb] at h2
        simp only [] at h2
        unfold genericElems at h2
        obtain ⟨q, _, h6⟩ := rmap_ok_inv h2
        simp only [Prod.mk.injEq] at h6
        exact h6.2.symm

theorem agree_traces {env : Env} {renv : REnv} {k : Nat} {t : RTy} {e : Ty} (ha : agree env renv (k + 1) t e = true)
    (h1 : ∀ t', t ≠ .newtype t') (h2 : ∀ x, t ≠ .ref x) : ∃ e', Sub.traceFull env e = some e' := by
  cases ht : Sub.traceFull env e with
  | some e' => exact ⟨e', rfl⟩
  | none =>
    exfalso
    cases t <;> simp [agree, ht] at ha
    · exact h1 _ rfl
    · exact h2 _ rfl

theorem deNBody_good (mk mk' : String → NR) (env : Env) (tl : Nat) (renv : REnv) (k : Nat)
    (rec rec' : RTy → Flags → Ty → Ty → St → NR) (hr : RecOK env renv k rec rec') (ign : Ty → St → R Val)
    (t : RTy) (fl : Flags) (w e : Ty) (st : St) (ha : agree env renv (k + 1) t e = true) (hf : FlagsFit fl w e) :
    Good fl (deNBody mk env tl renv k rec ign t fl w e st) (deNBody mk' env tl renv k rec' ign t fl w e st) := by
  -- sequence visitors share one entry
  have seq_good : ∀ (extraCost : Bool) (vis : SeqVisitor) (el : RTy),
      (∀ e', Sub.traceFull env e = some e' → ∃ ee, e' = .vec ee ∧ agree env renv k el ee = true) →
      Good fl
        ((if extraCost then addCost st 1 else R.ok () st).bind fun _ s0 =>
          (unroll env k w e s0).bind fun (p : Ty × Ty) s =>
            (addCost s 1).bind fun _ s1 =>
              match p.2, p.1 with
              | .vec ee, .vec ww =>
                (nVecCase env renv k rec vis el fl ww ee s1).map fun (q : List Val × Flags) => (seqVal (isByte renv (resolveDepth renv) el) q.1, q.2)
              | .record _, .record _ => mk "out of step: sequence visitor at a record"
              | _, _ => subErr s1)
        ((if extraCost then addCost st 1 else R.ok () st).bind fun _ s0 =>
          (unroll env k w e s0).bind fun (p : Ty × Ty) s =>
            (addCost s 1).bind fun _ s1 =>
              match p.2, p.1 with
              | .vec ee, .vec ww =>
                (nVecCase env renv k rec' vis el fl ww ee s1).map fun (q : List Val × Flags) => (seqVal (isByte renv (resolveDepth renv) el) q.1, q.2)
              | .record _, .record _ => mk' "out of step: sequence visitor at a record"
              | _, _ => subErr s1) := by
    intro extraCost vis el hinv
    refine Good.bind _ _ _ fun _ s0 _ => Good.bind _ _ _ fun p s hx => Good.bind _ _ _ fun _ s1 _ => ?_
    obtain ⟨w', e'⟩ := p
    have ht := (unroll_traces hx).1
    obtain ⟨ee, he, hag⟩ := hinv e' ht
    subst he
    have hcl : fl = Flags.clear := flags_clear_of env fl w e _ hf ht (by simp) (by simp) (by simp)
    subst hcl
    simp only []
    cases w' with
    | vec ww =>
      simp only []
      rw [← nVecCase_congr env renv k rec rec' hr vis el ww ee s1 hag]
      refine ⟨rfl, fun v fl' s' h => ?_⟩
      obtain ⟨q, hq, hq2⟩ := rmap_ok_inv h
      obtain ⟨vs, f⟩ := q
      simp only [Prod.mk.injEq] at hq2
      rw [← hq2.2]
      exact nVecCase_flags env renv k rec vis el _ ww ee s1 vs f s' hq
    | _ => exact Good.subErr _ s1
  unfold deNBody
  cases t with
  | prim p =>
    obtain ⟨e0, ht0⟩ := agree_traces ha (by simp) (by simp)
    have hd := (agree_prim_inv ha ht0).2
    have prim_good : ∀ (q : Prim) (c : Nat), Good fl (nPrim env k q c fl w e st) (nPrim env k q c fl w e st) := by
      intro q c
      unfold nPrim
      exact Good.bind _ _ _ fun _ _ _ => Good.withFlags fl _
    cases p <;> simp only [] <;> first | exact prim_good _ _ | (simp [directPrim] at hd) | skip
    -- text
    unfold nText
    refine Good.bind _ _ _ fun _ s _ => Good.bind _ _ _ fun b s' _ => ?_
    split
    · exact ⟨rfl, fun _ _ _ h => by simp only [R.ok.injEq, Prod.mk.injEq] at h; exact Or.inl h.1.2.symm⟩
    · exact Good.err fl _
  | u128 =>
    simp only []
    unfold nU128
    refine Good.bind _ _ _ fun p s _ => ?_
    obtain ⟨w', e'⟩ := p
    simp only []
    split
    · exact Good.bind _ _ _ fun _ _ _ => Good.withFlags fl _
    · exact Good.subErr fl s
  | i128 =>
    simp only []
    unfold nI128
    refine Good.bind _ _ _ fun p s _ => ?_
    obtain ⟨w', e'⟩ := p
    simp only []
    split
    · exact Good.err fl _
    · refine Good.bind _ _ _ fun _ s1 _ => ?_
      split
      · exact Good.withFlags fl _
      · exact Good.withFlags fl _
      · exact Good.subErr fl s1
  | nat => exact nNat_good mk mk' env renv k fl w e st ha hf
  | int => exact nInt_good mk mk' env renv k fl w e st ha hf
  | principal => exact nPrincipal_good mk mk' env renv k fl w e st ha
  | reserved =>
    simp only []
    obtain ⟨e0, ht0⟩ := agree_traces ha (by simp) (by simp)
    have he0 := agree_reserved_inv ha ht0
    subst he0
    have hcl : fl = Flags.clear := flags_clear_of env fl w e _ hf ht0 (by simp) (by simp) (by simp)
    subst hcl
    simp only [ignF_clear]
    cases ign w st with
    | ok v s => exact ⟨rfl, fun _ _ _ h => by simp only [R.map, R.bind, R.ok.injEq, Prod.mk.injEq] at h; exact Or.inl h.1.2.symm⟩
    | sub d q => exact ⟨rfl, fun _ _ _ h => by simp [R.bind, R.map] at h⟩
    | err x => exact ⟨rfl, fun _ _ _ h => by simp [R.bind, R.map] at h⟩
    | panic x => exact ⟨rfl, fun _ _ _ h => by simp [R.bind, R.map] at h⟩
  | empty => exact nViaAny_good mk mk' env renv tl k .empty fl w e st (Or.inl rfl) ha hf
  | func => exact nViaAny_good mk mk' env renv tl k .func fl w e st (Or.inr (Or.inl rfl)) ha hf
  | service => exact nViaAny_good mk mk' env renv tl k .service fl w e st (Or.inr (Or.inr rfl)) ha hf
  | byteBuf =>
    simp only []
    unfold nByteBuf
    refine Good.bind _ _ _ fun p s _ => ?_
    obtain ⟨w', e'⟩ := p
    simp only []
    split
    · exact Good.withFlags fl _
    · exact Good.subErr fl s
  | opt t' =>
    simp only []
    refine Good.bind _ _ _ fun p s hx => ?_
    obtain ⟨w', e'⟩ := p
    have ht := (unroll_traces hx).1
    obtain ⟨e2, he, hag⟩ := agree_opt_inv ha ht
    subst he
    have hcl : fl = Flags.clear := flags_clear_of env fl w e _ hf ht (by simp) (by simp) (by simp)
    subst hcl
    exact nOptCase_good mk mk' env renv k rec rec' hr ign t' w' e2 s hag
  | newtype t' =>
    simp only []
    refine Good.bind _ _ _ fun _ s _ => ?_
    exact hr t' fl w e s (by simpa [agree] using ha) hf
  | ref x =>
    simp only []
    cases hfind : renv.find x with
    | none => exact Good.err fl _
    | some t' =>
      simp only []
      exact hr t' fl w e st (by simpa [agree, hfind] using ha) hf
  | seq el => exact seq_good false .all el (fun e' ht => agree_seq_inv ha ht)
  | array n el => exact seq_good true (.exactly n) el (fun e' ht => agree_array_inv ha ht)
  | bounded a b c el => exact seq_good false (.bounded a b c) el (fun e' ht => agree_bounded_inv ha ht)
  | tuple ts =>
    simp only []
    refine Good.bind _ _ _ fun _ s0 _ => Good.bind _ _ _ fun p s hx => Good.bind _ _ _ fun _ s1 _ => ?_
    obtain ⟨w', e'⟩ := p
    have ht := (unroll_traces hx).1
    obtain ⟨efs, he, hl, hag⟩ := agree_tuple_inv ha ht
    subst he
    have hcl : fl = Flags.clear := flags_clear_of env fl w e _ hf ht (by simp) (by simp) (by simp)
    subst hcl
    simp only []
    cases w' with
    | record wfs => exact nTupleCase_good mk mk' env renv k rec rec' hr ign ts.toList _ wfs efs s1 hl hag
    | _ => exact Good.subErr _ s1
  | map kt vt =>
    simp only []
    refine Good.bind _ _ _ fun p s hx => Good.bind _ _ _ fun _ s1 _ => ?_
    obtain ⟨w', e'⟩ := p
    have ht := (unroll_traces hx).1
    obtain ⟨ee, he, hag⟩ := agree_map_inv ha ht
    subst he
    simp only []
    cases w' with
    | vec ww => exact nMapCase_good mk mk' env renv k rec rec' hr ign kt vt fl ww ee s1 hag
    | _ => exact Good.subErr _ s1
  | strct fs =>
    simp only []
    refine Good.bind _ _ _ fun p s hx => Good.bind _ _ _ fun _ s1 _ => ?_
    obtain ⟨w', e'⟩ := p
    have ht := (unroll_traces hx).1
    obtain ⟨efs, he, hno, hag⟩ := agree_strct_inv ha ht
    subst he
    have hcl : fl = Flags.clear := flags_clear_of env fl w e _ hf ht (by simp) (by simp) (by simp)
    subst hcl
    simp only []
    cases w' with
    | record wfs =>
      exact structLoop_good mk mk' env renv k rec rec' hr ign fs hno efs.toList hag _ s1 []
        (mergeFields_from _ efs.toList wfs.toList efs.toList (fun p hp => hp))
    | _ => exact Good.subErr _ s1
  | enm vs =>
    simp only []
    refine Good.bind _ _ _ fun p s hx => Good.bind _ _ _ fun _ s1 _ => ?_
    obtain ⟨w', e'⟩ := p
    have ht := (unroll_traces hx).1
    obtain ⟨efs, he, hag⟩ := agree_enm_inv ha ht
    subst he
    have hcl : fl = Flags.clear := flags_clear_of env fl w e _ hf ht (by simp) (by simp) (by simp)
    subst hcl
    exact nEnumCase_good mk mk' env renv k rec rec' hr vs _ w' efs s1 hag

/-- **the marked situations are never reached**: at every depth, for every Rust type whose Candid type is the expected
type down to that depth, every flag setting that fits, every wire type and every state, the outcome of the native
mirror is the same whatever a marked situation would answer -/
theorem deN_good (mk mk' : String → NR) (env : Env) (tl : Nat) (renv : REnv) : ∀ (k : Nat),
    RecOK env renv k (deN mk env tl renv k) (deN mk' env tl renv k) := by
  intro k
  induction k with
  | zero => intro t fl w e st _ _; exact Good.err fl _
  | succ k ih =>
    intro t fl w e st ha hf
    unfold deN
    exact deNBody_good mk mk' env tl renv k _ _ ih (deIgnored env k) t fl w e st ha hf

end Candid.Native
