import CandidModel.Proofs.Annotate
import CandidModel.Proofs.SubComplete
/- helper lemmas for C04: on the specification side (`Wire.coerce`, the relation v : t ~> v' : t' as a function), a
   canonical value of a subtype coerces to the supertype — the coercion never reports a subtype failure -/
namespace Candid.Wire
open Candid Candid.Leb Candid.Sub

mutual
/-- data types as they come out of a type table or a checked program: no placeholders, no class type inside,
record / variant ids without duplicates -/
def shapeTy : Ty → Bool
  | .knot _ | .unknown | .future | .cls _ _ => false
  | .opt t | .vec t => shapeTy t
  | .record fs | .variant fs => shapeFields fs && decide ((fs.toList.map (·.1.getId)).Nodup)
  | _ => true
def shapeFields : Fields → Bool
  | .nil => true
  | .cons _ t r => shapeTy t && shapeFields r
end

/-- every definition resolves (`SafeEnv`) and has a data shape -/
def GoodEnv (env : Env) : Prop := SafeEnv env ∧ ∀ x t, env.find x = some t → shapeTy t = true

def goodTy (env : Env) (t : Ty) : Bool := safeTy env t && shapeTy t

theorem shapeFields_mem : ∀ (fs : Fields) (p : Label × Ty), shapeFields fs = true → p ∈ fs.toList → shapeTy p.2 = true
  | .nil, _, _, h => by simp [Fields.toList] at h
  | .cons l t r, p, hs, h => by
    simp only [shapeFields, Bool.and_eq_true] at hs
    simp only [Fields.toList, List.mem_cons] at h
    rcases h with rfl | h
    · exact hs.1
    · exact shapeFields_mem r p hs.2 h

theorem trace_shape (env : Env) (hg : GoodEnv env) : ∀ (k : Nat) (t t' : Ty), shapeTy t = true →
    env.trace k t = some t' → shapeTy t' = true := by
  intro k
  induction k with
  | zero => intro t t' _ h; simp [Env.trace] at h
  | succ k ih =>
    intro t t' hs h
    cases t with
    | var x =>
      simp only [Env.trace] at h
      cases hf : env.find x with
      | none => rw [hf] at h; simp at h
      | some d => rw [hf] at h; exact ih d t' (hg.2 x d hf) h
    | _ => simp only [Env.trace, Option.some.injEq] at h; subst h; exact hs

theorem trace_not_var (env : Env) : ∀ (k : Nat) (t t' : Ty), env.trace k t = some t' → ∀ x, t' ≠ .var x := by
  intro k
  induction k with
  | zero => intro t t' h; simp [Env.trace] at h
  | succ k ih =>
    intro t t' h x
    cases t with
    | var y =>
      simp only [Env.trace] at h
      cases hf : env.find y with
      | none => rw [hf] at h; simp at h
      | some d => rw [hf] at h; exact ih d t' h x
    | _ => simp only [Env.trace, Option.some.injEq] at h; subst h; simp

theorem good_trace (env : Env) (hg : GoodEnv env) (t t' : Ty) (h : goodTy env t = true) (ht : traceFull env t = some t') :
    goodTy env t' = true := by
  simp only [goodTy, Bool.and_eq_true] at h ⊢
  exact ⟨De.trace_safe env hg.1 _ t t' h.1 ht, trace_shape env hg _ t t' h.2 ht⟩

/-- a canonical value of a named type is a canonical value of what the name unfolds to -/
theorem canon_trace_inv (env : Env) : ∀ (k : Nat) (t t' : Ty) (n : Nat) (v : Val),
    env.trace k t = some t' → canon env n v t = true → ∃ m, canon env m v t' = true := by
  intro k
  induction k with
  | zero => intro t t' n v h; simp [Env.trace] at h
  | succ k ih =>
    intro t t' n v h hc
    cases t with
    | var x =>
      simp only [Env.trace] at h
      cases n with
      | zero => simp [canon] at hc
      | succ n =>
        simp only [canon] at hc
        cases hf : env.find x with
        | none => rw [hf] at hc; exact Bool.noConfusion hc
        | some d =>
          rw [hf] at h hc
          exact ih d t' n v h hc
    | _ => simp only [Env.trace, Option.some.injEq] at h; subst h; exact ⟨n, hc⟩


/-! ### field lookups under distinct ids -/

theorem lookupF_mem : ∀ (fs : Fields) (i : Nat) (t : Ty), lookupF fs i = some t → ∃ l, (l, t) ∈ fs.toList ∧ l.getId = i
  | .nil, _, _, h => by simp [lookupF] at h
  | .cons l t' r, i, t, h => by
    simp only [lookupF] at h
    cases hr : lookupF r i with
    | some t'' =>
      rw [hr] at h
      simp only [Option.some.injEq] at h
      subst h
      obtain ⟨l', hm, hi⟩ := lookupF_mem r i _ hr
      exact ⟨l', by simp [Fields.toList, hm], hi⟩
    | none =>
      rw [hr] at h
      simp only [] at h
      split at h
      · rename_i hl
        simp only [Option.some.injEq] at h
        subst h
        exact ⟨l, by simp [Fields.toList], hl⟩
      · simp at h

theorem lookupF_none_not_mem : ∀ (fs : Fields) (i : Nat), lookupF fs i = none → ∀ p ∈ fs.toList, p.1.getId ≠ i
  | .nil, _, _, p, hp => by simp [Fields.toList] at hp
  | .cons l t r, i, h, p, hp => by
    simp only [lookupF] at h
    cases hr : lookupF r i with
    | some t'' => rw [hr] at h; simp at h
    | none =>
      rw [hr] at h
      simp only [] at h
      simp only [Fields.toList, List.mem_cons] at hp
      rcases hp with rfl | hp
      · intro hc; rw [if_pos hc] at h; simp at h
      · exact lookupF_none_not_mem r i hr p hp

/-- with distinct ids, looking a field up by its own id finds it -/
theorem lookupF_of_mem_nodup : ∀ (fs : Fields) (p : Label × Ty), (fs.toList.map (·.1.getId)).Nodup → p ∈ fs.toList →
    lookupF fs p.1.getId = some p.2
  | .nil, _, _, h => by simp [Fields.toList] at h
  | .cons l t r, p, hn, h => by
    simp only [Fields.toList, List.map_cons, List.nodup_cons] at hn
    simp only [Fields.toList, List.mem_cons] at h
    simp only [lookupF]
    rcases h with rfl | h
    · have : lookupF r l.getId = none := by
        cases hr : lookupF r l.getId with
        | none => rfl
        | some t' =>
          obtain ⟨l', hm, hi⟩ := lookupF_mem r _ _ hr
          exact absurd (List.mem_map.mpr ⟨(l', t'), hm, hi⟩) hn.1
      rw [this]
      simp
    · rw [lookupF_of_mem_nodup r p hn.2 h]

/-- the value a canonical record holds for an id is canonical at the type the record type gives that id -/
theorem fieldVal_canon (c : Val → Ty → Bool) : ∀ (vfs : List (Label × Val)) (tfs : List (Label × Ty)) (i : Nat) (fv : Val) (wt : Ty),
    canonFieldsWith c vfs tfs = true → (tfs.map (·.1.getId)).Nodup → fieldVal vfs i = some fv →
    (∃ l, (l, wt) ∈ tfs ∧ l.getId = i) → c fv wt = true := by
  intro vfs
  induction vfs with
  | nil => intro tfs i fv wt _ _ h; simp [fieldVal] at h
  | cons q vfs ih =>
    intro tfs i fv wt hc hn hf hm
    obtain ⟨l, v⟩ := q
    cases tfs with
    | nil => simp [canonFieldsWith] at hc
    | cons q' tfs =>
      obtain ⟨l', t⟩ := q'
      simp only [canonFieldsWith, Bool.and_eq_true, decide_eq_true_eq] at hc
      obtain ⟨⟨hl, hv⟩, hrest⟩ := hc
      subst hl
      simp only [List.map_cons, List.nodup_cons] at hn
      simp only [fieldVal] at hf
      obtain ⟨lw, hmem, hid⟩ := hm
      simp only [List.mem_cons, Prod.mk.injEq] at hmem
      split at hf
      · rename_i hli
        simp only [Option.some.injEq] at hf
        subst hf
        rcases hmem with ⟨rfl, rfl⟩ | hmem
        · exact hv
        · exfalso
          apply hn.1
          exact List.mem_map.mpr ⟨(lw, wt), hmem, by rw [hid, hli]⟩
      · rename_i hli
        rcases hmem with ⟨rfl, rfl⟩ | hmem
        · exact absurd hid hli
        · exact ih tfs i fv wt hrest hn.2 hf ⟨lw, hmem, hid⟩

theorem fieldVal_some_of_mem (c : Val → Ty → Bool) : ∀ (vfs : List (Label × Val)) (tfs : List (Label × Ty)) (l : Label) (t : Ty),
    canonFieldsWith c vfs tfs = true → (l, t) ∈ tfs → ∃ fv, fieldVal vfs l.getId = some fv := by
  intro vfs
  induction vfs with
  | nil => intro tfs l t hc hm; cases tfs <;> simp_all [canonFieldsWith]
  | cons q vfs ih =>
    intro tfs l t hc hm
    obtain ⟨lv, v⟩ := q
    cases tfs with
    | nil => simp at hm
    | cons q' tfs =>
      obtain ⟨l', t'⟩ := q'
      simp only [canonFieldsWith, Bool.and_eq_true, decide_eq_true_eq] at hc
      simp only [fieldVal]
      split
      · exact ⟨v, rfl⟩
      · rename_i hne
        simp only [List.mem_cons, Prod.mk.injEq] at hm
        rcases hm with ⟨rfl, rfl⟩ | hm
        · exact absurd (by rw [hc.1.1]) hne
        · exact ih tfs l t hc.2 hm


/-! ### the relation along aliases, and its structural inversions (reflexive pairs included) -/

theorem trace_eq_of_recFind (env : Env) : ∀ (k : Nat) (x : String) (d : Ty), recFind env k x = some d →
    env.trace (k + 1) (.var x) = some d := by
  intro k
  induction k with
  | zero => intro x d h; simp [recFind] at h
  | succ k ih =>
    intro x d h
    simp only [recFind] at h
    simp only [Env.trace]
    cases hf : env.find x with
    | none => rw [hf] at h; simp at h
    | some t =>
      rw [hf] at h
      simp only []
      cases t with
      | var y => simp only [] at h; exact ih y d h
      | _ => simp only [Option.some.injEq] at h; subst h; rfl

theorem traceFull_var (env : Env) (x : String) (d : Ty) (h : recFindFull env x = some d) :
    traceFull env (.var x) = some d :=
  traceFull_of_trace env _ _ d (trace_eq_of_recFind env _ x d h)

theorem sub_refl' (env : Env) (t : Ty) : Sub env t t :=
  sub_coind (fun a b => a = b) (fun _ _ h => Or.inl h) t t rfl

theorem isName_false_of_traced (env : Env) (t t' : Ty) (hs : shapeTy t' = true) (h : traceFull env t = some t') :
    isName t' = false := by
  cases t' with
  | var x => exact absurd rfl (trace_not_var env _ t _ h x)
  | knot k => simp [shapeTy] at hs
  | _ => rfl

/-- the relation is carried along the alias chains of both sides -/
theorem sub_traced (env : Env) (hg : GoodEnv env) (w e w' e' : Ty) (hw : goodTy env w = true) (he : goodTy env e = true)
    (h : Sub env w e) (htw : traceFull env w = some w') (hte : traceFull env e = some e') : Sub env w' e' := by
  by_cases hwe : w = e
  · subst hwe
    rw [htw] at hte
    simp only [Option.some.injEq] at hte
    subst hte
    exact sub_refl' env w'
  · have hgw' := good_trace env hg w w' hw htw
    simp only [goodTy, Bool.and_eq_true] at hw he hgw'
    -- the left side
    have h1 : Sub env w' e := by
      cases w with
      | var x =>
        cases hr : recFindFull env x with
        | none => simp [safeTy, hr] at hw
        | some d =>
          have := traceFull_var env x d hr
          rw [htw] at this
          simp only [Option.some.injEq] at this
          subst this
          exact sub_var_left h hwe hr
      | _ =>
        simp only [traceFull, Env.trace, Option.some.injEq] at htw
        subst htw
        exact h
    -- the right side
    by_cases hwe' : w' = e
    · subst hwe'
      have : traceFull env w' = some w' := by
        cases w' with
        | var x => exact absurd rfl (trace_not_var env _ w _ htw x)
        | _ => rfl
      rw [this] at hte
      simp only [Option.some.injEq] at hte
      subst hte
      exact sub_refl' env w'
    · cases e with
      | var x =>
        cases hr : recFindFull env x with
        | none => simp [safeTy, hr] at he
        | some d =>
          have := traceFull_var env x d hr
          rw [hte] at this
          simp only [Option.some.injEq] at this
          subst this
          exact sub_var_right h1 hwe' (isName_false_of_traced env w w' hgw'.2 htw) hr
      | _ =>
        simp only [traceFull, Env.trace, Option.some.injEq] at hte
        subst hte
        exact h1

theorem sub_vec_inv' {env : Env} {a' b' : Ty} (h : Sub env (.vec a') (.vec b')) : Sub env a' b' := by
  by_cases hne : (.vec a' : Ty) = .vec b'
  · simp only [Ty.vec.injEq] at hne; subst hne; exact sub_refl' env a'
  · exact sub_vec_inv h hne

theorem sub_record_inv' {env : Env} {fs1 fs2 : Fields} (hn : (fs1.toList.map (·.1.getId)).Nodup)
    (h : Sub env (.record fs1) (.record fs2)) :
    ∀ p ∈ fs2.toList, match lookupF fs1 p.1.getId with
      | some t1 => Sub env t1 p.2
      | none => optLike env p.2 = true := by
  by_cases hne : (.record fs1 : Ty) = .record fs2
  · simp only [Ty.record.injEq] at hne
    subst hne
    intro p hp
    rw [lookupF_of_mem_nodup fs1 p hn hp]
    exact sub_refl' env p.2
  · exact sub_record_inv h hne

theorem sub_variant_inv' {env : Env} {fs1 fs2 : Fields} (hn : (fs2.toList.map (·.1.getId)).Nodup)
    (h : Sub env (.variant fs1) (.variant fs2)) :
    ∀ p ∈ fs1.toList, match lookupF fs2 p.1.getId with
      | some t2 => Sub env p.2 t2
      | none => False := by
  by_cases hne : (.variant fs1 : Ty) = .variant fs2
  · simp only [Ty.variant.injEq] at hne
    subst hne
    intro p hp
    rw [lookupF_of_mem_nodup fs1 p hn hp]
    exact sub_refl' env p.2
  · exact sub_variant_inv h hne


/-- which heads a pair of the relation can have, once names, `empty`, `reserved` and options are set aside -/
inductive Head : Ty → Ty → Prop where
  | same (a : Ty) : Head a a
  | natInt : Head (.prim .nat) (.prim .int)
  | servPrincipal (ms : Meths) : Head (.service ms) .principal
  | vec (a b : Ty) : Head (.vec a) (.vec b)
  | record (f1 f2 : Fields) : Head (.record f1) (.record f2)
  | variant (f1 f2 : Fields) : Head (.variant f1) (.variant f2)
  | func (a1 r1 : Tys) (m : List FuncMode) (a2 r2 : Tys) : Head (.func a1 r1 m) (.func a2 r2 m)
  | service (m1 m2 : Meths) : Head (.service m1) (.service m2)

theorem sub_head {env : Env} {a b : Ty} (h : Sub env a b) (hna : isName a = false) (hnb : isName b = false)
    (hemp : a ≠ .prim .empty) (hres : b ≠ .prim .reserved) (hopt : ∀ b', b ≠ .opt b')
    (hca : shapeTy a = true) (hcb : shapeTy b = true) : Head a b := by
  have hF := sub_unfold h
  unfold F at hF
  rcases hF with h1 | h1 | h1 | h1 | h1 | h1 | h1 | h1 | h1 | h1 | h1 | h1 | h1 | h1 | h1
  · subst h1; exact Head.same a
  · exact absurd h1 hres
  · exact absurd h1 hemp
  · obtain ⟨rfl, rfl⟩ := h1; exact Head.natInt
  · obtain ⟨ms, rfl, rfl⟩ := h1; exact Head.servPrincipal ms
  · obtain ⟨b', e1, _⟩ := h1; exact absurd e1 (hopt b')
  · obtain ⟨x, y, rfl, rfl, _⟩ := h1; exact Head.vec x y
  · obtain ⟨x, y, rfl, rfl, _⟩ := h1; exact Head.record x y
  · obtain ⟨x, y, rfl, rfl, _⟩ := h1; exact Head.variant x y
  · obtain ⟨a1, r1, m1, a2, r2, m2, rfl, rfl, rfl, _⟩ := h1; exact Head.func a1 r1 m1 a2 r2
  · obtain ⟨x, y, rfl, rfl, _⟩ := h1; exact Head.service x y
  · obtain ⟨x, d, rfl, _⟩ := h1; simp [isName] at hna
  · obtain ⟨x, d, rfl, _⟩ := h1; simp [isName] at hnb
  · obtain ⟨x, t, rfl, _⟩ := h1; simp [shapeTy] at hca
  · obtain ⟨x, t, rfl, _⟩ := h1; simp [shapeTy] at hcb


/-! ### the coercion on canonical values -/

/-- a regular outcome: a value, a subtype failure (what an enclosing option absorbs) or an exhausted budget -/
def Reg {α : Type} (r : Outcome α) : Prop :=
  match r with
  | .ok _ => True
  | .err k => k = .subtype ∨ k = .limit
  | .panic _ => False

/-- a sound outcome: a value or an exhausted budget -/
def Snd {α : Type} (r : Outcome α) : Prop :=
  match r with
  | .ok _ => True
  | .err k => k = .limit
  | .panic _ => False

theorem Snd.reg {α : Type} {r : Outcome α} (h : Snd r) : Reg r := by
  cases r with
  | ok a => trivial
  | err k => exact Or.inr h
  | panic p => exact h

theorem reg_map {α β : Type} (x : Outcome α) (f : α → β) (h : Reg x) : Reg (x.map f) := by
  cases x <;> simpa [Outcome.map, Reg] using h
theorem snd_map {α β : Type} (x : Outcome α) (f : α → β) (h : Snd x) : Snd (x.map f) := by
  cases x <;> simpa [Outcome.map, Snd] using h

theorem reg_mapOutcomes {α β : Type} (f : α → Outcome β) : ∀ l : List α, (∀ a ∈ l, Reg (f a)) → Reg (mapOutcomes f l) := by
  intro l
  induction l with
  | nil => intro _; trivial
  | cons a r ih =>
    intro h
    simp only [mapOutcomes]
    have ha := h a (by simp)
    cases hf : f a with
    | ok b =>
      simp only []
      have hr := ih (fun x hx => h x (by simp [hx]))
      cases hm : mapOutcomes f r with
      | ok bs => trivial
      | err k => rw [hm] at hr; exact hr
      | panic p => rw [hm] at hr; exact hr
    | err k => rw [hf] at ha; exact ha
    | panic p => rw [hf] at ha; exact ha

theorem snd_mapOutcomes {α β : Type} (f : α → Outcome β) : ∀ l : List α, (∀ a ∈ l, Snd (f a)) → Snd (mapOutcomes f l) := by
  intro l
  induction l with
  | nil => intro _; trivial
  | cons a r ih =>
    intro h
    simp only [mapOutcomes]
    have ha := h a (by simp)
    cases hf : f a with
    | ok b =>
      simp only []
      have hr := ih (fun x hx => h x (by simp [hx]))
      cases hm : mapOutcomes f r with
      | ok bs => trivial
      | err k => rw [hm] at hr; exact hr
      | panic p => rw [hm] at hr; exact hr
    | err k => rw [hf] at ha; exact ha
    | panic p => rw [hf] at ha; exact ha

/-- an enclosing option absorbs the subtype failure of its constituent -/
theorem snd_catch (x : Outcome Val) (h : Reg x) :
    Snd (match x with
      | .ok v' => Outcome.ok (Val.opt v')
      | .err .subtype => .ok .none
      | .err k => .err k
      | .panic s => .panic s) := by
  cases x with
  | ok a => trivial
  | err k =>
    cases k <;> simp only [Reg] at h <;> first | trivial | (rcases h with h | h <;> cases h)
  | panic p => exact h

theorem canon_blob_bytes (env : Env) (w2 : Ty) (hb : isBlobTy env (.vec w2) = true) (m : Nat) (vs : List Val)
    (hc : ∀ e ∈ vs, canon env m e w2 = true) : ∃ b, bytesOfVals vs = some b := by
  simp only [isBlobTy] at hb
  cases ht : traceFull env w2 with
  | none => rw [ht] at hb; simp at hb
  | some t =>
    rw [ht] at hb
    have : t = .prim .nat8 := by
      cases t with
      | prim p => cases p <;> first | rfl | exact Bool.noConfusion hb
      | _ => exact Bool.noConfusion hb
    subst this
    induction vs with
    | nil => exact ⟨[], rfl⟩
    | cons v vs ih =>
      obtain ⟨b, hb'⟩ := ih (fun e he => hc e (by simp [he]))
      obtain ⟨m', hm'⟩ := canon_trace_inv env _ w2 _ m v ht (hc v (by simp))
      cases m' with
      | zero => simp [canon] at hm'
      | succ m' =>
        simp only [canon] at hm'
        cases v <;> simp only [canonPrim] at hm' <;> try (exact Bool.noConfusion hm')
        rename_i k
        exact ⟨k.toUInt8 :: b, by simp [bytesOfVals, hb']⟩


theorem good_opt {env : Env} {t : Ty} (h : goodTy env (.opt t) = true) : goodTy env t = true := by
  simpa [goodTy, safeTy, shapeTy] using h
theorem good_vec {env : Env} {t : Ty} (h : goodTy env (.vec t) = true) : goodTy env t = true := by
  simpa [goodTy, safeTy, shapeTy] using h
theorem good_field {env : Env} {fs : Fields} {p : Label × Ty} (h : goodTy env (.record fs) = true ∨ goodTy env (.variant fs) = true)
    (hp : p ∈ fs.toList) : goodTy env p.2 = true := by
  have h' : safeFields env fs = true ∧ shapeFields fs = true := by
    rcases h with h | h <;> simp only [goodTy, safeTy, shapeTy, Bool.and_eq_true] at h <;> exact ⟨h.1, h.2.1⟩
  simp only [goodTy, Bool.and_eq_true]
  exact ⟨fields_mem_safe env fs p h'.1 hp, shapeFields_mem fs p h'.2 hp⟩
theorem good_nodup {env : Env} {fs : Fields} (h : goodTy env (.record fs) = true ∨ goodTy env (.variant fs) = true) :
    (fs.toList.map (·.1.getId)).Nodup := by
  rcases h with h | h <;> simp only [goodTy, safeTy, shapeTy, Bool.and_eq_true, decide_eq_true_eq] at h <;> exact h.2.2

/-- the value of a canonical variant is canonical at the type its own record of alternatives gives its label -/
theorem canon_variant_inv {env : Env} {m : Nat} {l : Label} {v2 : Val} {i : Nat} {wfs : Fields}
    (hc : canon env m (.variant l v2 i) (.variant wfs) = true) (hn : (wfs.toList.map (·.1.getId)).Nodup)
    (wt : Ty) (hl : lookupF wfs l.getId = some wt) : ∃ m', canon env m' v2 wt = true := by
  cases m with
  | zero => simp [canon] at hc
  | succ m =>
    simp only [canon] at hc
    cases hg : wfs.toList[i]? with
    | none => rw [hg] at hc; exact Bool.noConfusion hc
    | some q =>
      obtain ⟨l', t'⟩ := q
      rw [hg] at hc
      simp only [Bool.and_eq_true, decide_eq_true_eq] at hc
      obtain ⟨⟨hl', _⟩, hv⟩ := hc
      subst hl'
      have hmem : (l, t') ∈ wfs.toList := List.mem_of_getElem? hg
      have := lookupF_of_mem_nodup wfs (l, t') hn hmem
      rw [hl] at this
      simp only [Option.some.injEq] at this
      subst this
      exact ⟨m, hv⟩

/-- **on canonical values the coercion only ever reports a value, a subtype failure or an exhausted budget** -/
theorem coerce_regular (env : Env) (hg : GoodEnv env) (mu : Bool) : ∀ (fuel : Nat) (w e : Ty) (v : Val) (n : Nat),
    goodTy env w = true → goodTy env e = true → canon env n v w = true → Reg (coerce env mu env fuel w e v) := by
  intro fuel
  induction fuel with
  | zero => intro w e v n _ _ _; simp [coerce, Reg]
  | succ fuel ih =>
    intro w e v n hw he hc
    unfold coerce
    have hsw : safeTy env w = true := by simp only [goodTy, Bool.and_eq_true] at hw; exact hw.1
    have hse : safeTy env e = true := by simp only [goodTy, Bool.and_eq_true] at he; exact he.1
    obtain ⟨w', htw⟩ := traceFull_of_safe env w hsw
    obtain ⟨e', hte⟩ := traceFull_of_safe env e hse
    rw [htw, hte]
    simp only []
    have hw' := good_trace env hg w w' hw htw
    have he' := good_trace env hg e e' he hte
    obtain ⟨m, hm⟩ := canon_trace_inv env _ w w' n v htw hc
    have hsw' : safeTy env w' = true := by simp only [goodTy, Bool.and_eq_true] at hw'; exact hw'.1
    have hse' : safeTy env e' = true := by simp only [goodTy, Bool.and_eq_true] at he'; exact he'.1
    cases m with
    | zero => simp [canon] at hm
    | succ m =>
    cases e' with
    | prim p =>
      cases p <;> simp only []
      case int => split <;> simp [Reg]
      case empty => simp [Reg]
      case reserved => simp [Reg]
      all_goals (split <;> simp [Reg])
    | principal => simp only []; split <;> simp [Reg]
    | opt e2 =>
      simp only []
      have he2 := good_opt he'
      split
      · simp [Reg]
      · simp [Reg]
      · simp [Reg]
      · rename_i w2 v2
        have hw2 := good_opt hw'
        have hc2 : canon env m v2 w2 = true := by simpa [canon] using hm
        exact (snd_catch _ (ih w2 e2 v2 m hw2 he2 hc2)).reg
      · rename_i t x hnone hopt
        exfalso
        simp only [canon] at hm
        cases x <;> simp at hm
      · split
        · cases mu <;> simp [Reg]
        · exact (snd_catch _ (ih w' e2 v (m + 1) hw' he2 hm)).reg
    | vec e2 =>
      simp only []
      split
      · rename_i w2 vs
        have hw2 := good_vec hw'
        have he2 := good_vec he'
        have hcs : ∀ x ∈ vs, canon env m x w2 = true := by
          simp only [canon, Bool.and_eq_true, List.all_eq_true] at hm
          exact hm.2
        split
        · split
          · rename_i hbw
            obtain ⟨b, hb⟩ := canon_blob_bytes env w2 hbw m vs hcs
            rw [hb]; simp [Reg]
          · split <;> simp [Reg]
        · exact reg_map _ _ (reg_mapOutcomes _ vs (fun x hx => ih w2 e2 x m hw2 he2 (hcs x hx)))
      · simp [Reg]
    | record efs =>
      simp only []
      split
      · rename_i wfs vfs
        have hcf : canonFieldsWith (canon env m) vfs wfs.toList = true := by simpa [canon] using hm
        apply reg_map
        apply reg_mapOutcomes
        intro p hp
        split
        · rename_i fv wt hfv hwt
          obtain ⟨lw, hmem, hid⟩ := lookupF_mem wfs _ wt hwt
          have hcv := fieldVal_canon (canon env m) vfs wfs.toList _ fv wt hcf (good_nodup (Or.inl hw')) hfv ⟨lw, hmem, hid⟩
          exact reg_map _ _ (ih wt p.2 fv m (good_field (Or.inl hw') hmem) (good_field (Or.inl he') hp) hcv)
        · split <;> simp [Reg]
      · simp [Reg]
    | variant efs =>
      simp only []
      split
      · rename_i wfs l v2 idx
        split
        · rename_i el et wt hfind hwt
          obtain ⟨m', hm'⟩ := canon_variant_inv hm (good_nodup (Or.inr hw')) wt hwt
          obtain ⟨lw, hmem, _⟩ := lookupF_mem wfs _ wt hwt
          exact reg_map _ _ (ih wt et v2 m' (good_field (Or.inr hw') hmem)
            (good_field (Or.inr he') (List.mem_of_find?_eq_some hfind)) hm')
        · simp [Reg]
      · simp [Reg]
    | func a r md =>
      simp only []
      split
      · have hnp := subAlg_np env hg.1 Sub.defaultFuel [] w' (.func a r md) hsw' hse'
        cases hs : subAlg env Sub.defaultFuel [] w' (.func a r md) with
        | yes g => simp [Reg]
        | no => simp [Reg]
        | out => simp [Reg]
        | panic q => exact absurd hs (hnp q)
      · simp [Reg]
    | service ms =>
      simp only []
      split
      · have hnp := subAlg_np env hg.1 Sub.defaultFuel [] w' (.service ms) hsw' hse'
        cases hs : subAlg env Sub.defaultFuel [] w' (.service ms) with
        | yes g => simp [Reg]
        | no => simp [Reg]
        | out => simp [Reg]
        | panic q => exact absurd hs (hnp q)
      · simp [Reg]
    | future => simp [Reg]
    | var x => exact absurd rfl (trace_not_var env _ e _ hte x)
    | knot k => simp [goodTy, shapeTy] at he'
    | unknown => simp [goodTy, shapeTy] at he'
    | cls a t => simp [goodTy, shapeTy] at he'


theorem find_of_lookupF : ∀ (fs : Fields) (i : Nat) (t : Ty), (fs.toList.map (·.1.getId)).Nodup → lookupF fs i = some t →
    ∃ el, fs.toList.find? (fun p => decide (p.1.getId = i)) = some (el, t)
  | .nil, _, _, _, h => by simp [lookupF] at h
  | .cons l t' r, i, t, hn, h => by
    simp only [Fields.toList, List.map_cons, List.nodup_cons] at hn
    simp only [Fields.toList, List.find?_cons]
    by_cases hl : l.getId = i
    · -- the head has the id: by distinctness the tail does not, so the lookup found the head
      have hr : lookupF r i = none := by
        cases hr : lookupF r i with
        | none => rfl
        | some t'' =>
          obtain ⟨l', hm, hi⟩ := lookupF_mem r _ _ hr
          exact absurd (List.mem_map.mpr ⟨(l', t''), hm, by rw [hi, hl]⟩) hn.1
      simp only [lookupF, hr, hl, if_true, Option.some.injEq] at h
      subst h
      exact ⟨l, by simp [hl]⟩
    · have hr : lookupF r i = some t := by
        simp only [lookupF] at h
        cases hr : lookupF r i with
        | some t'' => rw [hr] at h; simpa using h
        | none => rw [hr] at h; simp [hl] at h
      obtain ⟨el, hf⟩ := find_of_lookupF r i t hn.2 hr
      exact ⟨el, by simp [hl, hf]⟩

theorem canon_empty_false (env : Env) (m : Nat) (v : Val) : canon env m v (.prim .empty) = false := by
  cases m with
  | zero => simp [canon]
  | succ m => cases v <;> simp [canon, canonPrim]

/-- **a canonical value of a subtype always coerces to the supertype**: with `w <: e` in the specification relation
the coercion returns a value — the only other outcome is an exhausted depth budget -/
theorem coerce_sound (env : Env) (hg : GoodEnv env) (mu : Bool) : ∀ (fuel : Nat) (w e : Ty) (v : Val) (n : Nat),
    goodTy env w = true → goodTy env e = true → canon env n v w = true → Sub env w e →
    Snd (coerce env mu env fuel w e v) := by
  intro fuel
  induction fuel with
  | zero => intro w e v n _ _ _ _; simp [coerce, Snd]
  | succ fuel ih =>
    intro w e v n hw he hc hsub
    unfold coerce
    have hsw : safeTy env w = true := by simp only [goodTy, Bool.and_eq_true] at hw; exact hw.1
    have hse : safeTy env e = true := by simp only [goodTy, Bool.and_eq_true] at he; exact he.1
    obtain ⟨w', htw⟩ := traceFull_of_safe env w hsw
    obtain ⟨e', hte⟩ := traceFull_of_safe env e hse
    rw [htw, hte]
    simp only []
    have hw' := good_trace env hg w w' hw htw
    have he' := good_trace env hg e e' he hte
    obtain ⟨m, hm⟩ := canon_trace_inv env _ w w' n v htw hc
    have hsw' : safeTy env w' = true := by simp only [goodTy, Bool.and_eq_true] at hw'; exact hw'.1
    have hse' : safeTy env e' = true := by simp only [goodTy, Bool.and_eq_true] at he'; exact he'.1
    have hshw' : shapeTy w' = true := by simp only [goodTy, Bool.and_eq_true] at hw'; exact hw'.2
    have hshe' : shapeTy e' = true := by simp only [goodTy, Bool.and_eq_true] at he'; exact he'.2
    have hsub' : Sub env w' e' := sub_traced env hg w e w' e' hw he hsub htw hte
    have hnw : isName w' = false := isName_false_of_traced env w w' hshw' htw
    have hne : isName e' = false := isName_false_of_traced env e e' hshe' hte
    have hwemp : w' ≠ .prim .empty := by
      intro hc'; rw [hc', canon_empty_false] at hm; exact Bool.noConfusion hm
    cases m with
    | zero => simp [canon] at hm
    | succ m =>
    cases e' with
    | prim p =>
      by_cases hres : p = .reserved
      · subst hres; simp [Snd]
      · have hhead := sub_head hsub' hnw hne hwemp (by simpa using hres) (by intro b' hb; cases hb) hshw' hshe'
        cases hhead with
        | same =>
          simp only [canon] at hm
          cases p <;> cases v <;> simp only [canonPrim] at hm <;> first | (exact Bool.noConfusion hm) | simp [Snd]
        | natInt =>
          simp only [canon] at hm
          cases v <;> simp only [canonPrim] at hm <;> first | (exact Bool.noConfusion hm) | simp [Snd]
    | principal =>
      have hhead := sub_head hsub' hnw hne hwemp (by simp) (by intro b' hb; cases hb) hshw' hshe'
      cases hhead with
      | same =>
        simp only [canon] at hm
        cases v <;> first | (exact Bool.noConfusion hm) | simp [Snd]
      | servPrincipal ms =>
        simp only [canon] at hm
        cases v <;> first | (exact Bool.noConfusion hm) | simp [Snd]
    | opt e2 =>
      simp only []
      have he2 := good_opt he'
      split
      · simp [Snd]
      · simp [Snd]
      · simp [Snd]
      · rename_i w2 v2
        have hw2 := good_opt hw'
        have hc2 : canon env m v2 w2 = true := by simpa [canon] using hm
        exact snd_catch _ (coerce_regular env hg mu fuel w2 e2 v2 m hw2 he2 hc2)
      · rename_i t x hnone hopt
        exfalso
        simp only [canon] at hm
        cases x <;> simp at hm
      · split
        · cases mu <;> simp [Snd]
        · exact snd_catch _ (coerce_regular env hg mu fuel w' e2 v (m + 1) hw' he2 hm)
    | vec e2 =>
      have hhead := sub_head hsub' hnw hne hwemp (by simp) (by intro b' hb; cases hb) hshw' hshe'
      have he2 := good_vec he'
      have hvec : ∃ w2, w' = .vec w2 := by cases hhead <;> exact ⟨_, rfl⟩
      obtain ⟨w2, rfl⟩ := hvec
      have hw2 := good_vec hw'
      have hs2 : Sub env w2 e2 := sub_vec_inv' hsub'
      simp only [canon] at hm
      cases v <;> try (exact Bool.noConfusion hm)
      rename_i vs
      simp only [Bool.and_eq_true, List.all_eq_true] at hm
      simp only []
      split
      · rename_i hbe
        split
        · rename_i hbw
          obtain ⟨b, hb⟩ := canon_blob_bytes env w2 hbw m vs hm.2
          rw [hb]; simp [Snd]
        · rename_i hbw
          -- the expected elements are bytes, the wire elements are not: they can only be `empty`, so there are none
          have hvs : vs = [] := by
            cases vs with
            | nil => rfl
            | cons x xs =>
              exfalso
              have hx := hm.2 x (by simp)
              simp only [isBlobTy] at hbe hbw
              obtain ⟨w2', htw2⟩ := traceFull_of_safe env w2 (by simp only [goodTy, Bool.and_eq_true] at hw2; exact hw2.1)
              cases hte2 : traceFull env e2 with
              | none => rw [hte2] at hbe; simp at hbe
              | some e2' =>
                rw [hte2] at hbe
                have he2' : e2' = .prim .nat8 := by
                  cases e2' with
                  | prim p => cases p <;> first | rfl | exact Bool.noConfusion hbe
                  | _ => exact Bool.noConfusion hbe
                subst he2'
                have hgw2' := good_trace env hg w2 w2' hw2 htw2
                have hsub2 := sub_traced env hg w2 e2 w2' _ hw2 he2 hs2 htw2 hte2
                obtain ⟨mx, hmx⟩ := canon_trace_inv env _ w2 w2' m x htw2 hx
                have hne2 : w2' ≠ .prim .empty := by
                  intro hc'; rw [hc', canon_empty_false] at hmx; exact Bool.noConfusion hmx
                have hsh2 : shapeTy w2' = true := by simp only [goodTy, Bool.and_eq_true] at hgw2'; exact hgw2'.2
                have hh := sub_head hsub2 (isName_false_of_traced env w2 w2' hsh2 htw2) rfl hne2 (by simp)
                  (by intro b' hb; cases hb) hsh2 rfl
                cases hh with
                | same => rw [htw2] at hbw; simp at hbw
          subst hvs
          simp [Snd]
      · exact snd_map _ _ (snd_mapOutcomes _ vs (fun x hx => ih w2 e2 x m hw2 he2 (hm.2 x hx) hs2))
    | record efs =>
      have hhead := sub_head hsub' hnw hne hwemp (by simp) (by intro b' hb; cases hb) hshw' hshe'
      have hrec : ∃ wfs, w' = .record wfs := by cases hhead <;> exact ⟨_, rfl⟩
      obtain ⟨wfs, rfl⟩ := hrec
      simp only [canon] at hm
      cases v <;> try (exact Bool.noConfusion hm)
      rename_i vfs
      simp only []
      have hinv := sub_record_inv' (good_nodup (Or.inl hw')) hsub'
      apply snd_map
      apply snd_mapOutcomes
      intro p hp
      have hpi := hinv p hp
      cases hl : lookupF wfs p.1.getId with
      | some wt =>
        rw [hl] at hpi
        simp only [] at hpi
        obtain ⟨lw, hmem, hid⟩ := lookupF_mem wfs _ wt hl
        obtain ⟨fv, hfv⟩ := fieldVal_some_of_mem (canon env m) vfs wfs.toList lw wt hm hmem
        rw [hid] at hfv
        rw [hfv]
        simp only []
        have hcv := fieldVal_canon (canon env m) vfs wfs.toList _ fv wt hm (good_nodup (Or.inl hw')) hfv ⟨lw, hmem, hid⟩
        exact snd_map _ _ (ih wt p.2 fv m (good_field (Or.inl hw') hmem) (good_field (Or.inl he') hp) hcv hpi)
      | none =>
        rw [hl] at hpi
        simp only [] at hpi
        unfold optLike at hpi
        have hgoal : ∀ (o : Option Val), Snd (match o, (none : Option Ty) with
            | some fv, some wt => Outcome.map (fun v' => (p.1, v')) (coerce env mu env fuel wt p.2 fv)
            | _, _ => match traceFull env p.2 with
              | some (.opt _) => Outcome.ok (p.1, Val.none)
              | some (.prim .null) => .ok (p.1, .null)
              | some (.prim .reserved) => .ok (p.1, .reserved)
              | _ => .err .subtype) := by
          intro o
          have hinner : Snd (match traceFull env p.2 with
              | some (.opt _) => Outcome.ok (p.1, Val.none)
              | some (.prim .null) => .ok (p.1, .null)
              | some (.prim .reserved) => .ok (p.1, .reserved)
              | _ => (.err .subtype : Outcome (Label × Val))) := by
            cases ht : traceFull env p.2 with
            | none => rw [ht] at hpi; simp at hpi
            | some t' =>
              rw [ht] at hpi
              simp only [] at hpi
              cases t' with
              | opt _ => simp [Snd]
              | prim q => cases q <;> simp [isOptLikeTy] at hpi <;> simp [Snd]
              | _ => simp [isOptLikeTy] at hpi
          cases o <;> exact hinner
        exact hgoal _
    | variant efs =>
      have hhead := sub_head hsub' hnw hne hwemp (by simp) (by intro b' hb; cases hb) hshw' hshe'
      have hvar : ∃ wfs, w' = .variant wfs := by cases hhead <;> exact ⟨_, rfl⟩
      obtain ⟨wfs, rfl⟩ := hvar
      have hcan := hm
      simp only [canon] at hm
      cases v <;> try (exact Bool.noConfusion hm)
      rename_i l v2 idx
      simp only [] at hm ⊢
      cases hg' : wfs.toList[idx]? with
      | none => rw [hg'] at hm; exact Bool.noConfusion hm
      | some q =>
        obtain ⟨l', t'⟩ := q
        rw [hg'] at hm
        simp only [Bool.and_eq_true, decide_eq_true_eq] at hm
        obtain ⟨⟨hl', _⟩, hv2⟩ := hm
        subst hl'
        have hmem : (l, t') ∈ wfs.toList := List.mem_of_getElem? hg'
        have hlw := lookupF_of_mem_nodup wfs (l, t') (good_nodup (Or.inr hw')) hmem
        have hinv := sub_variant_inv' (good_nodup (Or.inr he')) hsub' (l, t') hmem
        cases hle : lookupF efs l.getId with
        | none => rw [hle] at hinv; exact absurd hinv (by simp)
        | some t2 =>
          rw [hle] at hinv
          simp only [] at hinv
          obtain ⟨el, hfind⟩ := find_of_lookupF efs l.getId t2 (good_nodup (Or.inr he')) hle
          rw [hfind, hlw]
          simp only []
          exact snd_map _ _ (ih t' t2 v2 m (good_field (Or.inr hw') hmem)
            (good_field (Or.inr he') (List.mem_of_find?_eq_some hfind)) hv2 hinv)
    | func a r md =>
      have hhead := sub_head hsub' hnw hne hwemp (by simp) (by intro b' hb; cases hb) hshw' hshe'
      have hfn : ∃ a1 r1 m1, w' = .func a1 r1 m1 := by cases hhead <;> exact ⟨_, _, _, rfl⟩
      obtain ⟨a1, r1, m1, rfl⟩ := hfn
      simp only [canon] at hm
      cases v <;> try (exact Bool.noConfusion hm)
      simp only []
      have hnp := subAlg_np env hg.1 Sub.defaultFuel [] (.func a1 r1 m1) (.func a r md) hsw' hse'
      have hnr := subAlg_never_rejects env hg.1 Sub.defaultFuel [] _ _ hsw' hse' hsub'
      cases hs : subAlg env Sub.defaultFuel [] (.func a1 r1 m1) (.func a r md) with
      | yes g => simp [Snd]
      | no => exact absurd hs hnr
      | out => simp [Snd]
      | panic q => exact absurd hs (hnp q)
    | service ms =>
      have hhead := sub_head hsub' hnw hne hwemp (by simp) (by intro b' hb; cases hb) hshw' hshe'
      have hsv : ∃ ms1, w' = .service ms1 := by cases hhead <;> exact ⟨_, rfl⟩
      obtain ⟨ms1, rfl⟩ := hsv
      simp only [canon] at hm
      cases v <;> try (exact Bool.noConfusion hm)
      simp only []
      have hnp := subAlg_np env hg.1 Sub.defaultFuel [] (.service ms1) (.service ms) hsw' hse'
      have hnr := subAlg_never_rejects env hg.1 Sub.defaultFuel [] _ _ hsw' hse' hsub'
      cases hs : subAlg env Sub.defaultFuel [] (.service ms1) (.service ms) with
      | yes g => simp [Snd]
      | no => exact absurd hs hnr
      | out => simp [Snd]
      | panic q => exact absurd hs (hnp q)
    | future => simp [goodTy, shapeTy] at he'
    | var x => exact absurd rfl (trace_not_var env _ e _ hte x)
    | knot k => simp [goodTy, shapeTy] at he'
    | unknown => simp [goodTy, shapeTy] at he'
    | cls a t => simp [goodTy, shapeTy] at he'

end Candid.Wire
