import CandidModel.RustId
/- helper lemmas for C18: the identifiers given to the fields of one record / variant are pairwise distinct -/
namespace Candid.RustId
open Candid

theorem unraw_push (m : String) : unraw (m ++ "_") = unraw m ++ "_" := by
  unfold unraw
  have hl : (m ++ "_").toList = m.toList ++ ['_'] := by simp
  rw [hl]
  cases h : m.toList with
  | nil =>
    have : m = "" := by
      have := congrArg String.ofList h
      simpa using this
    subst this
    rfl
  | cons c r =>
    cases r with
    | nil =>
      by_cases hc : c = 'r'
      · subst hc
        simp only [List.cons_append, List.nil_append]
        rfl
      · simp only [List.cons_append, List.nil_append]
        split
        · rename_i rest heq
          simp only [List.cons.injEq] at heq
          exact absurd heq.1 hc
        · rfl
    | cons d r' =>
      by_cases hc : c = 'r' ∧ d = '#'
      · obtain ⟨rfl, rfl⟩ := hc
        simp only [List.cons_append]
        apply String.ext
        simp
      · simp only [List.cons_append]
        split
        · rename_i rest heq
          simp only [List.cons.injEq] at heq
          exact absurd ⟨heq.1, heq.2.1⟩ hc
        · split
          · rename_i rest heq
            simp only [List.cons.injEq] at heq
            exact absurd ⟨heq.1, heq.2.1⟩ hc
          · rfl

theorem unraw_push_length (m : String) : (unraw (m ++ "_")).length = (unraw m).length + 1 := by
  rw [unraw_push, String.length_append]; rfl

theorem freshen_length : ∀ (k : Nat) (taken : List String) (m : String), (unraw m).length ≤ (unraw (freshen k taken m)).length := by
  intro k
  induction k with
  | zero => intro taken m; exact Nat.le_refl _
  | succ k ih =>
    intro taken m
    simp only [freshen]
    split
    · have := ih taken (m ++ "_")
      rw [unraw_push_length] at this
      omega
    · exact Nat.le_refl _

theorem freshen_erase (x : String) : ∀ (k : Nat) (taken : List String) (m : String), x.length < (unraw m).length →
    freshen k taken m = freshen k (taken.erase x) m := by
  intro k
  induction k with
  | zero => intro taken m _; rfl
  | succ k ih =>
    intro taken m hlen
    have hne : unraw m ≠ x := by intro h; rw [h] at hlen; omega
    simp only [freshen, List.mem_erase_of_ne hne]
    split
    · exact ih taken (m ++ "_") (by rw [unraw_push_length]; omega)
    · rfl

/-- within `taken.length + 1` rounds the identifier is new -/
theorem freshen_fresh : ∀ (k : Nat) (taken : List String) (n : String), taken.length < k → unraw (freshen k taken n) ∉ taken := by
  intro k
  induction k with
  | zero => intro taken n h; omega
  | succ k ih =>
    intro taken n hk
    simp only [freshen]
    split
    · rename_i hmem
      have hlen : (unraw n).length < (unraw (n ++ "_")).length := by rw [unraw_push_length]; omega
      rw [freshen_erase (unraw n) k taken (n ++ "_") hlen]
      have hlt : (taken.erase (unraw n)).length < k := by
        rw [List.length_erase_of_mem hmem]
        have : 0 < taken.length := List.length_pos_of_mem hmem
        omega
      have hfresh := ih (taken.erase (unraw n)) (n ++ "_") hlt
      have hge := freshen_length k (taken.erase (unraw n)) (n ++ "_")
      have hne : unraw (freshen k (taken.erase (unraw n)) (n ++ "_")) ≠ unraw n := by
        intro h; rw [h] at hge; omega
      intro hin
      exact hfresh ((List.mem_erase_of_ne hne).mpr hin)
    · rename_i hmem; exact hmem

/-- the identifiers of the fields are new with respect to `taken` and pairwise distinct, as rustc compares them -/
theorem emitFields_distinct (case : Case) : ∀ (ids taken : List String),
    (∀ p ∈ emitFields case ids taken, unraw p.1 ∉ taken) ∧ ((emitFields case ids taken).map fun p => unraw p.1).Nodup := by
  intro ids
  induction ids with
  | nil => intro taken; simp [emitFields]
  | cons id rest ih =>
    intro taken
    simp only [emitFields]
    have hf := freshen_fresh (taken.length + 1) taken (emitField id case).1 (Nat.lt_succ_self _)
    obtain ⟨h1, h2⟩ := ih (unraw (freshen (taken.length + 1) taken (emitField id case).1) :: taken)
    refine ⟨?_, ?_⟩
    · intro p hp
      simp only [List.mem_cons] at hp
      rcases hp with rfl | hp
      · exact hf
      · intro hin; exact h1 p hp (List.mem_cons_of_mem _ hin)
    · simp only [List.map_cons, List.nodup_cons]
      refine ⟨?_, h2⟩
      intro hin
      simp only [List.mem_map] at hin
      obtain ⟨p, hp, heq⟩ := hin
      exact h1 p hp (by rw [heq]; exact List.mem_cons_self)

end Candid.RustId
