import CandidModel.Native
import CandidModel.Proofs.NativeStep
import CandidModel.Proofs.NativeRound
import CandidModel.Proofs.DeFuel
/-
  C08 on the mirrors: native decoding at a Rust type against untyped decoding at its Candid type, for EVERY wire type
  and every input.  With nothing metered, and unless one of the two runs is starved of depth budget, the two end the
  same way: the same value and the same remaining input, or both with a subtype failure, or both with an error.
  The Rust type ranges over the grammar without tuples, maps, 128-bit integers, arrays and bounded vectors (where the
  host limits and the known finding KF-C08-tuple-nonpositional live); the expected type is the Candid type of the Rust
  type in the strict sense of `agreeS`.
-/
namespace Candid.Native
open Candid Candid.Wire Candid.Leb Candid.De

/-- the state the untyped run is in when the native run is in `s`: `is_untyped` set, all else equal -/
def up (s : St) : St := { s with untyped := true }

theorem up_unmetered (s : St) (h : Unmetered s) : Unmetered (up s) := h
theorem up_input (s : St) : (up s).input = s.input := rfl

/-- the heads a Candid type of a Rust type can unfold to -/
def plainShape : Ty → Bool
  | .prim _ | .principal | .opt _ | .vec _ | .record _ | .variant _ | .func _ _ _ | .service _ => true
  | _ => false

/-- strict lockstep between a Rust type and its Candid type, to depth `k` -/
def agreeS (env : Env) (renv : REnv) : Nat → RTy → Ty → Bool
  | 0, _, _ => true
  | k + 1, t, e =>
    match t with
    | .newtype t' => agreeS env renv k t' e
    | .ref x => (match renv.find x with | some t' => agreeS env renv k t' e | none => false)
    | _ =>
      match Sub.traceFull env e with
      | none => false
      | some e' =>
        match t, e' with
        | .prim p, .prim q => decide (p = q) && directPrim p
        | .nat, .prim .nat | .int, .prim .int => true
        | .principal, .principal | .reserved, .prim .reserved | .empty, .prim .empty => true
        | .func, .func _ _ _ | .service, .service _ => true
        | .byteBuf, .vec ee => isBlobTy env (.vec ee)
        | .opt t', .opt e2 => agreeS env renv k t' e2
        | .seq t', .vec ee =>
          agreeS env renv k t' ee &&
            ((isByte renv (resolveDepth renv) t' && isBlobTy env (.vec ee)) ||
             (!(isByte renv (resolveDepth renv) t') && !(isBlobTy env (.vec ee)) &&
              (match ee with
               | .prim p => (primSize p).isNone || (acceptsPrimitive renv (resolveDepth renv) t' p == some true)
               | _ => true)))
        | .strct fs, .record efs =>
          (fs.select (.named "_")).isNone &&
            efs.toList.all fun p => match fs.select p.1 with
              | some (_, t') => agreeS env renv k t' p.2
              | none => false
        | .enm vs, .variant efs =>
          efs.toList.all fun p => match p.1 with
            | .named nm => (match vs.select (.named nm) with
                | some (.unit, _) => decide (p.2 = .prim .null)
                | some (_, t') => decide (p.2 ≠ .prim .null) && agreeS env renv k t' p.2
                | none => false)
            | _ => false
        | .map kt vt, .vec ee =>
          !(isBlobTy env (.vec ee)) &&
          (match Sub.traceFull env ee with
           | some (.record efs) =>
             (match efs.toList with
              | [(l0, ek), (l1, ev)] =>
                decide (l0.getId = 0) && decide (l1.getId = 1) && agreeS env renv k kt ek && agreeS env renv k vt ev &&
                  (match Sub.traceFull env ek, Sub.traceFull env ev with
                   | some ek', some ev' => plainShape ek' && plainShape ev'
                   | _, _ => false)
              | _ => false)
           | _ => false)
        | _, _ => false

/-- the two runs end the same way, unless one of them is starved -/
def SimN (fl : Flags) (a : NR) (b : R Val) : Prop :=
  a = .err .limit ∨ b = .err .limit ∨
  (match a, b with
   | .ok (v, fl') s1, .ok v' s2 =>
     v = v' ∧ s2 = up s1 ∧ s1.untyped = false ∧ Unmetered s1 ∧ (fl' = fl ∨ fl' = Flags.clear)
   | .sub d q, .sub d' q' => d = none ∧ q = none ∧ d' = none ∧ q' = none
   | .err _, .err _ => True
   | .panic _, .panic _ => True
   | _, _ => False)

theorem SimN.starvedL (fl : Flags) (b : R Val) : SimN fl (.err .limit) b := Or.inl rfl
theorem SimN.starvedR (fl : Flags) (a : NR) : SimN fl a (.err .limit) := Or.inr (Or.inl rfl)
theorem SimN.err (fl : Flags) (k1 k2 : ErrKind) : SimN fl (.err k1) (.err k2) := Or.inr (Or.inr trivial)
theorem SimN.sub (fl : Flags) (s : St) (hu : Unmetered s) : SimN fl (subErr s) (subErr (up s)) := by
  refine Or.inr (Or.inr ?_)
  simp only [subErr, up]
  exact ⟨hu.1, hu.2, hu.1, hu.2⟩
theorem SimN.ok (v : Val) (fl fl' : Flags) (s : St) (h1 : s.untyped = false) (h2 : Unmetered s)
    (h3 : fl' = fl ∨ fl' = Flags.clear) : SimN fl (.ok (v, fl') s) (.ok v (up s)) :=
  Or.inr (Or.inr ⟨rfl, rfl, h1, h2, h3⟩)

/-- lifting a native-side computation of a shared reader to the untyped side: same outcome, state lifted -/
def lift {α : Type} : R α → R α
  | .ok a s => .ok a (up s)
  | .sub d q => .sub d q
  | .err k => .err k
  | .panic p => .panic p

theorem addCost_up (s : St) (hu : Unmetered s) (c : Nat) : addCost (up s) c = .ok () (up s) :=
  addCost_unmetered_ok (up s) (up_unmetered s hu) c

theorem rd_up {α : Type} (f : Bytes → Outcome (α × Bytes)) (s : St) : rd f (up s) = lift (rd f s) := by
  unfold rd
  simp only [up_input]
  cases f s.input with
  | ok p => obtain ⟨a, rest⟩ := p; rfl
  | err k => rfl
  | panic p => rfl

theorem lift_bind {α β : Type} (x : R α) (f g : α → St → R β) (h : ∀ a s, x = .ok a s → g a (up s) = lift (f a s)) :
    (lift x).bind g = lift (x.bind f) := by
  cases x with
  | ok a s => exact h a s rfl
  | sub d q => rfl
  | err k => rfl
  | panic p => rfl

theorem lift_map {α β : Type} (x : R α) (f : α → β) : (lift x).map f = lift (x.map f) := by
  cases x <;> rfl

/-- a shared reader lifted: the native side wraps the value with flags -/
theorem SimN.of_lift (fl : Flags) (x : R Val)
    (hst : ∀ v s1, x = .ok v s1 → s1.untyped = false ∧ Unmetered s1)
    (hsub : ∀ d q, x = .sub d q → d = none ∧ q = none) : SimN fl (withFlags fl x) (lift x) := by
  refine Or.inr (Or.inr ?_)
  cases x with
  | ok v s1 => exact ⟨rfl, rfl, (hst v s1 rfl).1, (hst v s1 rfl).2, Or.inl rfl⟩
  | sub d q => exact ⟨(hsub d q rfl).1, (hsub d q rfl).2, (hsub d q rfl).1, (hsub d q rfl).2⟩
  | err k => trivial
  | panic p => trivial


/-! ## shared readers at the lifted state -/

theorem natFast_eq (mkv : Nat → Val) : natFast mkv = natAs mkv := by
  funext bs
  unfold natFast natAs
  rw [deNat_spec, natDecode_spec]
  rfl

theorem intFast_eq : intFast = intAs := by
  funext bs
  unfold intFast intAs
  rw [deInt_spec, intDecode_spec]
  rfl

theorem bigNum_up (f : Bytes → Outcome (Val × Bytes)) (s : St) (hu : Unmetered s) : bigNum f (up s) = lift (bigNum f s) := by
  unfold bigNum
  rw [rd_up]
  simp only [up_input]
  cases hr : rd f s with
  | ok v s1 =>
    have hu1 := rd_unmetered f s hu v s1 hr
    simp only [lift, R.bind]
    rw [addCost_up s1 hu1, addCost_unmetered_ok s1 hu1]
    rfl
  | sub d q => rfl
  | err k => rfl
  | panic p => rfl

theorem dePrimExact_up (p : Prim) (c : Nat) (w e : Ty) (s : St) (hu : Unmetered s) :
    dePrimExact p c w e (up s) = lift (dePrimExact p c w e s) := by
  unfold dePrimExact
  split
  · rw [addCost_up s hu, addCost_unmetered_ok s hu]
    simp only [R.bind]
    exact rd_up _ s
  · rfl

theorem lenBytes_up (s : St) (hu : Unmetered s) : lenBytes (up s) = lift (lenBytes s) := by
  unfold lenBytes
  rw [rd_up]
  cases hr : rd readLenDe s with
  | ok n s1 =>
    have hu1 := rd_unmetered _ s hu n s1 hr
    simp only [lift, R.bind]
    rw [addCost_up s1 hu1, addCost_unmetered_ok s1 hu1]
    simp only [R.bind]
    exact rd_up _ s1
  | sub d q => rfl
  | err k => rfl
  | panic p => rfl

theorem dePrincipalBytes_up (s : St) (hu : Unmetered s) : dePrincipalBytes (up s) = lift (dePrincipalBytes s) := by
  unfold dePrincipalBytes
  rw [rd_up]
  cases hr : rd readPrincipal s with
  | ok b s1 =>
    have hu1 := rd_unmetered _ s hu b s1 hr
    simp only [lift, R.bind]
    rw [addCost_up s1 hu1, addCost_unmetered_ok s1 hu1]
    rfl
  | sub d q => rfl
  | err k => rfl
  | panic p => rfl

theorem deBlobCase_up (env : Env) (w : Ty) (s : St) (hu : Unmetered s) :
    deBlobCase env w (up s) = lift (deBlobCase env w s) := by
  unfold deBlobCase
  split
  · rw [lenBytes_up s hu, lift_map]
  · split
    · rw [rd_up]
      cases hr : rd readLenDe s with
      | ok n s1 =>
        have hu1 := rd_unmetered _ s hu n s1 hr
        simp only [lift, R.bind]
        split
        · rfl
        · rw [addCost_up s1 hu1, addCost_unmetered_ok s1 hu1]; rfl
      | sub d q => rfl
      | err k => rfl
      | panic p => rfl
    · rfl

theorem deFuncCase_up (w : Ty) (s : St) (hu : Unmetered s) : deFuncCase w (up s) = lift (deFuncCase w s) := by
  unfold deFuncCase
  cases w <;> try rfl
  simp only [up_input]
  cases hi : s.input with
  | nil => rfl
  | cons b rest =>
    simp only []
    split
    · rfl
    · split
      · rfl
      · have hu0 : Unmetered ({ s with input := rest } : St) := hu
        have e0 : ({ up s with input := rest } : St) = up { s with input := rest } := rfl
        rw [e0, rd_up]
        cases hr : rd readPrincipal { s with input := rest } with
        | ok pid s2 =>
          have hu2 := rd_unmetered _ _ hu0 pid s2 hr
          simp only [lift, R.bind]
          rw [rd_up]
          cases hr2 : rd readLenDe s2 with
          | ok n s3 =>
            have hu3 := rd_unmetered _ _ hu2 n s3 hr2
            simp only [lift, R.bind]
            rw [rd_up]
            cases hr3 : rd (takeN n) s3 with
            | ok mbytes s4 =>
              have hu4 := rd_unmetered _ _ hu3 mbytes s4 hr3
              simp only [lift, R.bind]
              rw [addCost_up s4 hu4, addCost_unmetered_ok s4 hu4]
              simp only [R.bind]
              split <;> rfl
            | sub d q => rfl
            | err k => rfl
            | panic p => rfl
          | sub d q => rfl
          | err k => rfl
          | panic p => rfl
        | sub d q => rfl
        | err k => rfl
        | panic p => rfl

/-- `check_subtype` on both sides: same checker run on the same memo, costs aside -/
theorem checkSubtype_up (env : Env) (tl : Nat) (w e : Ty) (s : St) (hu : Unmetered s) :
    checkSubtype env w e (up s) = lift (nCheckSubtype env tl w e s) := by
  unfold checkSubtype nCheckSubtype
  rw [addCost_up s hu, addCost_unmetered_ok s hu]
  simp only [R.bind]
  show (match Sub.subAlg env Sub.defaultFuel s.gamma w e with
    | .yes g => R.ok () { up s with gamma := g }
    | .panic p => .panic p
    | _ => subErr (up s)) = _
  cases Sub.subAlg env Sub.defaultFuel s.gamma w e <;> rfl

/-- what `unroll` does with nothing metered -/
theorem unroll_char (env : Env) (n : Nat) (w e : Ty) (s : St) (hu : Unmetered s) :
    unroll env n w e s = (match traceAt env n e, traceAt env n w with
      | some e', some w' => .ok (w', e') s
      | _, _ => .err .limit) := by
  cases he : traceAt env n e with
  | none =>
    simp only []
    unfold traceAt at he
    unfold unroll
    split at he
    · rename_i hn
      simp only [hn, if_true]
      rw [addCost_unmetered_ok s hu]
      simp [R.bind, he, ofOpt]
    · simp at he
  | some e' =>
    cases hw : traceAt env n w with
    | none =>
      simp only []
      unfold traceAt at he hw
      unfold unroll
      have hnw : Sub.isName w = true := by
        by_cases h : Sub.isName w = true
        · exact h
        · simp [h] at hw
      simp only [hnw, if_true] at hw
      have step1 : (if Sub.isName e = true then (addCost s 1).bind fun _ s' => ofOpt (env.trace n e) .limit s' else R.ok e s)
          = R.ok e' s := by
        split at he
        · rename_i hn; simp only [hn, if_true]; rw [addCost_unmetered_ok s hu]; simp [R.bind, he, ofOpt]
        · rename_i hn
          simp only [Option.some.injEq] at he
          rw [he] at hn ⊢
          simp [hn]
      simp only [] at step1 ⊢
      rw [step1]
      simp only [R.bind, hnw, if_true]
      rw [addCost_unmetered_ok s hu]
      simp [R.bind, hw, ofOpt, R.map]
    | some w' => exact unroll_same' env n w e w' e' s hu hw he
where
  unroll_same' (env : Env) (k : Nat) (w e w' e' : Ty) (st : St) (hu : Unmetered st)
      (hw : traceAt env k w = some w') (he : traceAt env k e = some e') : unroll env k w e st = .ok (w', e') st := by
    unfold traceAt at hw he
    unfold unroll
    by_cases hne : Sub.isName e = true
    · simp only [hne, if_true] at he ⊢
      rw [addCost_unmetered_ok st hu]
      simp only [R.bind, he, ofOpt]
      by_cases hnw : Sub.isName w = true
      · simp only [hnw, if_true] at hw ⊢
        rw [addCost_unmetered_ok st hu]
        simp only [R.bind, hw, ofOpt, R.map]
      · simp only [hnw, if_false, Bool.false_eq_true] at hw ⊢
        simp only [Option.some.injEq] at hw
        subst hw
        rfl
    · simp only [hne, if_false, Bool.false_eq_true] at he ⊢
      simp only [Option.some.injEq] at he
      subst he
      simp only [R.bind]
      by_cases hnw : Sub.isName w = true
      · simp only [hnw, if_true] at hw ⊢
        rw [addCost_unmetered_ok st hu]
        simp only [R.bind, hw, ofOpt, R.map]
      · simp only [hnw, if_false, Bool.false_eq_true] at hw ⊢
        simp only [Option.some.injEq] at hw
        subst hw
        rfl

/-- the two unfoldings, at their own budgets and states: one is starved, or both give the full unfoldings -/
theorem unroll_rel (env : Env) (k m : Nat) (w e : Ty) (s : St) (hu : Unmetered s) :
    unroll env k w e s = .err .limit ∨ unroll env m w e (up s) = .err .limit ∨
    ∃ w' e', unroll env k w e s = .ok (w', e') s ∧ unroll env m w e (up s) = .ok (w', e') (up s) ∧
      Sub.traceFull env e = some e' ∧ Sub.traceFull env w = some w' := by
  rw [unroll_char env k w e s hu, unroll_char env m w e (up s) (up_unmetered s hu)]
  cases h1 : traceAt env k e with
  | none => exact Or.inl rfl
  | some e1 =>
    cases h2 : traceAt env k w with
    | none => exact Or.inl rfl
    | some w1 =>
      cases h3 : traceAt env m e with
      | none => exact Or.inr (Or.inl rfl)
      | some e2 =>
        cases h4 : traceAt env m w with
        | none => exact Or.inr (Or.inl rfl)
        | some w2 =>
          have a1 := traceAt_full env k e e1 h1
          have a2 := traceAt_full env m e e2 h3
          have b1 := traceAt_full env k w w1 h2
          have b2 := traceAt_full env m w w2 h4
          rw [a1] at a2; rw [b1] at b2
          simp only [Option.some.injEq] at a2 b2
          subst a2 b2
          exact Or.inr (Or.inr ⟨w1, e1, rfl, rfl, a1, b1⟩)


/-! ## the native run stays typed and unmetered -/

def Good2 (s : St) : Prop := s.untyped = false ∧ Unmetered s

/-- what a computation from a good state ends in -/
def Fine {α : Type} (x : R α) : Prop :=
  (∀ a s1, x = .ok a s1 → Good2 s1) ∧ (∀ d q, x = .sub d q → d = none ∧ q = none)

theorem Fine.mkOk {α : Type} (a : α) (s : St) (h : Good2 s) : Fine (R.ok a s) := by
  refine ⟨fun a' s1 e => ?_, fun d q e => ?_⟩
  · simp only [R.ok.injEq] at e; rw [← e.2]; exact h
  · simp at e
theorem Fine.mkErr {α : Type} (k : ErrKind) : Fine (R.err k : R α) := by
  refine ⟨fun a' s1 e => ?_, fun d q e => ?_⟩ <;> simp at e
theorem Fine.mkPanic {α : Type} (p : String) : Fine (R.panic p : R α) := by
  refine ⟨fun a' s1 e => ?_, fun d q e => ?_⟩ <;> simp at e
theorem Fine.mkSub {α : Type} (s : St) (h : Good2 s) : Fine (De.subErr s : R α) := by
  refine ⟨fun a' s1 e => ?_, fun d q e => ?_⟩
  · simp [De.subErr] at e
  · simp only [De.subErr, R.sub.injEq] at e
    exact ⟨e.1 ▸ h.2.1, e.2 ▸ h.2.2⟩

theorem Fine.bind {α β : Type} {x : R α} {f : α → St → R β} (hx : Fine x) (hf : ∀ a s1, Good2 s1 → Fine (f a s1)) :
    Fine (x.bind f) := by
  cases x with
  | ok a s1 => exact hf a s1 (hx.1 a s1 rfl)
  | sub d q =>
    refine ⟨fun a' s1 e => ?_, fun d' q' e => ?_⟩
    · simp [R.bind] at e
    · simp only [R.bind, R.sub.injEq] at e
      rw [← e.1, ← e.2]
      exact hx.2 d q rfl
  | err k => exact Fine.mkErr k
  | panic p => exact Fine.mkPanic p

theorem Fine.map {α β : Type} {x : R α} (f : α → β) (hx : Fine x) : Fine (x.map f) :=
  Fine.bind hx (fun a s1 h => Fine.mkOk (f a) s1 h)

theorem Fine.ofRd {α : Type} (f : Bytes → Outcome (α × Bytes)) (s : St) (h : Good2 s) : Fine (rd f s) := by
  unfold rd
  cases f s.input with
  | ok p => obtain ⟨a, rest⟩ := p; exact Fine.mkOk a _ ⟨h.1, h.2⟩
  | err k => exact Fine.mkErr k
  | panic p => exact Fine.mkPanic p

theorem Fine.ofAddCost (s : St) (h : Good2 s) (c : Nat) : Fine (addCost s c) := by
  rw [addCost_unmetered_ok s h.2]; exact Fine.mkOk () s h

theorem Fine.ite {α : Type} (c : Prop) [Decidable c] {a b : R α} (ha : Fine a) (hb : Fine b) : Fine (if c then a else b) := by
  split
  · exact ha
  · exact hb

theorem fine_dePrimExact (p : Prim) (c : Nat) (w e : Ty) (s : St) (h : Good2 s) : Fine (dePrimExact p c w e s) := by
  unfold dePrimExact
  exact Fine.ite _ (Fine.bind (Fine.ofAddCost s h c) (fun _ s1 h1 => Fine.ofRd _ s1 h1)) (Fine.mkSub s h)

theorem fine_lenBytes (s : St) (h : Good2 s) : Fine (lenBytes s) := by
  unfold lenBytes
  exact Fine.bind (Fine.ofRd _ s h) (fun n s1 h1 => Fine.bind (Fine.ofAddCost s1 h1 _) (fun _ s2 h2 => Fine.ofRd _ s2 h2))

theorem fine_bigNum (f : Bytes → Outcome (Val × Bytes)) (s : St) (h : Good2 s) : Fine (bigNum f s) := by
  unfold bigNum
  exact Fine.bind (Fine.ofRd _ s h) (fun v s1 h1 => Fine.map _ (Fine.ofAddCost s1 h1 _))

theorem fine_dePrincipalBytes (s : St) (h : Good2 s) : Fine (dePrincipalBytes s) := by
  unfold dePrincipalBytes
  exact Fine.bind (Fine.ofRd _ s h) (fun v s1 h1 => Fine.map _ (Fine.ofAddCost s1 h1 _))

theorem fine_deBlobCase (env : Env) (w : Ty) (s : St) (h : Good2 s) : Fine (deBlobCase env w s) := by
  unfold deBlobCase
  refine Fine.ite _ (Fine.map _ (fine_lenBytes s h)) ?_
  split
  · exact Fine.bind (Fine.ofRd _ s h) (fun n s1 h1 => Fine.ite _ (Fine.mkSub s1 h1) (Fine.map _ (Fine.ofAddCost s1 h1 _)))
  · exact Fine.mkSub s h

theorem fine_deFuncCase (w : Ty) (s : St) (h : Good2 s) : Fine (deFuncCase w s) := by
  unfold deFuncCase
  cases w <;> try (exact Fine.mkSub s h)
  cases hi : s.input with
  | nil => exact Fine.mkErr _
  | cons b rest =>
    simp only []
    refine Fine.ite _ (Fine.mkErr _) (Fine.ite _ (Fine.mkErr _) ?_)
    have h0 : Good2 ({ s with input := rest } : St) := h
    refine Fine.bind (Fine.ofRd _ _ h0) (fun pid s2 h2 => Fine.bind (Fine.ofRd _ s2 h2) (fun n s3 h3 =>
      Fine.bind (Fine.ofRd _ s3 h3) (fun mb s4 h4 => Fine.bind (Fine.ofAddCost s4 h4 _) (fun _ s5 h5 => ?_))))
    split
    · exact Fine.mkOk _ s5 h5
    · exact Fine.mkErr _

theorem fine_nCheckSubtype (env : Env) (tl : Nat) (w e : Ty) (s : St) (h : Good2 s) : Fine (nCheckSubtype env tl w e s) := by
  unfold nCheckSubtype
  refine Fine.bind (Fine.ofAddCost s h _) (fun _ s1 h1 => ?_)
  split
  · exact Fine.mkOk () _ ⟨h1.1, h1.2⟩
  · exact Fine.mkPanic _
  · exact Fine.mkSub s1 h1

/-- skipping keeps the state good -/
theorem fine_deIgnored (env : Env) (n : Nat) (w : Ty) (s : St) (h : Good2 s) : Fine (deIgnored env n w s) := by
  have hsim := (de_sim env n).2.1 w s s (Same.refl s) h.2
  refine ⟨fun v s1 e => ?_, fun d q e => ?_⟩
  · rw [e] at hsim
    obtain ⟨s', h1, _, h3⟩ := hsim
    simp only [R.ok.injEq] at h1
    have hs' : s1 = s' := h1.2
    subst hs'
    refine ⟨?_, h3⟩
    cases n with
    | zero => rw [deIgnored_zero] at e; cases e
    | succ n =>
      rw [deIgnored_succ] at e
      obtain ⟨v', s2, _, h5⟩ := bind_ok_inv e
      simp only [R.ok.injEq] at h5
      rw [← h5.2]
      exact h.1
  · rw [e] at hsim
    simp only [Sim] at hsim
    simp only [R.sub.injEq] at hsim
    exact ⟨hsim.1, hsim.2⟩

theorem SimN.of_fine (fl : Flags) (x : R Val) (hx : Fine x) : SimN fl (withFlags fl x) (lift x) :=
  SimN.of_lift fl x (fun v s1 e => hx.1 v s1 e) (fun d q e => hx.2 d q e)


/-! ## skipping, on both sides -/

theorem deIgnored_up (env : Env) (j : Nat) (w : Ty) (s : St) (h : s.untyped = false) :
    deIgnored env j w (up s) = lift (deIgnored env j w s) := by
  cases j with
  | zero => rfl
  | succ j =>
    rw [deIgnored_succ, deIgnored_succ]
    have e0 : ({ up s with untyped := true } : St) = { s with untyped := true } := rfl
    rw [e0]
    cases deAny env .ignored j w w { s with untyped := true } with
    | ok v s' =>
      simp only [R.bind, lift, up, h]
    | sub d q => rfl
    | err k => rfl
    | panic p => rfl

/-- a type and its unfolding are decoded alike (budgets aside) -/
theorem deAny_unfold_am (env : Env) (vis : Visitor) (n n' : Nat) (w w' : Ty) (st : St) (hu : Unmetered st)
    (ht : Sub.traceFull env w = some w') : AM (deAny env vis n w w st) (deAny env vis n' w' w' st) := by
  cases n with
  | zero => rw [deAny_zero]; exact AM.left _
  | succ n =>
    cases n' with
    | zero => rw [deAny_zero]; exact AM.right _
    | succ n' =>
      rw [deAny_succ, deAny_succ, unroll_char env n w w st hu, unroll_char env n' w' w' st hu]
      have hw' : Sub.traceFull env w' = some w' := by
        unfold Sub.traceFull
        exact Check.trace_nonvar env _ w' (Wire.trace_not_var env _ w w' ht)
      cases h1 : traceAt env n w with
      | none => exact AM.left _
      | some a =>
        cases h2 : traceAt env n' w' with
        | none => exact AM.right _
        | some b =>
          have e1 := traceAt_full env n w a h1
          have e2 := traceAt_full env n' w' b h2
          rw [ht] at e1; rw [hw'] at e2
          simp only [Option.some.injEq] at e1 e2
          subst e1 e2
          simp only [R.bind]
          obtain ⟨ihA, ihI, ihR, ihF⟩ := de_fuel_agree env n n'
          exact deAnyBody_am env vis n n' _ _ _ _ _ _ _ _ (ihA vis) ihI (ihR vis) (ihF vis) _ _ st

theorem deIgnored_unfold_am (env : Env) (n n' : Nat) (w w' : Ty) (st : St) (hu : Unmetered st)
    (ht : Sub.traceFull env w = some w') : AM (deIgnored env n w st) (deIgnored env n' w' st) := by
  cases n with
  | zero => rw [deIgnored_zero]; exact AM.left _
  | succ n =>
    cases n' with
    | zero => rw [deIgnored_zero]; exact AM.right _
    | succ n' =>
      rw [deIgnored_succ, deIgnored_succ]
      exact AM.bind (deAny_unfold_am env .ignored n n' w w' _ hu ht) (fun _ _ => AM.refl _)

/-- the native skip of a wire value against the untyped read of it at expected type `reserved` -/
def SkipRel (x : R Val) (y : R Val) : Prop :=
  x = .err .limit ∨ y = .err .limit ∨
  (match x, y with
   | .ok _ s1, .ok v s2 => v = .reserved ∧ s2 = up s1 ∧ Good2 s1
   | .sub d q, .sub d' q' => d = none ∧ q = none ∧ d' = none ∧ q' = none
   | .err _, .err _ => True
   | .panic _, .panic _ => True
   | _, _ => False)

theorem skip_reserved (env : Env) (k m : Nat) (w : Ty) (s : St) (hg : Good2 s) :
    SkipRel (deIgnored env k w s) (deAny env .idl m w (.prim .reserved) (up s)) := by
  cases m with
  | zero => rw [deAny_zero]; exact Or.inr (Or.inl rfl)
  | succ m =>
    rw [deAny_succ, unroll_char env m w (.prim .reserved) (up s) (up_unmetered s hg.2)]
    have hr : traceAt env m (.prim .reserved) = some (.prim .reserved) := by simp [traceAt, Sub.isName]
    rw [hr]
    cases hw : traceAt env m w with
    | none => exact Or.inr (Or.inl rfl)
    | some w' =>
      have htw := traceAt_full env m w w' hw
      simp only [R.bind, deAnyBody]
      have hfine := fine_deIgnored env k w s hg
      by_cases hres : w' = .prim .reserved
      · subst hres
        simp only [ne_eq, not_true_eq_false, if_false, R.bind]
        rw [addCost_up s hg.2]
        simp only [R.map, R.bind]
        -- the native skip of a type that unfolds to `reserved`
        cases k with
        | zero => exact Or.inl rfl
        | succ k =>
          rw [deIgnored_succ]
          cases k with
          | zero => rw [deAny_zero]; exact Or.inl rfl
          | succ k =>
            have hu' : Unmetered ({ s with untyped := true } : St) := hg.2
            rw [deAny_succ, unroll_char env k w w _ hu']
            cases h1 : traceAt env k w with
            | none => exact Or.inl rfl
            | some a =>
              have e1 := traceAt_full env k w a h1
              rw [htw] at e1
              simp only [Option.some.injEq] at e1
              subst e1
              simp only [R.bind, deAnyBody, ne_eq, not_true_eq_false, if_false]
              rw [addCost_unmetered_ok _ hu']
              simp only [R.map, R.bind]
              refine Or.inr (Or.inr ⟨rfl, ?_, ?_⟩)
              · simp only [up]
              · exact ⟨hg.1, hg.2⟩
      · simp only [ne_eq, hres, not_false_eq_true, if_true]
        rw [deIgnored_up env m w' s hg.1]
        rcases deIgnored_unfold_am env k m w w' s hg.2 htw with h | h | h
        · exact Or.inl h
        · rw [h]; exact Or.inr (Or.inl rfl)
        · rw [← h]
          cases hx : deIgnored env k w s with
          | ok v s1 =>
            have hg1 := hfine.1 v s1 hx
            simp only [lift, R.bind]
            rw [addCost_up s1 hg1.2]
            exact Or.inr (Or.inr ⟨rfl, rfl, hg1⟩)
          | sub d q =>
            have := hfine.2 d q hx
            exact Or.inr (Or.inr ⟨this.1, this.2, this.1, this.2⟩)
          | err x => exact Or.inr (Or.inr trivial)
          | panic x => exact Or.inr (Or.inr trivial)

/-! ## wire types in canonical order -/

mutual
/-- every record and variant inside the type lists its fields by strictly ascending id (what the header parser
guarantees of a type table, `parseHeader_canonical`) -/
def srt : Ty → Bool
  | .opt t => srt t
  | .vec t => srt t
  | .record fs => strictlyAscending (fs.toList.map (·.1.getId)) && srtF fs
  | .variant fs => strictlyAscending (fs.toList.map (·.1.getId)) && srtF fs
  | _ => true
def srtF : Fields → Bool
  | .nil => true
  | .cons _ t r => srt t && srtF r
end

def SortedEnv (env : Env) : Prop := ∀ x t, env.find x = some t → srt t = true

theorem srtF_mem : ∀ (fs : Fields) (p : Label × Ty), srtF fs = true → p ∈ fs.toList → srt p.2 = true
  | .nil, p, _, h => by simp [Fields.toList] at h
  | .cons l t r, p, h, hp => by
    simp only [srtF, Bool.and_eq_true] at h
    simp only [Fields.toList, List.mem_cons] at hp
    rcases hp with hp | hp
    · subst hp; exact h.1
    · exact srtF_mem r p h.2 hp

theorem srt_trace (env : Env) (hse : SortedEnv env) : ∀ (n : Nat) (t t' : Ty), srt t = true → env.trace n t = some t' → srt t' = true := by
  intro n
  induction n with
  | zero => intro t t' _ h; simp [Env.trace] at h
  | succ n ih =>
    intro t t' hs h
    cases t with
    | var x =>
      simp only [Env.trace] at h
      cases hf : env.find x with
      | none => simp [hf] at h
      | some d => rw [hf] at h; exact ih d t' (hse x d hf) h
    | _ => simp only [Env.trace, Option.some.injEq] at h; rw [← h]; exact hs

theorem srt_traceFull (env : Env) (hse : SortedEnv env) (t t' : Ty) (hs : srt t = true) (h : Sub.traceFull env t = some t') :
    srt t' = true := srt_trace env hse _ t t' hs h

/-! ## `null` on the wire at an expected type that takes no `null` -/

theorem subAlg_null_func (env : Env) (n : Nat) (g : Sub.Gamma) (a r : Tys) (md : List FuncMode) :
    Sub.subAlg env (n + 1) g (.prim .null) (.func a r md) = .no := by
  unfold Sub.subAlg
  simp [Sub.isName]

theorem subAlg_null_service (env : Env) (n : Nat) (g : Sub.Gamma) (ms : Meths) :
    Sub.subAlg env (n + 1) g (.prim .null) (.service ms) = .no := by
  unfold Sub.subAlg
  simp [Sub.isName]

theorem null_nonopt (env : Env) (s : St) (hg : Good2 s) (ev ev' : Ty) (ht : Sub.traceFull env ev = some ev')
    (hp : plainShape ev' = true) (hno : Sub.isOptLikeTy ev' = false) (j : Nat) :
    deAny env .idl j (.prim .null) ev (up s) = .err .limit ∨ deAny env .idl j (.prim .null) ev (up s) = .sub none none := by
  cases j with
  | zero => exact Or.inl rfl
  | succ j =>
    have hu := up_unmetered s hg.2
    rw [deAny_succ, unroll_char env j (.prim .null) ev (up s) hu]
    have hn : traceAt env j (.prim .null) = some (.prim .null) := by simp [traceAt, Sub.isName]
    rw [hn]
    cases h1 : traceAt env j ev with
    | none => exact Or.inl rfl
    | some a =>
      have := traceAt_full env j ev a h1
      rw [ht] at this
      simp only [Option.some.injEq] at this
      subst this
      right
      have hsub : (subErr (up s) : R Val) = .sub none none := by
        simp only [subErr, up]; rw [hg.2.1, hg.2.2]
      simp only [R.bind, deAnyBody]
      cases ev' with
      | prim p =>
        cases p <;> simp only [Sub.isOptLikeTy] at hno <;> try (exact Bool.noConfusion hno)
        all_goals first
          | exact hsub
          | (simp only [dePrimExact, reduceCtorEq, and_false, and_self, if_false, false_and]; exact hsub)
          | (simp only [reduceCtorEq, if_false]; exact hsub)
      | principal => exact hsub
      | opt _ => simp [Sub.isOptLikeTy] at hno
      | vec ee =>
        simp only []
        split
        · unfold deBlobCase
          have : isBlobTy env (.prim .null) = false := by simp [isBlobTy]
          simp only [this, Bool.false_eq_true, if_false]
          exact hsub
        · rw [addCost_unmetered_ok (up s) hu]
          simp only [R.bind, deVecCase]
          exact hsub
      | record efs =>
        simp only []
        rw [addCost_unmetered_ok (up s) hu]
        exact hsub
      | variant efs =>
        simp only []
        rw [addCost_unmetered_ok (up s) hu]
        simp only [R.bind, deVariantCase]
        exact hsub
      | service ms =>
        simp only [checkSubtype]
        rw [addCost_unmetered_ok (up s) hu]
        simp only [R.bind]
        have : Sub.subAlg env Sub.defaultFuel (up s).gamma (.prim .null) (.service ms) = .no :=
          subAlg_null_service env 3999 _ ms
        rw [this]
        exact hsub
      | func a r md =>
        simp only [checkSubtype]
        rw [addCost_unmetered_ok (up s) hu]
        simp only [R.bind]
        have : Sub.subAlg env Sub.defaultFuel (up s).gamma (.prim .null) (.func a r md) = .no :=
          subAlg_null_func env 3999 _ a r md
        rw [this]
        exact hsub
      | _ => simp [plainShape] at hp

/-! ## maps: one entry at a time -/

theorem rbind_ok {α β : Type} (a : α) (s : St) (f : α → St → R β) : (R.ok a s).bind f = f a s := rfl

theorem rbind_assoc {α β γ : Type} (x : R α) (f : α → St → R β) (g : β → St → R γ) :
    (x.bind f).bind g = x.bind fun a s => (f a s).bind g := by
  cases x <;> rfl

theorem rmap_bind {α β : Type} (x : R α) (f : α → β) : x.map f = x.bind fun a s => R.ok (f a) s := rfl

/-- one entry of a map on the native side: key, value, surplus fields -/
def entryN (mk : String → NR) (rec : RTy → Flags → Ty → Ty → St → NR) (ign : Ty → St → R Val) (kt vt : RTy) (l0 l1 : Label)
    (ek ev wk wv : Ty) (extra : List Ty) (keyFast : Bool) (valFast : Option Big) (st : St) : R Val :=
  (addCost st 4).bind fun _ s1 =>
    (if (keyFast || valFast.isSome) = true then R.ok () s1 else addCost s1 4).bind fun _ s2 =>
      (rec kt ⟨none, keyFast⟩ wk ek s2).bind fun (x : Val × Flags) s3 =>
        (if (keyFast || valFast.isSome) = true then R.ok () s3 else addCost s3 3).bind fun _ s4 =>
          (rec vt ⟨valFast, false⟩ wv ev s4).bind fun (y : Val × Flags) s5 =>
            (skipTys mk ign extra { y.2 with big := none } s5).bind fun _ s6 => R.ok (Val.record [(l0, x.1), (l1, y.1)]) s6

theorem mapLoop_as_iter (mk : String → NR) (rec : RTy → Flags → Ty → Ty → St → NR) (ign : Ty → St → R Val) (kt vt : RTy)
    (l0 l1 : Label) (ek ev wk wv : Ty) (extra : List Ty) (keyFast : Bool) (valFast : Option Big) : ∀ (n : Nat) (st : St),
    mapLoop mk rec ign kt vt l0 l1 ek ev wk wv extra keyFast valFast n st =
      (iterV (entryN mk rec ign kt vt l0 l1 ek ev wk wv extra keyFast valFast) n st).bind fun es s =>
        (addCost s 4).bind fun _ s' => R.ok es s' := by
  intro n
  induction n with
  | zero => intro st; rfl
  | succ n ih =>
    intro st
    unfold mapLoop iterV
    simp only [rbind_assoc, rmap_bind, rbind_ok, ih]
    conv => rhs; arg 1; unfold entryN
    simp only [rbind_assoc, rbind_ok]

/-! ## the simulation -/

/-- the claim at one depth, for the recursive entry point of the native mirror -/
def SimAt (env : Env) (renv : REnv) (k : Nat) (rec : RTy → Flags → Ty → Ty → St → NR) : Prop :=
  ∀ (m : Nat) (t : RTy) (fl : Flags) (w e : Ty) (s : St), agreeS env renv k t e = true → FlagsFit fl w e → Good2 s →
    srt w = true → SimN fl (rec t fl w e s) (deAny env .idl m w e (up s))

/-- both runs start by unfolding the two types -/
theorem sim_unroll (env : Env) (k m : Nat) (fl : Flags) (w e : Ty) (s : St) (hg : Good2 s)
    (F : Ty × Ty → St → NR) (G : Ty × Ty → St → R Val)
    (h : ∀ w' e', Sub.traceFull env e = some e' → Sub.traceFull env w = some w' → SimN fl (F (w', e') s) (G (w', e') (up s))) :
    SimN fl ((unroll env k w e s).bind F) ((unroll env m w e (up s)).bind G) := by
  rcases unroll_rel env k m w e s hg.2 with h1 | h1 | ⟨w', e', h1, h2, h3, h4⟩
  · rw [h1]; exact SimN.starvedL fl _
  · rw [h1]; exact SimN.starvedR fl _
  · rw [h1, h2]; exact h w' e' h3 h4

theorem deAny_prim_prim (env : Env) (vis : Visitor) (m : Nat) (p q : Prim) (s : St) :
    deAny env vis (m + 1) (.prim p) (.prim q) s =
      deAnyBody env vis m (deAny env vis m) (deIgnored env m) (recoverable env vis m) (deFields env vis m) (.prim p) (.prim q) s := by
  rw [deAny_succ, unroll_prim]
  rfl

theorem SimN.weaken_flags {fl fl0 : Flags} {a : NR} {b : R Val} (h : SimN fl0 a b) (h0 : fl0 = Flags.clear) : SimN fl a b := by
  subst h0
  rcases h with h | h | h
  · exact Or.inl h
  · exact Or.inr (Or.inl h)
  · refine Or.inr (Or.inr ?_)
    cases a with
    | ok p s1 =>
      obtain ⟨v, f'⟩ := p
      cases b with
      | ok v' s2 =>
        obtain ⟨h1, h2, h3, h4, h5⟩ := h
        exact ⟨h1, h2, h3, h4, Or.inr (by rcases h5 with x | x <;> exact x)⟩
      | sub d q => exact h
      | err k => exact h
      | panic x => exact h
    | sub d q => cases b <;> exact h
    | err k => cases b <;> exact h
    | panic x => cases b <;> exact h


/-- `agreeS` looks at the expected type only through its unfolding -/
theorem agreeS_traced (env : Env) (renv : REnv) : ∀ (k : Nat) (t : RTy) (e e' : Ty),
    Sub.traceFull env e = some e' → agreeS env renv k t e = agreeS env renv k t e' := by
  intro k
  induction k with
  | zero => intro t e e' _; rfl
  | succ k ih =>
    intro t e e' h
    have h' : Sub.traceFull env e' = some e' := by
      unfold Sub.traceFull
      exact Check.trace_nonvar env _ e' (Wire.trace_not_var env _ e e' h)
    cases t <;> simp only [agreeS, h, h'] <;> try rfl
    case newtype t' => exact ih t' e e' h
    case ref x =>
      cases renv.find x with
      | none => rfl
      | some t' => exact ih t' e e' h

/-- the two runs of a sequence of elements end the same way -/
def SimL (F : Flags) (a : R (List Val × Flags)) (b : R (List Val)) : Prop :=
  a = .err .limit ∨ b = .err .limit ∨
  (match a, b with
   | .ok (vs, fl') s1, .ok vs' s2 => vs = vs' ∧ s2 = up s1 ∧ Good2 s1 ∧ (fl' = F ∨ fl' = Flags.clear)
   | .sub d q, .sub d' q' => d = none ∧ q = none ∧ d' = none ∧ q' = none
   | .err _, .err _ => True
   | .panic _, .panic _ => True
   | _, _ => False)

theorem iter_sim (f : Flags → St → NR) (g : St → R Val) (F : Flags)
    (h : ∀ fl s, (fl = F ∨ fl = Flags.clear) → Good2 s → SimN fl (f fl s) (g (up s))) :
    ∀ (n : Nat) (fl : Flags) (s : St), (fl = F ∨ fl = Flags.clear) → Good2 s → SimL F (iterF f n fl s) (iterV g n (up s)) := by
  intro n
  induction n with
  | zero => intro fl s hfl hg; exact Or.inr (Or.inr ⟨rfl, rfl, hg, hfl⟩)
  | succ n ih =>
    intro fl s hfl hg
    unfold iterF iterV
    rcases h fl s hfl hg with h1 | h1 | h1
    · rw [h1]; exact Or.inl rfl
    · rw [h1]; exact Or.inr (Or.inl rfl)
    · cases ha : f fl s with
      | ok p s1 =>
        obtain ⟨v, fl1⟩ := p
        rw [ha] at h1
        cases hb : g (up s) with
        | ok v' s2 =>
          rw [hb] at h1
          obtain ⟨e1, e2, e3, e4, e5⟩ := h1
          subst e1 e2
          have hfl1 : fl1 = F ∨ fl1 = Flags.clear := by
            rcases e5 with x | x
            · rcases hfl with y | y
              · exact Or.inl (x.trans y)
              · exact Or.inr (x.trans y)
            · exact Or.inr x
          simp only [R.bind]
          rcases ih fl1 s1 hfl1 ⟨e3, e4⟩ with h2 | h2 | h2
          · rw [h2]; exact Or.inl rfl
          · rw [h2]; exact Or.inr (Or.inl rfl)
          · cases hc : iterF f n fl1 s1 with
            | ok q s3 =>
              obtain ⟨vs, fl2⟩ := q
              rw [hc] at h2
              cases hd : iterV g n (up s1) with
              | ok vs' s4 =>
                rw [hd] at h2
                obtain ⟨g1, g2, g3, g4⟩ := h2
                subst g1 g2
                exact Or.inr (Or.inr ⟨rfl, rfl, g3, g4⟩)
              | sub d q => rw [hd] at h2; exact absurd h2 (by simp)
              | err x => rw [hd] at h2; exact absurd h2 (by simp)
              | panic x => rw [hd] at h2; exact absurd h2 (by simp)
            | sub d q =>
              rw [hc] at h2
              cases hd : iterV g n (up s1) with
              | sub d' q' => rw [hd] at h2; exact Or.inr (Or.inr h2)
              | ok _ _ => rw [hd] at h2; exact absurd h2 (by simp)
              | err x => rw [hd] at h2; exact absurd h2 (by simp)
              | panic x => rw [hd] at h2; exact absurd h2 (by simp)
            | err x =>
              rw [hc] at h2
              cases hd : iterV g n (up s1) with
              | err y => exact Or.inr (Or.inr trivial)
              | ok _ _ => rw [hd] at h2; exact absurd h2 (by simp)
              | sub d q => rw [hd] at h2; exact absurd h2 (by simp)
              | panic y => rw [hd] at h2; exact absurd h2 (by simp)
            | panic x =>
              rw [hc] at h2
              cases hd : iterV g n (up s1) with
              | panic y => exact Or.inr (Or.inr trivial)
              | ok _ _ => rw [hd] at h2; exact absurd h2 (by simp)
              | sub d q => rw [hd] at h2; exact absurd h2 (by simp)
              | err y => rw [hd] at h2; exact absurd h2 (by simp)
        | sub d q => rw [hb] at h1; exact absurd h1 (by simp)
        | err x => rw [hb] at h1; exact absurd h1 (by simp)
        | panic x => rw [hb] at h1; exact absurd h1 (by simp)
      | sub d q =>
        rw [ha] at h1
        cases hb : g (up s) with
        | sub d' q' => rw [hb] at h1; exact Or.inr (Or.inr h1)
        | ok _ _ => rw [hb] at h1; exact absurd h1 (by simp)
        | err x => rw [hb] at h1; exact absurd h1 (by simp)
        | panic x => rw [hb] at h1; exact absurd h1 (by simp)
      | err x =>
        rw [ha] at h1
        cases hb : g (up s) with
        | err y => exact Or.inr (Or.inr trivial)
        | ok _ _ => rw [hb] at h1; exact absurd h1 (by simp)
        | sub d q => rw [hb] at h1; exact absurd h1 (by simp)
        | panic y => rw [hb] at h1; exact absurd h1 (by simp)
      | panic x =>
        rw [ha] at h1
        cases hb : g (up s) with
        | panic y => exact Or.inr (Or.inr trivial)
        | ok _ _ => rw [hb] at h1; exact absurd h1 (by simp)
        | sub d q => rw [hb] at h1; exact absurd h1 (by simp)
        | err y => rw [hb] at h1; exact absurd h1 (by simp)

/-- from the elements to the vector value -/
theorem SimL.toVec {F : Flags} {a : R (List Val × Flags)} {b : R (List Val)} (h : SimL F a b) (fl : Flags) :
    SimN fl (a.map fun q => (Val.vec q.1, Flags.clear)) (b.map Val.vec) := by
  rcases h with h | h | h
  · rw [h]; exact Or.inl rfl
  · rw [h]; exact Or.inr (Or.inl rfl)
  · refine Or.inr (Or.inr ?_)
    cases a with
    | ok p s1 =>
      obtain ⟨vs, f'⟩ := p
      cases b with
      | ok vs' s2 =>
        obtain ⟨h1, h2, h3, _⟩ := h
        subst h1 h2
        exact ⟨rfl, rfl, h3.1, h3.2, Or.inr rfl⟩
      | sub d q => exact h
      | err x => exact h
      | panic x => exact h
    | sub d q => cases b <;> exact h
    | err x => cases b <;> exact h
    | panic x => cases b <;> exact h

theorem st_eta (s : St) (hu : Unmetered s) : ({ s with dq := none, sq := none } : St) = s := by
  obtain ⟨h1, h2⟩ := hu
  cases s
  simp only at h1 h2
  subst h1 h2
  rfl

/-- an option's payload: the typed read, or the skip after a subtype failure -/
theorem recov_sim (mk : String → NR) (env : Env) (renv : REnv) (k : Nat) (rec : RTy → Flags → Ty → Ty → St → NR)
    (hrec : SimAt env renv k rec) (t : RTy) (w e : Ty) (s : St) (j : Nat)
    (ha : agreeS env renv k t e = true) (hg : Good2 s) (hsw : srt w = true) :
    SimN Flags.clear (nRecoverable mk rec (deIgnored env k) t Flags.clear w e s) (recoverable env .idl j w e (up s)) := by
  cases j with
  | zero => rw [recoverable_zero]; exact SimN.starvedR _ _
  | succ j =>
    rw [recoverable_succ]
    simp only [show (Visitor.idl = Visitor.ignored) = False from by simp, if_false]
    unfold nRecoverable
    rcases hrec j t Flags.clear w e s ha (FlagsFit.clear w e) hg hsw with h | h | h
    · rw [h]; exact SimN.starvedL _ _
    · rw [h]; exact SimN.starvedR _ _
    · cases hx : rec t Flags.clear w e s with
      | ok p s1 =>
        obtain ⟨v, fl1⟩ := p
        rw [hx] at h
        cases hy : deAny env .idl j w e (up s) with
        | ok v' s2 =>
          rw [hy] at h
          obtain ⟨e1, e2, e3, e4, e5⟩ := h
          subst e1 e2
          exact Or.inr (Or.inr ⟨rfl, rfl, e3, e4, e5⟩)
        | sub d q => rw [hy] at h; exact absurd h (by simp)
        | err x => rw [hy] at h; exact absurd h (by simp)
        | panic x => rw [hy] at h; exact absurd h (by simp)
      | sub d q =>
        rw [hx] at h
        cases hy : deAny env .idl j w e (up s) with
        | sub d' q' =>
          rw [hy] at h
          obtain ⟨e1, e2, e3, e4⟩ := h
          subst e1 e2 e3 e4
          simp only []
          have e0 : ({ up s with dq := none, sq := none } : St) = up { s with dq := none, sq := none } := rfl
          rw [e0, st_eta s hg.2, addCost_unmetered_ok s hg.2, addCost_up s hg.2]
          simp only [R.bind, ignF_clear]
          rw [deIgnored_up env j w s hg.1]
          have hfine := fine_deIgnored env k w s hg
          rcases (de_fuel_agree env k j).2.1 w s with h1 | h1 | h1
          · rw [h1]; exact SimN.starvedL _ _
          · rw [h1]; exact SimN.starvedR _ _
          · rw [← h1]
            cases hz : deIgnored env k w s with
            | ok v s1 =>
              have hg1 := hfine.1 v s1 hz
              exact Or.inr (Or.inr ⟨rfl, rfl, hg1.1, hg1.2, Or.inl rfl⟩)
            | sub d q =>
              have := hfine.2 d q hz
              exact Or.inr (Or.inr ⟨this.1, this.2, this.1, this.2⟩)
            | err x => exact Or.inr (Or.inr trivial)
            | panic x => exact Or.inr (Or.inr trivial)
        | ok _ _ => rw [hy] at h; exact absurd h (by simp)
        | err x => rw [hy] at h; exact absurd h (by simp)
        | panic x => rw [hy] at h; exact absurd h (by simp)
      | err x =>
        rw [hx] at h
        cases hy : deAny env .idl j w e (up s) with
        | err y => exact Or.inr (Or.inr trivial)
        | ok _ _ => rw [hy] at h; exact absurd h (by simp)
        | sub d q => rw [hy] at h; exact absurd h (by simp)
        | panic y => rw [hy] at h; exact absurd h (by simp)
      | panic x =>
        rw [hx] at h
        cases hy : deAny env .idl j w e (up s) with
        | panic y => exact Or.inr (Or.inr trivial)
        | ok _ _ => rw [hy] at h; exact absurd h (by simp)
        | sub d q => rw [hy] at h; exact absurd h (by simp)
        | err y => rw [hy] at h; exact absurd h (by simp)

theorem iterV_rd_up {α : Type} (f : Bytes → Outcome (Val × Bytes)) : ∀ (n : Nat) (s : St),
    iterV (rd f) n (up s) = lift (iterV (rd f) n s) := by
  intro n
  induction n with
  | zero => intro s; rfl
  | succ n ih =>
    intro s
    unfold iterV
    rw [rd_up]
    cases rd f s with
    | ok v s1 => simp only [lift, R.bind]; rw [ih s1]; cases iterV (rd f) n s1 <;> rfl
    | sub d q => rfl
    | err k => rfl
    | panic p => rfl

theorem iterF_withFlags (g : St → R Val) : ∀ (n : Nat) (fl : Flags) (s : St),
    iterF (fun f st => withFlags f (g st)) n fl s = (iterV g n s).map fun vs => (vs, fl) := by
  intro n
  induction n with
  | zero => intro fl s; rfl
  | succ n ih =>
    intro fl s
    unfold iterF iterV
    cases g s with
    | ok v s1 =>
      simp only [withFlags, R.map, R.bind]
      have := ih fl s1
      simp only [withFlags, R.map, R.bind] at this
      rw [this]
      cases iterV g n s1 <;> rfl
    | sub d q => rfl
    | err k => rfl
    | panic x => rfl

theorem iterF_bulk (p : Prim) (n : Nat) (fl : Flags) (s : St) :
    iterF (bulkElem p) n fl s = (iterV (rd (decPrim p)) n s).map fun vs => (vs, fl) :=
  iterF_withFlags (rd (decPrim p)) n fl s

theorem fine_iterV_rd (f : Bytes → Outcome (Val × Bytes)) : ∀ (n : Nat) (s : St), Good2 s → Fine (iterV (rd f) n s) := by
  intro n
  induction n with
  | zero => intro s h; exact Fine.mkOk _ s h
  | succ n ih =>
    intro s h
    unfold iterV
    exact Fine.bind (Fine.ofRd f s h) (fun v s1 h1 => Fine.map _ (ih s1 h1))

/-- a shared computation lifted, as a vector value -/
theorem SimN.of_fine_vec (x : R (List Val)) (hx : Fine x) :
    SimN Flags.clear ((x.map fun vs => (vs, Flags.clear)).map fun q => (Val.vec q.1, Flags.clear)) ((lift x).map Val.vec) := by
  refine Or.inr (Or.inr ?_)
  cases x with
  | ok vs s1 => exact ⟨rfl, rfl, (hx.1 vs s1 rfl).1, (hx.1 vs s1 rfl).2, Or.inl rfl⟩
  | sub d q => exact ⟨(hx.2 d q rfl).1, (hx.2 d q rfl).2, (hx.2 d q rfl).1, (hx.2 d q rfl).2⟩
  | err k => trivial
  | panic p => trivial

/-- the bulk reader of primitive vectors: the same on both sides -/
theorem bulk_sim (renv : REnv) (t' : RTy) (p : Prim) (n : Nat) (s2 : St) (hg2 : Good2 s2)
    (hp : acceptsPrimitive renv (resolveDepth renv) t' p = some true) :
    SimN Flags.clear ((bulkElems renv .all t' Flags.clear p n s2).map fun q => (Val.vec q.1, Flags.clear))
      (if n * (3 + (primSize p).getD 1) > usizeMax then .err .limit else
        (addCost (up s2) (n * (3 + (primSize p).getD 1))).bind fun _ s3 =>
          if n * (primSize p).getD 1 > s3.input.length then .err .eof
          else (iterV (fun st => rd (decPrim p) st) n s3).map Val.vec) := by
  unfold bulkElems
  simp only [hp]
  by_cases hov : n * (3 + (primSize p).getD 1) > usizeMax
  · simp only [hov, if_true]; exact SimN.err _ _ _
  · simp only [hov, if_false]
    rw [addCost_unmetered_ok s2 hg2.2, addCost_up s2 hg2.2]
    simp only [R.bind, up_input]
    by_cases hlen : n * (primSize p).getD 1 > s2.input.length
    · simp only [hlen, if_true]; exact SimN.err _ _ _
    · simp only [hlen, if_false, runSeq]
      rw [iterF_bulk]
      have := iterV_rd_up (α := Val) (decPrim p) n s2
      rw [show (fun st => rd (decPrim p) st) = rd (decPrim p) from rfl, this]
      exact SimN.of_fine_vec _ (fine_iterV_rd (decPrim p) n s2 hg2)

/-! ### byte vectors -/

theorem decPrim_nat8_cons (b : UInt8) (rest : Bytes) : decPrim .nat8 (b :: rest) = .ok (.nat8 b.toNat, rest) := by
  simp [decPrim, readFixed, takeN, Outcome.map, leVal]

theorem decPrim_nat8_nil : decPrim .nat8 [] = .err .eof := by
  simp [decPrim, readFixed, takeN, Outcome.map]

/-- `n` bytes read one by one are the first `n` bytes of the input -/
theorem iterV_bytes : ∀ (n : Nat) (s : St), iterV (fun st => rd (decPrim .nat8) st) n s =
    (if n ≤ s.input.length then .ok ((s.input.take n).map fun x => Val.nat8 x.toNat) (inp s (s.input.drop n)) else .err .eof) := by
  intro n
  induction n with
  | zero => intro s; simp only [iterV, Nat.zero_le, if_true, List.take_zero, List.map_nil, List.drop_zero, inp_self]
  | succ n ih =>
    intro s
    unfold iterV
    cases hi : s.input with
    | nil =>
      have : rd (decPrim .nat8) s = .err .eof := by unfold rd; rw [hi, decPrim_nat8_nil]
      rw [this]
      simp [R.bind]
    | cons b rest =>
      have : rd (decPrim .nat8) s = .ok (.nat8 b.toNat) (inp s rest) := by unfold rd; rw [hi, decPrim_nat8_cons]; rfl
      rw [this]
      simp only [R.bind, ih (inp s rest), inp_input, List.length_cons, Nat.add_le_add_iff_right]
      by_cases hle : n ≤ rest.length
      · simp only [hle, if_true, R.map, R.bind, List.take_succ_cons, List.map_cons, List.drop_succ_cons, inp_inp]
      · simp only [hle, if_false, R.map, R.bind]

theorem isByte_accepts (renv : REnv) : ∀ (d : Nat) (t : RTy), isByte renv d t = true →
    acceptsPrimitive renv d t .nat8 = some true := by
  intro d
  induction d with
  | zero => intro t h; simp [isByte] at h
  | succ d ih =>
    intro t h
    cases t with
    | prim q =>
      cases q <;> simp [isByte] at h
      simp [acceptsPrimitive]
    | newtype t' => simp only [isByte] at h; simp only [acceptsPrimitive]; exact ih t' h
    | ref x =>
      simp only [isByte] at h
      simp only [acceptsPrimitive]
      cases hf : renv.find x with
      | none => rw [hf] at h; simp at h
      | some t' => rw [hf] at h; exact ih t' h
    | _ => simp [isByte] at h

/-- elements read one by one on both sides -/
theorem elems_sim (rec : RTy → Flags → Ty → Ty → St → NR) (f : Flags → St → NR) (g : St → R Val) (F : Flags)
    (h : ∀ fl st, (fl = F ∨ fl = Flags.clear) → Good2 st → SimN fl (f fl st) (g (up st)))
    (n : Nat) (s2 : St) (hg2 : Good2 s2) :
    SimN Flags.clear (((iterF f n F s2).map fun (q : List Val × Flags) => (q.1, Flags.clear)).map fun q => (Val.vec q.1, Flags.clear))
      ((iterV g n (up s2)).map Val.vec) := by
  let _ := rec
  have hl := iter_sim f g F h n F s2 (Or.inl rfl) hg2
  have := SimL.toVec hl Flags.clear
  cases hq : iterF f n F s2 <;> rw [hq] at this <;> simpa [R.map, R.bind] using this

/-- the elements of a vector that is not a byte sequence, on each of the three paths -/
theorem vec_sim (env : Env) (renv : REnv) (k m : Nat) (rec : RTy → Flags → Ty → Ty → St → NR)
    (hrec : SimAt env renv k rec) (hse : SortedEnv env) (t' : RTy) (ww ee : Ty) (s : St) (hg : Good2 s)
    (ha : agreeS env renv k t' ee = true) (hsw : srt ww = true)
    (hacc : ∀ p, ee = .prim p → (primSize p).isSome → acceptsPrimitive renv (resolveDepth renv) t' p = some true) :
    SimN Flags.clear
      ((nVecCase env renv k rec .all t' Flags.clear ww ee s).map fun q => (Val.vec q.1, Flags.clear))
      (deVecCase env .idl m (deAny env .idl m) (deIgnored env m) (.vec ww) ee (up s)) := by
  unfold nVecCase deVecCase
  simp only []
  cases h1 : env.trace k ww with
  | none => exact SimN.starvedL _ _
  | some wire =>
    cases h2 : env.trace m ww with
    | none => exact SimN.starvedR _ _
    | some wire2 =>
      have := Sub.trace_det env k m ww wire wire2 h1 h2
      subst this
      have hswire : srt wire = true := srt_trace env hse k ww wire hsw h1
      simp only []
      rw [rd_up]
      cases hr : rd readLenDe s with
      | sub d q =>
        have := (Fine.ofRd readLenDe s hg).2 d q hr
        exact Or.inr (Or.inr ⟨this.1, this.2, this.1, this.2⟩)
      | err x => exact Or.inr (Or.inr trivial)
      | panic x => exact Or.inr (Or.inr trivial)
      | ok n s2 =>
        have hg2 := (Fine.ofRd readLenDe s hg).1 n s2 hr
        simp only [lift, R.bind]
        cases hx : exactPrim ee wire with
        | some p =>
          simp only []
          have hee : ee = .prim p ∧ (primSize p).isSome := by
            unfold exactPrim at hx
            split at hx
            · split at hx
              · rename_i hc; simp only [Option.some.injEq] at hx; subst hx; exact ⟨rfl, hc.2⟩
              · simp at hx
            · simp at hx
          exact bulk_sim renv t' p n s2 hg2 (hacc p hee.1 hee.2)
        | none =>
          simp only []
          cases hb : bigOf ee wire with
          | some bg =>
            simp only []
            unfold bigElems
            have hF : ({ Flags.clear with big := some bg } : Flags) = ⟨some bg, false⟩ := rfl
            rw [hF]
            have hfit : ∀ fl, (fl = ⟨some bg, false⟩ ∨ fl = Flags.clear) → FlagsFit fl wire ee := by
              intro fl hfl
              rcases hfl with x | x <;> subst x
              · exact fits_big bg wire ee hb
              · exact FlagsFit.clear wire ee
            rcases (bigOf_eq_some ee wire bg).mp hb with ⟨a, b, c⟩ | ⟨a, b, c⟩ | ⟨a, b, c⟩ <;> subst a b c <;> simp only [bigPrimOf]
            all_goals (
              by_cases hov : n * 3 > usizeMax
              · simp only [hov, if_true]; exact SimN.err _ _ _
              · simp only [hov, if_false]
                rw [addCost_unmetered_ok s2 hg2.2, addCost_up s2 hg2.2]
                simp only [R.bind, runSeq, if_true]
                refine elems_sim rec (fun f st => rec t' f _ _ st) _ _ (fun fl st hfl hgs => ?_) n s2 hg2
                have h0 := hrec 1 t' fl _ _ st ha (hfit fl hfl) hgs (by first | exact hswire | rfl)
                rw [deAny_prim_prim] at h0
                simpa [deAnyBody] using h0)
          | none =>
            have hbig : bigPrimOf ee wire = none := by
              unfold bigOf at hb
              unfold bigPrimOf
              split <;> first | rfl | simp_all
            simp only [hbig]
            unfold genericElems
            simp only [runSeq]
            refine elems_sim rec (genericElem rec t' wire ee) _ Flags.clear (fun fl st hfl hgs => ?_) n s2 hg2
            have hcl : fl = Flags.clear := by rcases hfl with x | x <;> exact x
            subst hcl
            unfold genericElem
            rw [addCost_unmetered_ok st hgs.2, addCost_up st hgs.2]
            simp only [R.bind, show (Visitor.idl = Visitor.ignored) = False from by simp, if_false]
            exact hrec m t' Flags.clear wire ee st ha (FlagsFit.clear wire ee) hgs hswire

/-- continue both runs after a related pair of intermediate results (read at cleared flags) -/
theorem SimN.bind2 {fl : Flags} (a : NR) (b : R Val) (h : SimN Flags.clear a b) (f : Val × Flags → St → NR)
    (g : Val → St → R Val) (hfg : ∀ v s1, Good2 s1 → SimN fl (f (v, Flags.clear) s1) (g v (up s1))) :
    SimN fl (a.bind f) (b.bind g) := by
  rcases h with h | h | h
  · rw [h]; exact Or.inl rfl
  · rw [h]; exact Or.inr (Or.inl rfl)
  · cases a with
    | ok p s1 =>
      obtain ⟨v, fl1⟩ := p
      cases b with
      | ok v' s2 =>
        obtain ⟨e1, e2, e3, e4, e5⟩ := h
        subst e1 e2
        have : fl1 = Flags.clear := by rcases e5 with x | x <;> exact x
        subst this
        exact hfg v s1 ⟨e3, e4⟩
      | sub d q => exact absurd h (by simp)
      | err k => exact absurd h (by simp)
      | panic x => exact absurd h (by simp)
    | sub d q =>
      cases b with
      | sub d' q' => exact Or.inr (Or.inr h)
      | ok _ _ => exact absurd h (by simp)
      | err k => exact absurd h (by simp)
      | panic x => exact absurd h (by simp)
    | err k =>
      cases b with
      | err k' => exact Or.inr (Or.inr trivial)
      | ok _ _ => exact absurd h (by simp)
      | sub d q => exact absurd h (by simp)
      | panic x => exact absurd h (by simp)
    | panic x =>
      cases b with
      | panic x' => exact Or.inr (Or.inr trivial)
      | ok _ _ => exact absurd h (by simp)
      | sub d q => exact absurd h (by simp)
      | err k => exact absurd h (by simp)

/-- continue both runs after the native skip and the untyped read at `reserved` -/
theorem SkipRel.bind {fl : Flags} (x y : R Val) (h : SkipRel x y) (f : Val → St → NR) (g : Val → St → R Val)
    (hfg : ∀ v v' s1, Good2 s1 → SimN fl (f v s1) (g v' (up s1))) : SimN fl (x.bind f) (y.bind g) := by
  rcases h with h | h | h
  · rw [h]; exact Or.inl rfl
  · rw [h]; exact Or.inr (Or.inl rfl)
  · cases x with
    | ok v s1 =>
      cases y with
      | ok v' s2 =>
        obtain ⟨_, e2, e3⟩ := h
        subst e2
        exact hfg v v' s1 e3
      | sub d q => exact absurd h (by simp)
      | err k => exact absurd h (by simp)
      | panic x => exact absurd h (by simp)
    | sub d q =>
      cases y with
      | sub d' q' => exact Or.inr (Or.inr h)
      | ok _ _ => exact absurd h (by simp)
      | err k => exact absurd h (by simp)
      | panic x => exact absurd h (by simp)
    | err k =>
      cases y with
      | err k' => exact Or.inr (Or.inr trivial)
      | ok _ _ => exact absurd h (by simp)
      | sub d q => exact absurd h (by simp)
      | panic x => exact absurd h (by simp)
    | panic x =>
      cases y with
      | panic x' => exact Or.inr (Or.inr trivial)
      | ok _ _ => exact absurd h (by simp)
      | sub d q => exact absurd h (by simp)
      | err k => exact absurd h (by simp)

/-- the wire types of the merge steps are sorted -/
def StepsSrt (steps : List FieldStep) : Prop :=
  ∀ step ∈ steps, match step with
    | .both _ _ wt => srt wt = true
    | .wireOnly wt => srt wt = true
    | _ => True

theorem mergeFields_srt : ∀ (n : Nat) (es ws : List (Label × Ty)), (∀ p ∈ ws, srt p.2 = true) → StepsSrt (mergeFields n es ws) := by
  intro n
  induction n with
  | zero => intro es ws _ step h; simp [mergeFields] at h
  | succ n ih =>
    intro es ws hws
    cases es with
    | nil =>
      cases ws with
      | nil => intro step h; simp [mergeFields] at h
      | cons wp ws' =>
        obtain ⟨wl, wt⟩ := wp
        intro step h
        simp only [mergeFields, List.mem_cons] at h
        rcases h with h | h
        · subst h; exact hws (wl, wt) (by simp)
        · exact ih [] ws' (fun p hp => hws p (by simp [hp])) step h
    | cons ep es' =>
      obtain ⟨l, et⟩ := ep
      cases ws with
      | nil =>
        intro step h
        simp only [mergeFields, List.mem_cons] at h
        rcases h with h | h
        · subst h; trivial
        · exact ih es' [] hws step h
      | cons wp ws' =>
        obtain ⟨wl, wt⟩ := wp
        have hws' : ∀ p ∈ ws', srt p.2 = true := fun p hp => hws p (by simp [hp])
        intro step h
        simp only [mergeFields] at h
        split at h
        · simp only [List.mem_cons] at h
          rcases h with h | h
          · subst h; exact hws (wl, wt) (by simp)
          · exact ih es' ws' hws' step h
        · split at h
          · simp only [List.mem_cons] at h
            rcases h with h | h
            · subst h; trivial
            · exact ih es' ((wl, wt) :: ws') hws step h
          · simp only [List.mem_cons] at h
            rcases h with h | h
            · subst h; exact hws (wl, wt) (by simp)
            · exact ih ((l, et) :: es') ws' hws' step h

/-- the fields of a struct on both sides -/
theorem struct_sim (mk : String → NR) (env : Env) (renv : REnv) (k : Nat) (rec : RTy → Flags → Ty → Ty → St → NR)
    (hrec : SimAt env renv k rec) (fs : RFields) (hno : fs.select (.named "_") = none)
    (es : List (Label × Ty))
    (hes : ∀ p ∈ es, ∃ kd t, fs.select p.1 = some (kd, t) ∧ agreeS env renv k t p.2 = true) :
    ∀ (steps : List FieldStep) (j : Nat) (s : St) (acc : List (Label × Val)), StepsFrom es steps → StepsSrt steps → Good2 s →
      SimN Flags.clear (structLoop mk env k rec (deIgnored env k) fs steps Flags.clear s acc)
        (deFields env .idl j steps (up s) acc) := by
  intro steps
  induction steps with
  | nil =>
    intro j s acc _ _ hg
    cases j with
    | zero => rw [deFields_zero]; exact SimN.starvedR _ _
    | succ j =>
      unfold structLoop deFields
      rw [addCost_unmetered_ok s hg.2, addCost_up s hg.2]
      exact Or.inr (Or.inr ⟨rfl, rfl, hg.1, hg.2, Or.inl rfl⟩)
  | cons step rest ih =>
    intro j s acc hfrom hsrt hg
    cases j with
    | zero => rw [deFields_zero]; exact SimN.starvedR _ _
    | succ j =>
      have hrest : StepsFrom es rest := fun x hx => hfrom x (by simp [hx])
      have hrestS : StepsSrt rest := fun x hx => hsrt x (by simp [hx])
      have hstep := hfrom step (by simp)
      have hstepS := hsrt step (by simp)
      unfold structLoop deFields
      rw [addCost_unmetered_ok s hg.2, addCost_up s hg.2]
      simp only [rbind_ok]
      -- a field the struct has: key, cost, value at the field's Rust type, then the rest
      have field : ∀ (l : Label) (wt et : Ty) (kd : VKind) (t : RTy), fs.select l = some (kd, t) →
          agreeS env renv k t et = true → srt wt = true →
          SimN Flags.clear
            (((addCost s (labelKeyCost l)).bind fun _ s2 => (addCost s2 1).bind fun _ s3 =>
                match fs.select l with
                | some (_, t) => (rec t Flags.clear wt et s3).map fun (x : Val × Flags) => (some (l, x.1), x.2)
                | none => (ignF mk (deIgnored env k) Flags.clear wt s3).map fun (x : Val × Flags) => ((none : Option (Label × Val)), x.2)).bind
              fun (x : Option (Label × Val) × Flags) s4 =>
                structLoop mk env k rec (deIgnored env k) fs rest x.2 s4 (match x.1 with | some p => p :: acc | none => acc))
            ((addCost (up s) (labelKeyCost l)).bind fun _ s2 => (addCost s2 1).bind fun _ s3 =>
              (deAny env .idl j wt et s3).bind fun v s4 =>
                deFields env .idl j rest s4 ((l, v) :: acc)) := by
        intro l wt et kd t hsel hag hswt
        rw [addCost_unmetered_ok s hg.2, addCost_up s hg.2]
        simp only [rbind_ok]
        rw [addCost_unmetered_ok s hg.2, addCost_up s hg.2]
        simp only [rbind_ok, hsel]
        have h0 := hrec j t Flags.clear wt et s hag (FlagsFit.clear wt et) hg hswt
        have hmap : ∀ (x : NR) (F : Option (Label × Val) × Flags → St → NR),
            (x.map fun (y : Val × Flags) => (some (l, y.1), y.2)).bind F = x.bind fun y s' => F (some (l, y.1), y.2) s' := by
          intro x F; cases x <;> rfl
        rw [hmap]
        exact SimN.bind2 _ _ h0 _ _ (fun v s1 hg1 => ih j s1 ((l, v) :: acc) hrest hrestS hg1)
      cases step with
      | both l et wt =>
        obtain ⟨kd, t, hsel, hag⟩ := hes (l, et) hstep
        simp only [show (Visitor.idl = Visitor.ignored) = False from by simp, if_false]
        exact field l wt et kd t hsel hag hstepS
      | expectOnly l et =>
        obtain ⟨kd, t, hsel, hag⟩ := hes (l, et) hstep
        simp only []
        cases h1 : env.trace k et with
        | none => exact SimN.starvedL _ _
        | some a =>
          cases h2 : env.trace j et with
          | none => exact SimN.starvedR _ _
          | some b =>
            have := Sub.trace_det env k j et a b h1 h2
            subst this
            simp only []
            by_cases hopt : Sub.isOptLikeTy a = true
            · simp only [hopt, Bool.not_true, Bool.false_eq_true, if_false]
              have hag' : agreeS env renv k t a = true := by
                rw [← agreeS_traced env renv k t et a (Sub.traceFull_of_trace env k et a h1)]; exact hag
              exact field l (.prim .null) a kd t hsel hag' rfl
            · simp only [hopt, Bool.not_false, if_true]
              exact SimN.sub _ s hg.2
      | expectTail l et =>
        obtain ⟨kd, t, hsel, hag⟩ := hes (l, et) hstep
        simp only []
        exact field l (.prim .null) et kd t hsel hag rfl
      | wireOnly wt =>
        simp only [hno, ignF_clear]
        rw [addCost_unmetered_ok s hg.2, addCost_up s hg.2]
        simp only [rbind_ok]
        rw [addCost_unmetered_ok s hg.2, addCost_up s hg.2]
        simp only [rbind_ok]
        have hmap : ∀ (x : R Val) (F : Val × Flags → St → NR),
            (x.map fun v => (v, Flags.clear)).bind F = x.bind fun v s' => F (v, Flags.clear) s' := by
          intro x F; cases x <;> rfl
        rw [hmap]
        exact SkipRel.bind _ _ (skip_reserved env k j wt s hg) _ _ (fun v v' s1 hg1 => ih j s1 acc hrest hrestS hg1)

/-- continue both runs after a related pair of intermediate results, whatever flags the native one returned -/
theorem SimN.bind3 {fl fl0 : Flags} (a : NR) (b : R Val) (h : SimN fl0 a b) (f : Val × Flags → St → NR)
    (g : Val → St → R Val)
    (hfg : ∀ v fl1 s1, (fl1 = fl0 ∨ fl1 = Flags.clear) → Good2 s1 → SimN fl (f (v, fl1) s1) (g v (up s1))) :
    SimN fl (a.bind f) (b.bind g) := by
  rcases h with h | h | h
  · rw [h]; exact Or.inl rfl
  · rw [h]; exact Or.inr (Or.inl rfl)
  · cases a with
    | ok p s1 =>
      obtain ⟨v, fl1⟩ := p
      cases b with
      | ok v' s2 =>
        obtain ⟨e1, e2, e3, e4, e5⟩ := h
        subst e1 e2
        exact hfg v fl1 s1 e5 ⟨e3, e4⟩
      | sub d q => exact absurd h (by simp)
      | err k => exact absurd h (by simp)
      | panic x => exact absurd h (by simp)
    | sub d q =>
      cases b with
      | sub d' q' => exact Or.inr (Or.inr h)
      | ok _ _ => exact absurd h (by simp)
      | err k => exact absurd h (by simp)
      | panic x => exact absurd h (by simp)
    | err k =>
      cases b with
      | err k' => exact Or.inr (Or.inr trivial)
      | ok _ _ => exact absurd h (by simp)
      | sub d q => exact absurd h (by simp)
      | panic x => exact absurd h (by simp)
    | panic x =>
      cases b with
      | panic x' => exact Or.inr (Or.inr trivial)
      | ok _ _ => exact absurd h (by simp)
      | sub d q => exact absurd h (by simp)
      | err k => exact absurd h (by simp)

/-- an expected type and its unfolding are decoded alike (budgets aside) -/
theorem deAny_unfold_e (env : Env) (vis : Visitor) (n n' : Nat) (w et et' : Ty) (st : St) (hu : Unmetered st)
    (ht : Sub.traceFull env et = some et') : AM (deAny env vis n w et st) (deAny env vis n' w et' st) := by
  cases n with
  | zero => rw [deAny_zero]; exact AM.left _
  | succ n =>
    cases n' with
    | zero => rw [deAny_zero]; exact AM.right _
    | succ n' =>
      rw [deAny_succ, deAny_succ, unroll_char env n w et st hu, unroll_char env n' w et' st hu]
      have het' : Sub.traceFull env et' = some et' := by
        unfold Sub.traceFull
        exact Check.trace_nonvar env _ et' (Wire.trace_not_var env _ et et' ht)
      cases h1 : traceAt env n et with
      | none => exact AM.left _
      | some a =>
        cases h2 : traceAt env n' et' with
        | none => exact AM.right _
        | some b =>
          have e1 := traceAt_full env n et a h1
          have e2 := traceAt_full env n' et' b h2
          rw [ht] at e1; rw [het'] at e2
          simp only [Option.some.injEq] at e1 e2
          subst e1 e2
          cases h3 : traceAt env n w with
          | none => exact AM.left _
          | some c =>
            cases h4 : traceAt env n' w with
            | none => exact AM.right _
            | some d =>
              have f1 := traceAt_full env n w c h3
              have f2 := traceAt_full env n' w d h4
              rw [f1] at f2
              simp only [Option.some.injEq] at f2
              subst f2
              simp only [R.bind]
              obtain ⟨ihA, ihI, ihR, ihF⟩ := de_fuel_agree env n n'
              exact deAnyBody_am env vis n n' _ _ _ _ _ _ _ _ (ihA vis) ihI (ihR vis) (ihF vis) _ _ st

/-- the surplus fields of a map entry: skipped on both sides, then the entry's record -/
theorem skips_sim (mk : String → NR) (env : Env) (k : Nat) : ∀ (extras : List Ty) (j : Nat) (s : St) (acc : List (Label × Val)),
    Good2 s →
    SimN Flags.clear
      ((skipTys mk (deIgnored env k) extras Flags.clear s).bind fun _ s6 => R.ok (Val.record acc.reverse, Flags.clear) s6)
      (deFields env .idl j (extras.map FieldStep.wireOnly) (up s) acc) := by
  intro extras
  induction extras with
  | nil =>
    intro j s acc hg
    cases j with
    | zero => rw [deFields_zero]; exact SimN.starvedR _ _
    | succ j =>
      simp only [skipTys, rbind_ok, List.map_nil]
      unfold deFields
      rw [addCost_up s hg.2]
      exact Or.inr (Or.inr ⟨rfl, rfl, hg.1, hg.2, Or.inl rfl⟩)
  | cons t ts ih =>
    intro j s acc hg
    cases j with
    | zero => rw [deFields_zero]; exact SimN.starvedR _ _
    | succ j =>
      simp only [skipTys, List.map_cons]
      unfold deFields
      rw [addCost_unmetered_ok s hg.2, addCost_up s hg.2]
      simp only [rbind_ok]
      rw [addCost_up s hg.2]
      simp only [rbind_ok]
      rw [addCost_up s hg.2]
      simp only [rbind_ok, ignF_clear, rbind_assoc, rmap_bind]
      exact SkipRel.bind _ _ (skip_reserved env k j t s hg) _ _ (fun v v' s1 hg1 => ih j s1 acc hg1)

theorem trace_ge (env : Env) (n : Nat) (t x : Ty) (h : env.trace n t = some x) : ∀ d, env.trace (n + d) t = some x := by
  intro d
  induction d with
  | zero => exact h
  | succ d ih => exact trace_succ env (n + d) t x ih

/-- with enough budget to unfold it, an expected type and its unfolding are decoded identically -/
theorem deAny_unfold_eq (env : Env) (vis : Visitor) (M : Nat) (w et et' : Ty) (st : St) (hu : Unmetered st)
    (hM : env.length + 3 ≤ M) (ht : Sub.traceFull env et = some et') :
    deAny env vis M w et st = deAny env vis M w et' st := by
  obtain ⟨M', hM'⟩ : ∃ M', M = M' + 1 := ⟨M - 1, by omega⟩
  subst hM'
  rw [deAny_succ, deAny_succ, unroll_char env M' w et st hu, unroll_char env M' w et' st hu]
  have h1 : traceAt env M' et = some et' := by
    unfold traceAt
    split
    · have := trace_ge env (env.length + 2) et et' ht (M' - (env.length + 2))
      rw [show env.length + 2 + (M' - (env.length + 2)) = M' from by omega] at this
      exact this
    · rename_i hn
      have : Sub.traceFull env et = some et := by
        unfold Sub.traceFull
        exact Check.trace_nonvar env _ et (by intro x hx; subst hx; simp [Sub.isName] at hn)
      rw [ht] at this
      exact this.symm ▸ rfl
  have h2 : traceAt env M' et' = some et' := by
    unfold traceAt
    split
    · rename_i hn
      -- an unfolding is never a variable; a knot unfolds to itself
      cases et' <;> simp [Sub.isName] at hn
      · exact absurd rfl (Wire.trace_not_var env _ et _ ht _)
      · obtain ⟨M'', h⟩ : ∃ M'', M' = M'' + 1 := ⟨M' - 1, by omega⟩
        subst h
        simp [Env.trace]
    · rfl
  rw [h1, h2]

/-- `null` on the wire at an expected type that takes no `null`, with enough budget: a subtype failure -/
theorem null_nonopt_exact (env : Env) (s : St) (hg : Good2 s) (ev ev' : Ty) (ht : Sub.traceFull env ev = some ev')
    (hp : plainShape ev' = true) (hno : Sub.isOptLikeTy ev' = false) :
    deAny env .idl (env.length + 3) (.prim .null) ev (up s) = .sub none none := by
  rcases null_nonopt env s hg ev ev' ht hp hno (env.length + 3) with h | h
  · exfalso
    -- not starved: the budget unfolds `ev`
    rw [deAny_unfold_eq env .idl _ _ ev ev' _ (up_unmetered s hg.2) (by omega) ht] at h
    have hu := up_unmetered s hg.2
    have hev' : Sub.traceFull env ev' = some ev' := by
      unfold Sub.traceFull
      exact Check.trace_nonvar env _ ev' (Wire.trace_not_var env _ ev ev' ht)
    rcases null_nonopt env s hg ev' ev' hev' hp hno (env.length + 3) with h2 | h2
    · -- compute: an unfolded plain shape never starves at this budget
      rw [deAny_succ, unroll_char env _ (.prim .null) ev' (up s) hu] at h2
      have hn : traceAt env (env.length + 2) (.prim .null) = some (.prim .null) := by simp [traceAt, Sub.isName]
      have he : traceAt env (env.length + 2) ev' = some ev' := by
        unfold traceAt
        split
        · rename_i hn'
          cases ev' <;> simp [Sub.isName] at hn' <;> simp [plainShape] at hp
        · rfl
      rw [hn, he] at h2
      simp only [R.bind, deAnyBody] at h2
      cases ev' with
      | prim p =>
        cases p <;> simp only [Sub.isOptLikeTy] at hno <;> try (exact Bool.noConfusion hno)
        all_goals (simp [dePrimExact, subErr] at h2)
      | principal => simp [subErr] at h2
      | opt _ => simp [Sub.isOptLikeTy] at hno
      | vec ee =>
        simp only [] at h2
        split at h2
        · unfold deBlobCase at h2
          have : isBlobTy env (.prim .null) = false := by simp [isBlobTy]
          simp [this, subErr] at h2
        · rw [addCost_unmetered_ok (up s) hu] at h2
          simp [R.bind, deVecCase, subErr] at h2
      | record efs =>
        simp only [] at h2
        rw [addCost_unmetered_ok (up s) hu] at h2
        simp [R.bind, subErr] at h2
      | variant efs =>
        simp only [] at h2
        rw [addCost_unmetered_ok (up s) hu] at h2
        simp [R.bind, deVariantCase, subErr] at h2
      | service ms =>
        simp only [checkSubtype] at h2
        rw [addCost_unmetered_ok (up s) hu] at h2
        simp only [R.bind] at h2
        have : Sub.subAlg env Sub.defaultFuel (up s).gamma (.prim .null) (.service ms) = .no :=
          subAlg_null_service env 3999 _ ms
        rw [this] at h2
        simp [subErr] at h2
      | func a r md =>
        simp only [checkSubtype] at h2
        rw [addCost_unmetered_ok (up s) hu] at h2
        simp only [R.bind] at h2
        have : Sub.subAlg env Sub.defaultFuel (up s).gamma (.prim .null) (.func a r md) = .no :=
          subAlg_null_func env 3999 _ a r md
        rw [this] at h2
        simp [subErr] at h2
      | _ => simp [plainShape] at hp
    · rw [h2] at h; simp at h
  · exact h

/-- the merge step of an expected entry component, with the wire type the native map accessor uses for it -/
inductive StepFor : FieldStep → Label → Ty → Ty → Prop
  | both (l : Label) (et wt : Ty) : StepFor (.both l et wt) l et wt
  | only (l : Label) (et : Ty) : StepFor (.expectOnly l et) l et (.prim .null)
  | tail (l : Label) (et : Ty) : StepFor (.expectTail l et) l et (.prim .null)

/-- one component of a map entry: the native read at the component's Rust type against the untyped merge step -/
theorem phase_sim (env : Env) (renv : REnv) (k : Nat) (rec : RTy → Flags → Ty → Ty → St → NR)
    (hrec : SimAt env renv k rec) (T : RTy) (F : Flags) (step : FieldStep) (l : Label) (et wk et0 : Ty)
    (hst : StepFor step l et wk) (hag : agreeS env renv k T et = true) (hfit : FlagsFit F wk et) (hswk : srt wk = true)
    (ht0 : Sub.traceFull env et = some et0) (hp0 : plainShape et0 = true)
    (rest : List FieldStep) (j : Nat) (s : St) (acc : List (Label × Val)) (hg : Good2 s)
    (Fk : Val × Flags → St → NR)
    (hfg : ∀ v fl1 s1, (fl1 = F ∨ fl1 = Flags.clear) → Good2 s1 →
      SimN Flags.clear (Fk (v, fl1) s1) (deFields env .idl j rest (up s1) ((l, v) :: acc))) :
    SimN Flags.clear ((rec T F wk et s).bind Fk) (deFields env .idl (j + 1) (step :: rest) (up s) acc) := by
  unfold deFields
  rw [addCost_up s hg.2]
  simp only [rbind_ok]
  cases hst with
  | both =>
    simp only [show (Visitor.idl = Visitor.ignored) = False from by simp, if_false]
    rw [addCost_up s hg.2]
    simp only [rbind_ok]
    rw [addCost_up s hg.2]
    simp only [rbind_ok]
    exact SimN.bind3 _ _ (hrec j T F wk et s hag hfit hg hswk) _ _ hfg
  | tail =>
    simp only []
    rw [addCost_up s hg.2]
    simp only [rbind_ok]
    rw [addCost_up s hg.2]
    simp only [rbind_ok]
    exact SimN.bind3 _ _ (hrec j T F _ et s hag hfit hg hswk) _ _ hfg
  | only =>
    simp only []
    cases h1 : env.trace j et with
    | none => exact SimN.starvedR _ _
    | some et' =>
      have := Sub.traceFull_of_trace env j et et' h1
      rw [ht0] at this
      simp only [Option.some.injEq] at this
      subst this
      simp only []
      by_cases hopt : Sub.isOptLikeTy et0 = true
      · simp only [hopt, Bool.not_true, Bool.false_eq_true, if_false]
        rw [addCost_up s hg.2]
        simp only [rbind_ok]
        rw [addCost_up s hg.2]
        simp only [rbind_ok]
        -- the untyped side reads at the unfolded type; with enough budget that is the same run
        by_cases hlim : deAny env .idl j (.prim .null) et0 (up s) = .err .limit
        · rw [hlim]; exact SimN.starvedR _ _
        · have hstable := deAny_stable env .idl (.prim .null) et0 (up s) j _ rfl hlim (env.length + 3)
          have heq := deAny_unfold_eq env .idl (j + (env.length + 3)) (.prim .null) et et0 (up s) (up_unmetered s hg.2) (by omega) ht0
          have h0 := hrec (j + (env.length + 3)) T F _ et s hag hfit hg hswk
          rw [heq, hstable] at h0
          exact SimN.bind3 _ _ h0 _ _ hfg
      · simp only [hopt, Bool.not_false, if_true]
        have hno : Sub.isOptLikeTy et0 = false := by
          cases h : Sub.isOptLikeTy et0 with
          | true => exact absurd h hopt
          | false => rfl
        have h0 := hrec (env.length + 3) T F _ et s hag hfit hg hswk
        rw [null_nonopt_exact env s hg et et0 ht0 hp0 hno] at h0
        have hsub : (subErr (up s) : R Val) = .sub none none := by
          simp only [subErr, up]; rw [hg.2.1, hg.2.2]
        rw [hsub]
        rcases h0 with h | h | h
        · rw [h]; exact SimN.starvedL _ _
        · simp at h
        · cases hx : rec T F (.prim .null) et s with
          | sub d q => rw [hx] at h; exact Or.inr (Or.inr ⟨h.1, h.2.1, rfl, rfl⟩)
          | ok _ _ => rw [hx] at h; exact absurd h (by simp)
          | err x => rw [hx] at h; exact absurd h (by simp)
          | panic x => rw [hx] at h; exact absurd h (by simp)

theorem mergeFields_nil_left : ∀ (n : Nat) (ws : List (Label × Ty)), ws.length < n →
    mergeFields n [] ws = ws.map fun p => FieldStep.wireOnly p.2 := by
  intro n
  induction n with
  | zero => intro ws h; omega
  | succ n ih =>
    intro ws h
    cases ws with
    | nil => rfl
    | cons p ws' =>
      obtain ⟨l, t⟩ := p
      simp only [mergeFields, List.map_cons]
      rw [ih ws' (by simp at h; omega)]

/-- what the native map accessor takes as key type, value type and surplus fields of a wire entry -/
def peekKey (ws : List (Label × Ty)) : Ty × List (Label × Ty) :=
  match ws with
  | (l, t) :: r => if l.getId = 0 then (t, r) else (.prim .null, ws)
  | [] => (.prim .null, ws)

def peekVal (ws1 : List (Label × Ty)) : Ty × List (Label × Ty) :=
  match ws1 with
  | (l, t) :: r => if l.getId = 1 then (t, r) else (.prim .null, ws1)
  | [] => (.prim .null, ws1)

/-- the merge of an expected entry `{0 : K; 1 : V}` with a wire entry in ascending order: key step, value step, then the
surplus fields — exactly the components the native accessor peeks -/
theorem map_merge_shape (l0 l1 : Label) (ek ev : Ty) (h0 : l0.getId = 0) (h1 : l1.getId = 1) (ws : List (Label × Ty))
    (hs : strictlyAscending (ws.map (·.1.getId)) = true) (m : Nat) (hm : ws.length ≤ m) :
    ∃ sk sv, mergeFields (m + 3) [(l0, ek), (l1, ev)] ws =
        sk :: sv :: (peekVal (peekKey ws).2).2.map (fun p => FieldStep.wireOnly p.2) ∧
      StepFor sk l0 ek (peekKey ws).1 ∧ StepFor sv l1 ev (peekVal (peekKey ws).2).1 := by
  have n10 : ¬ ((1 : Nat) = 0) := by omega
  cases ws with
  | nil =>
    refine ⟨.expectTail l0 ek, .expectTail l1 ev, ?_, StepFor.tail l0 ek, StepFor.tail l1 ev⟩
    simp [mergeFields, peekKey, peekVal]
  | cons p r =>
    obtain ⟨a, ta⟩ := p
    have hr : r.length < m + 1 := by simp at hm; omega
    by_cases ha0 : a.getId = 0
    · -- the key is there
      have ek0 : peekKey ((a, ta) :: r) = (ta, r) := by simp only [peekKey, ha0, if_true]
      rw [ek0]
      cases r with
      | nil =>
        refine ⟨.both l0 ek ta, .expectTail l1 ev, ?_, StepFor.both l0 ek ta, ?_⟩
        · simp [mergeFields, peekVal, h0, ha0]
        · simp only [peekVal]; exact StepFor.tail l1 ev
      | cons q r' =>
        obtain ⟨b, tb⟩ := q
        have hab : a.getId < b.getId := by
          simp only [List.map_cons, strictlyAscending, Bool.and_eq_true, decide_eq_true_eq] at hs
          exact hs.1
        have hr' : r'.length < m := by simp at hr; omega
        by_cases hb1 : b.getId = 1
        · have ev0 : peekVal ((b, tb) :: r') = (tb, r') := by simp only [peekVal, hb1, if_true]
          rw [ev0]
          refine ⟨.both l0 ek ta, .both l1 ev tb, ?_, StepFor.both l0 ek ta, StepFor.both l1 ev tb⟩
          simp only [mergeFields, h0, ha0, if_true, h1, hb1]
          rw [mergeFields_nil_left _ r' (by omega)]
        · have hb : 1 < b.getId := by omega
          have ev0 : peekVal ((b, tb) :: r') = (.prim .null, (b, tb) :: r') := by simp only [peekVal, hb1, if_false]
          rw [ev0]
          refine ⟨.both l0 ek ta, .expectOnly l1 ev, ?_, StepFor.both l0 ek ta, StepFor.only l1 ev⟩
          have : ¬ (1 = b.getId) := by omega
          simp only [mergeFields, h0, ha0, if_true, h1, this, if_false, hb]
          rw [mergeFields_nil_left m r' hr']; rfl
    · -- no key on the wire
      have ha : 0 < a.getId := by omega
      have ek0 : peekKey ((a, ta) :: r) = (.prim .null, (a, ta) :: r) := by simp only [peekKey, ha0, if_false]
      rw [ek0]
      have e1 : ¬ (0 = a.getId) := by omega
      by_cases ha1 : a.getId = 1
      · have ev0 : peekVal ((a, ta) :: r) = (ta, r) := by simp only [peekVal, ha1, if_true]
        rw [ev0]
        refine ⟨.expectOnly l0 ek, .both l1 ev ta, ?_, StepFor.only l0 ek, StepFor.both l1 ev ta⟩
        have n01 : ¬ ((0 : Nat) = 1) := by omega
        have l01 : (0 : Nat) < 1 := by omega
        simp only [mergeFields, h0, h1, ha1, n01, l01, if_false, if_true]
        rw [mergeFields_nil_left _ r (by omega)]
      · have ha2 : 1 < a.getId := by omega
        have ev0 : peekVal ((a, ta) :: r) = (.prim .null, (a, ta) :: r) := by simp only [peekVal, ha1, if_false]
        rw [ev0]
        refine ⟨.expectOnly l0 ek, .expectOnly l1 ev, ?_, StepFor.only l0 ek, StepFor.only l1 ev⟩
        have e2 : ¬ (1 = a.getId) := by omega
        simp only [mergeFields, h0, e1, if_false, ha, if_true, h1, e2, ha2]
        rw [mergeFields_nil_left m r (by simp at hm; omega)]; rfl

theorem srt_peekKey (ws : List (Label × Ty)) (h : ∀ p ∈ ws, srt p.2 = true) :
    srt (peekKey ws).1 = true ∧ ∀ p ∈ (peekKey ws).2, srt p.2 = true := by
  unfold peekKey
  cases ws with
  | nil => exact ⟨rfl, h⟩
  | cons p r =>
    obtain ⟨l, t⟩ := p
    by_cases hl : l.getId = 0
    · simp only [hl, if_true]
      exact ⟨h (l, t) (by simp), fun p hp => h p (by simp [hp])⟩
    · simp only [hl, if_false]
      exact ⟨rfl, h⟩

theorem srt_peekVal (ws : List (Label × Ty)) (h : ∀ p ∈ ws, srt p.2 = true) :
    srt (peekVal ws).1 = true ∧ ∀ p ∈ (peekVal ws).2, srt p.2 = true := by
  unfold peekVal
  cases ws with
  | nil => exact ⟨rfl, h⟩
  | cons p r =>
    obtain ⟨l, t⟩ := p
    by_cases hl : l.getId = 1
    · simp only [hl, if_true]
      exact ⟨h (l, t) (by simp), fun p hp => h p (by simp [hp])⟩
    · simp only [hl, if_false]
      exact ⟨rfl, h⟩

theorem fits_text (wk ek : Ty) :
    FlagsFit ⟨none, decide (ek = .prim .text) && decide (wk = .prim .text)⟩ wk ek := by
  refine ⟨?_, ?_, ?_, ?_⟩ <;> simp

theorem fits_bigOf (wv ev : Ty) : FlagsFit ⟨bigOf ev wv, false⟩ wv ev := by
  cases h : bigOf ev wv with
  | none => exact FlagsFit.clear wv ev
  | some b => exact fits_big b wv ev h

/-- one entry of a map: the native accessor (key, value, surplus fields) against the untyped record rule -/
theorem entry_sim (mk : String → NR) (env : Env) (renv : REnv) (k : Nat) (rec : RTy → Flags → Ty → Ty → St → NR)
    (hrec : SimAt env renv k rec) (kt vt : RTy) (ee : Ty) (efs wfs : Fields) (l0 l1 : Label) (ek ev ek' ev' : Ty)
    (hte : Sub.traceFull env ee = some (.record efs)) (hefs : efs.toList = [(l0, ek), (l1, ev)])
    (h0 : l0.getId = 0) (h1 : l1.getId = 1)
    (hak : agreeS env renv k kt ek = true) (hav : agreeS env renv k vt ev = true)
    (htk : Sub.traceFull env ek = some ek') (htv : Sub.traceFull env ev = some ev')
    (hpk : plainShape ek' = true) (hpv : plainShape ev' = true)
    (hsw : srt (.record wfs) = true) (m : Nat) (s : St) (hg : Good2 s) :
    SimN Flags.clear
      (withFlags Flags.clear
        (entryN mk rec (deIgnored env k) kt vt l0 l1 ek ev (peekKey wfs.toList).1 (peekVal (peekKey wfs.toList).2).1
          ((peekVal (peekKey wfs.toList).2).2.map fun p => p.2)
          (decide (ek = .prim .text) && decide ((peekKey wfs.toList).1 = .prim .text))
          (bigOf ev (peekVal (peekKey wfs.toList).2).1) s))
      (deAny env .idl m (.record wfs) ee (up s)) := by
  have hu := hg.2
  simp only [srt, Bool.and_eq_true] at hsw
  have hall : ∀ p ∈ wfs.toList, srt p.2 = true := fun p hp => srtF_mem wfs p hsw.2 hp
  obtain ⟨hswk, hall1⟩ := srt_peekKey wfs.toList hall
  obtain ⟨hswv, _⟩ := srt_peekVal (peekKey wfs.toList).2 hall1
  cases m with
  | zero => rw [deAny_zero]; exact SimN.starvedR _ _
  | succ j =>
    rw [deAny_succ, unroll_char env j _ ee (up s) (up_unmetered s hu)]
    cases h1e : traceAt env j ee with
    | none => exact SimN.starvedR _ _
    | some e' =>
      have := traceAt_full env j ee e' h1e
      rw [hte] at this
      simp only [Option.some.injEq] at this
      subst this
      have hw : traceAt env j (.record wfs) = some (.record wfs) := by simp [traceAt, Sub.isName]
      rw [hw]
      simp only [rbind_ok]
      unfold deAnyBody
      simp only []
      rw [addCost_up s hu]
      simp only [rbind_ok, hefs]
      obtain ⟨sk, sv, hmerge, hsk, hsv⟩ := map_merge_shape l0 l1 ek ev h0 h1 wfs.toList hsw.1 wfs.toList.length (Nat.le_refl _)
      rw [show [(l0, ek), (l1, ev)].length + wfs.toList.length + 1 = wfs.toList.length + 3 from by simp; omega, hmerge]
      cases j with
      | zero => rw [deFields_zero]; exact SimN.starvedR _ _
      | succ j1 =>
        unfold entryN withFlags
        rw [addCost_unmetered_ok s hu]
        simp only [rbind_ok]
        have hpre : ∀ (c : Bool) (n : Nat) (st : St), Unmetered st →
            (if c = true then R.ok () st else addCost st n) = R.ok () st := by
          intro c n st h
          cases c
          · simp only [Bool.false_eq_true, if_false]; exact addCost_unmetered_ok st h n
          · rfl
        rw [hpre _ _ s hu]
        simp only [rbind_ok, rmap_bind, rbind_assoc]
        refine phase_sim env renv k rec hrec kt _ sk l0 ek _ ek' hsk hak (fits_text _ _) hswk htk hpk _ j1 s [] hg _ ?_
        intro kv fl1 s1 _ hg1
        rw [hpre _ _ s1 hg1.2]
        simp only [rbind_ok]
        cases j1 with
        | zero => rw [deFields_zero]; exact SimN.starvedR _ _
        | succ j2 =>
          refine phase_sim env renv k rec hrec vt _ sv l1 ev _ ev' hsv hav (fits_bigOf _ _) hswv htv hpv _ j2 s1 _ hg1 _ ?_
          intro vv fl2 s2 hfl2 hg2
          have hcl : ({ fl2 with big := none } : Flags) = Flags.clear := by
            rcases hfl2 with x | x <;> subst x <;> rfl
          simp only [hcl]
          have := skips_sim mk env k ((peekVal (peekKey wfs.toList).2).2.map fun p => p.2) j2 s2 [(l1, vv), (l0, kv)] hg2
          simp only [List.map_map, List.reverse_cons, List.reverse_nil, List.nil_append, List.cons_append] at this
          exact this

/-- a record expected at a wire type that is no record: a subtype failure, given the budget to see it -/
theorem record_at_nonrecord (env : Env) (m : Nat) (wire ee : Ty) (efs : Fields) (s : St) (hg : Good2 s)
    (hte : Sub.traceFull env ee = some (.record efs)) (hwf : Sub.traceFull env wire = some wire)
    (hnr : ∀ wfs, wire ≠ .record wfs) :
    deAny env .idl m wire ee (up s) = .err .limit ∨ deAny env .idl m wire ee (up s) = .sub none none := by
  cases m with
  | zero => left; rfl
  | succ j =>
    rw [deAny_succ, unroll_char env j _ ee (up s) (up_unmetered s hg.2)]
    cases h1e : traceAt env j ee with
    | none => left; rfl
    | some e' =>
      have := traceAt_full env j ee e' h1e
      rw [hte] at this
      simp only [Option.some.injEq] at this
      subst this
      cases h1w : traceAt env j wire with
      | none => left; rfl
      | some w'' =>
        have := traceAt_full env j wire w'' h1w
        rw [hwf] at this
        simp only [Option.some.injEq] at this
        subst this
        right
        simp only [rbind_ok]
        unfold deAnyBody
        simp only []
        rw [addCost_up s hg.2]
        simp only [rbind_ok]
        have hsub : (subErr (up s) : R Val) = .sub none none := by
          simp only [subErr, up]; rw [hg.2.1, hg.2.2]
        cases wire with
        | record wfs => exact absurd rfl (hnr wfs)
        | _ => exact hsub

/-- after the entries of a map the native accessor is asked once more and answers `None` -/
theorem SimL.mapEnd (x b : R (List Val)) (h : SimL Flags.clear (x.map fun vs => (vs, Flags.clear)) b) :
    SimN Flags.clear ((x.bind fun es s => (addCost s 4).bind fun _ s' => R.ok es s').map fun es => (Val.vec es, Flags.clear))
      (b.map Val.vec) := by
  rcases h with h | h | h
  · left
    cases x <;> simp [R.map, R.bind] at h ⊢
    exact h
  · right; left; rw [h]; rfl
  · cases x with
    | ok es s1 =>
      cases b with
      | ok vs' s2 =>
        simp only [R.map, R.bind] at h
        obtain ⟨e1, e2, e3, _⟩ := h
        subst e1 e2
        simp only [rbind_ok]
        rw [addCost_unmetered_ok s1 e3.2]
        exact Or.inr (Or.inr ⟨rfl, rfl, e3.1, e3.2, Or.inl rfl⟩)
      | sub d q => simp [R.map, R.bind] at h
      | err y => simp [R.map, R.bind] at h
      | panic y => simp [R.map, R.bind] at h
    | sub d q =>
      cases b with
      | sub d' q' => simp only [R.map, R.bind] at h; exact Or.inr (Or.inr h)
      | ok _ _ => simp [R.map, R.bind] at h
      | err y => simp [R.map, R.bind] at h
      | panic y => simp [R.map, R.bind] at h
    | err y =>
      cases b with
      | err y' => exact Or.inr (Or.inr trivial)
      | ok _ _ => simp [R.map, R.bind] at h
      | sub d q => simp [R.map, R.bind] at h
      | panic y' => simp [R.map, R.bind] at h
    | panic y =>
      cases b with
      | panic y' => exact Or.inr (Or.inr trivial)
      | ok _ _ => simp [R.map, R.bind] at h
      | sub d q => simp [R.map, R.bind] at h
      | err y' => simp [R.map, R.bind] at h

/-- the entries of a map: `deserialize_map` against the untyped vector of records -/
theorem map_sim (mk : String → NR) (env : Env) (renv : REnv) (k m : Nat) (rec : RTy → Flags → Ty → Ty → St → NR)
    (hrec : SimAt env renv k rec) (hse : SortedEnv env) (kt vt : RTy) (ww ee : Ty) (efs : Fields) (l0 l1 : Label)
    (ek ev ek' ev' : Ty)
    (hte : Sub.traceFull env ee = some (.record efs)) (hefs : efs.toList = [(l0, ek), (l1, ev)])
    (h0 : l0.getId = 0) (h1 : l1.getId = 1)
    (hak : agreeS env renv k kt ek = true) (hav : agreeS env renv k vt ev = true)
    (htk : Sub.traceFull env ek = some ek') (htv : Sub.traceFull env ev = some ev')
    (hpk : plainShape ek' = true) (hpv : plainShape ev' = true)
    (hsw : srt ww = true) (s : St) (hg : Good2 s) :
    SimN Flags.clear (nMapCase mk env k rec (deIgnored env k) kt vt ww ee s)
      (deVecCase env .idl m (deAny env .idl m) (deIgnored env m) (.vec ww) ee (up s)) := by
  unfold nMapCase deVecCase
  simp only []
  cases h1e : env.trace k ee with
  | none => exact SimN.starvedL _ _
  | some e' =>
    have := Sub.traceFull_of_trace env k ee e' h1e
    rw [hte] at this
    simp only [Option.some.injEq] at this
    subst this
    cases h1w : env.trace k ww with
    | none => exact SimN.starvedL _ _
    | some wire =>
      cases h2w : env.trace m ww with
      | none => exact SimN.starvedR _ _
      | some wire2 =>
        have := Sub.trace_det env k m ww wire wire2 h1w h2w
        subst this
        have hswire : srt wire = true := srt_trace env hse k ww wire hsw h1w
        have hwf0 := Sub.traceFull_of_trace env k ww wire h1w
        have hwf : Sub.traceFull env wire = some wire := by
          unfold Sub.traceFull
          exact Check.trace_nonvar env _ wire (Wire.trace_not_var env _ ww wire hwf0)
        have hex : exactPrim ee wire = none := by
          cases ee with
          | prim p => rw [traceFull_prim] at hte; simp at hte
          | _ => rfl
        have hbig : bigPrimOf ee wire = none := by
          cases ee with
          | prim p => rw [traceFull_prim] at hte; simp at hte
          | _ => rfl
        simp only [hex, hbig]
        rw [rd_up]
        have hsubs : ∀ st : St, Good2 st → (subErr (up st) : R Val) = .sub none none := by
          intro st h; simp only [subErr, up]; rw [h.2.1, h.2.2]
        -- the element of the untyped run
        have hg_elem : ∀ st : St, Good2 st →
            ((addCost (up st) 3).bind fun _ s' =>
              if Visitor.idl = Visitor.ignored then deIgnored env m wire s' else deAny env .idl m wire ee s') =
            deAny env .idl m wire ee (up st) := by
          intro st h
          rw [addCost_up st h.2]
          simp only [rbind_ok, show (Visitor.idl = Visitor.ignored) = False from by simp, if_false]
        by_cases hrecd : ∃ wfs, wire = .record wfs
        · obtain ⟨wfs, hw⟩ := hrecd
          subst hw
          simp only [hefs, h0, h1, and_self, if_true]
          cases hr : rd readLenDe s with
          | sub d q =>
            have := (Fine.ofRd readLenDe s hg).2 d q hr
            exact Or.inr (Or.inr ⟨this.1, this.2, this.1, this.2⟩)
          | err x => exact Or.inr (Or.inr trivial)
          | panic x => exact Or.inr (Or.inr trivial)
          | ok n s2 =>
            have hg2 := (Fine.ofRd readLenDe s hg).1 n s2 hr
            simp only [lift, rbind_ok]
            have hcost : (if (decide (ek = .prim .text) && decide ((peekKey wfs.toList).1 = .prim .text) ||
                  (bigOf ev (peekVal (peekKey wfs.toList).2).1).isSome) = true
                then (if n * 7 > usizeMax then R.err .limit else addCost s2 (n * 7)) else R.ok () s2) = R.err .limit ∨
              (if (decide (ek = .prim .text) && decide ((peekKey wfs.toList).1 = .prim .text) ||
                  (bigOf ev (peekVal (peekKey wfs.toList).2).1).isSome) = true
                then (if n * 7 > usizeMax then R.err .limit else addCost s2 (n * 7)) else R.ok () s2) = R.ok () s2 := by
              split
              · split
                · left; rfl
                · right; exact addCost_unmetered_ok s2 hg2.2 _
              · right; rfl
            show SimN Flags.clear
              ((if (decide (ek = .prim .text) && decide ((peekKey wfs.toList).1 = .prim .text) ||
                  (bigOf ev (peekVal (peekKey wfs.toList).2).1).isSome) = true
                then (if n * 7 > usizeMax then R.err .limit else addCost s2 (n * 7)) else R.ok () s2).bind fun _ s3 =>
                (mapLoop mk rec (deIgnored env k) kt vt l0 l1 ek ev (peekKey wfs.toList).1 (peekVal (peekKey wfs.toList).2).1
                  ((peekVal (peekKey wfs.toList).2).2.map fun p => p.2)
                  (decide (ek = .prim .text) && decide ((peekKey wfs.toList).1 = .prim .text))
                  (bigOf ev (peekVal (peekKey wfs.toList).2).1) n s3).map fun es => (Val.vec es, Flags.clear)) _
            rcases hcost with hc | hc
            · rw [hc]; exact SimN.starvedL _ _
            · rw [hc]
              simp only [rbind_ok]
              rw [mapLoop_as_iter]
              apply SimL.mapEnd
              rw [← iterF_withFlags]
              refine iter_sim _ _ Flags.clear (fun fl st hfl hgs => ?_) n Flags.clear s2 (Or.inl rfl) hg2
              have hcl : fl = Flags.clear := by rcases hfl with x | x <;> exact x
              subst hcl
              rw [hg_elem st hgs]
              exact entry_sim mk env renv k rec hrec kt vt ee efs wfs l0 l1 ek ev ek' ev' hte hefs h0 h1 hak hav htk htv hpk hpv
                hswire m st hgs
        · -- the entries on the wire are no records: only the empty map is there to read
          have hnr : ∀ wfs, wire ≠ .record wfs := fun wfs h => hrecd ⟨wfs, h⟩
          cases wire with
          | record wfs => exact absurd rfl (hnr wfs)
          | _ =>
            simp only []
            cases hr : rd readLenDe s with
            | sub d q =>
              have := (Fine.ofRd readLenDe s hg).2 d q hr
              exact Or.inr (Or.inr ⟨this.1, this.2, this.1, this.2⟩)
            | err x => exact Or.inr (Or.inr trivial)
            | panic x => exact Or.inr (Or.inr trivial)
            | ok n s2 =>
              have hg2 := (Fine.ofRd readLenDe s hg).1 n s2 hr
              simp only [lift, rbind_ok]
              cases n with
              | zero =>
                simp only [iterV, ne_eq, not_true, if_false]
                rw [addCost_unmetered_ok s2 hg2.2]
                exact Or.inr (Or.inr ⟨rfl, rfl, hg2.1, hg2.2, Or.inl rfl⟩)
              | succ n' =>
                simp only [ne_eq, Nat.add_one_ne_zero, not_false_eq_true, if_true]
                unfold iterV
                rw [hg_elem s2 hg2]
                have hsn : (subErr s2 : NR) = .sub none none := by
                  simp only [subErr]; rw [hg2.2.1, hg2.2.2]
                rw [hsn]
                rcases record_at_nonrecord env m _ ee efs s2 hg2 hte hwf hnr with h | h <;> rw [h]
                · exact SimN.starvedR _ _
                · exact Or.inr (Or.inr ⟨rfl, rfl, rfl, rfl⟩)

/-- with enough budget, `nat8` on the wire at an expected type that unfolds to `nat8` is one byte read -/
theorem deAny_nat8 (env : Env) (ee : Ty) (st : St) (hu : Unmetered st) (hee : Sub.traceFull env ee = some (.prim .nat8)) :
    deAny env .idl (env.length + 3) (.prim .nat8) ee st = rd (decPrim .nat8) st := by
  rw [deAny_unfold_eq env .idl (env.length + 3) (.prim .nat8) ee (.prim .nat8) st hu (Nat.le_refl _) hee]
  rw [deAny_prim_prim]
  simp only [deAnyBody, dePrimExact, and_self, if_true]
  rw [addCost_unmetered_ok st hu]
  rfl

/-- … and any other wire type is a subtype failure -/
theorem deAny_nat8_mismatch (env : Env) (wire ee : Ty) (st : St) (hu : Unmetered st)
    (hee : Sub.traceFull env ee = some (.prim .nat8)) (hw : Sub.traceFull env wire = some wire) (hne : wire ≠ .prim .nat8) :
    deAny env .idl (env.length + 3) wire ee st = .sub none none := by
  rw [deAny_unfold_eq env .idl (env.length + 3) wire ee (.prim .nat8) st hu (Nat.le_refl _) hee]
  rw [deAny_succ, unroll_char env _ wire (.prim .nat8) st hu]
  have h1 : traceAt env (env.length + 2) (.prim .nat8) = some (.prim .nat8) := by simp [traceAt, Sub.isName]
  have h2 : traceAt env (env.length + 2) wire = some wire := by
    unfold traceAt
    split
    · exact hw
    · rfl
  rw [h1, h2]
  simp only [rbind_ok, deAnyBody, dePrimExact, hne, and_false, if_false]
  simp only [subErr]; rw [hu.1, hu.2]

theorem iterV_congr_unmetered (g h : St → R Val) (hgh : ∀ st, Unmetered st → g st = h st)
    (hpres : ∀ st v st', Unmetered st → h st = .ok v st' → Unmetered st') :
    ∀ (n : Nat) (st : St), Unmetered st → iterV g n st = iterV h n st := by
  intro n
  induction n with
  | zero => intro st _; rfl
  | succ n ih =>
    intro st hu
    unfold iterV
    rw [hgh st hu]
    cases hh : h st with
    | ok v st' => simp only [R.bind]; rw [ih st' (hpres st v st' hu hh)]
    | sub _ _ => rfl
    | err _ => rfl
    | panic _ => rfl

theorem rd_unmetered' {α : Type} (f : Bytes → Outcome (α × Bytes)) (st : St) (v : α) (st' : St) (hu : Unmetered st)
    (h : rd f st = .ok v st') : Unmetered st' := by
  unfold rd at h
  cases hf : f st.input with
  | ok x => obtain ⟨a, r⟩ := x; rw [hf] at h; simp only [R.ok.injEq] at h; rw [← h.2]; exact hu
  | err _ => rw [hf] at h; simp at h
  | panic _ => rw [hf] at h; simp at h

/-- **`Vec<u8>` and its relatives**: the native sequence reader at a byte element type against the untyped blob reader -/
theorem bytes_sim (env : Env) (renv : REnv) (k : Nat) (rec : RTy → Flags → Ty → Ty → St → NR)
    (hrec : SimAt env renv k rec) (hse : SortedEnv env) (t' : RTy) (ww ee : Ty) (s : St) (hg : Good2 s)
    (ha : agreeS env renv k t' ee = true) (hsw : srt ww = true) (hby : isByte renv (resolveDepth renv) t' = true)
    (hee : Sub.traceFull env ee = some (.prim .nat8)) :
    SimN Flags.clear ((nVecCase env renv k rec .all t' Flags.clear ww ee s).map fun q => (seqVal true q.1, Flags.clear))
      (deBlobCase env (.vec ww) (up s)) := by
  unfold nVecCase
  cases h1 : env.trace k ww with
  | none => exact SimN.starvedL _ _
  | some wire =>
    simp only []
    have hwfull := Sub.traceFull_of_trace env k ww wire h1
    have hwself : Sub.traceFull env wire = some wire := by
      unfold Sub.traceFull
      exact Check.trace_nonvar env _ wire (Wire.trace_not_var env _ ww wire hwfull)
    have hsubs : ∀ st : St, Good2 st → (subErr (up st) : R Val) = .sub none none := by
      intro st h; simp only [subErr, up]; rw [h.2.1, h.2.2]
    have hswire : srt wire = true := srt_trace env hse k ww wire hsw h1
    -- the generic element, on both sides
    have hgen : ∀ fl st, (fl = Flags.clear ∨ fl = Flags.clear) → Good2 st →
        SimN fl (genericElem rec t' wire ee fl st)
          ((fun st' => (addCost st' 3).bind fun _ s' => deAny env .idl (env.length + 3) wire ee s') (up st)) := by
      intro fl st hfl hgs
      have hcl : fl = Flags.clear := by rcases hfl with x | x <;> exact x
      subst hcl
      unfold genericElem
      simp only []
      rw [addCost_unmetered_ok st hgs.2, addCost_up st hgs.2]
      simp only [R.bind]
      exact hrec (env.length + 3) t' Flags.clear wire ee st ha (FlagsFit.clear wire ee) hgs hswire
    have hbig : bigOf ee wire = none := by
      cases ee with
      | prim p =>
        rw [traceFull_prim] at hee
        simp only [Option.some.injEq, Ty.prim.injEq] at hee
        subst hee
        cases wire <;> rfl
      | _ => rfl
    unfold deBlobCase
    by_cases hbw : isBlobTy env (.vec ww) = true
    · -- bytes on the wire
      have hwire : wire = .prim .nat8 := by
        simp only [isBlobTy, hwfull] at hbw
        cases wire with
        | prim p => cases p <;> first | rfl | exact Bool.noConfusion hbw
        | _ => exact Bool.noConfusion hbw
      subst hwire
      simp only [hbw, if_true, lenBytes]
      rw [rd_up]
      cases hr : rd readLenDe s with
      | sub d q =>
        have := (Fine.ofRd readLenDe s hg).2 d q hr
        exact Or.inr (Or.inr ⟨this.1, this.2, this.1, this.2⟩)
      | err x => exact Or.inr (Or.inr trivial)
      | panic x => exact Or.inr (Or.inr trivial)
      | ok n s2 =>
        have hg2 := (Fine.ofRd readLenDe s hg).1 n s2 hr
        simp only [lift, R.bind, R.map]
        rw [addCost_up s2 hg2.2]
        simp only []
        have hunt : rd (takeN n) (up s2) =
            (if n ≤ s2.input.length then .ok (s2.input.take n) (up (inp s2 (s2.input.drop n))) else .err .eof) := by
          by_cases h : n ≤ s2.input.length
          · simp only [rd, takeN, up_input, h, if_true]; rfl
          · simp only [rd, takeN, up_input, h, if_false]
        rw [hunt]
        by_cases hlit : ee = .prim .nat8
        · subst hlit
          have hex : exactPrim (.prim .nat8) (.prim .nat8) = some .nat8 := by simp [exactPrim, primSize]
          simp only [hex]
          unfold bulkElems
          simp only [primSize, Option.getD_some, isByte_accepts renv _ t' hby]
          by_cases hov : n * (3 + 1) > usizeMax
          · simp only [hov, if_true]; exact SimN.starvedL _ _
          · simp only [hov, if_false]
            rw [addCost_unmetered_ok s2 hg2.2]
            simp only [R.bind]
            by_cases hlen : n * 1 > s2.input.length
            · simp only [hlen, if_true]
              have : ¬ (n ≤ s2.input.length) := by omega
              simp only [this, if_false]
              exact SimN.err _ _ _
            · simp only [hlen, if_false, runSeq]
              rw [iterF_bulk, iterV_bytes]
              have hle : n ≤ s2.input.length := by omega
              simp only [hle, if_true, R.map, R.bind, seqVal, bytes_as_vals]
              exact Or.inr (Or.inr ⟨rfl, rfl, hg2.1, hg2.2, Or.inl rfl⟩)
        · -- the expected element type is a name for `nat8`: element by element
          have hexn : exactPrim ee (.prim .nat8) = none := by
            cases ee with
            | prim p =>
              rw [traceFull_prim] at hee
              simp only [Option.some.injEq, Ty.prim.injEq] at hee
              subst hee
              exact absurd rfl hlit
            | _ => rfl
          simp only [hexn, hbig]
          unfold genericElems
          simp only [runSeq]
          have hl := iter_sim (genericElem rec t' (.prim .nat8) ee)
            (fun st' => (addCost st' 3).bind fun _ s' => deAny env .idl (env.length + 3) (.prim .nat8) ee s') Flags.clear hgen
            n Flags.clear s2 (Or.inl rfl) hg2
          have hiter : iterV (fun st' => (addCost st' 3).bind fun _ s' => deAny env .idl (env.length + 3) (.prim .nat8) ee s')
              n (up s2) = iterV (fun st => rd (decPrim .nat8) st) n (up s2) :=
            iterV_congr_unmetered _ _ (fun st hu => by
              rw [addCost_unmetered_ok st hu]
              simp only [R.bind]
              exact deAny_nat8 env ee st hu hee)
              (fun st v st' hu h => rd_unmetered' _ st v st' hu h) n (up s2) (up_unmetered s2 hg2.2)
          rw [hiter, iterV_bytes] at hl
          simp only [up_input] at hl
          rcases hl with h | h | h
          · rw [h]; exact SimN.starvedL _ _
          · by_cases hle : n ≤ s2.input.length <;> simp [hle] at h
          · cases hx : iterF (genericElem rec t' (.prim .nat8) ee) n Flags.clear s2 with
            | ok q s1 =>
              obtain ⟨vs, f1⟩ := q
              rw [hx] at h
              by_cases hle : n ≤ s2.input.length
              · simp only [hle, if_true] at h ⊢
                obtain ⟨e1, e2, e3, _⟩ := h
                subst e1
                simp only [R.map, R.bind, seqVal, bytes_as_vals, if_true]
                refine Or.inr (Or.inr ⟨rfl, ?_, e3.1, e3.2, Or.inl rfl⟩)
                rw [← e2]; rfl
              · simp only [hle, if_false] at h
            | sub d q =>
              rw [hx] at h
              by_cases hle : n ≤ s2.input.length <;> simp only [hle, if_true, if_false] at h
            | err x =>
              rw [hx] at h
              by_cases hle : n ≤ s2.input.length
              · simp only [hle, if_true] at h
              · simp only [hle, if_false, R.map, R.bind]; exact SimN.err _ _ _
            | panic x =>
              rw [hx] at h
              by_cases hle : n ≤ s2.input.length <;> simp only [hle, if_true, if_false] at h
    · -- something else on the wire: only the empty vector is a byte vector
      have hbwf : isBlobTy env (.vec ww) = false := by
        cases h : isBlobTy env (.vec ww) with
        | true => exact absurd h hbw
        | false => rfl
      have hne : wire ≠ .prim .nat8 := by
        intro h
        subst h
        simp [isBlobTy, hwfull] at hbwf
      have hexn : exactPrim ee wire = none := by
        cases ee with
        | prim p =>
          rw [traceFull_prim] at hee
          simp only [Option.some.injEq, Ty.prim.injEq] at hee
          subst hee
          cases wire with
          | prim q =>
            simp only [exactPrim]
            have : ¬ (Prim.nat8 = q) := by intro h; subst h; exact hne rfl
            simp [this]
          | _ => rfl
        | _ => rfl
      simp only [hbwf, Bool.false_eq_true, if_false, hexn, hbig]
      rw [rd_up]
      cases hr : rd readLenDe s with
      | sub d q =>
        have := (Fine.ofRd readLenDe s hg).2 d q hr
        exact Or.inr (Or.inr ⟨this.1, this.2, this.1, this.2⟩)
      | err x => exact Or.inr (Or.inr trivial)
      | panic x => exact Or.inr (Or.inr trivial)
      | ok n s2 =>
        have hg2 := (Fine.ofRd readLenDe s hg).1 n s2 hr
        simp only [lift, R.bind, R.map]
        unfold genericElems
        simp only [runSeq]
        cases n with
        | zero =>
          simp only [iterF, ne_eq, not_true_eq_false, if_false, R.map, R.bind, seqVal, bytesOfVals, if_true]
          rw [addCost_up s2 hg2.2]
          exact Or.inr (Or.inr ⟨rfl, rfl, hg2.1, hg2.2, Or.inl rfl⟩)
        | succ n' =>
          simp only [ne_eq, Nat.add_one_ne_zero, not_false_eq_true, if_true]
          rw [hsubs s2 hg2]
          have hl := iter_sim (genericElem rec t' wire ee)
            (fun st' => (addCost st' 3).bind fun _ s' => deAny env .idl (env.length + 3) wire ee s') Flags.clear hgen
            (n' + 1) Flags.clear s2 (Or.inl rfl) hg2
          have hfirst : iterV (fun st' => (addCost st' 3).bind fun _ s' => deAny env .idl (env.length + 3) wire ee s')
              (n' + 1) (up s2) = .sub none none := by
            unfold iterV
            rw [addCost_up s2 hg2.2]
            simp only [R.bind]
            rw [deAny_nat8_mismatch env wire ee (up s2) (up_unmetered s2 hg2.2) hee hwself hne]
          rw [hfirst] at hl
          rcases hl with h | h | h
          · rw [h]; exact SimN.starvedL _ _
          · simp at h
          · cases hx : iterF (genericElem rec t' wire ee) (n' + 1) Flags.clear s2 with
            | sub d q =>
              rw [hx] at h
              simp only [R.map, R.bind]
              exact Or.inr (Or.inr ⟨h.1, h.2.1, rfl, rfl⟩)
            | ok q s1 => rw [hx] at h; exact absurd h (by simp)
            | err x => rw [hx] at h; exact absurd h (by simp)
            | panic x => rw [hx] at h; exact absurd h (by simp)

theorem agreeS_traces {env : Env} {renv : REnv} {k : Nat} {t : RTy} {e : Ty} (ha : agreeS env renv (k + 1) t e = true)
    (h1 : ∀ t', t ≠ .newtype t') (h2 : ∀ x, t ≠ .ref x) : ∃ e', Sub.traceFull env e = some e' := by
  cases ht : Sub.traceFull env e with
  | some e' => exact ⟨e', rfl⟩
  | none =>
    exfalso
    cases t <;> simp [agreeS, ht] at ha
    · exact h1 _ rfl
    · exact h2 _ rfl

theorem deNBody_sim (mk : String → NR) (env : Env) (tl : Nat) (renv : REnv) (k : Nat)
    (rec : RTy → Flags → Ty → Ty → St → NR) (hrec : SimAt env renv k rec)
    (m : Nat) (t : RTy) (fl : Flags) (w e : Ty) (s : St)
    (hse : SortedEnv env)
    (ha : agreeS env renv (k + 1) t e = true) (hf : FlagsFit fl w e) (hg : Good2 s) (hsw : srt w = true) :
    SimN fl (deNBody mk env tl renv k rec (deIgnored env k) t fl w e s) (deAny env .idl m w e (up s)) := by
  cases m with
  | zero => rw [deAny_zero]; exact SimN.starvedR fl _
  | succ m =>
  cases t with
  | newtype t' =>
    unfold deNBody
    simp only []
    rw [addCost_unmetered_ok s hg.2]
    simp only [R.bind]
    exact hrec (m + 1) t' fl w e s (by simpa [agreeS] using ha) hf hg hsw
  | ref x =>
    unfold deNBody
    cases hfind : renv.find x with
    | none => simp [agreeS, hfind] at ha
    | some t' =>
      simp only [hfind]
      exact hrec (m + 1) t' fl w e s (by simpa [agreeS, hfind] using ha) hf hg hsw
  | prim p =>
    obtain ⟨e0, ht0⟩ := agreeS_traces ha (by simp) (by simp)
    have hp : e0 = .prim p ∧ directPrim p = true := by
      simp only [agreeS, ht0] at ha
      cases e0 with
      | prim q => simp only [Bool.and_eq_true, decide_eq_true_eq] at ha; exact ⟨by rw [ha.1], ha.2⟩
      | _ => simp at ha
    obtain ⟨he0, hd⟩ := hp
    subst he0
    rw [deAny_succ]
    -- the checked primitives
    have prim_case : ∀ (c : Nat),
        (∀ w' st, deAnyBody env .idl m (deAny env .idl m) (deIgnored env m) (recoverable env .idl m) (deFields env .idl m) w' (.prim p) st =
          dePrimExact p c w' (.prim p) st) →
        SimN fl (nPrim env k p c fl w e s)
          ((unroll env m w e (up s)).bind fun we st =>
            deAnyBody env .idl m (deAny env .idl m) (deIgnored env m) (recoverable env .idl m) (deFields env .idl m) we.1 we.2 st) := by
      intro c hbody
      unfold nPrim
      refine sim_unroll env k m fl w e s hg _ _ fun w' e' he' hw' => ?_
      rw [ht0] at he'
      simp only [Option.some.injEq] at he'
      subst he'
      simp only []
      rw [hbody, dePrimExact_up p c w' _ s hg.2]
      exact SimN.of_fine fl _ (fine_dePrimExact p c w' _ s hg)
    unfold deNBody
    cases p <;> simp [directPrim] at hd <;> simp only []
    case text =>
      unfold nText
      by_cases htx : fl.text = true
      · -- the text-key shortcut: both types are literally `text`
        obtain ⟨he, hw⟩ := hf.2.2.2 htx
        subst he hw
        simp only [htx, if_true, R.bind]
        rw [unroll_prim]
        simp only [R.bind, deAnyBody, if_true]
        rw [lenBytes_up s hg.2]
        cases hl : lenBytes s with
        | ok b s1 =>
          have hg1 := (fine_lenBytes s hg).1 b s1 hl
          simp only [lift, R.bind]
          cases utf8 b with
          | some str => exact SimN.ok _ fl fl s1 hg1.1 hg1.2 (Or.inl rfl)
          | none => exact SimN.err fl _ _
        | sub d q =>
          have := (fine_lenBytes s hg).2 d q hl
          exact Or.inr (Or.inr ⟨this.1, this.2, this.1, this.2⟩)
        | err x => exact SimN.err fl _ _
        | panic x => exact Or.inr (Or.inr trivial)
      · simp only [htx, Bool.false_eq_true, if_false]
        have hassoc : ∀ (x : R (Ty × Ty)) (f : Ty × Ty → St → R Unit) (g : Unit → St → NR), (x.bind f).bind g = x.bind fun a s' => (f a s').bind g := by
          intro x f g; cases x <;> rfl
        rw [hassoc]
        refine sim_unroll env k m fl w e s hg _ _ fun w' e' he' hw' => ?_
        rw [ht0] at he'
        simp only [Option.some.injEq] at he'
        subst he'
        simp only [true_and, deAnyBody]
        by_cases hwt : w' = .prim .text
        · subst hwt
          simp only [if_true, R.bind]
          rw [lenBytes_up s hg.2]
          cases hl : lenBytes s with
          | ok b s1 =>
            have hg1 := (fine_lenBytes s hg).1 b s1 hl
            simp only [lift, R.bind]
            cases utf8 b with
            | some str => exact SimN.ok _ fl fl s1 hg1.1 hg1.2 (Or.inl rfl)
            | none => exact SimN.err fl _ _
          | sub d q =>
            have := (fine_lenBytes s hg).2 d q hl
            exact Or.inr (Or.inr ⟨this.1, this.2, this.1, this.2⟩)
          | err x => exact SimN.err fl _ _
          | panic x => exact Or.inr (Or.inr trivial)
        · simp only [hwt, if_false, R.bind]
          exact SimN.sub fl s hg.2
    all_goals exact prim_case _ (fun w' st => by simp only [deAnyBody])
  | nat =>
    obtain ⟨e0, ht0⟩ := agreeS_traces ha (by simp) (by simp)
    have he0 : e0 = .prim .nat := by
      simp only [agreeS, ht0] at ha
      cases e0 with
      | prim q => cases q <;> first | rfl | simp at ha
      | _ => simp at ha
    subst he0
    have hbig : SimN fl (withFlags fl (bigNum (natFast Val.nat) s)) (bigNum (natAs Val.nat) (up s)) := by
      rw [← natFast_eq, bigNum_up _ s hg.2]
      exact SimN.of_fine fl _ (fine_bigNum _ s hg)
    unfold deNBody
    simp only [nNat]
    cases hb : fl.big with
    | some bg =>
      cases bg with
      | nat =>
        obtain ⟨he, hw⟩ := hf.1 hb
        subst he hw
        simp only []
        rw [deAny_prim_prim]
        simp only [deAnyBody, if_true]
        exact hbig
      | int =>
        have := (hf.2.1 hb).1; subst this
        rw [traceFull_prim] at ht0; simp at ht0
      | natAsInt =>
        have := (hf.2.2.1 hb).1; subst this
        rw [traceFull_prim] at ht0; simp at ht0
    | none =>
      simp only []
      rw [deAny_succ]
      refine sim_unroll env k m fl w e s hg _ _ fun w' e' he' hw' => ?_
      rw [ht0] at he'
      simp only [Option.some.injEq] at he'
      subst he'
      simp only [if_true, deAnyBody]
      by_cases hwn : w' = .prim .nat
      · subst hwn; simp only [if_true]; exact hbig
      · simp only [hwn, if_false]; exact SimN.sub fl s hg.2
  | int =>
    obtain ⟨e0, ht0⟩ := agreeS_traces ha (by simp) (by simp)
    have he0 : e0 = .prim .int := by
      simp only [agreeS, ht0] at ha
      cases e0 with
      | prim q => cases q <;> first | rfl | simp at ha
      | _ => simp at ha
    subst he0
    -- what both sides do once the expected type is `int`, by wire type
    have hbody : ∀ w' : Ty, SimN fl
        (match w' with
          | .prim .int => withFlags fl (bigNum intFast s)
          | .prim .nat => withFlags fl (bigNum (natFast fun n => .int n) s)
          | _ => subErr s)
        (match w' with
          | .prim .int => bigNum intAs (up s)
          | .prim .nat => bigNum (natAs fun n => .int n) (up s)
          | _ => subErr (up s)) := by
      intro w'
      split
      · rw [← intFast_eq, bigNum_up _ s hg.2]; exact SimN.of_fine fl _ (fine_bigNum _ s hg)
      · rw [← natFast_eq, bigNum_up _ s hg.2]; exact SimN.of_fine fl _ (fine_bigNum _ s hg)
      · exact SimN.sub fl s hg.2
    unfold deNBody
    simp only [nInt]
    cases hb : fl.big with
    | some bg =>
      cases bg with
      | nat =>
        have := (hf.1 hb).1; subst this
        rw [traceFull_prim] at ht0; simp at ht0
      | int =>
        obtain ⟨he, hw⟩ := hf.2.1 hb
        subst he hw
        simp only []
        rw [deAny_prim_prim]
        simp only [deAnyBody]
        exact hbody (.prim .int)
      | natAsInt =>
        obtain ⟨he, hw⟩ := hf.2.2.1 hb
        subst he hw
        simp only []
        rw [deAny_prim_prim]
        simp only [deAnyBody]
        exact hbody (.prim .nat)
    | none =>
      simp only []
      rw [deAny_succ]
      refine sim_unroll env k m fl w e s hg _ _ fun w' e' he' hw' => ?_
      rw [ht0] at he'
      simp only [Option.some.injEq] at he'
      subst he'
      simp only [if_true, deAnyBody]
      exact hbody w'
  | principal =>
    obtain ⟨e0, ht0⟩ := agreeS_traces ha (by simp) (by simp)
    have he0 : e0 = .principal := by
      simp only [agreeS, ht0] at ha
      cases e0 <;> first | rfl | simp at ha
    subst he0
    unfold deNBody
    simp only [nPrincipal]
    rw [deAny_succ]
    refine sim_unroll env k m fl w e s hg _ _ fun w' e' he' hw' => ?_
    rw [ht0] at he'
    simp only [Option.some.injEq] at he'
    subst he'
    simp only [deAnyBody]
    have hp : SimN fl (withFlags fl ((dePrincipalBytes s).map Val.principal)) ((dePrincipalBytes (up s)).map Val.principal) := by
      rw [dePrincipalBytes_up s hg.2, lift_map]
      exact SimN.of_fine fl _ (Fine.map _ (fine_dePrincipalBytes s hg))
    cases w' <;> first | exact hp | exact SimN.sub fl s hg.2
  | reserved =>
    obtain ⟨e0, ht0⟩ := agreeS_traces ha (by simp) (by simp)
    have he0 : e0 = .prim .reserved := by
      simp only [agreeS, ht0] at ha
      cases e0 with
      | prim q => cases q <;> first | rfl | simp at ha
      | _ => simp at ha
    subst he0
    have hcl : fl = Flags.clear := flags_clear_of env fl w e _ hf ht0 (by simp) (by simp) (by simp)
    subst hcl
    unfold deNBody
    simp only [ignF_clear]
    -- the untyped side at `e` is the untyped side at `reserved`, once `e` is unfolded
    have hsame : deAny env .idl (m + 1) w e (up s) = .err .limit ∨
        deAny env .idl (m + 1) w e (up s) = deAny env .idl (m + 1) w (.prim .reserved) (up s) := by
      rw [deAny_succ, deAny_succ, unroll_char env m w e (up s) (up_unmetered s hg.2),
        unroll_char env m w (.prim .reserved) (up s) (up_unmetered s hg.2)]
      have hr : traceAt env m (.prim .reserved) = some (.prim .reserved) := by simp [traceAt, Sub.isName]
      rw [hr]
      cases h1 : traceAt env m e with
      | none => exact Or.inl rfl
      | some a =>
        have := traceAt_full env m e a h1
        rw [ht0] at this
        simp only [Option.some.injEq] at this
        subst this
        exact Or.inr rfl
    rcases hsame with h | h
    · rw [h]; exact SimN.starvedR _ _
    · rw [h]
      have hskip := skip_reserved env k (m + 1) w s hg
      rcases hskip with h1 | h1 | h1
      · rw [h1]; exact SimN.starvedL _ _
      · rw [h1]; exact SimN.starvedR _ _
      · cases hx : deIgnored env k w s with
        | ok v s1 =>
          rw [hx] at h1
          cases hy : deAny env .idl (m + 1) w (.prim .reserved) (up s) with
          | ok v' s2 =>
            rw [hy] at h1
            obtain ⟨e1, e2, e3⟩ := h1
            subst e1 e2
            exact Or.inr (Or.inr ⟨rfl, rfl, e3.1, e3.2, Or.inl rfl⟩)
          | sub d q => rw [hy] at h1; exact absurd h1 (by simp)
          | err x => rw [hy] at h1; exact absurd h1 (by simp)
          | panic x => rw [hy] at h1; exact absurd h1 (by simp)
        | sub d q =>
          rw [hx] at h1
          cases hy : deAny env .idl (m + 1) w (.prim .reserved) (up s) with
          | sub d' q' => rw [hy] at h1; exact Or.inr (Or.inr h1)
          | ok _ _ => rw [hy] at h1; exact absurd h1 (by simp)
          | err x => rw [hy] at h1; exact absurd h1 (by simp)
          | panic x => rw [hy] at h1; exact absurd h1 (by simp)
        | err x =>
          rw [hx] at h1
          cases hy : deAny env .idl (m + 1) w (.prim .reserved) (up s) with
          | err y => exact Or.inr (Or.inr trivial)
          | ok _ _ => rw [hy] at h1; exact absurd h1 (by simp)
          | sub d q => rw [hy] at h1; exact absurd h1 (by simp)
          | panic y => rw [hy] at h1; exact absurd h1 (by simp)
        | panic x =>
          rw [hx] at h1
          cases hy : deAny env .idl (m + 1) w (.prim .reserved) (up s) with
          | panic y => exact Or.inr (Or.inr trivial)
          | ok _ _ => rw [hy] at h1; exact absurd h1 (by simp)
          | sub d q => rw [hy] at h1; exact absurd h1 (by simp)
          | err y => rw [hy] at h1; exact absurd h1 (by simp)
  | empty =>
    obtain ⟨e0, ht0⟩ := agreeS_traces ha (by simp) (by simp)
    have he0 : e0 = .prim .empty := by
      simp only [agreeS, ht0] at ha
      cases e0 with
      | prim q => cases q <;> first | rfl | simp at ha
      | _ => simp at ha
    subst he0
    have hbig : fl.big = none := by
      cases hb : fl.big with
      | none => rfl
      | some bg =>
        exfalso
        have hne : fl ≠ Flags.clear := by intro h; rw [h] at hb; simp [Flags.clear] at hb
        rcases flags_literal fl w e hf hne with h | h | h <;> subst h <;> rw [traceFull_prim] at ht0 <;> simp at ht0
    unfold deNBody
    simp only [nViaAny, hbig, Option.isSome_none, Bool.false_eq_true, if_false]
    rw [deAny_succ]
    refine sim_unroll env k m fl w e s hg _ _ fun w' e' he' hw' => ?_
    rw [ht0] at he'
    simp only [Option.some.injEq] at he'
    subst he'
    simp only [deAnyBody]
    split
    · exact SimN.err fl _ _
    · exact SimN.sub fl s hg.2
  | func =>
    obtain ⟨e0, ht0⟩ := agreeS_traces ha (by simp) (by simp)
    obtain ⟨fa, fr, fm, he0⟩ : ∃ a r md, e0 = .func a r md := by
      simp only [agreeS, ht0] at ha
      cases e0 <;> first | exact ⟨_, _, _, rfl⟩ | simp at ha
    subst he0
    have hbig : fl.big = none := by
      cases hb : fl.big with
      | none => rfl
      | some bg =>
        exfalso
        have hne : fl ≠ Flags.clear := by intro h; rw [h] at hb; simp [Flags.clear] at hb
        rcases flags_literal fl w e hf hne with h | h | h <;> subst h <;> rw [traceFull_prim] at ht0 <;> simp at ht0
    unfold deNBody
    simp only [nViaAny, hbig, Option.isSome_none, Bool.false_eq_true, if_false]
    rw [deAny_succ]
    refine sim_unroll env k m fl w e s hg _ _ fun w' e' he' hw' => ?_
    rw [ht0] at he'
    simp only [Option.some.injEq] at he'
    subst he'
    simp only [deAnyBody]
    rw [checkSubtype_up env tl w' _ s hg.2]
    cases hc : nCheckSubtype env tl w' (.func fa fr fm) s with
    | ok u s1 =>
      have hg1 := (fine_nCheckSubtype env tl w' _ s hg).1 u s1 hc
      simp only [lift, R.bind]
      rw [deFuncCase_up w' s1 hg1.2]
      exact SimN.of_fine fl _ (fine_deFuncCase w' s1 hg1)
    | sub d q =>
      have := (fine_nCheckSubtype env tl w' _ s hg).2 d q hc
      exact Or.inr (Or.inr ⟨this.1, this.2, this.1, this.2⟩)
    | err x => exact SimN.err fl _ _
    | panic x => exact Or.inr (Or.inr trivial)
  | service =>
    obtain ⟨e0, ht0⟩ := agreeS_traces ha (by simp) (by simp)
    obtain ⟨ms, he0⟩ : ∃ ms, e0 = .service ms := by
      simp only [agreeS, ht0] at ha
      cases e0 <;> first | exact ⟨_, rfl⟩ | simp at ha
    subst he0
    have hbig : fl.big = none := by
      cases hb : fl.big with
      | none => rfl
      | some bg =>
        exfalso
        have hne : fl ≠ Flags.clear := by intro h; rw [h] at hb; simp [Flags.clear] at hb
        rcases flags_literal fl w e hf hne with h | h | h <;> subst h <;> rw [traceFull_prim] at ht0 <;> simp at ht0
    unfold deNBody
    simp only [nViaAny, hbig, Option.isSome_none, Bool.false_eq_true, if_false]
    rw [deAny_succ]
    refine sim_unroll env k m fl w e s hg _ _ fun w' e' he' hw' => ?_
    rw [ht0] at he'
    simp only [Option.some.injEq] at he'
    subst he'
    simp only [deAnyBody]
    rw [checkSubtype_up env tl w' _ s hg.2]
    cases hc : nCheckSubtype env tl w' (.service ms) s with
    | ok u s1 =>
      have hg1 := (fine_nCheckSubtype env tl w' _ s hg).1 u s1 hc
      simp only [lift, R.bind]
      have hp : SimN fl (withFlags fl ((dePrincipalBytes s1).map Val.service)) ((dePrincipalBytes (up s1)).map Val.service) := by
        rw [dePrincipalBytes_up s1 hg1.2, lift_map]
        exact SimN.of_fine fl _ (Fine.map _ (fine_dePrincipalBytes s1 hg1))
      cases w' <;> first | exact hp | exact SimN.sub fl s1 hg1.2
    | sub d q =>
      have := (fine_nCheckSubtype env tl w' _ s hg).2 d q hc
      exact Or.inr (Or.inr ⟨this.1, this.2, this.1, this.2⟩)
    | err x => exact SimN.err fl _ _
    | panic x => exact Or.inr (Or.inr trivial)
  | byteBuf =>
    obtain ⟨e0, ht0⟩ := agreeS_traces ha (by simp) (by simp)
    obtain ⟨ee, he0, hblob⟩ : ∃ ee, e0 = .vec ee ∧ isBlobTy env (.vec ee) = true := by
      simp only [agreeS, ht0] at ha
      cases e0 <;> first | exact ⟨_, rfl, ha⟩ | simp at ha
    subst he0
    unfold deNBody
    simp only [nByteBuf]
    rw [deAny_succ]
    refine sim_unroll env k m fl w e s hg _ _ fun w' e' he' hw' => ?_
    rw [ht0] at he'
    simp only [Option.some.injEq] at he'
    subst he'
    simp only [deAnyBody, hblob, if_true]
    rw [deBlobCase_up env w' s hg.2]
    exact SimN.of_fine fl _ (fine_deBlobCase env w' s hg)
  | opt t' =>
    obtain ⟨e0, ht0⟩ := agreeS_traces ha (by simp) (by simp)
    obtain ⟨e2, he0, hag⟩ : ∃ e2, e0 = .opt e2 ∧ agreeS env renv k t' e2 = true := by
      simp only [agreeS, ht0] at ha
      cases e0 <;> first | exact ⟨_, rfl, ha⟩ | simp at ha
    subst he0
    have hcl : fl = Flags.clear := flags_clear_of env fl w e _ hf ht0 (by simp) (by simp) (by simp)
    subst hcl
    unfold deNBody
    simp only []
    rw [deAny_succ]
    refine sim_unroll env k m _ w e s hg _ _ fun w' e' he' hw' => ?_
    rw [ht0] at he'
    simp only [Option.some.injEq] at he'
    subst he'
    simp only [deAnyBody, nOptCase]
    rw [addCost_unmetered_ok s hg.2, addCost_up s hg.2]
    simp only [rbind_ok, deOptCase]
    have hnone : ∀ s0 : St, Good2 s0 → SimN Flags.clear (R.ok (Val.none, Flags.clear) s0) (R.ok Val.none (up s0)) :=
      fun s0 h0 => Or.inr (Or.inr ⟨rfl, rfl, h0.1, h0.2, Or.inl rfl⟩)
    cases w' with
    | prim p =>
      cases p <;> simp only [] <;> try (exact hnone s hg)
      all_goals (
        cases h1 : env.trace k e2 with
        | none => exact SimN.starvedL _ _
        | some a =>
          cases h2 : env.trace m e2 with
          | none => exact SimN.starvedR _ _
          | some b =>
            have := Sub.trace_det env k m e2 a b h1 h2
            subst this
            simp only []
            exact recov_sim mk env renv k rec hrec t' _ a s m
              (by rw [← agreeS_traced env renv k t' e2 a (Sub.traceFull_of_trace env k e2 a h1)]; exact hag) hg rfl)
    | opt w2 =>
      simp only [up_input]
      cases hi : s.input with
      | nil => exact SimN.err _ _ _
      | cons b rest =>
        simp only []
        by_cases hb0 : b = 0
        · simp only [hb0, if_true]
          exact hnone _ ⟨hg.1, hg.2⟩
        · simp only [hb0, if_false]
          by_cases hb1 : b = 1
          · simp only [hb1, if_true]
            exact recov_sim mk env renv k rec hrec t' w2 e2 { s with input := rest } m hag ⟨hg.1, hg.2⟩
              (by have := srt_traceFull env hse w _ hsw hw'; simpa [srt] using this)
          · simp only [hb1, if_false]
            exact SimN.err _ _ _
    | _ =>
      simp only []
      cases h1 : env.trace k e2 with
      | none => exact SimN.starvedL _ _
      | some a =>
        cases h2 : env.trace m e2 with
        | none => exact SimN.starvedR _ _
        | some b =>
          have := Sub.trace_det env k m e2 a b h1 h2
          subst this
          simp only []
          exact recov_sim mk env renv k rec hrec t' _ a s m
            (by rw [← agreeS_traced env renv k t' e2 a (Sub.traceFull_of_trace env k e2 a h1)]; exact hag) hg
            (srt_traceFull env hse w _ hsw hw')
  | seq t' =>
    obtain ⟨e0, ht0⟩ := agreeS_traces ha (by simp) (by simp)
    obtain ⟨ee, he0, hag, hshape⟩ : ∃ ee, e0 = .vec ee ∧ agreeS env renv k t' ee = true ∧
        ((isByte renv (resolveDepth renv) t' = true ∧ isBlobTy env (.vec ee) = true) ∨
         (isByte renv (resolveDepth renv) t' = false ∧ isBlobTy env (.vec ee) = false ∧
          (match ee with
            | .prim p => (primSize p).isNone || (acceptsPrimitive renv (resolveDepth renv) t' p == some true)
            | _ => true) = true)) := by
      simp only [agreeS, ht0] at ha
      cases e0 with
      | vec ee =>
        simp only [Bool.and_eq_true, Bool.or_eq_true, Bool.not_eq_true'] at ha
        refine ⟨ee, rfl, ha.1, ?_⟩
        rcases ha.2 with h | h
        · exact Or.inl h
        · exact Or.inr ⟨h.1.1, h.1.2, h.2⟩
      | _ => simp at ha
    subst he0
    have hcl : fl = Flags.clear := flags_clear_of env fl w e _ hf ht0 (by simp) (by simp) (by simp)
    subst hcl
    rcases hshape with ⟨hby, hblob⟩ | ⟨hnb, hnblob, hacc0⟩
    · -- a byte vector
      have hee : Sub.traceFull env ee = some (.prim .nat8) := by
        simp only [isBlobTy] at hblob
        cases h : Sub.traceFull env ee with
        | none => rw [h] at hblob; simp at hblob
        | some t =>
          rw [h] at hblob
          cases t with
          | prim p => cases p <;> first | rfl | exact Bool.noConfusion hblob
          | _ => exact Bool.noConfusion hblob
      unfold deNBody
      simp only [Bool.false_eq_true, if_false, rbind_ok]
      rw [deAny_succ]
      refine sim_unroll env k m _ w e s hg _ _ fun w' e' he' hw' => ?_
      rw [ht0] at he'
      simp only [Option.some.injEq] at he'
      subst he'
      simp only [deAnyBody, hblob, if_true]
      rw [addCost_unmetered_ok s hg.2]
      simp only [rbind_ok]
      cases w' with
      | vec ww =>
        simp only [hby]
        have := bytes_sim env renv k rec hrec hse t' ww ee s hg hag
          (by have := srt_traceFull env hse w _ hsw hw'; simpa [srt] using this) hby hee
        -- the flags a vector read returns are cleared
        rcases this with h | h | h
        · left
          cases hx : nVecCase env renv k rec .all t' Flags.clear ww ee s <;> rw [hx] at h <;> simp [R.map, R.bind] at h ⊢
          exact h
        · exact Or.inr (Or.inl h)
        · refine Or.inr (Or.inr ?_)
          cases hx : nVecCase env renv k rec .all t' Flags.clear ww ee s with
          | ok q s1 =>
            obtain ⟨vs, f1⟩ := q
            rw [hx] at h
            cases hy : deBlobCase env (.vec ww) (up s) with
            | ok v' s2 =>
              rw [hy] at h
              simp only [R.map, R.bind] at h ⊢
              exact ⟨h.1, h.2.1, h.2.2.1, h.2.2.2.1, nVecCase_flags env renv k rec .all t' Flags.clear ww ee s vs f1 s1 hx⟩
            | sub d q => rw [hy] at h; simp [R.map, R.bind] at h
            | err x => rw [hy] at h; simp [R.map, R.bind] at h
            | panic x => rw [hy] at h; simp [R.map, R.bind] at h
          | sub d q =>
            rw [hx] at h
            cases hy : deBlobCase env (.vec ww) (up s) <;> rw [hy] at h <;> simp [R.map, R.bind] at h ⊢
            exact h
          | err x =>
            rw [hx] at h
            cases hy : deBlobCase env (.vec ww) (up s) <;> rw [hy] at h <;> simp [R.map, R.bind] at h ⊢
          | panic x =>
            rw [hx] at h
            cases hy : deBlobCase env (.vec ww) (up s) <;> rw [hy] at h <;> simp [R.map, R.bind] at h ⊢
      | _ => simp only [deBlobCase, isBlobTy, Bool.false_eq_true, if_false]; exact SimN.sub _ s hg.2
    have hacc : ∀ p, ee = .prim p → (primSize p).isSome → acceptsPrimitive renv (resolveDepth renv) t' p = some true := by
      intro p hp hs
      subst hp
      simp only [Bool.or_eq_true, beq_iff_eq] at hacc0
      rcases hacc0 with h | h
      · rw [Option.isNone_iff_eq_none] at h; rw [h] at hs; simp at hs
      · exact h
    unfold deNBody
    simp only [Bool.false_eq_true, if_false, rbind_ok]
    rw [deAny_succ]
    refine sim_unroll env k m _ w e s hg _ _ fun w' e' he' hw' => ?_
    rw [ht0] at he'
    simp only [Option.some.injEq] at he'
    subst he'
    simp only [deAnyBody, hnblob, Bool.false_eq_true, if_false]
    rw [addCost_unmetered_ok s hg.2, addCost_up s hg.2]
    simp only [rbind_ok]
    cases w' with
    | vec ww =>
      simp only []
      have := vec_sim env renv k m rec hrec hse t' ww ee s hg hag (by have := srt_traceFull env hse w _ hsw hw'; simpa [srt] using this) hacc
      have hmm : ∀ (x : R (List Val × Flags)), (x.map fun (q : List Val × Flags) => (seqVal (isByte renv (resolveDepth renv) t') q.1, q.2)) =
          x.map fun q => (Val.vec q.1, q.2) := by
        intro x
        simp only [hnb, seqVal, Bool.false_eq_true, if_false]
      rw [hmm]
      -- the flags a vector read returns are cleared or the given (cleared) ones
      rcases this with h | h | h
      · left
        cases hx : nVecCase env renv k rec .all t' Flags.clear ww ee s <;> rw [hx] at h <;> simp [R.map, R.bind] at h ⊢
        exact h
      · exact Or.inr (Or.inl h)
      · refine Or.inr (Or.inr ?_)
        cases hx : nVecCase env renv k rec .all t' Flags.clear ww ee s with
        | ok q s1 =>
          obtain ⟨vs, f1⟩ := q
          rw [hx] at h
          have hf1 := nVecCase_flags env renv k rec .all t' Flags.clear ww ee s vs f1 s1 hx
          cases hy : deVecCase env .idl m (deAny env .idl m) (deIgnored env m) (.vec ww) ee (up s) with
          | ok v' s2 =>
            rw [hy] at h
            simp only [R.map, R.bind] at h ⊢
            exact ⟨h.1, h.2.1, h.2.2.1, h.2.2.2.1, hf1⟩
          | sub d q => rw [hy] at h; simp [R.map, R.bind] at h
          | err x => rw [hy] at h; simp [R.map, R.bind] at h
          | panic x => rw [hy] at h; simp [R.map, R.bind] at h
        | sub d q =>
          rw [hx] at h
          cases hy : deVecCase env .idl m (deAny env .idl m) (deIgnored env m) (.vec ww) ee (up s) <;> rw [hy] at h <;>
            simp [R.map, R.bind] at h ⊢
          exact h
        | err x =>
          rw [hx] at h
          cases hy : deVecCase env .idl m (deAny env .idl m) (deIgnored env m) (.vec ww) ee (up s) <;> rw [hy] at h <;>
            simp [R.map, R.bind] at h ⊢
        | panic x =>
          rw [hx] at h
          cases hy : deVecCase env .idl m (deAny env .idl m) (deIgnored env m) (.vec ww) ee (up s) <;> rw [hy] at h <;>
            simp [R.map, R.bind] at h ⊢
    | _ => simp only [deVecCase]; exact SimN.sub _ s hg.2
  | strct fs =>
    obtain ⟨e0, ht0⟩ := agreeS_traces ha (by simp) (by simp)
    obtain ⟨efs, he0, hno, hall⟩ : ∃ efs, e0 = .record efs ∧ fs.select (.named "_") = none ∧
        ∀ p ∈ efs.toList, ∃ kd t, fs.select p.1 = some (kd, t) ∧ agreeS env renv k t p.2 = true := by
      simp only [agreeS, ht0] at ha
      cases e0 with
      | record efs =>
        simp only [Bool.and_eq_true, List.all_eq_true, Option.isNone_iff_eq_none] at ha
        refine ⟨efs, rfl, ha.1, fun p hp => ?_⟩
        have := ha.2 p hp
        cases hsel : fs.select p.1 with
        | none => rw [hsel] at this; exact Bool.noConfusion this
        | some q => obtain ⟨kd, t⟩ := q; rw [hsel] at this; exact ⟨kd, t, rfl, this⟩
      | _ => simp at ha
    subst he0
    have hcl : fl = Flags.clear := flags_clear_of env fl w e _ hf ht0 (by simp) (by simp) (by simp)
    subst hcl
    unfold deNBody
    simp only []
    rw [deAny_succ]
    refine sim_unroll env k m _ w e s hg _ _ fun w' e' he' hw' => ?_
    rw [ht0] at he'
    simp only [Option.some.injEq] at he'
    subst he'
    simp only [deAnyBody]
    rw [addCost_unmetered_ok s hg.2, addCost_up s hg.2]
    simp only [rbind_ok]
    cases w' with
    | record wfs =>
      simp only []
      have hsrec := srt_traceFull env hse w _ hsw hw'
      simp only [srt, Bool.and_eq_true] at hsrec
      exact struct_sim mk env renv k rec hrec fs hno efs.toList hall _ m s []
        (mergeFields_from _ efs.toList wfs.toList efs.toList (fun p hp => hp))
        (mergeFields_srt _ efs.toList wfs.toList (fun p hp => srtF_mem wfs p hsrec.2 hp)) hg
    | _ => exact SimN.sub _ s hg.2
  | enm vs =>
    obtain ⟨e0, ht0⟩ := agreeS_traces ha (by simp) (by simp)
    obtain ⟨efs, he0, hall⟩ : ∃ efs, e0 = .variant efs ∧
        ∀ p ∈ efs.toList, ∃ nm kd t, p.1 = .named nm ∧ vs.select (.named nm) = some (kd, t) ∧
          ((kd = .unit ∧ p.2 = .prim .null) ∨ (kd ≠ .unit ∧ p.2 ≠ .prim .null ∧ agreeS env renv k t p.2 = true)) := by
      simp only [agreeS, ht0] at ha
      cases e0 with
      | variant efs =>
        simp only [List.all_eq_true] at ha
        refine ⟨efs, rfl, fun p hp => ?_⟩
        have := ha p hp
        cases hl : p.1 with
        | named nm =>
          rw [hl] at this
          simp only [] at this
          cases hsel : vs.select (.named nm) with
          | none => rw [hsel] at this; exact Bool.noConfusion this
          | some q =>
            obtain ⟨kd, t⟩ := q
            rw [hsel] at this
            cases kd with
            | unit => simp only [decide_eq_true_eq] at this; exact ⟨nm, .unit, t, rfl, hsel, Or.inl ⟨rfl, this⟩⟩
            | newtype =>
              simp only [Bool.and_eq_true, decide_eq_true_eq] at this
              exact ⟨nm, .newtype, t, rfl, hsel, Or.inr ⟨by simp, this.1, this.2⟩⟩
            | tuple =>
              simp only [Bool.and_eq_true, decide_eq_true_eq] at this
              exact ⟨nm, .tuple, t, rfl, hsel, Or.inr ⟨by simp, this.1, this.2⟩⟩
            | strct =>
              simp only [Bool.and_eq_true, decide_eq_true_eq] at this
              exact ⟨nm, .strct, t, rfl, hsel, Or.inr ⟨by simp, this.1, this.2⟩⟩
        | id h => rw [hl] at this; exact Bool.noConfusion this
        | unnamed h => rw [hl] at this; exact Bool.noConfusion this
      | _ => simp at ha
    subst he0
    have hcl : fl = Flags.clear := flags_clear_of env fl w e _ hf ht0 (by simp) (by simp) (by simp)
    subst hcl
    unfold deNBody
    simp only []
    rw [deAny_succ]
    refine sim_unroll env k m _ w e s hg _ _ fun w' e' he' hw' => ?_
    rw [ht0] at he'
    simp only [Option.some.injEq] at he'
    subst he'
    simp only [deAnyBody]
    rw [addCost_unmetered_ok s hg.2, addCost_up s hg.2]
    simp only [rbind_ok, nEnumCase, deVariantCase]
    cases w' with
    | variant wfs =>
      simp only []
      rw [rd_up]
      cases hr : rd readLebCrate s with
      | sub d q =>
        have := (Fine.ofRd readLebCrate s hg).2 d q hr
        exact Or.inr (Or.inr ⟨this.1, this.2, this.1, this.2⟩)
      | err x => exact Or.inr (Or.inr trivial)
      | panic x => exact Or.inr (Or.inr trivial)
      | ok idx s2 =>
        have hg2 := (Fine.ofRd readLebCrate s hg).1 idx s2 hr
        simp only [lift, rbind_ok]
        cases hget : wfs.toList[idx]? with
        | none => exact SimN.err _ _ _
        | some wp =>
          obtain ⟨wl, wt⟩ := wp
          have hswt : srt wt = true := by
            have hsv := srt_traceFull env hse w _ hsw hw'
            simp only [srt, Bool.and_eq_true] at hsv
            exact srtF_mem wfs (wl, wt) hsv.2 (List.mem_of_getElem? hget)
          simp only []
          cases hfind : efs.toList.find? (fun p => p.1.getId = wl.getId) with
          | none => exact SimN.sub _ s2 hg2.2
          | some ep =>
            obtain ⟨el, et⟩ := ep
            have hmem : (el, et) ∈ efs.toList := List.mem_of_find?_eq_some hfind
            obtain ⟨nm, kd, t, hl, hsel, hkind⟩ := hall (el, et) hmem
            simp only [] at hl
            subst hl
            simp only []
            rw [addCost_unmetered_ok s2 hg2.2, addCost_up s2 hg2.2]
            simp only [rbind_ok]
            rw [addCost_unmetered_ok s2 hg2.2, addCost_up s2 hg2.2]
            simp only [rbind_ok, hsel]
            rcases hkind with ⟨hk, het⟩ | ⟨hk, het, hag⟩
            · subst hk
              simp only [] at het
              subst het
              simp only [and_self, true_and, if_true]
              by_cases hwt : wt = .prim .null
              · subst hwt
                simp only [if_true]
                rw [addCost_unmetered_ok s2 hg2.2, addCost_up s2 hg2.2]
                exact Or.inr (Or.inr ⟨rfl, rfl, hg2.1, hg2.2, Or.inl rfl⟩)
              · simp only [hwt, if_false]
                exact SimN.sub _ s2 hg2.2
            · simp only [] at het hag
              have hunit : (match et with | .prim .null => true | _ => false) = false := by
                cases et with
                | prim p => cases p <;> first | rfl | exact absurd rfl het
                | _ => rfl
              simp only [hunit, Bool.false_eq_true, and_false, if_false]
              have hbody : SimN Flags.clear
                  ((addCost s2 1).bind fun _ s5 => (rec t Flags.clear wt et s5).map fun (x : Val × Flags) => (Val.variant (.named nm) x.1 idx, Flags.clear))
                  ((addCost (up s2) 1).bind fun _ s5 =>
                    if Visitor.idl = Visitor.ignored then (deIgnored env m wt s5).map fun _ => Val.null
                    else (deAny env .idl m wt et s5).map fun v => Val.variant (.named nm) v idx) := by
                rw [addCost_unmetered_ok s2 hg2.2, addCost_up s2 hg2.2]
                simp only [rbind_ok, show (Visitor.idl = Visitor.ignored) = False from by simp, if_false]
                have h0 := hrec m t Flags.clear wt et s2 hag (FlagsFit.clear wt et) hg2 hswt
                have := SimN.bind2 (fl := Flags.clear) _ _ h0 (fun (x : Val × Flags) s' => R.ok (Val.variant (.named nm) x.1 idx, Flags.clear) s')
                  (fun v s' => R.ok (Val.variant (.named nm) v idx) s')
                  (fun v s1 hg1 => Or.inr (Or.inr ⟨rfl, rfl, hg1.1, hg1.2, Or.inl rfl⟩))
                exact this
              cases kd with
              | unit => exact absurd rfl hk
              | newtype => exact hbody
              | tuple => exact hbody
              | strct => exact hbody
    | _ => exact SimN.sub _ s hg.2
  | u128 => obtain ⟨e0, ht0⟩ := agreeS_traces ha (by simp) (by simp); simp only [agreeS, ht0] at ha; cases e0 <;> simp at ha
  | i128 => obtain ⟨e0, ht0⟩ := agreeS_traces ha (by simp) (by simp); simp only [agreeS, ht0] at ha; cases e0 <;> simp at ha
  | array n t' => obtain ⟨e0, ht0⟩ := agreeS_traces ha (by simp) (by simp); simp only [agreeS, ht0] at ha; cases e0 <;> simp at ha
  | bounded a b c t' => obtain ⟨e0, ht0⟩ := agreeS_traces ha (by simp) (by simp); simp only [agreeS, ht0] at ha; cases e0 <;> simp at ha
  | tuple ts => obtain ⟨e0, ht0⟩ := agreeS_traces ha (by simp) (by simp); simp only [agreeS, ht0] at ha; cases e0 <;> simp at ha
  | map kt vt =>
    obtain ⟨e0, ht0⟩ := agreeS_traces ha (by simp) (by simp)
    obtain ⟨ee, efs, l0, l1, ek, ev, ek', ev', he0, hnblob, hte, hefs, h0, h1, hak, hav, htk, htv, hpk, hpv⟩ :
        ∃ ee efs l0 l1 ek ev ek' ev', e0 = .vec ee ∧ isBlobTy env (.vec ee) = false ∧
          Sub.traceFull env ee = some (.record efs) ∧ efs.toList = [(l0, ek), (l1, ev)] ∧ l0.getId = 0 ∧ l1.getId = 1 ∧
          agreeS env renv k kt ek = true ∧ agreeS env renv k vt ev = true ∧
          Sub.traceFull env ek = some ek' ∧ Sub.traceFull env ev = some ev' ∧
          plainShape ek' = true ∧ plainShape ev' = true := by
      simp only [agreeS, ht0] at ha
      cases e0 with
      | vec ee =>
        simp only [Bool.and_eq_true, Bool.not_eq_true'] at ha
        obtain ⟨hb, hm⟩ := ha
        cases hq1 : Sub.traceFull env ee with
        | none => rw [hq1] at hm; simp at hm
        | some r =>
          rw [hq1] at hm
          cases r with
          | record efs =>
            simp only [] at hm
            cases hq2 : efs.toList with
            | nil => rw [hq2] at hm; simp at hm
            | cons p0 r0 =>
              obtain ⟨l0, ek⟩ := p0
              cases r0 with
              | nil => rw [hq2] at hm; simp at hm
              | cons p1 r1 =>
                obtain ⟨l1, ev⟩ := p1
                cases r1 with
                | cons _ _ => rw [hq2] at hm; simp at hm
                | nil =>
                  rw [hq2] at hm
                  simp only [Bool.and_eq_true, decide_eq_true_eq] at hm
                  obtain ⟨⟨⟨⟨a0, a1⟩, a2⟩, a3⟩, a4⟩ := hm
                  cases hq3 : Sub.traceFull env ek with
                  | none => rw [hq3] at a4; simp at a4
                  | some ek' =>
                    cases hq4 : Sub.traceFull env ev with
                    | none => rw [hq3, hq4] at a4; simp at a4
                    | some ev' =>
                      rw [hq3, hq4] at a4
                      simp only [Bool.and_eq_true] at a4
                      exact ⟨ee, efs, l0, l1, ek, ev, ek', ev', rfl, hb, hq1, hq2, a0, a1, a2, a3, hq3, hq4, a4.1, a4.2⟩
          | _ => simp at hm
      | _ => simp at ha
    subst he0
    have hcl : fl = Flags.clear := flags_clear_of env fl w e _ hf ht0 (by simp) (by simp) (by simp)
    subst hcl
    unfold deNBody
    simp only []
    rw [deAny_succ]
    refine sim_unroll env k m _ w e s hg _ _ fun w' e' he' hw' => ?_
    rw [ht0] at he'
    simp only [Option.some.injEq] at he'
    subst he'
    simp only [deAnyBody, hnblob, Bool.false_eq_true, if_false]
    rw [addCost_unmetered_ok s hg.2, addCost_up s hg.2]
    simp only [rbind_ok]
    cases w' with
    | vec ww =>
      simp only []
      exact map_sim mk env renv k m rec hrec hse kt vt ww ee efs l0 l1 ek ev ek' ev' hte hefs h0 h1 hak hav htk htv hpk hpv
        (by have := srt_traceFull env hse w _ hsw hw'; simpa [srt] using this) s hg
    | _ => simp only [deVecCase]; exact SimN.sub _ s hg.2


/-- **native decoding agrees with untyped decoding**, at every pair of depth budgets -/
theorem deN_sim (mk : String → NR) (env : Env) (tl : Nat) (renv : REnv) (hse : SortedEnv env) : ∀ (k : Nat),
    SimAt env renv k (deN mk env tl renv k) := by
  intro k
  induction k with
  | zero => intro m t fl w e s _ _ _ _; exact SimN.starvedL fl _
  | succ k ih =>
    intro m t fl w e s ha hf hg hsw
    unfold deN
    exact deNBody_sim mk env tl renv k _ ih m t fl w e s hse ha hf hg hsw

end Candid.Native
