import CandidModel.Subtype
import CandidModel.Sexp
/- line-protocol handlers for the subtyping slice -/
namespace Candid.Driver
open Candid Candid.Sub

def showRes : Res → String
  | .yes _ => "true"
  | .no => "false"
  | .out => "out"
  | .panic s => "panic " ++ s

def parseEnvTys (e a b : String) : Option (Env × Ty × Ty) :=
  match (Sexp.parse e).bind Env.ofSexp, (Sexp.parse a).bind Ty.ofSexp, (Sexp.parse b).bind Ty.ofSexp with
  | some env, some t1, some t2 => some (env, t1, t2)
  | _, _, _ => none

/-- queries sharing one memo; a failed query resets it (the property speaks of earlier *successful* checks) -/
def runSeq (env : Env) : List Ty → Gamma → List String × List String
  | a :: b :: rest, g =>
    let r := subAlg env defaultFuel g a b
    let g' := match r with | .yes g' => g' | _ => []
    let (ms, ss) := runSeq env rest g'
    (showRes r :: ms, (if gfpCheck env a b then "true" else "false") :: ss)
  | _, _ => ([], [])

def handleSubtype (op : String) (args : List String) : Option String :=
  match op, args with
  | "sub.subtype", [e, a, b] => (parseEnvTys e a b).map fun (env, t1, t2) =>
      showRes (subAlg env defaultFuel [] t1 t2) ++ "\t" ++ (if gfpCheck env t1 t2 then "true" else "false")
  | "sub.compat", [e, a, b] => (parseEnvTys e a b).map fun (env, t1, t2) =>
      showRes (subAlg env defaultFuel [] t1 t2) ++ "\t" ++ (if gfpCheck env t1 t2 then "true" else "false")
  | "sub.compat2", [e1, a, e2, b] =>
    match (Sexp.parse e1).bind Env.ofSexp, (Sexp.parse a).bind Ty.ofSexp,
          (Sexp.parse e2).bind Env.ofSexp, (Sexp.parse b).bind Ty.ofSexp with
    | some env1, some t1, some env2, some t2 =>
      let (env, t2') := mergeType env1 env2 t2
      let (envS, t2S) := disjointUnion env1 env2 t2
      some (showRes (subAlg env defaultFuel [] t1 t2') ++ "\t" ++ (if gfpCheck envS t1 t2S then "true" else "false"))
    | _, _, _, _ => none
  | "sub.equal", [e, a, b] => (parseEnvTys e a b).map fun (env, t1, t2) =>
      showRes (eqAlg env defaultFuel [] t1 t2) ++ "\t-"
  | "sub.seq", [e, ts] =>
    match (Sexp.parse e).bind Env.ofSexp, (Sexp.parse ts).bind tysOfSexp with
    | some env, some tys =>
      let (ms, ss) := runSeq env tys []
      some (",".intercalate ms ++ "\t" ++ ",".intercalate ss)
    | _, _ => none
  | _, _ => none

end Candid.Driver
