import CandidModel.Subtype
import CandidModel.Sexp
/- line-protocol handlers for the subtyping slice -/
namespace Candid.Driver
open Candid Candid.Sub

def showRes : Res → String
  | .yes _ => "true"
  | .no => "false"
  | .out => "out"
  | .panic s => "panic " ++ s

def parseEnvTys (e a b : String) : Option (Env × Ty × Ty) :=
  match (Sexp.parse e).bind Env.ofSexp, (Sexp.parse a).bind Ty.ofSexp, (Sexp.parse b).bind Ty.ofSexp with
  | some env, some t1, some t2 => some (env, t1, t2)
  | _, _, _ => none

/-- queries sharing one memo; a failed query resets it (the property speaks of earlier *successful* checks) -/
def runSeq (env : Env) : List Ty → Gamma → List String × List String
  | a :: b :: rest, g =>
    let r := subAlg env defaultFuel g a b
    let g' := match r with | .yes g' => g' | _ => []
    let (ms, ss) := runSeq env rest g'
    (showRes r :: ms, (if gfpCheck env a b then "true" else "false") :: ss)
  | _, _ => ([], [])

mutual
/-- is there, anywhere in the type (names followed `fuel` times), a record field whose type unfolds to `null`?
(the shape of known finding KF-C05-transitivity-null-field) -/
def hasNullField (env : Env) : Nat → Ty → Bool
  | 0, _ => false
  | fuel + 1, t =>
    match t with
    | .var x => (match env.find x with | some d => hasNullField env fuel d | none => false)
    | .opt t' | .vec t' => hasNullField env fuel t'
    | .record fs => nullFieldIn env fuel true fs
    | .variant fs => nullFieldIn env fuel false fs
    | _ => false
def nullFieldIn (env : Env) : Nat → Bool → Fields → Bool
  | 0, _, _ => false
  | _, _, .nil => false
  | fuel + 1, isRec, .cons _ t r =>
    (isRec && (match traceFull env t with | some (.prim .null) => true | _ => false)) ||
      hasNullField env fuel t || nullFieldIn env fuel isRec r
end

def handleSubtype (op : String) (args : List String) : Option String :=
  match op, args with
  | "sub.subtype", [e, a, b] => (parseEnvTys e a b).map fun (env, t1, t2) =>
      showRes (subAlg env defaultFuel [] t1 t2) ++ "\t" ++ (if gfpCheck env t1 t2 then "true" else "false")
  | "sub.compat", [e, a, b] => (parseEnvTys e a b).map fun (env, t1, t2) =>
      showRes (subAlg env defaultFuel [] t1 t2) ++ "\t" ++ (if gfpCheck env t1 t2 then "true" else "false")
  | "sub.compat2", [e1, a, e2, b] =>
    match (Sexp.parse e1).bind Env.ofSexp, (Sexp.parse a).bind Ty.ofSexp,
          (Sexp.parse e2).bind Env.ofSexp, (Sexp.parse b).bind Ty.ofSexp with
    | some env1, some t1, some env2, some t2 =>
      let (env, t2') := mergeType env1 env2 t2
      let (envS, t2S) := disjointUnion env1 env2 t2
      some (showRes (subAlg env defaultFuel [] t1 t2') ++ "\t" ++ (if gfpCheck envS t1 t2S then "true" else "false"))
    | _, _, _, _ => none
  -- transitivity on one triple: the property claims it ("true"); the model answers what its relation does
  | "sub.trans", [e, a, b, c] =>
    match (Sexp.parse e).bind Env.ofSexp, (Sexp.parse a).bind Ty.ofSexp, (Sexp.parse b).bind Ty.ofSexp,
          (Sexp.parse c).bind Ty.ofSexp with
    | some env, some t1, some t2, some t3 =>
      let r12 := subAlg env defaultFuel [] t1 t2
      let r23 := subAlg env defaultFuel [] t2 t3
      let r13 := subAlg env defaultFuel [] t1 t3
      let yes (r : Res) : Bool := match r with | .yes _ => true | _ => false
      let undecided (r : Res) : Bool := match r with | .out => true | .panic _ => true | _ => false
      let m := if undecided r12 || undecided r23 || undecided r13 then "out"
        else if yes r12 && yes r23 && !(yes r13) then "false" else "true"
      let tags := if m = "false" && hasNullField env 64 t3 then "\ttrans-null-field" else ""
      some (m ++ "\ttrue" ++ tags)
    | _, _, _, _ => none
  | "sub.equal", [e, a, b] => (parseEnvTys e a b).map fun (env, t1, t2) =>
      -- specification column: a definite answer of the mirror decides `TyEq` (`definite_equal_answers_decide_equality`)
      let r := eqAlg env defaultFuel [] t1 t2
      showRes r ++ "\t" ++ (match r with | .yes _ => showRes r | .no => showRes r | _ => "-")
  | "sub.seq", [e, ts] =>
    match (Sexp.parse e).bind Env.ofSexp, (Sexp.parse ts).bind tysOfSexp with
    | some env, some tys =>
      let (ms, ss) := runSeq env tys []
      some (",".intercalate ms ++ "\t" ++ ",".intercalate ss)
    | _, _ => none
  | _, _ => none

end Candid.Driver
