import CandidModel.Rand
import CandidModel.Sexp
/- line-protocol handlers for random value generation (C20) -/
namespace Candid.Driver
open Candid Candid.Rand

def primBounds (p : String) : Option (Int × Int) :=
  match p with
  | "nat8" => some (0, 2 ^ 8 - 1) | "nat16" => some (0, 2 ^ 16 - 1) | "nat32" => some (0, 2 ^ 32 - 1)
  | "nat64" => some (0, 2 ^ 64 - 1) | "nat" => some (0, 2 ^ 128 - 1)
  | "int8" => some (-(2 ^ 7), 2 ^ 7 - 1) | "int16" => some (-(2 ^ 15), 2 ^ 15 - 1)
  | "int32" => some (-(2 ^ 31), 2 ^ 31 - 1) | "int64" => some (-(2 ^ 63), 2 ^ 63 - 1)
  | "int" => some (-(2 ^ 127), 2 ^ 127 - 1)
  | _ => none

def handleRand (op : String) (args : List String) : Option String :=
  match op, args with
  | "rnd.any", [_e, _t, _s, _c] => some "nopanic\tnopanic"
  | "rnd.typed", [e, t, v] =>
    match (Sexp.parse e).bind Env.ofSexp, (Sexp.parse t).bind Ty.ofSexp, (Sexp.parse v).bind Val.ofSexp with
    | some env, some ty, some val =>
      let r := if hasType env 100000 val ty then "ok" else "err"
      some (r ++ "\tok")
    | _, _, _ => none
  | "rnd.size", [e, t] =>
    match (Sexp.parse e).bind Env.ofSexp, (Sexp.parse t).bind Ty.ofSexp with
    | some env, some ty =>
      let r := match size env ty with
        | some n => s!"some {n}"
        | none => "none"
      some (r ++ "\t" ++ r)
    | _, _ => none
  | "rnd.range", [p, l, r] =>
    -- does a `range` configuration leave a non-empty range at this number type?
    match primBounds p, l.toInt?, r.toInt? with
    | some (lo, hi), some l, some r =>
      let a := match numBounds lo hi (some (l, r)) with | some _ => "ok" | none => "err"
      some (a ++ "\t" ++ a)
    | _, _, _ => none
  | "rnd.inrange", [p, l, r, n] =>
    -- a number the generator returned under that configuration
    match primBounds p, l.toInt?, r.toInt?, n.toInt? with
    | some (lo, hi), some l, some r, some n =>
      let a := match numBounds lo hi (some (l, r)) with
        | some (l', r') => if l' ≤ n ∧ n ≤ r' then "in" else "out"
        | none => "out"
      some (a ++ "\tin")
    | _, _, _, _ => none
  | _, _ => none

end Candid.Driver
