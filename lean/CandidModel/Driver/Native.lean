import CandidModel.Native
import CandidModel.Sexp
/- line-protocol handlers for the native decoder mirror -/
namespace Candid.Driver
open Candid Candid.Wire Candid.Native

def RTys.ofList : List RTy → RTys
  | [] => .nil
  | t :: r => .cons t (RTys.ofList r)

def RFields.ofList : List (Label × VKind × RTy) → RFields
  | [] => .nil
  | (l, k, t) :: r => .cons l k t (RFields.ofList r)

def VKind.ofName : String → Option VKind
  | "unit" => some .unit | "newtype" => some .newtype | "tuple" => some .tuple | "struct" => some .strct
  | "field" => some .newtype
  | _ => none

partial def RTy.ofSexp : Sexp → Option RTy
  | .atom "u128" => some .u128 | .atom "i128" => some .i128
  | .atom "Nat" => some .nat | .atom "Int" => some .int
  | .atom "Principal" => some .principal | .atom "Reserved" => some .reserved | .atom "Empty" => some .empty
  | .atom "Func" => some .func | .atom "Service" => some .service | .atom "ByteBuf" => some .byteBuf
  | .atom a => (Prim.ofName a).map RTy.prim
  | .list [.atom "opt", t] => (RTy.ofSexp t).map RTy.opt
  | .list [.atom "seq", t] => (RTy.ofSexp t).map RTy.seq
  | .list [.atom "newtype", t] => (RTy.ofSexp t).map RTy.newtype
  | .list [.atom "array", .atom n, t] => match n.toNat?, RTy.ofSexp t with
    | some n, some t => some (.array n t)
    | _, _ => none
  | .list [.atom "bounded", .atom a, .atom b, .atom c, t] => match a.toNat?, b.toNat?, c.toNat?, RTy.ofSexp t with
    | some a, some b, some c, some t => some (.bounded a b c t)
    | _, _, _, _ => none
  | .list (.atom "tuple" :: ts) => (optAll (ts.map RTy.ofSexp)).map fun l => RTy.tuple (RTys.ofList l)
  | .list [.atom "map", k, v] => match RTy.ofSexp k, RTy.ofSexp v with
    | some k, some v => some (.map k v)
    | _, _ => none
  | .list (.atom "struct" :: fs) => (optAll (fs.map fieldOf)).map fun l => RTy.strct (RFields.ofList l)
  | .list (.atom "enum" :: fs) => (optAll (fs.map fieldOf)).map fun l => RTy.enm (RFields.ofList l)
  | .list [.atom "ref", .atom h] => (strOfHex h).map RTy.ref
  | _ => none
where
  fieldOf : Sexp → Option (Label × VKind × RTy)
    | .list [.atom l, .atom k, t] => match Label.ofAtom l, VKind.ofName k, RTy.ofSexp t with
      | some l, some k, some t => some (l, k, t)
      | _, _, _ => none
    | _ => none

/-- `(rust (defs (hexname rty) …) rty)` -/
def rustOfSexp : Sexp → Option (REnv × RTy)
  | .list [.atom "rust", .list (.atom "defs" :: ds), t] =>
    match optAll (ds.map fun d => match d with
        | .list [.atom h, b] => (match strOfHex h, RTy.ofSexp b with
          | some n, some b => some (n, b)
          | _, _ => none)
        | _ => none), RTy.ofSexp t with
    | some env, some t => some (env, t)
    | _, _ => none
  | _ => none

def showNative (sorted : Bool) : De.R Val → String
  | .ok v _ => "ok (" ++ (if sorted then v.canonSorted else v.canon) ++ ")"
  | .sub _ _ => "err"
  | .err _ => "err"
  | .panic s => "panic " ++ s

def optNat (s : String) : Option (Option Nat) :=
  if s = "-" then some none else s.toNat?.map some

def handleNative (op : String) (args : List String) : Option String :=
  match op, args with
  | "nat.mirror", [_name, rd, h, e, t] | "nat.mirrorU", [_name, rd, h, e, t] =>
    match (Sexp.parse rd).bind rustOfSexp, bytesOfHex h, (Sexp.parse e).bind Env.ofSexp, (Sexp.parse t).bind Ty.ofSexp with
    | some (renv, rt), some bs, some env, some ty =>
      -- the hypothesis of the theorems about the mirror (the expected type is the type of the Rust type) is
      -- evaluated on every request: a description of a corpus type that does not satisfy it is an error of the harness
      let r := if lockstep bs env renv rt ty 48 then showNative (op = "nat.mirrorU") (decodeNative bs env renv rt ty ⟨none, none⟩)
               else "panic lockstep hypothesis does not hold for this description"
      some (r ++ "\t" ++ r)
    | _, _, _, _ => none
  | "nat.mirrorQ", [_name, rd, h, e, t, dq, sq] =>
    match (Sexp.parse rd).bind rustOfSexp, bytesOfHex h, (Sexp.parse e).bind Env.ofSexp, (Sexp.parse t).bind Ty.ofSexp,
          optNat dq, optNat sq with
    | some (renv, rt), some bs, some env, some ty, some dq, some sq =>
      let r := match decodeNative bs env renv rt ty ⟨dq, sq⟩ with
        | .ok _ _ => "ok" | .sub _ _ => "err" | .err _ => "err" | .panic s => "panic " ++ s
      some (r ++ "\t" ++ r)
    | _, _, _, _, _, _ => none
  | _, _ => none

end Candid.Driver
