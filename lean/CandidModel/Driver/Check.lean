import CandidModel.Check
import CandidModel.Sexp
/- line-protocol handlers for the type checker slice (C14) -/
namespace Candid.Driver
open Candid Candid.Check

def handleCheck (op : String) (args : List String) : Option String :=
  match op, args with
  | "chk.prog", [d, a] =>
    match (Sexp.parse d).bind Env.ofSexp with
    | some decs =>
      let actor : Option (Option Ty) :=
        if a = "-" then some none else ((Sexp.parse a).bind Ty.ofSexp).map some
      actor.map fun act =>
        let p : Prog := { decs := decs, actor := act }
        let model := match checkProg p with
          | .ok _ => "accept"
          | .error e => "reject " ++ e.name
        -- the specification decides accept / reject; the class of a rejection is the checker's business
        let spec := if WF p then "accept" else (if model = "accept" then "reject" else model)
        model ++ "\t" ++ spec
    | none => none
  | "chk.names", [l] =>
    -- argument names of one tuple type: unique or a parse error
    match Sexp.parse l with
    | some (.list xs) =>
      (optAll (xs.map fun x => match x with | .atom h => strOfHex h | _ => none)).map fun names =>
        let r := if names.Nodup then "accept" else "reject parse"
        r ++ "\t" ++ r
    | _ => none
  | _, _ => none

end Candid.Driver
