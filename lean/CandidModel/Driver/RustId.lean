import CandidModel.RustId
import CandidModel.Sexp
/- line-protocol handlers for the Rust binding (C18) -/
namespace Candid.Driver
open Candid Candid.RustId

def handleRust (op : String) (args : List String) : Option String :=
  match op, args with
  | "rs.field", [h, c] =>
    match strOfHex h, (if c = "snake" then some Case.snake else if c = "camel" then some Case.upperCamel else none) with
    | some name, some case =>
      let (ident, rename) := emitField name case
      let r := "ok " ++ hexOfStr ident ++ " " ++ (match rename with | some x => hexOfStr x | none => "none")
      -- specification: the label the derive macro computes for what was emitted is the source name
      let spec := if deriveLabel ident rename = name then r else "err label"
      some (r ++ "\t" ++ spec)
    | _, _ => none
  | "rs.fields", c :: hs =>
    -- the named fields of one record (snake) / the tags of one variant (camel), in the order they are printed
    match (if c = "snake" then some Case.snake else if c = "camel" then some Case.upperCamel else none), hs.mapM strOfHex with
    | some case, some names =>
      let fs := emitFields case names []
      let show1 := fun (p : String × Option String) =>
        hexOfStr p.1 ++ ":" ++ (match p.2 with | some x => hexOfStr x | none => "none")
      let r := "ok " ++ " ".intercalate (fs.map show1)
      -- specification: every field keeps its label and no two fields are one identifier
      let labelsOk : Bool := fs.map (fun p => deriveLabel p.1 p.2) == names
      let idents := fs.map fun p => unraw p.1
      let distinct : Bool := idents.eraseDups.length == idents.length
      some (r ++ "\t" ++ (if labelsOk && distinct then r else "err label or duplicate"))
    | _, _ => none
  | "rs.types", [_src] => some "ok\tok"
  -- the emitted items are compiled with the real derive macro in a second stage of the check (`harness/bindcheck`);
  -- the line only carries the program there
  | "rs.derive", [_src] => some "deferred\t-"
  | _, _ => none

end Candid.Driver
