import CandidModel.RustId
import CandidModel.Sexp
/- line-protocol handlers for the Rust binding (C18) -/
namespace Candid.Driver
open Candid Candid.RustId

def handleRust (op : String) (args : List String) : Option String :=
  match op, args with
  | "rs.field", [h, c] =>
    match strOfHex h, (if c = "snake" then some Case.snake else if c = "camel" then some Case.upperCamel else none) with
    | some name, some case =>
      let (ident, rename) := emitField name case
      let r := "ok " ++ hexOfStr ident ++ " " ++ (match rename with | some x => hexOfStr x | none => "none")
      -- specification: the label the derive macro computes for what was emitted is the source name
      let spec := if deriveLabel ident rename = name then r else "err label"
      some (r ++ "\t" ++ spec)
    | _, _ => none
  | "rs.types", [_src] => some "ok\tok"
  -- the emitted items are compiled with the real derive macro in a second stage of the check (`harness/bindcheck`);
  -- the line only carries the program there
  | "rs.derive", [_src] => some "deferred\t-"
  | _, _ => none

end Candid.Driver
