import CandidModel.Principal
import CandidModel.Leb
/- line-protocol handlers for the principal slice -/
namespace Candid.Driver
open Candid Candid.Principal

def utf8OfHex (h : String) : Option (List Char) :=
  (bytesOfHex h).bind fun bs => (String.fromUTF8? (ByteArray.mk bs.toArray)).map String.toList

def showP : Except PErr Bytes → String
  | .ok b => "ok " ++ hexOrDash b
  | .error e => "err " ++ e.name

/-- value of a `principal` on the wire: flag 1, LEB length ≤ 29, the bytes; nothing may follow -/
def wirePrincipal (bs : Bytes) : String :=
  match bs with
  | [] => "err"
  | f :: r =>
    if f.toNat ≠ 1 then "err" else
    match Leb.specReadNat r with
    | none => "err"
    | some (n, r') =>
      if n > maxLen then "err"
      else if r'.length = n then "ok " ++ hexOrDash r' else "err"

def handlePrincipal (op : String) (args : List String) : Option String :=
  match op, args with
  | "pr.toText", [h] => (bytesOfHex h).map fun bs =>
      (match tryFromSlice bs with
       | .ok p => String.ofList (toText p)
       | .error e => "err " ++ e.name) ++ "\t-"
  | "pr.fromText", [h] => (utf8OfHex h).map fun cs => showP (fromText cs) ++ "\t-"
  | "pr.trySlice", [h] => (bytesOfHex h).map fun bs => showP (tryFromSlice bs) ++ "\t-"
  | "pr.fromSlice", [h] => (bytesOfHex h).map fun bs =>
      (match tryFromSlice bs with | .ok b => "ok " ++ hexOrDash b | .error _ => "panic from_slice") ++ "\t-"
  | "pr.wire", [h] => (bytesOfHex h).map fun bs => wirePrincipal bs ++ "\t-"
  | _, _ => none

end Candid.Driver
