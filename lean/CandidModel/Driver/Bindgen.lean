import CandidModel.Bindgen
import CandidModel.Sexp
/- line-protocol handlers for the binding generators (C17, C19) -/
namespace Candid.Driver
open Candid Candid.Bindgen

def sortStrings (l : List String) : List String := (l.toArray.qsort (· < ·)).toList

def showStmts (ss : List Stmt) : String :=
  let cells := sortStrings (ss.filterMap fun s => match s with | .cell x => some (jsIdent x) | _ => none)
  let body := ss.filterMap fun s => match s with
    | .fill x _ => some ("fill " ++ jsIdent x)
    | .const x _ => some ("const " ++ jsIdent x)
    | _ => none
  "rec " ++ " ".intercalate cells ++ "|" ++ "|".intercalate body

def handleBindgen (op : String) (args : List String) : Option String :=
  match op, args with
  | "js.plan", [e, a] =>
    match (Sexp.parse e).bind Env.ofSexp, (Sexp.parse a).bind Ty.ofSexp with
    | some env, some actor =>
      let r := match jsFactory env actor with
        | .ok (f, i) => "ok F[" ++ showStmts f ++ "] I[" ++ showStmts i ++ "]"
        | .error .unwrap => "panic unwrap"
        | .error _ => "panic"
      some (r ++ "\t-")
    | _, _ => none
  | "js.eval", [e, a] =>
    match (Sexp.parse e).bind Env.ofSexp, (Sexp.parse a).bind Ty.ofSexp with
    | some env, some actor =>
      let r := match jsFactory env actor with
        | .ok (f, i) => if wellScoped [] [] f && wellScoped [] [] i then "ok" else "err scope"
        | .error _ => "panic"
      some (r ++ "\tok")
    | _, _ => none
  | "bind.all", [_src] => some "ok\tok"
  | "mo.label", [h] => (strOfHex h).map fun name =>
      let r := "ok " ++ hexOfStr (moEscape name)
      -- specification: whatever the name, its spelling is a Motoko identifier that is not a keyword
      let good := isValidAsId (moEscape name).toList && !Gen.motokoKeywords.contains (moEscape name)
      r ++ "\t" ++ (if good then r else "err not-an-identifier")
  | "ts.doc", [h] => (strOfHex h).map fun line =>
      let r := "ok " ++ hexOfStr (String.ofList (escapeDocLine line.toList))
      -- specification: the emitted line carries the same text and cannot end the comment
      r ++ "\t" ++ (if hasCommentEnd (escapeDocLine line.toList) then "err comment-end" else r)
  | _, _ => none

end Candid.Driver
