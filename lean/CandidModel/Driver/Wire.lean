import CandidModel.Wire
import CandidModel.Sexp
/- line-protocol handlers for the wire slice -/
namespace Candid.Driver
open Candid Candid.Wire

def showVals : Outcome (List Val) → String
  | .ok vs => "ok " ++ valsCanon vs
  | .err _ => "err"
  | .panic s => "panic " ++ s

def handleWire (op : String) (args : List String) : Option String :=
  match op, args with
  | "wire.decode", [h, e, ts] =>
    match bytesOfHex h, (Sexp.parse e).bind Env.ofSexp, (Sexp.parse ts).bind tysOfSexp with
    | some bs, some env, some tys =>
      -- column 1: with the implementation's (test-suite pinned) failure on an options-all-the-way-down
      -- expected type; column 2: the coercion relation of the spec; column 3: tags for known findings
      let sp := showVals (decodeArgs bs env tys true true)
      let im := showVals (decodeArgs bs env tys false false)
      let t1 := if showVals (decodeArgs bs env tys false true) ≠ sp then ["mu-opt"] else []
      let t2 := if showVals (decodeArgs bs env tys true false) ≠ sp then ["empty-record-ref"] else []
      some (im ++ "\t" ++ sp ++ (if im ≠ sp then "\t" ++ ",".intercalate (t1 ++ t2) else ""))
    | _, _, _ => none
  | "wire.decodeSelf", [h] =>
    (bytesOfHex h).map fun bs =>
      let sp := showVals (decodeSelf bs true true)
      let im := showVals (decodeSelf bs false false)
      let t1 := if showVals (decodeSelf bs false true) ≠ sp then ["mu-opt"] else []
      let t2 := if showVals (decodeSelf bs true false) ≠ sp then ["empty-record-ref"] else []
      im ++ "\t" ++ sp ++ (if im ≠ sp then "\t" ++ ",".intercalate (t1 ++ t2) else "")
  | "wire.roundtrip", [e, ts, vs] =>
    match (Sexp.parse e).bind Env.ofSexp, (Sexp.parse ts).bind tysOfSexp, (Sexp.parse vs).bind valsOfSexp with
    | some env, some tys, some vals =>
      let model := match encodeArgs env tys vals with
        | .ok bs => (match decodeArgs bs env tys false false with
            | .ok back => "ok " ++ hexOfBytes bs ++ " " ++ valsCanon back
            | .err _ => "ok " ++ hexOfBytes bs ++ " undecodable"
            | .panic s => "panic " ++ s)
        | .err _ => "err"
        | .panic s => "panic " ++ s
      -- specification: the message reads back as the annotated arguments
      let spec := match encodeArgs env tys vals with
        | .ok bs =>
          (match mapOutcomes (fun (p : Val × Ty) => annotate true env defaultFuel p.1 p.2) (vals.zip tys) with
           | .ok ann => "ok " ++ hexOfBytes bs ++ " " ++ valsCanon ann
           | _ => "err")
        | .err _ => "err"
        | .panic s => "panic " ++ s
      let tag := match encodeArgs env tys vals with
        | .ok bs => if showVals (decodeArgs bs env tys true false) ≠ showVals (decodeArgs bs env tys true true)
                    then "\tempty-record-ref" else ""
        | _ => ""
      some (model ++ "\t" ++ spec ++ tag)
    | _, _, _ => none
  | "sound.pair", [e, a, b, vs] =>
    match (Sexp.parse e).bind Env.ofSexp, (Sexp.parse a).bind Ty.ofSexp, (Sexp.parse b).bind Ty.ofSexp,
          (Sexp.parse vs).bind valsOfSexp with
    | some env, some t, some t2, some vals =>
      let run (specMu specRefs : Bool) : String :=
        " ".intercalate (vals.map fun v =>
          match encodeArgs env [t] [v] with
          | .ok bs => (match decodeArgs bs env [t2] specMu specRefs with
              | .ok [v'] => v'.canon
              | .ok _ => "err"
              | .err _ => "err"
              | .panic s => "panic " ++ s)
          | .err _ => "enc-err"
          | .panic s => "panic " ++ s)
      let subM := match Sub.subAlg env Sub.defaultFuel [] t t2 with | .yes _ => "true" | .no => "false" | _ => "panic"
      let subS := if Sub.gfpCheck env t t2 then "true" else "false"
      let im := s!"sub:{subM} dec:{run false false}"
      -- specification: the relation of the spec, the coercion of the spec; and where the relation holds no
      -- value may fail
      let decS := run true true
      -- soundness is part of the specification answer: an accepted pair with a failing value is flagged
      let unsound := subS = "true" ∧ ((decS.splitOn " ").any fun x => x = "err")
      let sp := s!"sub:{subS} dec:{decS}" ++ (if unsound then " !unsound" else "")
      let t1 := if run false true ≠ run true true then ["mu-opt"] else []
      let t2' := if run true false ≠ run true true then ["empty-record-ref"] else []
      some (im ++ "\t" ++ sp ++ (if im ≠ sp then "\t" ++ ",".intercalate (t1 ++ t2') else ""))
    | _, _, _, _ => none
  | "nat.check", [_name, _hist, h, e, t, v] =>
    match bytesOfHex h, (Sexp.parse e).bind Env.ofSexp, (Sexp.parse t).bind Ty.ofSexp with
    | some bs, some env, some ty =>
      let m := match decodeArgs bs env [ty] false false with
        | .ok [x] => "ok (" ++ x.canon ++ ")"
        | .ok _ => "err"
        | .err _ => "err"
        | .panic s => "panic " ++ s
      -- specification: the abstract value the Rust value denotes (converted by hand in the harness)
      some (m ++ "\tok " ++ v)
    | _, _, _ => none
  | "nat.checkU", [_name, _hist, h, e, t, v] =>
    match bytesOfHex h, (Sexp.parse e).bind Env.ofSexp, (Sexp.parse t).bind Ty.ofSexp with
    | some bs, some env, some ty =>
      let m := match decodeArgs bs env [ty] false false with
        | .ok [x] => "ok (" ++ x.canonSorted ++ ")"
        | .ok _ => "err"
        | .err _ => "err"
        | .panic s => "panic " ++ s
      some (m ++ "\tok " ++ v)
    | _, _, _ => none
  | "nat.decode", [name, h, e, t] =>
    match bytesOfHex h, (Sexp.parse e).bind Env.ofSexp, (Sexp.parse t).bind Ty.ofSexp with
    | some bs, some env, some ty =>
      let run (a b : Bool) := match decodeArgs bs env [ty] a b with
        | .ok [x] => "ok (" ++ x.canon ++ ")"
        | .ok _ => "err"
        | .err _ => "err"
        | .panic s => "panic " ++ s
      let im := run false false
      let sp := run true true
      let tup := match parseHeader bs with
        | .ok (hd, _) => (match hd.args with
            | w :: _ => tupleNonPositionalX (mergeEnv hd.table env [ty]).1 ((name.splitOn "Map").length > 1) 64 w ((mergeEnv hd.table env [ty]).2.headD ty)
            | [] => false)
        | _ => false
      let tags := (if run false true ≠ sp then ["mu-opt"] else []) ++ (if run true false ≠ sp then ["empty-record-ref"] else [])
        ++ (if tup then ["tuple-nonpositional"] else [])
      some (im ++ "\t" ++ sp ++ "\t" ++ ",".intercalate tags)
    | _, _, _ => none
  | "nat.decodeU", [name, h, e, t] =>
    match bytesOfHex h, (Sexp.parse e).bind Env.ofSexp, (Sexp.parse t).bind Ty.ofSexp with
    | some bs, some env, some ty =>
      let run (a b : Bool) := match decodeArgs bs env [ty] a b with
        | .ok [x] => "ok (" ++ x.canonSorted ++ ")"
        | .ok _ => "err"
        | .err _ => "err"
        | .panic s => "panic " ++ s
      let im := run false false
      let sp := run true true
      let tup : Bool := match parseHeader bs with
        | .ok (hd, _) => (match hd.args with
            | w :: _ => tupleNonPositionalX (mergeEnv hd.table env [ty]).1 ((name.splitOn "Map").length > 1) 64 w ((mergeEnv hd.table env [ty]).2.headD ty)
            | [] => false)
        | _ => false
      let tags := (if run false true ≠ sp then ["mu-opt"] else []) ++ (if run true false ≠ sp then ["empty-record-ref"] else [])
        ++ (if tup then ["tuple-nonpositional"] else [])
      some (im ++ "\t" ++ sp ++ (if im ≠ sp ∨ tup = true then "\t" ++ ",".intercalate tags else ""))
    | _, _, _ => none
  | "nat.bounded", [_name, h, e, t, within] =>
    match bytesOfHex h, (Sexp.parse e).bind Env.ofSexp, (Sexp.parse t).bind Ty.ofSexp with
    | some bs, some env, some ty =>
      -- a bounded vector accepts exactly the vectors within its limits: `within` is the limit predicate
      -- evaluated by the harness on the untyped value
      let r := if within = "true" then
          (match decodeArgs bs env [ty] false false with
           | .ok [x] => "ok (" ++ x.canon ++ ")"
           | _ => "err")
        else "err"
      some (r ++ "\t" ++ r)
    | _, _, _ => none
  | "nat.hl", [_name, _h] => some "hl\thl"
  -- C06 on native types: the call returns (a value or an error), whatever the bytes
  | "nat.total", [_name, _h] => some "returned\treturned"
  | "wire.annotate", [fp, e, t, v] =>
    match (Sexp.parse e).bind Env.ofSexp, (Sexp.parse t).bind Ty.ofSexp, (Sexp.parse v).bind Val.ofSexp with
    | some env, some ty, some val =>
      let r := match annotate (fp = "true") env defaultFuel val ty with
        | .ok v' => "ok " ++ v'.canon
        | .err _ => "err"
        | .panic s => "panic " ++ s
      some (r ++ "\t" ++ r)
    | _, _, _ => none
  | "wire.header", [h] =>
    (bytesOfHex h).map fun bs =>
      let r := match parseHeader bs with
        | .ok (hd, rest) => "ok (env" ++ String.join (hd.table.map fun (k, t) => s!" ({hexOfStr k} {t.toSexp})") ++ ") (" ++
            " ".intercalate (hd.args.map Ty.toSexp) ++ ") " ++ hexOrDash rest
        | .err _ => "err"
        | .panic s => "panic " ++ s
      r ++ "\t" ++ r
  | _, _ => none

end Candid.Driver
