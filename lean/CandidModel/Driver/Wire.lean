import CandidModel.Wire
import CandidModel.Sexp
/- line-protocol handlers for the wire slice -/
namespace Candid.Driver
open Candid Candid.Wire

def showVals : Outcome (List Val) → String
  | .ok vs => "ok " ++ valsCanon vs
  | .err _ => "err"
  | .panic s => "panic " ++ s

def handleWire (op : String) (args : List String) : Option String :=
  match op, args with
  | "wire.decode", [h, e, ts] =>
    match bytesOfHex h, (Sexp.parse e).bind Env.ofSexp, (Sexp.parse ts).bind tysOfSexp with
    | some bs, some env, some tys =>
      let r := showVals (decodeArgs bs env tys)
      some (r ++ "\t" ++ r)
    | _, _, _ => none
  | "wire.decodeSelf", [h] =>
    (bytesOfHex h).map fun bs =>
      let r := showVals (decodeSelf bs)
      r ++ "\t" ++ r
  | "wire.header", [h] =>
    (bytesOfHex h).map fun bs =>
      let r := match parseHeader bs with
        | .ok (hd, rest) => "ok (env" ++ String.join (hd.table.map fun (k, t) => s!" ({hexOfStr k} {t.toSexp})") ++ ") (" ++
            " ".intercalate (hd.args.map Ty.toSexp) ++ ") " ++ hexOrDash rest
        | .err _ => "err"
        | .panic s => "panic " ++ s
      r ++ "\t" ++ r
  | _, _ => none

end Candid.Driver
