import CandidModel.Labels
import CandidModel.Sexp
/- line-protocol handlers for the label slice -/
namespace Candid.Driver
open Candid Candid.Labels

def parseLabels (s : String) : Option (List Label) :=
  match Sexp.parse s with
  | some (.list xs) => optAll (xs.map fun x => match x with | .atom a => Label.ofAtom a | _ => none)
  | _ => none

def ordStr (a b : Nat) : String := if a < b then "lt" else if a = b then "eq" else "gt"

def handleLabels (op : String) (args : List String) : Option String :=
  match op, args with
  | "hash.idl", [h] => (bytesOfHex h).map fun bs =>
      toString (idlHashBytes bs).toNat ++ "\t" ++ toString (hashSpec bs)
  | "lbl.cmp", [a, b] =>
    match Label.ofAtom a, Label.ofAtom b with
    | some l1, some l2 =>
      let r := s!"eq:{decide (l1.getId = l2.getId)} ord:{ordStr l1.getId l2.getId} hash:{if l1.getId = l2.getId then "same" else "diff"}"
      some (r ++ "\t" ++ r)
    | _, _ => none
  | "lbl.sorted", [ls, _entry] => (parseLabels ls).map fun l =>
      let r := match sortAndCheck l with
        | some ids => "ok " ++ " ".intercalate (ids.map toString)
        | none => "err"
      r ++ "\t" ++ r
  | _, _ => none

end Candid.Driver
