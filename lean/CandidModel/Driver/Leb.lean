import CandidModel.Leb
/- line-protocol handlers for the LEB128 slice: `<model answer>\t<spec answer>` -/
namespace Candid.Driver
open Candid Candid.Leb

def showNatRes : Outcome (Nat × Bytes) → String
  | .ok (v, r) => s!"ok {v} {hexOrDash r}"
  | .err _ => "err"
  | .panic s => s!"panic {s}"

def showIntRes : Outcome (Int × Bytes) → String
  | .ok (v, r) => s!"ok {v} {hexOrDash r}"
  | .err _ => "err"
  | .panic s => s!"panic {s}"

def showNatSpec : Option (Nat × Bytes) → String
  | some (v, r) => s!"ok {v} {hexOrDash r}"
  | none => "err"

def showIntSpec : Option (Int × Bytes) → String
  | some (v, r) => s!"ok {v} {hexOrDash r}"
  | none => "err"

/-- whole-message form: the body must be consumed exactly -/
def wholeN (r : Outcome (Nat × Bytes)) : String :=
  match r with
  | .ok (v, []) => s!"ok {v} -"
  | .ok _ => "err"
  | .err _ => "err"
  | .panic s => s!"panic {s}"
def wholeI (r : Outcome (Int × Bytes)) : String :=
  match r with
  | .ok (v, []) => s!"ok {v} -"
  | .ok _ => "err"
  | .err _ => "err"
  | .panic s => s!"panic {s}"
def wholeNS (r : Option (Nat × Bytes)) : String :=
  match r with | some (v, []) => s!"ok {v} -" | _ => "err"
def wholeIS (r : Option (Int × Bytes)) : String :=
  match r with | some (v, []) => s!"ok {v} -" | _ => "err"

def natAsInt (r : Outcome (Nat × Bytes)) : Outcome (Int × Bytes) := r.map fun (v, b) => ((v : Int), b)
def natAsIntS (r : Option (Nat × Bytes)) : Option (Int × Bytes) := r.map fun (v, b) => ((v : Int), b)

/-- `n` numbers one after the other -/
def readMany {α : Type} (f : Bytes → Outcome (α × Bytes)) : Nat → Bytes → Outcome (List α × Bytes)
  | 0, bs => .ok ([], bs)
  | n + 1, bs =>
    match f bs with
    | .ok (v, r) => (match readMany f n r with
        | .ok (vs, r') => .ok (v :: vs, r')
        | .err k => .err k
        | .panic s => .panic s)
    | .err k => .err k
    | .panic s => .panic s

def showList {α : Type} [ToString α] (xs : List α) : String := "[" ++ ",".intercalate (xs.map toString) ++ "]"

/-- `vec` body: one-byte-or-more LEB count through `read_len`, then the elements, nothing left -/
def vecBody {α : Type} [ToString α] (f : Bytes → Outcome (α × Bytes)) (bs : Bytes) : String :=
  match specReadNat bs with
  | none => "err"
  | some (n, r) =>
    if n ≥ 2 ^ 63 then "err" else
    match readMany f n r with
    | .ok (vs, []) => "ok " ++ showList vs
    | .ok _ => "err"
    | .err _ => "err"
    | .panic s => s!"panic {s}"

def ofSpec {α : Type} (f : Bytes → Option (α × Bytes)) (bs : Bytes) : Outcome (α × Bytes) :=
  match f bs with | some x => .ok x | none => .err .other

/-- `deserialize_i128` at wire type `nat`: `decode_nat`, then `i128::try_from` -/
def natAsI128 (bs : Bytes) : Outcome (Int × Bytes) :=
  match Impl.decodeNat128 bs with
  | .ok (n, r) => if n < 2 ^ 127 then .ok ((n : Int), r) else .err .overflow
  | .err k => .err k
  | .panic s => .panic s
/-- specification: the natural number the string denotes, if it is an `i128` -/
def natAsI128S (bs : Bytes) : Option (Int × Bytes) :=
  match specReadNat bs with
  | some (n, r) => if n < 2 ^ 127 then some ((n : Int), r) else none
  | none => none

def handleLeb (op : String) (args : List String) : Option String :=
  match op, args with
  | "leb.natDecode", [h] => (bytesOfHex h).map fun bs => showNatRes (Impl.natDecode bs) ++ "\t" ++ showNatSpec (specReadNat bs)
  | "leb.intDecode", [h] => (bytesOfHex h).map fun bs => showIntRes (Impl.intDecode bs) ++ "\t" ++ showIntSpec (specReadInt bs)
  | "leb.deNat", [h] => (bytesOfHex h).map fun bs => showNatRes (Impl.deNat bs) ++ "\t" ++ showNatSpec (specReadNat bs)
  | "leb.deInt", [h] => (bytesOfHex h).map fun bs => showIntRes (Impl.deInt bs) ++ "\t" ++ showIntSpec (specReadInt bs)
  | "leb.dec128u", [h] => (bytesOfHex h).map fun bs => showNatRes (Impl.decodeNat128 bs) ++ "\t" ++ showNatSpec (specReadU128 bs)
  | "leb.dec128i", [h] => (bytesOfHex h).map fun bs => showIntRes (Impl.decodeInt128 bs) ++ "\t" ++ showIntSpec (specReadI128 bs)
  | "leb.natEncode", [d] => d.toNat?.map fun n => hexOfBytes (Impl.natEncode n) ++ "\t" ++ hexOfBytes (uleb n)
  | "leb.intEncode", [d] => d.toInt?.map fun i => hexOfBytes (Impl.intEncode i) ++ "\t" ++ hexOfBytes (sleb i)
  | "leb.enc128u", [d] => d.toNat?.map fun n => hexOfBytes (Impl.encodeNatLoop n) ++ "\t" ++ hexOfBytes (uleb n)
  | "leb.enc128i", [d] => d.toInt?.map fun i => hexOfBytes (Impl.encodeIntLoop i) ++ "\t" ++ hexOfBytes (sleb i)
  | "leb.msgNat", [h] => (bytesOfHex h).map fun bs => wholeN (Impl.deNat bs) ++ "\t" ++ wholeNS (specReadNat bs)
  | "leb.msgNatU", [h] => (bytesOfHex h).map fun bs => wholeN (Impl.natDecode bs) ++ "\t" ++ wholeNS (specReadNat bs)
  | "leb.msgInt", [h] => (bytesOfHex h).map fun bs => wholeI (Impl.deInt bs) ++ "\t" ++ wholeIS (specReadInt bs)
  | "leb.msgIntU", [h] => (bytesOfHex h).map fun bs => wholeI (Impl.intDecode bs) ++ "\t" ++ wholeIS (specReadInt bs)
  | "leb.msgNatAsInt", [h] => (bytesOfHex h).map fun bs => wholeI (natAsInt (Impl.deNat bs)) ++ "\t" ++ wholeIS (natAsIntS (specReadNat bs))
  | "leb.msgU128", [h] => (bytesOfHex h).map fun bs => wholeN (Impl.decodeNat128 bs) ++ "\t" ++ wholeNS (specReadU128 bs)
  | "leb.msgI128", [h] => (bytesOfHex h).map fun bs => wholeI (Impl.decodeInt128 bs) ++ "\t" ++ wholeIS (specReadI128 bs)
  | "leb.msgNatAsI128", [h] => (bytesOfHex h).map fun bs => wholeI (natAsI128 bs) ++ "\t" ++ wholeIS (natAsI128S bs)
  | "leb.msgVecNatAsI128", [h] => (bytesOfHex h).map fun bs => vecBody natAsI128 bs ++ "\t" ++ vecBody (ofSpec natAsI128S) bs
  | "leb.msgVecNat", [h] => (bytesOfHex h).map fun bs => vecBody Impl.deNat bs ++ "\t" ++ vecBody (ofSpec specReadNat) bs
  | "leb.msgVecInt", [h] => (bytesOfHex h).map fun bs => vecBody Impl.deInt bs ++ "\t" ++ vecBody (ofSpec specReadInt) bs
  | "leb.msgVecU128", [h] => (bytesOfHex h).map fun bs => vecBody Impl.decodeNat128 bs ++ "\t" ++ vecBody (ofSpec specReadU128) bs
  | "leb.msgVecI128", [h] => (bytesOfHex h).map fun bs => vecBody Impl.decodeInt128 bs ++ "\t" ++ vecBody (ofSpec specReadI128) bs
  | _, _ => none

end Candid.Driver
