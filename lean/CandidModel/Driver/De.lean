import CandidModel.De
import CandidModel.Sexp
/- line-protocol handlers for the decoder mirror (quotas and cost) -/
namespace Candid.Driver
open Candid Candid.De

def parseQuota (s : String) : Option (Option Nat) :=
  if s = "-" then some none else s.toNat?.map some

def showQuotaCost (orig rem : Option Nat) : String :=
  match orig, rem with
  | some o, some r => toString (o - r)
  | _, _ => "-"

def handleDe (op : String) (args : List String) : Option String :=
  match op, args with
  | "de.decode", [h, e, ts, dq, sq] =>
    match bytesOfHex h, (Sexp.parse e).bind Env.ofSexp, (Sexp.parse ts).bind tysOfSexp, parseQuota dq, parseQuota sq with
    | some bs, some env, some tys, some d, some s =>
      let res := decodeWithConfig bs env tys { decodingQuota := d, skippingQuota := s }
      let costs := match res with
        | .ok _ st => " " ++ showQuotaCost d st.dq ++ " " ++ showQuotaCost s st.sq
        | _ => ""
      let r := match res with
        | .ok vs _ => "ok " ++ valsCanon vs ++ costs
        | .sub _ _ => "err"
        | .err .quota => "err quota"
        | .err _ => "err"
        | .panic p => "panic " ++ p
      -- specification column: the values are those of the specification decoder (C02); the cost has no
      -- independent specification and is taken from the mirror; a quota error stays a quota error
      let sp := match res with
        | .err .quota => "err quota"
        | _ => match Wire.decodeArgs bs env tys false false with
          | .ok vs => "ok " ++ valsCanon vs ++ costs
          | .err _ => "err"
          | .panic p => "panic " ++ p
      some (r ++ "\t" ++ sp)
    | _, _, _, _, _ => none
  | _, _ => none

end Candid.Driver
