import CandidModel.Text
import CandidModel.Wire
import CandidModel.Labels
import CandidModel.Sexp
/- line-protocol handlers for the text slice -/
namespace Candid.Driver
open Candid Candid.Text

def charsOfHex (h : String) : Option (List Char) := (strOfHex h).map String.toList

def hexOfChars (cs : List Char) : String := hexOfStr (String.ofList cs)

/-- could `p` have been produced by `escapeText` for *some* Unicode classification?  per character: the
fixed escape, or the character itself, or its `\u{…}` form -/
def matchesEscape : List Char → List Char → Bool
  | [], p => p.isEmpty
  | c :: r, p =>
    -- every spelling some Unicode table / quoting style could give this character
    let alts : List (List Char) :=
      if c = '\x00' then [['\\', 'u', '{', '0', '}']]
      else if c = '\t' then [['\\', 't']] else if c = '\r' then [['\\', 'r']]
      else if c = '\n' then [['\\', 'n']] else if c = '\\' then [['\\', '\\']]
      else if c = '"' then [['\\', '"']]
      else if c = '\'' then [['\\', '\''], ['\'']]      -- `{:?}` leaves single quotes, `escape_debug` escapes them
      else [[c], unicodeEsc c]
    alts.any fun a => a.isPrefixOf p && matchesEscape r (p.drop a.length)

def showLex (r : Outcome (List Piece × List Char)) : String :=
  match r with
  | .ok (ps, rest) => "ok " ++ hexOrDash (piecesBytes ps) ++ " " ++ hexOfChars rest
  | .err _ => "err"
  | .panic s => "panic " ++ s

def dropPrefix? (pre : List Char) (s : List Char) : Option (List Char) :=
  if pre.isPrefixOf s then some (s.drop pre.length) else none

def parseFieldSpec (s : String) : Option (List (Option Nat)) :=
  match Sexp.parse s with
  | some (.list xs) => optAll (xs.map fun x => match x with
      | .atom "_" => some none
      | .atom a => (Label.ofAtom a).map fun l => some l.getId
      | _ => none)
  | _ => none

def handleText (op : String) (args : List String) : Option String :=
  match op, args with
  | "txt.lex", [h] => (charsOfHex h).map fun cs =>
      let r := showLex (lexString cs)
      r ++ "\t" ++ r
  | "txt.roundtrip", [hs, hp] =>
    -- text `s`, printed by the implementation as `p` (with the quotes)
    match charsOfHex hs, charsOfHex hp with
    | some s, some p =>
      (match p with
       | '"' :: body =>
         let back := match lexString body with
           | .ok (ps, []) => (match Wire.utf8 (piecesBytes ps) with
               | some str => "ok " ++ hexOfStr str
               | none => "err")
           | .ok _ => "err"
           | .err _ => "err"
           | .panic x => "panic " ++ x
         let shape := match body.reverse with
           | '"' :: revInner => matchesEscape s revInner.reverse
           | _ => false
         some (back ++ s!" shape:{shape}" ++ "\tok " ++ hexOfStr (String.ofList s) ++ " shape:true")
       | _ => some "err\terr")
    | _, _ => none
  | "txt.blobrt", [hb, hp] =>
    match bytesOfHex hb, charsOfHex hp with
    | some b, some p =>
      let expected := "blob \"".toList ++ ppBlob b ++ ['"']
      let back := match dropPrefix? "blob \"".toList p with
        | some body => (match lexString body with
            | .ok (ps, []) => "ok " ++ hexOrDash (piecesBytes ps)
            | _ => "err")
        | none => "err"
      some (back ++ s!" same:{decide (p = expected)}" ++ "\tok " ++ hexOrDash b ++ " same:true")
    | _, _ => none
  | "txt.numrt", [d] =>
    let s := d.toList
    let p := ppNumStr s
    let back := parseNumberTok (match p with | '-' :: r => r | r => r)
    let r := "ok " ++ String.ofList p ++ " " ++ (if s.head? = some '-' then "-" else "") ++ String.ofList back
    some (r ++ "\tok " ++ String.ofList p ++ " " ++ d)
  | "txt.numtok", [h] => (charsOfHex h).map fun tok =>
      -- a Decimal or Hex token as the `Number` rule reads it
      let digits := parseNumberTok tok
      let isHexTok := match tok with | '0' :: 'x' :: _ => true | '0' :: 'X' :: _ => true | _ => false
      -- decimal tokens keep their digits; hex tokens are converted to decimal by the `Number` rule
      let r := "ok " ++ (if isHexTok then toString (hexNum digits) else String.ofList digits)
      r ++ "\t" ++ r
  | "txt.identrt", [hn, hp] =>
    match strOfHex hn, charsOfHex hp with
    | some name, some p =>
      let q := needsQuote name
      let model :=
        if q then
          (match p with
           | '"' :: body => (match lexString body with
               | .ok (ps, []) => (match Wire.utf8 (piecesBytes ps) with
                   | some str => "ok " ++ hexOfStr str ++ " quoted:true"
                   | none => "err")
               | _ => "err")
           | _ => "err unquoted")
        else if p = name.toList ∧ lexesAsId name then "ok " ++ hexOfStr name ++ " quoted:false"
        else "err not-an-id"
      some (model ++ "\tok " ++ hexOfStr name ++ s!" quoted:{q}")
    | _, _ => none
  | "txt.number", [spec] => (parseFieldSpec spec).map fun fs =>
      let r := match numberFields 0 fs with
        | .ok ids =>
          (match Labels.sortAndCheck (ids.map Label.id) with
           | some sorted => "ok " ++ " ".intercalate (sorted.map toString)
           | none => "err")
        | .err _ => "err"
        | .panic s => "panic " ++ s
      r ++ "\t" ++ r
  | "txt.total", [_entry, _h] => some "nopanic\tnopanic"
  | "txt.value", [_e, _t, _v] => some "ok\tok"
  | "txt.prog", [_e, _t] => some "ok\tok"
  | "txt.astargs", [_s] => some "ok\tok"
  | _, _ => none

end Candid.Driver
