import CandidModel.Types
/-
  Random value generation (C20), the parts of `candid_parser/src/random.rs` that decide *what* may be
  returned: the size estimate (`size_helper`), the weights given to the alternatives of `opt` / `variant`
  (with the depth / size budget), the selection of an alternative from the weights (`arbitrary_variant`),
  the bounds of numbers under a `range` configuration (`arbitrary_num`) — and the typing relation a returned
  value has to satisfy (what `annotate_type` / encoding at the type accept).
-/
namespace Candid.Rand
open Candid

def maxDepth : Nat := 20   -- MAX_DEPTH

/-- `TypeEnv::rec_find_type`: follow aliases to a definition that is not a bare name -/
def recFind (env : Env) : Nat → String → Option Ty
  | 0, _ => none
  | fuel + 1, x =>
    match env.find x with
    | some (.var y) => recFind env fuel y
    | some t => some t
    | none => none

mutual
/-- `size_helper`; `none` = unbounded (a name met again on the way down) or not resolvable.  The names on
the current path are in `seen` (inserted on entry, removed on exit). -/
def sizeH (env : Env) : Nat → List String → Ty → Option Nat
  | fuel, seen, .var x =>
    if seen.contains x then none
    else match fuel with
      | 0 => none
      | fuel + 1 => (recFind env (env.length + 1) x).bind fun t => sizeH env fuel (x :: seen) t
  | _, _, .prim .empty => some 0
  | fuel, seen, .opt t => (sizeH env fuel seen t).map (1 + ·)
  | fuel, seen, .vec t => (sizeH env fuel seen t).map (1 + · * 2)
  | fuel, seen, .record fs => (sizeSum env fuel seen fs).map (1 + ·)
  | fuel, seen, .variant fs => (sizeMax env fuel seen fs).map (1 + ·)
  | _, _, _ => some 1
termination_by fuel _ t => (fuel, sizeOf t)
def sizeSum (env : Env) : Nat → List String → Fields → Option Nat
  | _, _, .nil => some 0
  | fuel, seen, .cons _ t r => (sizeH env fuel seen t).bind fun a => (sizeSum env fuel seen r).map (a + ·)
termination_by fuel _ fs => (fuel, sizeOf fs)
def sizeMax (env : Env) : Nat → List String → Fields → Option Nat
  | _, _, .nil => some 0
  | fuel, seen, .cons _ t r => (sizeH env fuel seen t).bind fun a => (sizeMax env fuel seen r).map (Nat.max a)
termination_by fuel _ fs => (fuel, sizeOf fs)
end

def size (env : Env) (t : Ty) : Option Nat := sizeH env (env.length + 1) [] t

/-! ## weights -/

/-- is the budget spent? (`depth <= 0 || size <= 0`, each only if configured) -/
def spent (depth size : Option Int) : Bool :=
  (match depth with | some d => decide (d ≤ 0) | none => false) ||
  (match size with | some s => decide (s ≤ 0) | none => false)

/-- weights of `opt t`: `[none, some]` -/
def optWeights (env : Env) (depth sz : Option Int) (t : Ty) : List Nat :=
  if spent depth sz then [1, 0] else [1, (size env t).getD maxDepth]

/-- weights of the alternatives of a variant: their sizes; when the budget is spent only the smallest
inhabited ones keep their weight -/
def variantWeights (depth sz : Option Int) (choices : List Nat) : List Nat :=
  if spent depth sz then
    let min := ((choices.filter (· > 0)).min?).getD 0
    choices.map fun d => if d > min then 0 else d
  else choices

def choicesOf (env : Env) (fs : Fields) : List Nat :=
  fs.toList.map fun f => (size env f.2).getD maxDepth

/-- `arbitrary_variant`: the index whose prefix sum first exceeds the number drawn in `0 .. total-1`;
an empty list or a zero total is an error -/
def pickIndex (weights : List Nat) (drawn : Nat) : Option Nat :=
  let total := weights.sum
  if weights.isEmpty || total = 0 then none
  else go weights (drawn % total) 0 0
where
  go : List Nat → Nat → Nat → Nat → Option Nat
    | [], _, _, _ => none
    | w :: r, sel, acc, i => if sel < acc + w then some i else go r sel (acc + w) (i + 1)

/-! ## numbers under a `range` configuration -/

/-- bounds actually used for a type with bounds `[lo, hi]` and configured range `(l, r)`: a configured
bound that does not fit the type is replaced by the type's own bound; an empty range is an error -/
def numBounds (lo hi : Int) (range : Option (Int × Int)) : Option (Int × Int) :=
  match range with
  | none => some (lo, hi)
  | some (l, r) =>
    let l' := if lo ≤ l ∧ l ≤ hi then l else lo
    let r' := if lo ≤ r ∧ r ≤ hi then r else hi
    if l' ≤ r' then some (l', r') else none

/-! ## the typing relation -/

def natIn (n bits : Nat) : Bool := n < 2 ^ bits
def intIn (i : Int) (bits : Nat) : Bool := -(2 : Int) ^ (bits - 1) ≤ i ∧ i < (2 : Int) ^ (bits - 1)

mutual
/-- does the value inhabit the type? (`fuel` bounds the unfolding of names) -/
def hasType (env : Env) : Nat → Val → Ty → Bool
  | 0, _, _ => false
  | fuel + 1, v, .var x =>
    match env.find x with
    | some t => hasType env fuel v t
    | none => false
  | _, .null, .prim .null => true
  | _, .reserved, .prim .reserved => true
  | _, .bool _, .prim .bool => true
  | _, .nat _, .prim .nat => true
  | _, .int _, .prim .int => true
  | _, .nat8 n, .prim .nat8 => natIn n 8
  | _, .nat16 n, .prim .nat16 => natIn n 16
  | _, .nat32 n, .prim .nat32 => natIn n 32
  | _, .nat64 n, .prim .nat64 => natIn n 64
  | _, .int8 i, .prim .int8 => intIn i 8
  | _, .int16 i, .prim .int16 => intIn i 16
  | _, .int32 i, .prim .int32 => intIn i 32
  | _, .int64 i, .prim .int64 => intIn i 64
  | _, .float32 _, .prim .float32 => true
  | _, .float64 _, .prim .float64 => true
  | _, .text _, .prim .text => true
  | _, .principal _, .principal => true
  | _, .func _ _, .func _ _ _ => true
  | _, .service _, .service _ => true
  | _, .none, .opt _ => true
  | fuel + 1, .opt v, .opt t => hasType env fuel v t
  | fuel + 1, .vec vs, .vec t => allHaveType env fuel vs t
  | _, .blob _, .vec (.prim .nat8) => true
  | fuel + 1, .record fvs, .record fs => fieldsHaveType env fuel fvs fs
  | fuel + 1, .variant l v _, .variant fs => altHasType env fuel l.getId v fs
  | _, _, _ => false
def allHaveType (env : Env) : Nat → List Val → Ty → Bool
  | _, [], _ => true
  | fuel, v :: r, t => hasType env fuel v t && allHaveType env fuel r t
def fieldsHaveType (env : Env) : Nat → List (Label × Val) → Fields → Bool
  | _, [], .nil => true
  | fuel, (l, v) :: r, .cons l' t fs => decide (l.getId = l'.getId) && hasType env fuel v t && fieldsHaveType env fuel r fs
  | _, _, _ => false
def altHasType (env : Env) : Nat → Nat → Val → Fields → Bool
  | _, _, _, .nil => false
  | fuel, id, v, .cons l t fs => (decide (l.getId = id) && hasType env fuel v t) || altHasType env fuel id v fs
end

end Candid.Rand
