import CandidModel.Wire
/-
  Mirror of `de.rs` for untyped decoding (`IDLValueVisitor` / `IgnoredAny`), *with* the cost accounting
  (`add_cost`, decoding and skipping quotas) and the back-tracking of options.  Control flow, order of
  checks and every `add_cost` argument follow the Rust; the stack guard is a fuel parameter.

  Properties C06 (totality, resource bounds) and C07 (quotas) are stated about this model; C02's
  specification decoder (`Wire.decodeArgs`) is the independent reference it is compared with.
-/
namespace Candid.De
open Candid Candid.Wire Candid.Leb

structure St where
  input : Bytes
  gamma : Sub.Gamma
  dq : Option Nat        -- remaining decoding quota
  sq : Option Nat        -- remaining skipping quota
  untyped : Bool         -- `is_untyped`
  deriving Repr

inductive Visitor where
  | idl       -- IDLValueVisitor
  | ignored   -- serde::de::IgnoredAny
  deriving DecidableEq, Repr

/-- result of a decoding step.  A subtype error (`Error::Subtype`, the only kind an enclosing option
catches) carries the quotas at the point of failure: back-tracking restores everything else. -/
inductive R (α : Type) where
  | ok (a : α) (st : St)
  | sub (dq sq : Option Nat)
  | err (k : ErrKind)
  | panic (site : String)

namespace R
variable {α β : Type}
@[inline] def bind (x : R α) (f : α → St → R β) : R β :=
  match x with
  | ok a st => f a st
  | sub d s => sub d s
  | err k => err k
  | panic p => panic p
@[inline] def map (x : R α) (f : α → β) : R β := x.bind fun a st => ok (f a) st
end R

def subErr {α : Type} (st : St) : R α := .sub st.dq st.sq

def usizeMax : Nat := 2 ^ 64 - 1

/-- what one `add_cost(cost)` takes from the decoding quota: fifty-fold while `is_untyped` (saturating) -/
def chargeAmount (st : St) (cost : Nat) : Nat := if st.untyped then min (cost * 50) usizeMax else cost

/-- the decoding-quota half of `add_cost` -/
def chargeD (st : St) (cost : Nat) : Option St :=
  match st.dq with
  | some n => if n < chargeAmount st cost then none else some { st with dq := some (n - chargeAmount st cost) }
  | none => some st

/-- the skipping-quota half: charged only while `is_untyped` -/
def chargeS (st : St) (cost : Nat) : Option St :=
  if st.untyped then
    match st.sq with
    | some n => if n < cost then none else some { st with sq := some (n - cost) }
    | none => some st
  else some st

/-- `Deserializer::add_cost` -/
def addCost (st : St) (cost : Nat) : R Unit :=
  match chargeD st cost with
  | none => .err .quota
  | some s =>
    match chargeS s cost with
    | none => .err .quota
    | some s' => .ok () s'

/-- lift a pure reader of the input -/
def rd {α : Type} (f : Bytes → Outcome (α × Bytes)) (st : St) : R α :=
  match f st.input with
  | .ok (a, rest) => .ok a { st with input := rest }
  | .err k => .err k
  | .panic p => .panic p

def ofOpt {α : Type} (o : Option α) (k : ErrKind) (st : St) : R α :=
  match o with
  | some a => .ok a st
  | none => .err k

/-- `unroll_type`: expected side first, then wire side; one unit of cost per name unfolded -/
def unroll (env : Env) (fuel : Nat) (w e : Ty) (st : St) : R (Ty × Ty) :=
  let stepE : R Ty :=
    if Sub.isName e then (addCost st 1).bind fun _ s => ofOpt (env.trace fuel e) .limit s
    else .ok e st
  stepE.bind fun e' s1 =>
    if Sub.isName w then (addCost s1 1).bind fun _ s2 => (ofOpt (env.trace fuel w) .limit s2).map fun w' => (w', e')
    else .ok (w, e') s1

/-- `check!(expect == T && wire == T)`, `add_cost(c)`, read -/
def dePrimExact (p : Prim) (cost : Nat) (w e : Ty) (st : St) : R Val :=
  if e = .prim p ∧ w = .prim p then (addCost st cost).bind fun _ s => rd (decPrim p) s
  else subErr st

def primSize : Prim → Option Nat
  | .bool | .nat8 | .int8 => some 1
  | .nat16 | .int16 => some 2
  | .nat32 | .int32 | .float32 => some 4
  | .nat64 | .int64 | .float64 => some 8
  | _ => none

/-- `exact_primitive_type(expect, wire)` -/
def exactPrim (e w : Ty) : Option Prim :=
  match e, w with
  | .prim p, .prim q => if p = q ∧ (primSize p).isSome then some p else none
  | _, _ => none

/-- read a big number with `f`, then `add_cost(bytes consumed)` -/
def bigNum (f : Bytes → Outcome (Val × Bytes)) (st : St) : R Val :=
  let before := st.input.length
  (rd f st).bind fun v s => (addCost s (before - s.input.length)).map fun _ => v

def natAs (mk : Nat → Val) (bs : Bytes) : Outcome (Val × Bytes) :=
  match Impl.natDecode bs with
  | .ok (n, r) => .ok (mk n, r) | .err k => .err k | .panic p => .panic p
def intAs (bs : Bytes) : Outcome (Val × Bytes) :=
  match Impl.intDecode bs with
  | .ok (i, r) => .ok (.int i, r) | .err k => .err k | .panic p => .panic p

/-- `principal`-shaped reference with its cost `max(30, len)` -/
def dePrincipalBytes (st : St) : R Bytes :=
  (rd readPrincipal st).bind fun b s => (addCost s (max 30 b.length)).map fun _ => b

/-- `check_subtype` -/
def checkSubtype (env : Env) (w e : Ty) (st : St) : R Unit :=
  (addCost st env.length).bind fun _ s =>
    match Sub.subAlg env Sub.defaultFuel s.gamma w e with
    | .yes g => .ok () { s with gamma := g }
    | .panic p => .panic p
    | _ => subErr s

/-- length-prefixed bytes with cost `len + 1` charged before they are borrowed -/
def lenBytes (st : St) : R Bytes :=
  (rd readLenDe st).bind fun n s => (addCost s (min (n + 1) usizeMax)).bind fun _ s' => rd (takeN n) s'

/-- run `f` `n` times, collecting values -/
def iterV (f : St → R Val) : Nat → St → R (List Val)
  | 0, st => .ok [] st
  | n + 1, st => (f st).bind fun v s => (iterV f n s).map fun vs => v :: vs

/-- the merge of expected and wire record fields by ascending id (`next_key_seed`, `Style::Struct`) -/
inductive FieldStep where
  | both (l : Label) (et wt : Ty)       -- ids equal
  | expectOnly (l : Label) (et : Ty)    -- only in the expected type (a wire field with a larger id follows)
  | wireOnly (wt : Ty)                  -- only on the wire: skipped
  | expectTail (l : Label) (et : Ty)    -- expected fields left after the wire fields are exhausted

def mergeFields : Nat → List (Label × Ty) → List (Label × Ty) → List FieldStep
  | 0, _, _ => []
  | _ + 1, [], [] => []
  | n + 1, [], (_, wt) :: ws => .wireOnly wt :: mergeFields n [] ws
  | n + 1, (l, et) :: es, [] => .expectTail l et :: mergeFields n es []
  | n + 1, (l, et) :: es, (wl, wt) :: ws =>
    if l.getId = wl.getId then .both l et wt :: mergeFields n es ws
    else if l.getId < wl.getId then .expectOnly l et :: mergeFields n es ((wl, wt) :: ws)
    else .wireOnly wt :: mergeFields n ((l, et) :: es) ws

def labelKeyCost : Label → Nat
  | .named s => (strBytes s).length
  | _ => 4

/-- the string an expected variant label travels as when `is_untyped`: "<label>,<kind>,<style>" -/
def variantKeyLen (el : Label) (et : Ty) : Nat :=
  let base : Nat × Nat := match el with
    | .named nm => ((strBytes nm).length, 4)
    | .id h => ((toString h).length, 2)
    | .unnamed h => ((toString h).length, 2)
  let accessor : Nat := match et with
    | .prim .null => 4       -- "unit"
    | .record _ => 6         -- "struct"
    | _ => 7                 -- "newtype"
  base.1 + 1 + base.2 + 1 + accessor

/-! The large branches of `deserialize_any`, each as a function of the recursive entry points (so that facts about
one branch can be proved on its own). -/

/-- `opt`: `add_cost(1)` was charged by the caller -/
def deOptCase (env : Env) (fuel : Nat) (recv : Ty → Ty → St → R Val) (w e2 : Ty) (s1 : St) : R Val :=
  match w with
  | .prim .null | .prim .reserved => .ok .none s1
  | .opt w2 =>
    (match s1.input with
     | [] => .err .eof
     | b :: rest =>
       if b = 0 then .ok .none { s1 with input := rest }
       else if b = 1 then recv w2 e2 { s1 with input := rest }
       else .err .malformed)
  | _ =>
    (match env.trace fuel e2 with
     | none => .err .limit
     | some e2' => recv w e2' s1)

/-- the big-number shortcut of `deserialize_seq`: the primitive that is on the wire, when it applies -/
def bigPrimOf (ee wire : Ty) : Option Prim :=
  match ee, wire with
  | .prim .nat, .prim .nat => some .nat
  | .prim .int, .prim .int => some .int
  | .prim .int, .prim .nat => some .nat
  | _, _ => none

/-- `vec` whose expected type is not a blob: `add_cost(1)` was charged by the caller.  `len.checked_mul(cost)` failing
("Vec length overflow") is reported as `err limit`: a limit of the host, like an exhausted depth budget (the theorems
that compare this reader with the specification, which has no such limit, except it together with starvation) -/
def deVecCase (env : Env) (vis : Visitor) (fuel : Nat) (dAny : Ty → Ty → St → R Val) (dIgn : Ty → St → R Val)
    (w ee : Ty) (s1 : St) : R Val :=
  match w with
  | .vec ww =>
    (match env.trace fuel ww with
     | none => .err .limit
     | some wire =>
       (rd readLenDe s1).bind fun n s2 =>
         match exactPrim ee wire with
         | some p =>
           let size := (primSize p).getD 1
           if n * (3 + size) > usizeMax then .err .limit else
           (addCost s2 (n * (3 + size))).bind fun _ s3 =>
             if n * size > s3.input.length then .err .eof
             else (iterV (fun s => rd (decPrim p) s) n s3).map Val.vec
         | none =>
           match bigPrimOf ee wire with
           | some wp =>
             if n * 3 > usizeMax then .err .limit else
             (addCost s2 (n * 3)).bind fun _ s3 =>
               (iterV (fun s =>
                 if wp = .nat then bigNum (natAs fun m => if ee = .prim .int then .int m else .nat m) s
                 else bigNum intAs s) n s3).map Val.vec
           | none =>
             (iterV (fun s => (addCost s 3).bind fun _ s' =>
               if vis = .ignored then dIgn wire s' else dAny wire ee s') n s2).map Val.vec)
  | _ => subErr s1

/-- `variant`: `add_cost(1)` was charged by the caller -/
def deVariantCase (vis : Visitor) (dAny : Ty → Ty → St → R Val) (dIgn : Ty → St → R Val)
    (w : Ty) (efs : Fields) (s1 : St) : R Val :=
  match w with
  | .variant wfs =>
    (rd readLebCrate s1).bind fun idx s2 =>
      match wfs.toList[idx]? with
      | none => .err .malformed
      | some (wl, wt) =>
        match efs.toList.find? (fun p => p.1.getId = wl.getId) with
        | none => subErr s2
        | some (el, et) =>
          (addCost s2 4).bind fun _ s3 =>
            let keyCost := if s3.untyped then variantKeyLen el et else labelKeyCost el
            (addCost s3 keyCost).bind fun _ s4 =>
              let isUnit : Bool := match et with | .prim .null => true | _ => false
              if vis = .idl ∧ isUnit then
                -- unit_variant: check!(expect == Null && wire == Null)
                (if wt = .prim .null then (addCost s4 1).map fun _ => .variant el .null idx
                 else subErr s4)
              else
                (addCost s4 1).bind fun _ s5 =>
                  if vis = .ignored then (dIgn wt s5).map fun _ => .null
                  else (dAny wt et s5).map fun v => .variant el v idx
  | _ => subErr s1

/-- `func` reference: `check_subtype` was done by the caller -/
def deFuncCase (w : Ty) (s1 : St) : R Val :=
  match w with
  | .func _ _ _ =>
    (match s1.input with
     | [] => .err .eof
     | b :: rest =>
       if b = 0 then .err .unsupported
       else if b ≠ 1 then .err .malformed
       else
         (rd readPrincipal { s1 with input := rest }).bind fun pid s2 =>
           (rd readLenDe s2).bind fun n s3 =>
             (rd (takeN n) s3).bind fun m s4 =>
               (addCost s4 (min (max 30 pid.length + n + 2) usizeMax)).bind fun _ s5 =>
                 match utf8 m with
                 | some name => .ok (.func pid name) s5
                 | none => .err .malformed)
  | _ => subErr s1

/-- `vec` whose expected type is a blob -/
def deBlobCase (env : Env) (w : Ty) (st : St) : R Val :=
  if isBlobTy env w then (lenBytes st).map Val.blob
  else match w with
    | .vec _ =>
      (rd readLenDe st).bind fun n s =>
        if n ≠ 0 then subErr s else (addCost s 1).map fun _ => .blob []
    | _ => subErr st

/-- the dispatch of `deserialize_any` on the (unrolled) expected type, as a function of the recursive entry points -/
def deAnyBody (env : Env) (vis : Visitor) (fuel : Nat) (dAny : Ty → Ty → St → R Val) (dIgn : Ty → St → R Val)
    (dRec : Ty → Ty → St → R Val) (dFld : List FieldStep → St → List (Label × Val) → R Val)
    (w e : Ty) (st : St) : R Val :=
  match e with
  | .prim .int =>
    (match w with
     | .prim .int => bigNum intAs st
     | .prim .nat => bigNum (natAs fun n => .int n) st
     | _ => subErr st)
  | .prim .nat => if w = .prim .nat then bigNum (natAs Val.nat) st else subErr st
  | .prim .nat8 => dePrimExact .nat8 1 w e st | .prim .nat16 => dePrimExact .nat16 2 w e st
  | .prim .nat32 => dePrimExact .nat32 4 w e st | .prim .nat64 => dePrimExact .nat64 8 w e st
  | .prim .int8 => dePrimExact .int8 1 w e st | .prim .int16 => dePrimExact .int16 2 w e st
  | .prim .int32 => dePrimExact .int32 4 w e st | .prim .int64 => dePrimExact .int64 8 w e st
  | .prim .float32 => dePrimExact .float32 4 w e st | .prim .float64 => dePrimExact .float64 8 w e st
  | .prim .bool => dePrimExact .bool 1 w e st
  | .prim .null => dePrimExact .null 1 w e st
  | .prim .text =>
    if w = .prim .text then
      (lenBytes st).bind fun b s =>
        match utf8 b with
        | some str => .ok (.text str) s
        | none => .err .malformed
    else subErr st
  | .prim .reserved =>
    let skipped : R Val := if w ≠ .prim .reserved then dIgn w st else .ok .null st
    skipped.bind fun _ s => (addCost s 1).map fun _ => .reserved
  | .prim .empty => if w = .prim .empty then .err .malformed else subErr st
  | .principal =>
    (match w with
     | .principal | .service _ => (dePrincipalBytes st).map Val.principal
     | _ => subErr st)
  | .opt e2 =>
    (addCost st 1).bind fun _ s1 => deOptCase env fuel dRec w e2 s1
  | .vec ee =>
    if isBlobTy env e then deBlobCase env w st
    else (addCost st 1).bind fun _ s1 => deVecCase env vis fuel dAny dIgn w ee s1
  | .record efs =>
    (addCost st 1).bind fun _ s1 =>
      match w with
      | .record wfs =>
        dFld (mergeFields (efs.toList.length + wfs.toList.length + 1) efs.toList wfs.toList) s1 []
      | _ => subErr s1
  | .variant efs =>
    (addCost st 1).bind fun _ s1 => deVariantCase vis dAny dIgn w efs s1
  | .service _ =>
    (checkSubtype env w e st).bind fun _ s1 =>
      match w with
      | .service _ => (dePrincipalBytes s1).map Val.service
      | _ => subErr s1
  | .func _ _ _ =>
    (checkSubtype env w e st).bind fun _ s1 => deFuncCase w s1
  | .future =>
    (rd readLenDe st).bind fun n s1 =>
      (addCost s1 (min (n + 1) usizeMax)).bind fun _ s2 =>
        (rd readLenDe s2).bind fun _ s3 => (rd (takeN n) s3).map fun _ => .null
  | _ => .err .other

mutual
/-- `deserialize_any` -/
def deAny (env : Env) (vis : Visitor) : Nat → Ty → Ty → St → R Val
  | 0, _, _, _ => .err .limit
  | fuel + 1, w0, e0, st0 =>
    (unroll env fuel w0 e0 st0).bind fun (w, e) st =>
      deAnyBody env vis fuel (deAny env vis fuel) (deIgnored env fuel) (recoverable env vis fuel) (deFields env vis fuel) w e st

/-- `deserialize_ignored_any`: skip a value of the wire type (untyped accounting while skipping) -/
def deIgnored (env : Env) : Nat → Ty → St → R Val
  | 0, _, _ => .err .limit
  | fuel + 1, w, st =>
    let was := st.untyped
    (deAny env .ignored fuel w w { st with untyped := true }).bind fun v s => .ok v { s with untyped := was }

/-- `recoverable_visit_some`: try the typed read; on a subtype error restore everything but the quotas
(`config: self.config.clone(), ..self_clone`), charge 10, skip the value at its wire type, answer `null` -/
def recoverable (env : Env) (vis : Visitor) : Nat → Ty → Ty → St → R Val
  | 0, _, _, _ => .err .limit
  | fuel + 1, w, e, st =>
    match (if vis = .ignored then deIgnored env fuel w st else deAny env vis fuel w e st) with
    | .ok v s => .ok (.opt v) s
    | .sub dq sq =>
      (addCost { st with dq := dq, sq := sq } 10).bind fun _ s1 =>
        (deIgnored env fuel w s1).map fun _ => .none
    | .err k => .err k
    | .panic p => .panic p

/-- record fields in merge order (`visit_map` over `next_key_seed` / `next_value_seed`) -/
def deFields (env : Env) (vis : Visitor) : Nat → List FieldStep → St → List (Label × Val) → R Val
  | 0, _, _, _ => .err .limit
  | _ + 1, [], st, acc =>
    -- the final `next_key_seed`, which returns None, also costs 4
    (addCost st 4).map fun _ => .record acc.reverse
  | fuel + 1, step :: rest, st, acc =>
    (addCost st 4).bind fun _ s1 =>
      match step with
      | .both l et wt =>
        (addCost s1 (labelKeyCost l)).bind fun _ s2 =>
          (addCost s2 1).bind fun _ s3 =>
            (if vis = .ignored then deIgnored env fuel wt s3 else deAny env vis fuel wt et s3).bind fun v s4 =>
              deFields env vis fuel rest s4 ((l, v) :: acc)
      | .expectOnly l et =>
        (match env.trace fuel et with
         | none => .err .limit
         | some et' =>
           if !(Sub.isOptLikeTy et') then subErr s1 else
           (addCost s1 (labelKeyCost l)).bind fun _ s2 =>
             (addCost s2 1).bind fun _ s3 =>
               (deAny env vis fuel (.prim .null) et' s3).bind fun v s4 =>
                 deFields env vis fuel rest s4 ((l, v) :: acc))
      | .expectTail l et =>
        (addCost s1 (labelKeyCost l)).bind fun _ s2 =>
          (addCost s2 1).bind fun _ s3 =>
            (deAny env vis fuel (.prim .null) et s3).bind fun v s4 =>
              deFields env vis fuel rest s4 ((l, v) :: acc)
      | .wireOnly wt =>
        -- key "_" (skipped field): add_cost(1); value at expected `reserved`: add_cost(1), skip, add_cost(1)
        (addCost s1 1).bind fun _ s2 =>
          (addCost s2 1).bind fun _ s3 =>
            (deAny env vis fuel wt (.prim .reserved) s3).bind fun _ s4 =>
              deFields env vis fuel rest s4 acc
end

/-! ## the argument sequence (`IDLDeserialize`) -/

structure Config where
  decodingQuota : Option Nat
  skippingQuota : Option Nat
  deriving Repr

structure Decoded where
  vals : List Val
  dq : Option Nat
  sq : Option Nat

def defaultFuel : Nat := 100000

/-- `get_value_with_type` for each expected type, then `done()` -/
def argLoop (env : Env) : List Ty → List Ty → St → List Val → R (List Val)
  | [], ws, st, acc =>
    -- done(): skip the remaining wire values with `get_value::<Reserved>()` (is_untyped := false first)
    let rec drain : List Ty → St → R Unit
      | [], s => .ok () s
      | w :: ws', s =>
        (deIgnored env defaultFuel w { s with untyped := false }).bind fun _ s' => drain ws' s'
    (drain ws st).bind fun _ s =>
      if s.input.isEmpty then .ok acc.reverse s else .err .malformed
  | e :: es, ws, st, acc =>
    let st := { st with untyped := true }
    match env.trace defaultFuel e with
    | none => .err .other
    | some e' =>
      match ws with
      | [] =>
        if Sub.isOptLikeTy e' then
          (deAny env .idl defaultFuel (.prim .null) e' st).bind fun v s => argLoop env es [] s (v :: acc)
        else .err .other
      | w :: ws' =>
        (deAny env .idl defaultFuel w e' st).bind fun v s => argLoop env es ws' s (v :: acc)

/-- `IDLArgs::from_bytes_with_types_with_config` -/
def decodeWithConfig (bs : Bytes) (env : Env) (expected : List Ty) (cfg : Config) : R (List Val) :=
  match parseHeader bs with
  | .err k => .err k
  | .panic p => .panic p
  | .ok (h, body) =>
    -- the caller's environment is merged into the table by `get_value_with_type`, i.e. only if there is an
    -- expected type at all (`check_subtype` charges the size of the table)
    let (full, expected') := if expected.isEmpty then (h.table, expected) else mergeEnv h.table env expected
    let st0 : St := { input := body, gamma := [], dq := cfg.decodingQuota, sq := cfg.skippingQuota, untyped := false }
    -- new_with_config: add_cost(4 * header bytes), not yet untyped
    (addCost st0 ((bs.length - body.length) * 4)).bind fun _ st1 =>
      argLoop full expected' h.args st1 []

end Candid.De
