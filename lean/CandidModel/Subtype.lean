import CandidModel.Types
/-
  Subtyping.

  * `Sub.F` / `Sub.Sub`  — specification layer: the rules of spec/Candid.md §Rules as a monotone functional on
    relations and its greatest fixed point.  As in coq/MiniCandid.v the two "unusual" opt rules with
    negative premises collapse, together with the positive ones, to "anything <: opt t".
  * `Sub.gfpCheck`       — executable greatest fixed point over the reachable pair set (search oracle).
  * `Sub.subAlg`         — mirror of `types/subtype.rs::subtype_` (memo `Gamma`, opt probes on a copy of the
    memo, failure removes the pending pair); `Sub.eqAlg` mirrors `equal_impl`.
-/
namespace Candid.Sub
open Candid

abbrev Rel := Ty → Ty → Prop
abbrev Gamma := List (Ty × Ty)

/-- `to_tuple` (`subtype.rs`): argument lists are compared as tuple records with ids 0,1,2,… -/
def tupleFields : Nat → Tys → Fields
  | _, .nil => .nil
  | i, .cons t r => .cons (.id i) t (tupleFields (i + 1) r)
def tupleTy (ts : Tys) : Ty := .record (tupleFields 0 ts)

/-- field lookup by id; the Rust collects the fields into a `HashMap` keyed by label (last binding wins). -/
def lookupF : Fields → Nat → Option Ty
  | .nil, _ => none
  | .cons l t r, i =>
    match lookupF r i with
    | some t' => some t'
    | none => if l.getId = i then some t else none

def lookupM : Meths → String → Option Ty
  | .nil, _ => none
  | .cons n t r, x =>
    match lookupM r x with
    | some t' => some t'
    | none => if n = x then some t else none

/-- `TypeEnv::rec_find_type`: follow a chain of names to the first non-name definition. -/
def recFind (env : Env) : Nat → String → Option Ty
  | 0, _ => none
  | n + 1, x =>
    match env.find x with
    | none => none
    | some (.var y) => recFind env n y
    | some t => some t

def traceFull (env : Env) (t : Ty) : Option Ty := env.trace (env.length + 2) t
def recFindFull (env : Env) (x : String) : Option Ty := recFind env (env.length + 2) x

def isOptLikeTy : Ty → Bool
  | .prim .null | .prim .reserved | .opt _ => true
  | _ => false

/-- `null <: t`: `t` traces to `null`, `reserved` or an option -/
def optLike (env : Env) (t : Ty) : Bool :=
  match traceFull env t with
  | some t' => isOptLikeTy t'
  | none => false

def isName : Ty → Bool
  | .var _ | .knot _ => true
  | _ => false

/-! ## Specification: one step of the rules, premises in `R` -/

def F (env : Env) (R : Rel) (a b : Ty) : Prop :=
  a = b
  ∨ b = .prim .reserved
  ∨ a = .prim .empty
  ∨ (a = .prim .nat ∧ b = .prim .int)
  ∨ (∃ ms, a = .service ms ∧ b = .principal)
  ∨ (∃ b', b = .opt b' ∧ isName a = false)
  ∨ (∃ a' b', a = .vec a' ∧ b = .vec b' ∧ R a' b')
  ∨ (∃ fs1 fs2, a = .record fs1 ∧ b = .record fs2 ∧
      ∀ p ∈ fs2.toList, match lookupF fs1 p.1.getId with
        | some t1 => R t1 p.2
        | none => optLike env p.2 = true)
  ∨ (∃ fs1 fs2, a = .variant fs1 ∧ b = .variant fs2 ∧
      ∀ p ∈ fs1.toList, match lookupF fs2 p.1.getId with
        | some t2 => R p.2 t2
        | none => False)
  ∨ (∃ a1 r1 m1 a2 r2 m2, a = .func a1 r1 m1 ∧ b = .func a2 r2 m2 ∧ m1 = m2 ∧
      R (tupleTy a2) (tupleTy a1) ∧ R (tupleTy r1) (tupleTy r2))
  ∨ (∃ ms1 ms2, a = .service ms1 ∧ b = .service ms2 ∧
      ∀ p ∈ ms2.toList, match lookupM ms1 p.1 with
        | some t1 => R t1 p.2
        | none => False)
  ∨ (∃ x d, a = .var x ∧ recFindFull env x = some d ∧ R d b)
  ∨ (∃ x d, b = .var x ∧ isName a = false ∧ recFindFull env x = some d ∧ R a d)
  ∨ (∃ args t, a = .cls args t ∧ isName b = false ∧ R t b)
  ∨ (∃ args t, b = .cls args t ∧ isName a = false ∧ (∀ args' t', a ≠ .cls args' t') ∧ R a t)

/-- the subtyping relation: greatest fixed point of `F` -/
def Sub (env : Env) (a b : Ty) : Prop := ∃ R : Rel, (∀ a b, R a b → F env R a b) ∧ R a b

/-! ## The checking algorithm (`subtype_`) -/

inductive Res where
  | yes (g : Gamma)
  | no
  | out
  | panic (site : String)
  deriving Repr

/-- run `f` over a list threading the memo; stop at the first non-`yes` -/
def allM {α : Type} (f : Gamma → α → Res) : Gamma → List α → Res
  | g, [] => .yes g
  | g, x :: xs =>
    match f g x with
    | .yes g' => allM f g' xs
    | r => r

/-- a probe: run on a copy of the memo, commit only on success (`probe` in subtype.rs) -/
def probe (r : Res) (g : Gamma) : Bool × Gamma :=
  match r with
  | .yes g' => (true, g')
  | _ => (false, g)

def subAlg (env : Env) : Nat → Gamma → Ty → Ty → Res
  | 0, _, _, _ => .out
  | n + 1, g, a, b =>
    if a = b then .yes g
    else if isName a ∨ isName b then
      if (a, b) ∈ g then .yes g
      else
        let g1 := (a, b) :: g
        match a, b with
        | .var x, _ =>
          match recFindFull env x with
          | none => .panic "subtype.rs:rec_find_type.unwrap"
          | some d => subAlg env n g1 d b
        | _, .var x =>
          match recFindFull env x with
          | none => .panic "subtype.rs:rec_find_type.unwrap"
          | some d => subAlg env n g1 a d
        | _, _ => .panic "subtype.rs:find_type(knot).unwrap"
    else
      match a, b with
      | _, .prim .reserved => .yes g
      | .prim .empty, _ => .yes g
      | .prim .nat, .prim .int => .yes g
      | .service _, .principal => .yes g
      | .vec a', .vec b' => subAlg env n g a' b'
      | .prim .null, .opt _ => .yes g
      | .opt a', .opt b' =>
        let (ok, g') := probe (subAlg env n g a' b') g
        if ok then .yes g'
        else
          let (ok2, g'') := probe (subAlg env n g' (.opt a') b') g'
          -- `&& !matches!(env.trace_type(ty2)?, …)`: the `?` only runs after a successful probe
          if ok2 ∧ (traceFull env b').isNone then .no else .yes g''
      | _, .opt b' =>
        let (ok, g') := probe (subAlg env n g a b') g
        if ok ∧ (traceFull env b').isNone then .no else .yes g'
      | .record fs1, .record fs2 =>
        allM (fun g p =>
          match lookupF fs1 p.1.getId with
          | some t1 => subAlg env n g t1 p.2
          | none =>
            match traceFull env p.2 with
            | none => .no
            | some t' => if isOptLikeTy t' then .yes g else .no) g fs2.toList
      | .variant fs1, .variant fs2 =>
        allM (fun g p =>
          match lookupF fs2 p.1.getId with
          | some t2 => subAlg env n g p.2 t2
          | none => .no) g fs1.toList
      | .service ms1, .service ms2 =>
        allM (fun g p =>
          match lookupM ms1 p.1 with
          | some t1 => subAlg env n g t1 p.2
          | none => .no) g ms2.toList
      | .func a1 r1 m1, .func a2 r2 m2 =>
        if m1 ≠ m2 then .no
        else
          match subAlg env n g (tupleTy a2) (tupleTy a1) with
          | .yes g' => subAlg env n g' (tupleTy r1) (tupleTy r2)
          | r => r
      | .cls _ t, _ => subAlg env n g t b
      | _, .cls _ t => subAlg env n g a t
      | .unknown, _ => .panic "subtype.rs:unreachable(Unknown)"
      | _, .unknown => .panic "subtype.rs:unreachable(Unknown)"
      | _, _ => .no

/-- default depth budget of the driver (the Rust recursion is bounded by the stack guard) -/
def defaultFuel : Nat := 4000

/-! ## Executable greatest fixed point over the reachable pairs (independent search oracle) -/

/-- immediate premises of the pair `(a, b)` under the rules, or `none` when no rule can apply -/
def premises (env : Env) (a b : Ty) : Option (List (Ty × Ty)) :=
  if a = b then some []
  else match a, b with
  | .var x, _ => (recFindFull env x).map fun d => [(d, b)]
  | _, .var x => (recFindFull env x).map fun d => [(a, d)]
  | .knot _, _ => none
  | _, .knot _ => none
  | _, .prim .reserved => some []
  | .prim .empty, _ => some []
  | .prim .nat, .prim .int => some []
  | .service _, .principal => some []
  | _, .opt _ => some []
  | .vec a', .vec b' => some [(a', b')]
  | .record fs1, .record fs2 =>
    fs2.toList.foldr (fun p acc =>
      match acc with
      | none => none
      | some l =>
        match lookupF fs1 p.1.getId with
        | some t1 => some ((t1, p.2) :: l)
        | none => if optLike env p.2 then some l else none) (some [])
  | .variant fs1, .variant fs2 =>
    fs1.toList.foldr (fun p acc =>
      match acc with
      | none => none
      | some l =>
        match lookupF fs2 p.1.getId with
        | some t2 => some ((p.2, t2) :: l)
        | none => none) (some [])
  | .service ms1, .service ms2 =>
    ms2.toList.foldr (fun p acc =>
      match acc with
      | none => none
      | some l =>
        match lookupM ms1 p.1 with
        | some t1 => some ((t1, p.2) :: l)
        | none => none) (some [])
  | .func a1 r1 m1, .func a2 r2 m2 =>
    if m1 = m2 then some [(tupleTy a2, tupleTy a1), (tupleTy r1, tupleTy r2)] else none
  | .cls _ t, _ => some [(t, b)]
  | _, .cls _ t => some [(a, t)]
  | _, _ => none

/-- breadth-first closure of the premise graph -/
def reach (env : Env) : Nat → List (Ty × Ty) → List (Ty × Ty) → List (Ty × Ty)
  | 0, _, seen => seen
  | _ + 1, [], seen => seen
  | n + 1, p :: todo, seen =>
    if p ∈ seen then reach env n todo seen
    else
      let next := (premises env p.1 p.2).getD []
      reach env n (next ++ todo) (p :: seen)

/-- one refinement round: keep the pairs all of whose premises are still alive -/
def refine (env : Env) (alive : List (Ty × Ty)) : List (Ty × Ty) :=
  alive.filter fun p =>
    match premises env p.1 p.2 with
    | none => false
    | some ps => ps.all fun q => q ∈ alive

def refineIter (env : Env) : Nat → List (Ty × Ty) → List (Ty × Ty)
  | 0, alive => alive
  | n + 1, alive =>
    let alive' := refine env alive
    if alive'.length = alive.length then alive else refineIter env n alive'

def gfpCheck (env : Env) (a b : Ty) : Bool :=
  let pairs := reach env 100000 [(a, b)] []
  let alive := refineIter env (pairs.length + 1) pairs
  decide ((a, b) ∈ alive)

/-! ## Structural equality (`equal_impl`) -/

def eqAlg (env : Env) : Nat → Gamma → Ty → Ty → Res
  | 0, _, _, _ => .out
  | n + 1, g, a, b =>
    if a = b then .yes g
    else if isName a ∨ isName b then
      if (a, b) ∈ g then .yes g
      else
        let g1 := (a, b) :: g
        match a, b with
        | .var x, _ =>
          match recFindFull env x with
          | none => .panic "subtype.rs:rec_find_type.unwrap"
          | some d => eqAlg env n g1 d b
        | _, .var x =>
          match recFindFull env x with
          | none => .panic "subtype.rs:rec_find_type.unwrap"
          | some d => eqAlg env n g1 a d
        | _, _ => .panic "subtype.rs:find_type(knot).unwrap"
    else
      match a, b with
      | .opt a', .opt b' => eqAlg env n g a' b'
      | .vec a', .vec b' => eqAlg env n g a' b'
      | .record fs1, .record fs2 | .variant fs1, .variant fs2 =>
        if fs1.toList.length ≠ fs2.toList.length then .no
        else allM (fun g p =>
          if p.1.1.getId ≠ p.2.1.getId then .no else eqAlg env n g p.1.2 p.2.2) g (fs1.toList.zip fs2.toList)
      | .service ms1, .service ms2 =>
        if ms1.toList.length ≠ ms2.toList.length then .no
        else allM (fun g p =>
          if p.1.1 ≠ p.2.1 then .no else eqAlg env n g p.1.2 p.2.2) g (ms1.toList.zip ms2.toList)
      | .func a1 r1 m1, .func a2 r2 m2 =>
        if m1 ≠ m2 then .no
        else
          match eqAlg env n g (tupleTy a1) (tupleTy a2) with
          | .yes g' => eqAlg env n g' (tupleTy r1) (tupleTy r2)
          | r => r
      | .cls i1 t1, .cls i2 t2 =>
        match eqAlg env n g (tupleTy i1) (tupleTy i2) with
        | .yes g' => eqAlg env n g' t1 t2
        | r => r
      | .unknown, _ => .panic "subtype.rs:unreachable(Unknown)"
      | _, .unknown => .panic "subtype.rs:unreachable(Unknown)"
      | _, _ => .no

/-! ## `TypeEnv::merge_type` (used by the text-level upgrade check) -/

mutual
def substTy (tau : List (String × String)) : Ty → Ty
  | .var x => match tau.lookup x with | some y => .var y | none => .var x
  | .opt t => .opt (substTy tau t)
  | .vec t => .vec (substTy tau t)
  | .record fs => .record (substFields tau fs)
  | .variant fs => .variant (substFields tau fs)
  | .func a r m => .func (substTys tau a) (substTys tau r) m
  | .service ms => .service (substMeths tau ms)
  | .cls a t => .cls (substTys tau a) (substTy tau t)
  | t => t
def substFields (tau : List (String × String)) : Fields → Fields
  | .nil => .nil
  | .cons l t r => .cons l (substTy tau t) (substFields tau r)
def substTys (tau : List (String × String)) : Tys → Tys
  | .nil => .nil
  | .cons t r => .cons (substTy tau t) (substTys tau r)
def substMeths (tau : List (String × String)) : Meths → Meths
  | .nil => .nil
  | .cons n t r => .cons n (substTy tau t) (substMeths tau r)
end

/-- `self.merge_type(env2, ty)`: names of `env2` already bound in `self` are renamed `k/1` everywhere in
`env2` and in `ty` -/
def mergeType (env1 env2 : Env) (ty : Ty) : Env × Ty :=
  let tau := (env2.filter fun p => (env1.find p.1).isSome).map fun p => (p.1, p.1 ++ "/1")
  let moved := env2.map fun p =>
    ((match tau.lookup p.1 with | some k => k | none => p.1), substTy tau p.2)
  (env1 ++ moved, substTy tau ty)

/-- independent reading of "compare the new interface with the old one": rename *every* name of the
old environment apart (suffix `'`), take the disjoint union -/
def disjointUnion (env1 env2 : Env) (ty : Ty) : Env × Ty :=
  let tau := env2.map fun p => (p.1, p.1 ++ "'")
  (env1.map (fun p => (p.1, p.2)) ++ env2.map (fun p => (p.1 ++ "'", substTy tau p.2)), substTy tau ty)

end Candid.Sub
