import CandidModel.Types
import CandidModel.Leb
import CandidModel.Subtype
/-
  The binary format, specification level (spec/Candid.md §Binary Format, §Coercion), with the documented
  limits of the Rust implementation (type table ≤ 10 000 entries, LEB128 numbers in the header and lengths
  read through `leb128::read` ≤ 10 bytes / `try_read_leb_u64` ≤ 9 bytes, principals ≤ 29 bytes).

    parseHeader  : T⁻¹  — magic, type table, argument types   (binary_parser.rs `Header::read` + `to_types`)
    decVal       : M⁻¹  — a value of a wire type
    coerce       : the relation  v : t ~> v' : t'  as a function of (t, t', v)
    decodeArgs   : whole message at an expected type sequence
    encodeArgs   : T / M — the encoder (ser.rs `TypeSerialize` + value serialisation)

  `decodeArgs` is "decode, then coerce"; the Rust decoder interleaves the two.  Every wire byte is
  validated either way, so the two agree on acceptance and on the result.
-/
namespace Candid.Wire
open Candid Candid.Leb

/-! ## readers -/

/-- `leb128::read::unsigned` (header numbers, `Len::read`, `PrincipalBytes.len`): at most 10 bytes, value < 2^64 -/
def readLebCrate (bs : Bytes) : Outcome (Nat × Bytes) :=
  match splitLeb bs with
  | none => .err .eof
  | some (p, r) => if p.length ≤ 10 ∧ uval p < 2 ^ 64 then .ok (uval p, r) else .err .overflow

/-- `leb128::read::signed`: at most 10 bytes, the tenth byte is 0x00 or 0x7f -/
def readSlebCrate (bs : Bytes) : Outcome (Int × Bytes) :=
  match splitLeb bs with
  | none => .err .eof
  | some (p, r) =>
    if p.length < 10 then .ok (sval p, r)
    else if p.length = 10 ∧ (p.getLast? = some 0x00 ∨ p.getLast? = some 0x7f) then .ok (sval p, r)
    else .err .overflow

/-- `Deserializer::read_len` (`try_read_leb_u64`): at most 9 bytes -/
def readLenDe (bs : Bytes) : Outcome (Nat × Bytes) :=
  match splitLeb bs with
  | none => .err .eof
  | some (p, r) => if p.length ≤ 9 then .ok (uval p, r) else .err .overflow

def takeN (n : Nat) (bs : Bytes) : Outcome (Bytes × Bytes) :=
  if n ≤ bs.length then .ok (bs.take n, bs.drop n) else .err .eof

/-- little-endian unsigned of `k` bytes -/
def leVal : Bytes → Nat
  | [] => 0
  | b :: r => b.toNat + 256 * leVal r

def toSigned (bits : Nat) (n : Nat) : Int :=
  if n < 2 ^ (bits - 1) then (n : Int) else (n : Int) - (2 : Int) ^ bits

def utf8 (bs : Bytes) : Option String := String.fromUTF8? (ByteArray.mk bs.toArray)

/-! ## the header -/

def primOfIndex : Int → Option Ty
  | -1 => some (.prim .null) | -2 => some (.prim .bool) | -3 => some (.prim .nat) | -4 => some (.prim .int)
  | -5 => some (.prim .nat8) | -6 => some (.prim .nat16) | -7 => some (.prim .nat32) | -8 => some (.prim .nat64)
  | -9 => some (.prim .int8) | -10 => some (.prim .int16) | -11 => some (.prim .int32) | -12 => some (.prim .int64)
  | -13 => some (.prim .float32) | -14 => some (.prim .float64) | -15 => some (.prim .text)
  | -16 => some (.prim .reserved) | -17 => some (.prim .empty) | -24 => some .principal
  | _ => none

def tableName (i : Nat) : String := "table" ++ toString i

/-- `IndexType` + `to_type`: a primitive opcode or an index below the table length -/
def readIndexType (len : Nat) (bs : Bytes) : Outcome (Ty × Bytes) :=
  match readSlebCrate bs with
  | .ok (i, r) =>
    if i ≥ 0 then (if i.toNat < len then .ok (.var (tableName i.toNat), r) else .err .malformed)
    else match primOfIndex i with
      | some t => .ok (t, r)
      | none => .err .malformed
  | .err k => .err k
  | .panic s => .panic s

def readMany {α : Type} (f : Bytes → Outcome (α × Bytes)) : Nat → Bytes → Outcome (List α × Bytes)
  | 0, bs => .ok ([], bs)
  | n + 1, bs =>
    match f bs with
    | .ok (a, r) =>
      (match readMany f n r with
       | .ok (as, r') => .ok (a :: as, r')
       | .err k => .err k
       | .panic s => .panic s)
    | .err k => .err k
    | .panic s => .panic s

/-- a count that is followed by at least that many items of ≥ 1 byte each can never exceed the input -/
def boundedCount (n : Nat) (bs : Bytes) : Bool := n ≤ bs.length

def strictlyAscending : List Nat → Bool
  | a :: b :: r => a < b && strictlyAscending (b :: r)
  | _ => true

def strictlyAscendingStr : List String → Bool
  | a :: b :: r => a < b && strictlyAscendingStr (b :: r)
  | _ => true

def readField (len : Nat) (bs : Bytes) : Outcome ((Nat × Ty) × Bytes) :=
  match readLebCrate bs with
  | .ok (id, r) =>
    if id ≥ 2 ^ 32 then .err .malformed
    else (match readIndexType len r with
      | .ok (t, r') => .ok ((id, t), r')
      | .err k => .err k
      | .panic s => .panic s)
  | .err k => .err k
  | .panic s => .panic s

def readMeth (len : Nat) (bs : Bytes) : Outcome ((String × Ty) × Bytes) :=
  match readLebCrate bs with
  | .ok (n, r) =>
    (match takeN n r with
     | .ok (nameBytes, r') =>
       (match utf8 nameBytes with
        | none => .err .malformed
        | some name =>
          match readIndexType len r' with
          | .ok (t, r'') => .ok ((name, t), r'')
          | .err k => .err k
          | .panic s => .panic s)
     | .err k => .err k
     | .panic s => .panic s)
  | .err k => .err k
  | .panic s => .panic s

def modeOfByte (b : UInt8) : Option FuncMode :=
  if b = 1 then some .query else if b = 2 then some .oneway else if b = 3 then some .compositeQuery else none

/-- one type-table entry (`ConsType` + `to_type`) -/
def readConsType (len : Nat) (bs : Bytes) : Outcome (Ty × Bytes) :=
  match bs with
  | [] => .err .eof
  | op :: r =>
    if op = 0x6e then (readIndexType len r).map fun (t, r') => (.opt t, r')
    else if op = 0x6d then (readIndexType len r).map fun (t, r') => (.vec t, r')
    else if op = 0x6c ∨ op = 0x6b then
      match readLebCrate r with
      | .ok (n, r1) =>
        if n ≥ 2 ^ 32 ∨ !boundedCount n r1 then .err .malformed else
        (match readMany (readField len) n r1 with
         | .ok (fs, r2) =>
           if strictlyAscending (fs.map (·.1)) then
             let fields := Fields.ofList (fs.map fun (i, t) => (Label.id i, t))
             .ok (if op = 0x6c then .record fields else .variant fields, r2)
           else .err .malformed
         | .err k => .err k
         | .panic s => .panic s)
      | .err k => .err k
      | .panic s => .panic s
    else if op = 0x6a then
      match readLebCrate r with
      | .ok (na, r1) =>
        if !boundedCount na r1 then .err .eof else
        (match readMany (readIndexType len) na r1 with
         | .ok (args, r2) =>
           (match readLebCrate r2 with
            | .ok (nr, r3) =>
              if !boundedCount nr r3 then .err .eof else
              (match readMany (readIndexType len) nr r3 with
               | .ok (rets, r4) =>
                 (match r4 with
                  | [] => .err .eof
                  | annLen :: r5 =>
                    if annLen = 0 then .ok (.func (Tys.ofList args) (Tys.ofList rets) [], r5)
                    else if annLen = 1 then
                      (match r5 with
                       | [] => .err .eof
                       | m :: r6 =>
                         match modeOfByte m with
                         | some mode => .ok (.func (Tys.ofList args) (Tys.ofList rets) [mode], r6)
                         | none => .err .malformed)
                    else .err .malformed)
               | .err k => .err k
               | .panic s => .panic s)
            | .err k => .err k
            | .panic s => .panic s)
         | .err k => .err k
         | .panic s => .panic s)
      | .err k => .err k
      | .panic s => .panic s
    else if op = 0x69 then
      match readLebCrate r with
      | .ok (n, r1) =>
        if !boundedCount n r1 then .err .eof else
        (match readMany (readMeth len) n r1 with
         | .ok (ms, r2) =>
           if strictlyAscendingStr (ms.map (·.1)) then .ok (.service (Meths.ofList ms), r2)
           else .err .malformed
         | .err k => .err k
         | .panic s => .panic s)
      | .err k => .err k
      | .panic s => .panic s
    else
      -- future type: SLEB opcode < -24, a length, that many bytes
      match readSlebCrate bs with
      | .ok (code, r1) =>
        if code < -24 then
          (match readLebCrate r1 with
           | .ok (n, r2) => (takeN n r2).map fun (_, r3) => (.future, r3)
           | .err k => .err k
           | .panic s => .panic s)
        else .err .malformed
      | .err k => .err k
      | .panic s => .panic s

def maxTypeTableLen : Nat := 10000

/-- methods of every service entry must point at a table entry that is a function -/
def methodsAreFuncs (env : Env) : Bool :=
  env.all fun (_, t) =>
    match t with
    | .service ms => ms.toList.all fun (_, mt) =>
        match mt with
        | .var x => (match env.find x with | some (.func _ _ _) => true | _ => false)
        | _ => false
    | _ => true

/-- `TypeEnv::replace_empty`: greatest fixed point of "a record with an uninhabited field" -/
def emptyStep (env : Env) (cand : List String) : List String :=
  cand.filter fun x =>
    match env.find x with
    | some (.record fs) => fs.toList.any fun (_, t) =>
        match t with
        | .var y => cand.contains y
        | _ => false
    | _ => false

def emptyIter (env : Env) : Nat → List String → List String
  | 0, c => c
  | n + 1, c =>
    let c' := emptyStep env c
    if c'.length = c.length then c else emptyIter env n c'

def replaceEmpty (env : Env) : Env :=
  let empties := emptyIter env (env.length + 1) (env.map (·.1))
  env.map fun (k, t) => if empties.contains k then (k, .prim .empty) else (k, t)

structure Header where
  table : Env
  args : List Ty
  deriving Repr

def magic : Bytes := [0x44, 0x49, 0x44, 0x4c]

def parseHeader (bs : Bytes) (maxLen : Nat := maxTypeTableLen) : Outcome (Header × Bytes) :=
  if bs.take 4 ≠ magic then .err .malformed else
  match readLebCrate (bs.drop 4) with
  | .ok (n, r) =>
    if n > maxLen ∨ !boundedCount n r then .err .limit else
    (match readMany (readConsType n) n r with
     | .ok (entries, r1) =>
       let env : Env := (List.range n).zip entries |>.map fun (i, t) => (tableName i, t)
       if !methodsAreFuncs env then .err .malformed else
       (match readLebCrate r1 with
        | .ok (na, r2) =>
          if !boundedCount na r2 then .err .eof else
          (match readMany (readIndexType n) na r2 with
           | .ok (args, r3) => .ok ({ table := replaceEmpty env, args := args }, r3)
           | .err k => .err k
           | .panic s => .panic s)
        | .err k => .err k
        | .panic s => .panic s)
     | .err k => .err k
     | .panic s => .panic s)
  | .err k => .err k
  | .panic s => .panic s

/-! ## values of a wire type (`M⁻¹`) -/

/-- a `principal`-shaped reference: flag 1, length ≤ 29, the bytes -/
def readPrincipal (bs : Bytes) : Outcome (Bytes × Bytes) :=
  match bs with
  | [] => .err .eof
  | flag :: r =>
    if flag ≠ 1 then .err .unsupported else
    match readLebCrate r with
    | .ok (n, r1) => if n > 29 then .err .limit else takeN n r1
    | .err k => .err k
    | .panic s => .panic s

def readFixed (k : Nat) (bs : Bytes) : Outcome (Nat × Bytes) :=
  (takeN k bs).map fun (b, r) => (leVal b, r)

def decPrim (p : Prim) (bs : Bytes) : Outcome (Val × Bytes) :=
  match p with
  | .null => .ok (.null, bs)
  | .reserved => .ok (.reserved, bs)
  | .empty => .err .malformed
  | .bool => (match bs with
      | [] => .err .eof
      | b :: r => if b = 0 then .ok (.bool false, r) else if b = 1 then .ok (.bool true, r) else .err .malformed)
  | .nat => (match specReadNat bs with | some (n, r) => .ok (.nat n, r) | none => .err .eof)
  | .int => (match specReadInt bs with | some (i, r) => .ok (.int i, r) | none => .err .eof)
  | .nat8 => (readFixed 1 bs).map fun (n, r) => (.nat8 n, r)
  | .nat16 => (readFixed 2 bs).map fun (n, r) => (.nat16 n, r)
  | .nat32 => (readFixed 4 bs).map fun (n, r) => (.nat32 n, r)
  | .nat64 => (readFixed 8 bs).map fun (n, r) => (.nat64 n, r)
  | .int8 => (readFixed 1 bs).map fun (n, r) => (.int8 (toSigned 8 n), r)
  | .int16 => (readFixed 2 bs).map fun (n, r) => (.int16 (toSigned 16 n), r)
  | .int32 => (readFixed 4 bs).map fun (n, r) => (.int32 (toSigned 32 n), r)
  | .int64 => (readFixed 8 bs).map fun (n, r) => (.int64 (toSigned 64 n), r)
  | .float32 => (readFixed 4 bs).map fun (n, r) => (.float32 n, r)
  | .float64 => (readFixed 8 bs).map fun (n, r) => (.float64 n, r)
  | .text =>
    match readLenDe bs with
    | .ok (n, r) =>
      (match takeN n r with
       | .ok (b, r') => (match utf8 b with | some s => .ok (.text s, r') | none => .err .malformed)
       | .err k => .err k
       | .panic s => .panic s)
    | .err k => .err k
    | .panic s => .panic s

/-- decode `n` values with `f`, threading the input -/
def decMany (f : Bytes → Outcome (Val × Bytes)) : Nat → Bytes → Outcome (List Val × Bytes)
  | 0, bs => .ok ([], bs)
  | n + 1, bs =>
    match f bs with
    | .ok (v, r) =>
      (match decMany f n r with
       | .ok (vs, r') => .ok (v :: vs, r')
       | .err k => .err k
       | .panic s => .panic s)
    | .err k => .err k
    | .panic s => .panic s

def decFields (f : Ty → Bytes → Outcome (Val × Bytes)) : List (Label × Ty) → Bytes → Outcome (List (Label × Val) × Bytes)
  | [], bs => .ok ([], bs)
  | (l, t) :: rest, bs =>
    match f t bs with
    | .ok (v, r) =>
      (match decFields f rest r with
       | .ok (vs, r') => .ok ((l, v) :: vs, r')
       | .err k => .err k
       | .panic s => .panic s)
    | .err k => .err k
    | .panic s => .panic s

/-- a value of wire type `t`; `fuel` bounds the nesting (the Rust decoder is bounded by its stack guard).
A vector of `n` elements needs `n ≤` remaining bytes unless its elements are zero-sized, in which case
the Rust decoder iterates `n` times as well (metered by the quota only). -/
def decVal (env : Env) : Nat → Ty → Bytes → Outcome (Val × Bytes)
  | 0, _, _ => .err .limit
  | fuel + 1, t, bs =>
    match t with
    | .prim p => decPrim p bs
    | .principal => (readPrincipal bs).map fun (b, r) => (.principal b, r)
    | .var x =>
      (match env.find x with
       | some t' => decVal env fuel t' bs
       | none => .err .other)
    | .opt t' =>
      (match bs with
       | [] => .err .eof
       | b :: r =>
         if b = 0 then .ok (.none, r)
         else if b = 1 then (decVal env fuel t' r).map fun (v, r') => (.opt v, r')
         else .err .malformed)
    | .vec t' =>
      (match readLenDe bs with
       | .ok (n, r) => (decMany (decVal env fuel t') n r).map fun (vs, r') => (.vec vs, r')
       | .err k => .err k
       | .panic s => .panic s)
    | .record fs => (decFields (decVal env fuel) fs.toList bs).map fun (vs, r) => (.record vs, r)
    | .variant fs =>
      (match readLebCrate bs with
       | .ok (i, r) =>
         (match fs.toList[i]? with
          | none => .err .malformed
          | some (l, t') => (decVal env fuel t' r).map fun (v, r') => (.variant l v i, r'))
       | .err k => .err k
       | .panic s => .panic s)
    | .func _ _ _ =>
      (match bs with
       | [] => .err .eof
       | b :: r =>
         if b = 0 then .err .unsupported
         else if b ≠ 1 then .err .malformed
         else
           match readPrincipal r with
           | .ok (pid, r1) =>
             (match readLenDe r1 with
              | .ok (n, r2) =>
                (match takeN n r2 with
                 | .ok (m, r3) => (match utf8 m with | some s => .ok (.func pid s, r3) | none => .err .malformed)
                 | .err k => .err k
                 | .panic s => .panic s)
              | .err k => .err k
              | .panic s => .panic s)
           | .err k => .err k
           | .panic s => .panic s)
    | .service _ => (readPrincipal bs).map fun (b, r) => (.service b, r)
    | .future =>
      (match readLenDe bs with
       | .ok (n, r) =>
         (match readLenDe r with
          | .ok (_, r1) => (takeN n r1).map fun (_, r2) => (.null, r2)
          | .err k => .err k
          | .panic s => .panic s)
       | .err k => .err k
       | .panic s => .panic s)
    | _ => .err .other

/-! ## coercion -/

def fieldVal (fs : List (Label × Val)) (id : Nat) : Option Val :=
  match fs with
  | [] => none
  | (l, v) :: r => if l.getId = id then some v else fieldVal r id

def isBlobTy (env : Env) (t : Ty) : Bool :=
  match t with
  | .vec e => (match Sub.traceFull env e with | some (.prim .nat8) => true | _ => false)
  | _ => false

def bytesOfVals : List Val → Option Bytes
  | [] => some []
  | .nat8 n :: r => (bytesOfVals r).map (n.toUInt8 :: ·)
  | _ => none

def mapOutcomes {α β : Type} (f : α → Outcome β) : List α → Outcome (List β)
  | [] => .ok []
  | a :: r =>
    match f a with
    | .ok b => (match mapOutcomes f r with | .ok bs => .ok (b :: bs) | .err k => .err k | .panic s => .panic s)
    | .err k => .err k
    | .panic s => .panic s

/-- `v : w ~> v' : e`.  Failures are `err subtype` (what an enclosing `opt` turns into `null`). -/
def coerce (env : Env) : Nat → Ty → Ty → Val → Outcome Val
  | 0, _, _, _ => .err .limit
  | fuel + 1, w, e, v =>
    match Sub.traceFull env w, Sub.traceFull env e with
    | some w', some e' =>
      (match e' with
      | .prim .reserved => .ok .reserved
      | .opt e2 =>
        (match w', v with
         | .prim .null, _ => .ok .none
         | .prim .reserved, _ => .ok .none
         | .opt _, .none => .ok .none
         | .opt w2, .opt v2 =>
           (match coerce env fuel w2 e2 v2 with
            | .ok v' => .ok (.opt v')
            | .err .subtype => .ok .none
            | .err k => .err k
            | .panic s => .panic s)
         | .opt _, _ => .err .other
         | _, _ =>
           (match coerce env fuel w' e2 v with
            | .ok v' => .ok (.opt v')
            | .err .subtype => .ok .none
            | .err k => .err k
            | .panic s => .panic s))
      | .prim .int =>
        (match w', v with
         | .prim .int, .int i => .ok (.int i)
         | .prim .nat, .nat n => .ok (.int n)
         | _, _ => .err .subtype)
      | .prim .empty => .err .subtype
      | .prim p => if w' = .prim p then .ok v else .err .subtype
      | .principal =>
        (match w', v with
         | .principal, .principal b => .ok (.principal b)
         | .service _, .service b => .ok (.principal b)
         | _, _ => .err .subtype)
      | .vec e2 =>
        (match w', v with
         | .vec w2, .vec vs =>
           if isBlobTy env e' then
             (if isBlobTy env w' then
                (match bytesOfVals vs with | some b => .ok (.blob b) | none => .err .other)
              else if vs.isEmpty then .ok (.blob []) else .err .subtype)
           else
             (mapOutcomes (coerce env fuel w2 e2) vs).map Val.vec
         | _, _ => .err .subtype)
      | .record efs =>
        (match w', v with
         | .record wfs, .record vfs =>
           (mapOutcomes (fun (p : Label × Ty) =>
              match fieldVal vfs p.1.getId, Sub.lookupF wfs p.1.getId with
              | some fv, some wt => (coerce env fuel wt p.2 fv).map fun v' => (p.1, v')
              | _, _ =>
                match Sub.traceFull env p.2 with
                | some (.opt _) => .ok (p.1, .none)
                | some (.prim .null) => .ok (p.1, .null)
                | some (.prim .reserved) => .ok (p.1, .reserved)
                | _ => .err .subtype) efs.toList).map Val.record
         | _, _ => .err .subtype)
      | .variant efs =>
        (match w', v with
         | .variant wfs, .variant l v2 _ =>
           (match efs.toList.find? (fun p => p.1.getId = l.getId), Sub.lookupF wfs l.getId with
            | some (el, et), some wt => (coerce env fuel wt et v2).map fun v' => .variant el v' 0
            | _, _ => .err .subtype)
         | _, _ => .err .subtype)
      | .func _ _ _ =>
        (match v with
         | .func b m =>
           (match Sub.subAlg env Sub.defaultFuel [] w' e' with
            | .yes _ => .ok (.func b m)
            | _ => .err .subtype)
         | _ => .err .subtype)
      | .service _ =>
        (match v with
         | .service b =>
           (match Sub.subAlg env Sub.defaultFuel [] w' e' with
            | .yes _ => .ok (.service b)
            | _ => .err .subtype)
         | _ => .err .subtype)
      | .future => .ok .null
      | _ => .err .other)
    | _, _ => .err .other

/-- The type table of a message and the caller's environment are separate name spaces (the table has no
names on the wire at all): the caller's definitions are renamed apart from the generated `table<i>` names
before the two are put together.  (`TypeEnv::merge` in the Rust fails with "inconsistent binding" when the
caller defines a name of the form `table<i>` differently — known finding KF-C02-table-name-clash.) -/
def mergeEnv (tbl env : Env) (expected : List Ty) : Env × List Ty :=
  let tau := (env.filter fun p => (tbl.find p.1).isSome).map fun p => (p.1, p.1 ++ "/caller")
  let env' := env.map fun p =>
    ((match tau.lookup p.1 with | some k => k | none => p.1), Sub.substTy tau p.2)
  (tbl ++ env', expected.map (Sub.substTy tau))

def decArgs (env : Env) (fuel : Nat) : List Ty → Bytes → Outcome (List Val × Bytes)
  | [], bs => .ok ([], bs)
  | t :: ts, bs =>
    match decVal env fuel t bs with
    | .ok (v, r) =>
      (match decArgs env fuel ts r with
       | .ok (vs, r') => .ok (v :: vs, r')
       | .err k => .err k
       | .panic s => .panic s)
    | .err k => .err k
    | .panic s => .panic s

def coerceArgs (env : Env) (fuel : Nat) : List Ty → List Val → List Ty → Outcome (List Val)
  | _, _, [] => .ok []
  | w :: ws, v :: vs, e :: es =>
    (match coerce env fuel w e v with
     | .ok v' => (coerceArgs env fuel ws vs es).map (v' :: ·)
     | .err k => .err k
     | .panic s => .panic s)
  | _, _, e :: es =>
    -- no more values on the wire: the expected type must be opt, null or reserved
    (match Sub.traceFull env e with
     | some (.opt _) => (coerceArgs env fuel [] [] es).map (Val.none :: ·)
     | some (.prim .null) => (coerceArgs env fuel [] [] es).map (Val.null :: ·)
     | some (.prim .reserved) => (coerceArgs env fuel [] [] es).map (Val.reserved :: ·)
     | _ => .err .subtype)

def defaultFuel : Nat := 600

/-- decode a message at an expected type sequence (`IDLArgs::from_bytes_with_types`) -/
def decodeArgs (bs : Bytes) (env : Env) (expected : List Ty) : Outcome (List Val) :=
  match parseHeader bs with
  | .ok (h, body) =>
    let (full, expected') := mergeEnv h.table env expected
    (match decArgs full defaultFuel h.args body with
     | .ok (vs, []) => coerceArgs full defaultFuel h.args vs expected'
     | .ok (_, _ :: _) => .err .malformed
     | .err k => .err k
     | .panic s => .panic s)
  | .err k => .err k
  | .panic s => .panic s

/-- decode a message at its own types (`IDLArgs::from_bytes`) -/
def decodeSelf (bs : Bytes) : Outcome (List Val) :=
  match parseHeader bs with
  | .ok (h, body) =>
    (match decArgs h.table defaultFuel h.args body with
     | .ok (vs, []) => coerceArgs h.table defaultFuel h.args vs h.args
     | .ok (_, _ :: _) => .err .malformed
     | .err k => .err k
     | .panic s => .panic s)
  | .err k => .err k
  | .panic s => .panic s

end Candid.Wire
