import CandidModel.Types
import CandidModel.Leb
import CandidModel.Subtype
/-
  The binary format, specification level (spec/Candid.md §Binary Format, §Coercion), with the documented
  limits of the Rust implementation (type table ≤ 10 000 entries, LEB128 numbers in the header and lengths
  read through `leb128::read` ≤ 10 bytes / `try_read_leb_u64` ≤ 9 bytes, principals ≤ 29 bytes).

    parseHeader  : T⁻¹  — magic, type table, argument types   (binary_parser.rs `Header::read` + `to_types`)
    decVal       : M⁻¹  — a value of a wire type
    coerce       : the relation  v : t ~> v' : t'  as a function of (t, t', v)
    decodeArgs   : whole message at an expected type sequence
    encodeArgs   : T / M — the encoder (ser.rs `TypeSerialize` + value serialisation)

  `decodeArgs` is "decode, then coerce"; the Rust decoder interleaves the two.  Every wire byte is
  validated either way, so the two agree on acceptance and on the result.
-/
namespace Candid.Wire
open Candid Candid.Leb

/-! ## readers -/

/-- `leb128::read::unsigned` (header numbers, `Len::read`, `PrincipalBytes.len`): at most 10 bytes, value < 2^64 -/
def readLebCrate (bs : Bytes) : Outcome (Nat × Bytes) :=
  match splitLeb bs with
  | none => .err .eof
  | some (p, r) => if p.length ≤ 10 ∧ uval p < 2 ^ 64 then .ok (uval p, r) else .err .overflow

/-- `leb128::read::signed`: at most 10 bytes, the tenth byte is 0x00 or 0x7f -/
def readSlebCrate (bs : Bytes) : Outcome (Int × Bytes) :=
  match splitLeb bs with
  | none => .err .eof
  | some (p, r) =>
    if p.length < 10 then .ok (sval p, r)
    else if p.length = 10 ∧ (p.getLast? = some 0x00 ∨ p.getLast? = some 0x7f) then .ok (sval p, r)
    else .err .overflow

/-- `Deserializer::read_len` (`try_read_leb_u64`): at most 9 bytes -/
def readLenDe (bs : Bytes) : Outcome (Nat × Bytes) :=
  match splitLeb bs with
  | none => .err .eof
  | some (p, r) => if p.length ≤ 9 then .ok (uval p, r) else .err .overflow

def takeN (n : Nat) (bs : Bytes) : Outcome (Bytes × Bytes) :=
  if n ≤ bs.length then .ok (bs.take n, bs.drop n) else .err .eof

/-- little-endian unsigned of `k` bytes -/
def leVal : Bytes → Nat
  | [] => 0
  | b :: r => b.toNat + 256 * leVal r

def toSigned (bits : Nat) (n : Nat) : Int :=
  if n < 2 ^ (bits - 1) then (n : Int) else (n : Int) - (2 : Int) ^ bits

def utf8 (bs : Bytes) : Option String := String.fromUTF8? (ByteArray.mk bs.toArray)

/-! ## the header -/

def primOfIndex : Int → Option Ty
  | -1 => some (.prim .null) | -2 => some (.prim .bool) | -3 => some (.prim .nat) | -4 => some (.prim .int)
  | -5 => some (.prim .nat8) | -6 => some (.prim .nat16) | -7 => some (.prim .nat32) | -8 => some (.prim .nat64)
  | -9 => some (.prim .int8) | -10 => some (.prim .int16) | -11 => some (.prim .int32) | -12 => some (.prim .int64)
  | -13 => some (.prim .float32) | -14 => some (.prim .float64) | -15 => some (.prim .text)
  | -16 => some (.prim .reserved) | -17 => some (.prim .empty) | -24 => some .principal
  | _ => none

def tableName (i : Nat) : String := "table" ++ toString i

/-- `IndexType` + `to_type`: a primitive opcode or an index below the table length -/
def readIndexType (len : Nat) (bs : Bytes) : Outcome (Ty × Bytes) :=
  match readSlebCrate bs with
  | .ok (i, r) =>
    if i ≥ 0 then (if i.toNat < len then .ok (.var (tableName i.toNat), r) else .err .malformed)
    else match primOfIndex i with
      | some t => .ok (t, r)
      | none => .err .malformed
  | .err k => .err k
  | .panic s => .panic s

def readMany {α : Type} (f : Bytes → Outcome (α × Bytes)) : Nat → Bytes → Outcome (List α × Bytes)
  | 0, bs => .ok ([], bs)
  | n + 1, bs =>
    match f bs with
    | .ok (a, r) =>
      (match readMany f n r with
       | .ok (as, r') => .ok (a :: as, r')
       | .err k => .err k
       | .panic s => .panic s)
    | .err k => .err k
    | .panic s => .panic s

/-- a count that is followed by at least that many items of ≥ 1 byte each can never exceed the input -/
def boundedCount (n : Nat) (bs : Bytes) : Bool := n ≤ bs.length

def strictlyAscending : List Nat → Bool
  | a :: b :: r => a < b && strictlyAscending (b :: r)
  | _ => true

def strictlyAscendingStr : List String → Bool
  | a :: b :: r => a < b && strictlyAscendingStr (b :: r)
  | _ => true

def readField (len : Nat) (bs : Bytes) : Outcome ((Nat × Ty) × Bytes) :=
  match readLebCrate bs with
  | .ok (id, r) =>
    if id ≥ 2 ^ 32 then .err .malformed
    else (match readIndexType len r with
      | .ok (t, r') => .ok ((id, t), r')
      | .err k => .err k
      | .panic s => .panic s)
  | .err k => .err k
  | .panic s => .panic s

def readMeth (len : Nat) (bs : Bytes) : Outcome ((String × Ty) × Bytes) :=
  match readLebCrate bs with
  | .ok (n, r) =>
    (match takeN n r with
     | .ok (nameBytes, r') =>
       (match utf8 nameBytes with
        | none => .err .malformed
        | some name =>
          match readIndexType len r' with
          | .ok (t, r'') => .ok ((name, t), r'')
          | .err k => .err k
          | .panic s => .panic s)
     | .err k => .err k
     | .panic s => .panic s)
  | .err k => .err k
  | .panic s => .panic s

def modeOfByte (b : UInt8) : Option FuncMode :=
  if b = 1 then some .query else if b = 2 then some .oneway else if b = 3 then some .compositeQuery else none

/-- one type-table entry (`ConsType` + `to_type`) -/
def readConsType (len : Nat) (bs : Bytes) : Outcome (Ty × Bytes) :=
  match bs with
  | [] => .err .eof
  | op :: r =>
    if op = 0x6e then (readIndexType len r).map fun (t, r') => (.opt t, r')
    else if op = 0x6d then (readIndexType len r).map fun (t, r') => (.vec t, r')
    else if op = 0x6c ∨ op = 0x6b then
      match readLebCrate r with
      | .ok (n, r1) =>
        if n ≥ 2 ^ 32 ∨ !boundedCount n r1 then .err .malformed else
        (match readMany (readField len) n r1 with
         | .ok (fs, r2) =>
           if strictlyAscending (fs.map (·.1)) then
             let fields := Fields.ofList (fs.map fun (i, t) => (Label.id i, t))
             .ok (if op = 0x6c then .record fields else .variant fields, r2)
           else .err .malformed
         | .err k => .err k
         | .panic s => .panic s)
      | .err k => .err k
      | .panic s => .panic s
    else if op = 0x6a then
      match readLebCrate r with
      | .ok (na, r1) =>
        if !boundedCount na r1 then .err .eof else
        (match readMany (readIndexType len) na r1 with
         | .ok (args, r2) =>
           (match readLebCrate r2 with
            | .ok (nr, r3) =>
              if !boundedCount nr r3 then .err .eof else
              (match readMany (readIndexType len) nr r3 with
               | .ok (rets, r4) =>
                 (match r4 with
                  | [] => .err .eof
                  | annLen :: r5 =>
                    if annLen = 0 then .ok (.func (Tys.ofList args) (Tys.ofList rets) [], r5)
                    else if annLen = 1 then
                      (match r5 with
                       | [] => .err .eof
                       | m :: r6 =>
                         match modeOfByte m with
                         | some mode => .ok (.func (Tys.ofList args) (Tys.ofList rets) [mode], r6)
                         | none => .err .malformed)
                    else .err .malformed)
               | .err k => .err k
               | .panic s => .panic s)
            | .err k => .err k
            | .panic s => .panic s)
         | .err k => .err k
         | .panic s => .panic s)
      | .err k => .err k
      | .panic s => .panic s
    else if op = 0x69 then
      match readLebCrate r with
      | .ok (n, r1) =>
        if !boundedCount n r1 then .err .eof else
        (match readMany (readMeth len) n r1 with
         | .ok (ms, r2) =>
           if strictlyAscendingStr (ms.map (·.1)) then .ok (.service (Meths.ofList ms), r2)
           else .err .malformed
         | .err k => .err k
         | .panic s => .panic s)
      | .err k => .err k
      | .panic s => .panic s
    else
      -- future type: SLEB opcode < -24, a length, that many bytes
      match readSlebCrate bs with
      | .ok (code, r1) =>
        if code < -24 then
          (match readLebCrate r1 with
           | .ok (n, r2) => (takeN n r2).map fun (_, r3) => (.future, r3)
           | .err k => .err k
           | .panic s => .panic s)
        else .err .malformed
      | .err k => .err k
      | .panic s => .panic s

def maxTypeTableLen : Nat := Gen.maxTypeTableLen

/-- methods of every service entry must point at a table entry that is a function -/
def methodsAreFuncs (env : Env) : Bool :=
  env.all fun (_, t) =>
    match t with
    | .service ms => ms.toList.all fun (_, mt) =>
        match mt with
        | .var x => (match env.find x with | some (.func _ _ _) => true | _ => false)
        | _ => false
    | _ => true

/-- `TypeEnv::replace_empty`: greatest fixed point of "a record with an uninhabited field" -/
def emptyStep (env : Env) (cand : List String) : List String :=
  cand.filter fun x =>
    match env.find x with
    | some (.record fs) => fs.toList.any fun (_, t) =>
        match t with
        | .var y => cand.contains y
        | _ => false
    | _ => false

def emptyIter (env : Env) : Nat → List String → List String
  | 0, c => c
  | n + 1, c =>
    let c' := emptyStep env c
    if c'.length = c.length then c else emptyIter env n c'

def replaceEmpty (env : Env) : Env :=
  let empties := emptyIter env (env.length + 1) (env.map (·.1))
  env.map fun (k, t) => if empties.contains k then (k, .prim .empty) else (k, t)

structure Header where
  table : Env
  /-- the table as written, before `replace_empty` -/
  rawTable : Env
  args : List Ty
  deriving Repr

def magic : Bytes := [0x44, 0x49, 0x44, 0x4c]

def parseHeader (bs : Bytes) (maxLen : Nat := maxTypeTableLen) : Outcome (Header × Bytes) :=
  if bs.take 4 ≠ magic then .err .malformed else
  match readLebCrate (bs.drop 4) with
  | .ok (n, r) =>
    if n > maxLen ∨ !boundedCount n r then .err .limit else
    (match readMany (readConsType n) n r with
     | .ok (entries, r1) =>
       let env : Env := (List.range n).zip entries |>.map fun (i, t) => (tableName i, t)
       if !methodsAreFuncs env then .err .malformed else
       (match readLebCrate r1 with
        | .ok (na, r2) =>
          if !boundedCount na r2 then .err .eof else
          (match readMany (readIndexType n) na r2 with
           | .ok (args, r3) => .ok ({ table := replaceEmpty env, rawTable := env, args := args }, r3)
           | .err k => .err k
           | .panic s => .panic s)
        | .err k => .err k
        | .panic s => .panic s)
     | .err k => .err k
     | .panic s => .panic s)
  | .err k => .err k
  | .panic s => .panic s

/-! ## values of a wire type (`M⁻¹`) -/

/-- a `principal`-shaped reference: flag 1, length ≤ 29, the bytes -/
def readPrincipal (bs : Bytes) : Outcome (Bytes × Bytes) :=
  match bs with
  | [] => .err .eof
  | flag :: r =>
    if flag ≠ 1 then .err .unsupported else
    match readLebCrate r with
    | .ok (n, r1) => if n > Gen.wirePrincipalMax then .err .limit else takeN n r1
    | .err k => .err k
    | .panic s => .panic s

def readFixed (k : Nat) (bs : Bytes) : Outcome (Nat × Bytes) :=
  (takeN k bs).map fun (b, r) => (leVal b, r)

def decPrim (p : Prim) (bs : Bytes) : Outcome (Val × Bytes) :=
  match p with
  | .null => .ok (.null, bs)
  | .reserved => .ok (.reserved, bs)
  | .empty => .err .malformed
  | .bool => (match bs with
      | [] => .err .eof
      | b :: r => if b = 0 then .ok (.bool false, r) else if b = 1 then .ok (.bool true, r) else .err .malformed)
  | .nat => (match specReadNat bs with | some (n, r) => .ok (.nat n, r) | none => .err .eof)
  | .int => (match specReadInt bs with | some (i, r) => .ok (.int i, r) | none => .err .eof)
  | .nat8 => (readFixed 1 bs).map fun (n, r) => (.nat8 n, r)
  | .nat16 => (readFixed 2 bs).map fun (n, r) => (.nat16 n, r)
  | .nat32 => (readFixed 4 bs).map fun (n, r) => (.nat32 n, r)
  | .nat64 => (readFixed 8 bs).map fun (n, r) => (.nat64 n, r)
  | .int8 => (readFixed 1 bs).map fun (n, r) => (.int8 (toSigned 8 n), r)
  | .int16 => (readFixed 2 bs).map fun (n, r) => (.int16 (toSigned 16 n), r)
  | .int32 => (readFixed 4 bs).map fun (n, r) => (.int32 (toSigned 32 n), r)
  | .int64 => (readFixed 8 bs).map fun (n, r) => (.int64 (toSigned 64 n), r)
  | .float32 => (readFixed 4 bs).map fun (n, r) => (.float32 n, r)
  | .float64 => (readFixed 8 bs).map fun (n, r) => (.float64 n, r)
  | .text =>
    match readLenDe bs with
    | .ok (n, r) =>
      (match takeN n r with
       | .ok (b, r') => (match utf8 b with | some s => .ok (.text s, r') | none => .err .malformed)
       | .err k => .err k
       | .panic s => .panic s)
    | .err k => .err k
    | .panic s => .panic s

/-- decode `n` values with `f`, threading the input -/
def decMany (f : Bytes → Outcome (Val × Bytes)) : Nat → Bytes → Outcome (List Val × Bytes)
  | 0, bs => .ok ([], bs)
  | n + 1, bs =>
    match f bs with
    | .ok (v, r) =>
      (match decMany f n r with
       | .ok (vs, r') => .ok (v :: vs, r')
       | .err k => .err k
       | .panic s => .panic s)
    | .err k => .err k
    | .panic s => .panic s

def decFields (f : Ty → Bytes → Outcome (Val × Bytes)) : List (Label × Ty) → Bytes → Outcome (List (Label × Val) × Bytes)
  | [], bs => .ok ([], bs)
  | (l, t) :: rest, bs =>
    match f t bs with
    | .ok (v, r) =>
      (match decFields f rest r with
       | .ok (vs, r') => .ok ((l, v) :: vs, r')
       | .err k => .err k
       | .panic s => .panic s)
    | .err k => .err k
    | .panic s => .panic s

/-- a value of wire type `t`; `fuel` bounds the nesting (the Rust decoder is bounded by its stack guard).
A vector of `n` elements needs `n ≤` remaining bytes unless its elements are zero-sized, in which case
the Rust decoder iterates `n` times as well (metered by the quota only). -/
def decVal (env : Env) : Nat → Ty → Bytes → Outcome (Val × Bytes)
  | 0, _, _ => .err .limit
  | fuel + 1, t, bs =>
    match t with
    | .prim p => decPrim p bs
    | .principal => (readPrincipal bs).map fun (b, r) => (.principal b, r)
    | .var x =>
      (match env.find x with
       | some t' => decVal env fuel t' bs
       | none => .err .other)
    | .opt t' =>
      (match bs with
       | [] => .err .eof
       | b :: r =>
         if b = 0 then .ok (.none, r)
         else if b = 1 then (decVal env fuel t' r).map fun (v, r') => (.opt v, r')
         else .err .malformed)
    | .vec t' =>
      (match readLenDe bs with
       | .ok (n, r) => (decMany (decVal env fuel t') n r).map fun (vs, r') => (.vec vs, r')
       | .err k => .err k
       | .panic s => .panic s)
    | .record fs => (decFields (decVal env fuel) fs.toList bs).map fun (vs, r) => (.record vs, r)
    | .variant fs =>
      (match readLebCrate bs with
       | .ok (i, r) =>
         (match fs.toList[i]? with
          | none => .err .malformed
          | some (l, t') => (decVal env fuel t' r).map fun (v, r') => (.variant l v i, r'))
       | .err k => .err k
       | .panic s => .panic s)
    | .func _ _ _ =>
      (match bs with
       | [] => .err .eof
       | b :: r =>
         if b = 0 then .err .unsupported
         else if b ≠ 1 then .err .malformed
         else
           match readPrincipal r with
           | .ok (pid, r1) =>
             (match readLenDe r1 with
              | .ok (n, r2) =>
                (match takeN n r2 with
                 | .ok (m, r3) => (match utf8 m with | some s => .ok (.func pid s, r3) | none => .err .malformed)
                 | .err k => .err k
                 | .panic s => .panic s)
              | .err k => .err k
              | .panic s => .panic s)
           | .err k => .err k
           | .panic s => .panic s)
    | .service _ => (readPrincipal bs).map fun (b, r) => (.service b, r)
    | .future =>
      (match readLenDe bs with
       | .ok (n, r) =>
         (match readLenDe r with
          | .ok (_, r1) => (takeN n r1).map fun (_, r2) => (.null, r2)
          | .err k => .err k
          | .panic s => .panic s)
       | .err k => .err k
       | .panic s => .panic s)
    | _ => .err .other

/-! ## coercion -/

def fieldVal (fs : List (Label × Val)) (id : Nat) : Option Val :=
  match fs with
  | [] => none
  | (l, v) :: r => if l.getId = id then some v else fieldVal r id

def isBlobTy (env : Env) (t : Ty) : Bool :=
  match t with
  | .vec e => (match Sub.traceFull env e with | some (.prim .nat8) => true | _ => false)
  | _ => false

def bytesOfVals : List Val → Option Bytes
  | [] => some []
  | .nat8 n :: r => (bytesOfVals r).map (n.toUInt8 :: ·)
  | _ => none

def mapOutcomes {α β : Type} (f : α → Outcome β) : List α → Outcome (List β)
  | [] => .ok []
  | a :: r =>
    match f a with
    | .ok b => (match mapOutcomes f r with | .ok bs => .ok (b :: bs) | .err k => .err k | .panic s => .panic s)
    | .err k => .err k
    | .panic s => .panic s

/-- does `e` unfold to `opt (opt (opt …))` for ever?  (`type O = opt O`): peel options, counting the
definitions passed through; more than `|env|` of them means a cycle. -/
def optCycleFrom (env : Env) : Nat → Nat → Ty → Bool
  | 0, _, _ => false
  | fuel + 1, seen, t =>
    match t with
    | .opt t' => optCycleFrom env fuel seen t'
    | .var x =>
      if seen > env.length then true
      else match env.find x with
        | some d => optCycleFrom env fuel (seen + 1) d
        | none => false
    | _ => false

def isOptCycle (env : Env) (t : Ty) : Bool := optCycleFrom env (16 * (env.length + 2) + t.size) 0 t

/-- `v : w ~> v' : e`.  Failures are `err subtype` (what an enclosing `opt` turns into `null`). -/
def coerce (env : Env) (specMu : Bool := true) (subEnv : Env := env) : Nat → Ty → Ty → Val → Outcome Val
  | 0, _, _, _ => .err .limit
  | fuel + 1, w, e, v =>
    match Sub.traceFull env w, Sub.traceFull env e with
    | some w', some e' =>
      (match e' with
      | .prim .reserved => .ok .reserved
      | .opt e2 =>
        (match w', v with
         | .prim .null, _ => .ok .none
         | .prim .reserved, _ => .ok .none
         | .opt _, .none => .ok .none
         | .opt w2, .opt v2 =>
           (match coerce env specMu subEnv fuel w2 e2 v2 with
            | .ok v' => .ok (.opt v')
            | .err .subtype => .ok .none
            | .err k => .err k
            | .panic s => .panic s)
         | .opt _, _ => .err .other
         | _, _ =>
           -- an expected type that is options all the way down has no finite coercion derivation:
           -- the constituent rule cannot apply and the catch-all rule gives `null`
           if isOptCycle env e2 then (if specMu then .ok .none else .err .limit) else
           (match coerce env specMu subEnv fuel w' e2 v with
            | .ok v' => .ok (.opt v')
            | .err .subtype => .ok .none
            | .err k => .err k
            | .panic s => .panic s))
      | .prim .int =>
        (match w', v with
         | .prim .int, .int i => .ok (.int i)
         | .prim .nat, .nat n => .ok (.int n)
         | _, _ => .err .subtype)
      | .prim .empty => .err .subtype
      | .prim p => if w' = .prim p then .ok v else .err .subtype
      | .principal =>
        (match w', v with
         | .principal, .principal b => .ok (.principal b)
         | .service _, .service b => .ok (.principal b)
         | _, _ => .err .subtype)
      | .vec e2 =>
        (match w', v with
         | .vec w2, .vec vs =>
           if isBlobTy env e' then
             (if isBlobTy env w' then
                (match bytesOfVals vs with | some b => .ok (.blob b) | none => .err .other)
              else if vs.isEmpty then .ok (.blob []) else .err .subtype)
           else
             (mapOutcomes (coerce env specMu subEnv fuel w2 e2) vs).map Val.vec
         | _, _ => .err .subtype)
      | .record efs =>
        (match w', v with
         | .record wfs, .record vfs =>
           (mapOutcomes (fun (p : Label × Ty) =>
              match fieldVal vfs p.1.getId, Sub.lookupF wfs p.1.getId with
              | some fv, some wt => (coerce env specMu subEnv fuel wt p.2 fv).map fun v' => (p.1, v')
              | _, _ =>
                match Sub.traceFull env p.2 with
                | some (.opt _) => .ok (p.1, .none)
                | some (.prim .null) => .ok (p.1, .null)
                | some (.prim .reserved) => .ok (p.1, .reserved)
                | _ => .err .subtype) efs.toList).map Val.record
         | _, _ => .err .subtype)
      | .variant efs =>
        (match w', v with
         | .variant wfs, .variant l v2 i =>
           -- the index is no part of the abstract value (the driver does not print it); the wire's is kept
           (match efs.toList.find? (fun p => p.1.getId = l.getId), Sub.lookupF wfs l.getId with
            | some (el, et), some wt => (coerce env specMu subEnv fuel wt et v2).map fun v' => .variant el v' i
            | _, _ => .err .subtype)
         | _, _ => .err .subtype)
      | .func _ _ _ =>
        (match v with
         | .func b m =>
           (match Sub.subAlg subEnv Sub.defaultFuel [] w' e' with
            | .yes _ => .ok (.func b m)
            | .no => .err .subtype
            | .out => .err .limit       -- the check ran out of its depth budget (a stack-guard error in the Rust)
            | .panic p => .panic p)
         | _ => .err .subtype)
      | .service _ =>
        (match v with
         | .service b =>
           (match Sub.subAlg subEnv Sub.defaultFuel [] w' e' with
            | .yes _ => .ok (.service b)
            | .no => .err .subtype
            | .out => .err .limit
            | .panic p => .panic p)
         | _ => .err .subtype)
      | .future => .ok .null
      | _ => .err .other)
    | _, _ => .err .other

/-- The type table of a message and the caller's environment are separate name spaces (the table has no
names on the wire at all): the caller's definitions are renamed apart from the generated `table<i>` names
before the two are put together.  (`TypeEnv::merge` in the Rust fails with "inconsistent binding" when the
caller defines a name of the form `table<i>` differently — known finding KF-C02-table-name-clash.) -/
def mergeEnv (tbl env : Env) (expected : List Ty) : Env × List Ty :=
  let tau := (env.filter fun p => (tbl.find p.1).isSome).map fun p => (p.1, p.1 ++ "/caller")
  let env' := env.map fun p =>
    ((match tau.lookup p.1 with | some k => k | none => p.1), Sub.substTy tau p.2)
  (tbl ++ env', expected.map (Sub.substTy tau))

def decArgs (env : Env) (fuel : Nat) : List Ty → Bytes → Outcome (List Val × Bytes)
  | [], bs => .ok ([], bs)
  | t :: ts, bs =>
    match decVal env fuel t bs with
    | .ok (v, r) =>
      (match decArgs env fuel ts r with
       | .ok (vs, r') => .ok (v :: vs, r')
       | .err k => .err k
       | .panic s => .panic s)
    | .err k => .err k
    | .panic s => .panic s

def coerceArgs (env : Env) (fuel : Nat) (specMu : Bool := true) (subEnv : Env := env) : List Ty → List Val → List Ty → Outcome (List Val)
  | _, _, [] => .ok []
  | w :: ws, v :: vs, e :: es =>
    (match coerce env specMu subEnv fuel w e v with
     | .ok v' => (coerceArgs env fuel specMu subEnv ws vs es).map (v' :: ·)
     | .err k => .err k
     | .panic s => .panic s)
  | _, _, e :: es =>
    -- no more values on the wire: the expected type must be opt, null or reserved
    (match Sub.traceFull env e with
     | some (.opt _) => (coerceArgs env fuel specMu subEnv [] [] es).map (Val.none :: ·)
     | some (.prim .null) => (coerceArgs env fuel specMu subEnv [] [] es).map (Val.null :: ·)
     | some (.prim .reserved) => (coerceArgs env fuel specMu subEnv [] [] es).map (Val.reserved :: ·)
     | _ => .err .subtype)

def defaultFuel : Nat := 100000

/-- decode a message at an expected type sequence (`IDLArgs::from_bytes_with_types`) -/
def decodeArgs (bs : Bytes) (env : Env) (expected : List Ty) (specMu : Bool := true) (specRefs : Bool := true) : Outcome (List Val) :=
  match parseHeader bs with
  | .ok (h, body) =>
    let (full, expected') := mergeEnv h.table env expected
    (match decArgs full defaultFuel h.args body with
     | .ok (vs, []) =>
       -- reference types are compared in the table as written (spec) or after `replace_empty` (Rust)
       let subEnv := if specRefs then (mergeEnv h.rawTable env expected).1 else full
       coerceArgs full defaultFuel specMu subEnv h.args vs expected'
     | .ok (_, _ :: _) => .err .malformed
     | .err k => .err k
     | .panic s => .panic s)
  | .err k => .err k
  | .panic s => .panic s

/-- Is some expected tuple (record with ids 0..n-1, n > 0) matched against a wire record that does not start
with the ids 0..n-1?  Native tuple visitors pair components by position and reject such a wire record even
when the missing components are optional (known finding KF-C08-tuple-nonpositional). -/
def tupleNonPositional (env : Env) : Nat → Ty → Ty → Bool
  | 0, _, _ => false
  | fuel + 1, w, e =>
    match Sub.traceFull env w, Sub.traceFull env e with
    | some (.opt w'), some (.opt e') => tupleNonPositional env fuel w' e'
    | some w', some (.opt e') => tupleNonPositional env fuel w' e'
    | some (.vec w'), some (.vec e') => tupleNonPositional env fuel w' e'
    | some (.record wfs), some (.record efs) =>
      let eids := efs.toList.map (·.1.getId)
      let wids := wfs.toList.map (·.1.getId)
      let isTuple := eids ≠ [] ∧ eids = List.range eids.length
      (isTuple ∧ wids.take eids.length ≠ (List.range eids.length).take wids.length) ||
        efs.toList.any fun p => match Sub.lookupF wfs p.1.getId with
          | some wt => tupleNonPositional env fuel wt p.2
          | none => false
    | some (.variant wfs), some (.variant efs) =>
      efs.toList.any fun p => match Sub.lookupF wfs p.1.getId with
        | some wt => tupleNonPositional env fuel wt p.2
        | none => false
    | _, _ => false

/-- the same test, with the entries of a map set aside when asked: a Rust map decodes `vec record { 0 : K; 1 : V }`
through its own accessor, which pairs key and value by id (a missing optional component is fine there); only the
components of such an entry are looked into -/
def tupleNonPositionalX (env : Env) (exemptMapEntries : Bool) : Nat → Ty → Ty → Bool
  | 0, _, _ => false
  | fuel + 1, w, e =>
    match Sub.traceFull env w, Sub.traceFull env e with
    | some (.opt w'), some (.opt e') => tupleNonPositionalX env exemptMapEntries fuel w' e'
    | some w', some (.opt e') => tupleNonPositionalX env exemptMapEntries fuel w' e'
    | some (.vec w'), some (.vec e') =>
      (match exemptMapEntries, Sub.traceFull env w', Sub.traceFull env e' with
       | true, some (.record wfs), some (.record efs) =>
         if efs.toList.map (·.1.getId) = [0, 1] then
           efs.toList.any fun p => match Sub.lookupF wfs p.1.getId with
             | some wt => tupleNonPositionalX env exemptMapEntries fuel wt p.2
             | none => false
         else tupleNonPositionalX env exemptMapEntries fuel w' e'
       | _, _, _ => tupleNonPositionalX env exemptMapEntries fuel w' e')
    | some (.record wfs), some (.record efs) =>
      let eids := efs.toList.map (·.1.getId)
      let wids := wfs.toList.map (·.1.getId)
      let isTuple := eids ≠ [] ∧ eids = List.range eids.length
      (isTuple ∧ wids.take eids.length ≠ (List.range eids.length).take wids.length) ||
        efs.toList.any fun p => match Sub.lookupF wfs p.1.getId with
          | some wt => tupleNonPositionalX env exemptMapEntries fuel wt p.2
          | none => false
    | some (.variant wfs), some (.variant efs) =>
      efs.toList.any fun p => match Sub.lookupF wfs p.1.getId with
        | some wt => tupleNonPositionalX env exemptMapEntries fuel wt p.2
        | none => false
    | _, _ => false

/-- decode a message at its own types (`IDLArgs::from_bytes`) -/
def decodeSelf (bs : Bytes) (specMu : Bool := true) (specRefs : Bool := true) : Outcome (List Val) :=
  match parseHeader bs with
  | .ok (h, body) =>
    (match decArgs h.table defaultFuel h.args body with
     | .ok (vs, []) => coerceArgs h.table defaultFuel specMu (if specRefs then h.rawTable else h.table) h.args vs h.args
     | .ok (_, _ :: _) => .err .malformed
     | .err k => .err k
     | .panic s => .panic s)
  | .err k => .err k
  | .panic s => .panic s

end Candid.Wire

/-! ## the encoder (`ser.rs`, `IDLValue::annotate_type`, `IDLValue::idl_serialize`) -/
namespace Candid.Wire
open Candid Candid.Leb

/-- little-endian bytes of the low `k` bytes of `n` -/
def leBytes : Nat → Nat → Bytes
  | 0, _ => []
  | k + 1, n => (n % 256).toUInt8 :: leBytes k (n / 256)

def ofSigned (bits : Nat) (i : Int) : Nat := (i % (2 : Int) ^ bits).toNat

def strBytes (s : String) : Bytes := s.toUTF8.data.toList

/-- `Number(str)`: an undetermined numeral of the text format (underscores already removed by the lexer) -/
def parseNumber (s : String) : Option Int := s.toInt?

def inRangeU (bits : Nat) (i : Int) : Bool := 0 ≤ i ∧ i < (2 : Int) ^ bits
def inRangeS (bits : Nat) (i : Int) : Bool := -(2 : Int) ^ (bits - 1) ≤ i ∧ i < (2 : Int) ^ (bits - 1)

/-- `IDLValue::annotate_type(from_parser, env, t)` -/
def annotate (fromParser : Bool) (env : Env) : Nat → Val → Ty → Outcome Val
  | 0, _, _ => .err .limit
  | fuel + 1, v, t =>
    match t with
    | .var x =>
      (match Sub.recFind env fuel x with
       | some t' => annotate fromParser env fuel v t'
       | none => .err .other)
    | .knot _ => .panic "value.rs:find_type(knot).unwrap"
    | .prim .reserved => .ok .reserved
    | _ =>
      match v, t with
      | .float64 b, .prim .float32 =>
        if fromParser then .err .unsupported   -- `*n as f32`: float rounding is not modelled
        else .err .other
      | .null, .prim .null => .ok .null
      | .bool b, .prim .bool => .ok (.bool b)
      | .nat n, .prim .nat => .ok (.nat n)
      | .int i, .prim .int => .ok (.int i)
      | .nat n, .prim .int => .ok (.int n)
      | .nat8 n, .prim .nat8 => .ok (.nat8 n)
      | .nat16 n, .prim .nat16 => .ok (.nat16 n)
      | .nat32 n, .prim .nat32 => .ok (.nat32 n)
      | .nat64 n, .prim .nat64 => .ok (.nat64 n)
      | .int8 n, .prim .int8 => .ok (.int8 n)
      | .int16 n, .prim .int16 => .ok (.int16 n)
      | .int32 n, .prim .int32 => .ok (.int32 n)
      | .int64 n, .prim .int64 => .ok (.int64 n)
      | .float64 b, .prim .float64 => .ok (.float64 b)
      | .float32 b, .prim .float32 => .ok (.float32 b)
      | .text s, .prim .text => .ok (.text s)
      | .null, .opt _ => .ok .none
      | .reserved, .opt _ => .ok .none
      | .none, .opt _ => .ok .none
      | .opt v', .opt t' =>
        if fromParser then (annotate fromParser env fuel v' t').map Val.opt
        else (match annotate fromParser env fuel v' t' with
          | .ok v'' => .ok (.opt v'')
          | .panic s => .panic s
          | .err _ => .ok .none)
      | v, .opt t' =>
        if fromParser then .err .other
        else
          (match env.trace fuel t' with
           | none => .err .other
           | some tt =>
             if Sub.isOptLikeTy tt then .ok .none
             else match annotate fromParser env fuel v t' with
               | .ok v'' => .ok (.opt v'')
               | .panic s => .panic s
               | .err _ => .ok .none)
      | .blob b, t =>
        if isBlobTy env t then .ok (.blob b) else .err .other
      | .vec vs, .vec t' =>
        if isBlobTy env t then
          (mapOutcomes (fun (e : Val) => match e with
            | .nat8 n => (.ok n : Outcome Nat)
            | .number s => (match parseNumber s with
                | some i => if inRangeU 8 i then .ok i.toNat else .err .other
                | none => .err .other)
            | _ => .err .other) vs).map fun ns => Val.blob (ns.map Nat.toUInt8)
        else (mapOutcomes (fun e => annotate fromParser env fuel e t') vs).map Val.vec
      | .record vfs, .record fs =>
        (mapOutcomes (fun (p : Label × Ty) =>
          let found := (vfs.reverse.find? fun q => q.1.getId = p.1.getId).map (·.2)
          let val : Option Val := match found with
            | some x => some x
            | none => match env.trace fuel p.2 with
              | some (.prim .null) => some .null
              | some (.opt _) => some .none
              | some (.prim .reserved) => some .reserved
              | _ => none
          match val with
          | none => .err .other
          | some x => (annotate fromParser env fuel x p.2).map fun x' => (p.1, x')) fs.toList).map Val.record
      | .variant l v' _, .variant fs =>
        (match (fs.toList.zipIdx).find? (fun q => q.1.1.getId = l.getId) with
         | some ((fl, ft), i) => (annotate fromParser env fuel v' ft).map fun x => .variant fl x i
         | none => .err .other)
      | .principal b, .principal => .ok (.principal b)
      | .service b, .service _ => .ok (.service b)
      | .func b m, .func _ _ _ => .ok (.func b m)
      | .number s, t =>
        if !fromParser then .err .other else
        (match parseNumber s, t with
         | some i, .prim .int => .ok (.int i)
         | some i, .prim .nat => if 0 ≤ i then .ok (.nat i.toNat) else .err .other
         | some i, .prim .nat8 => if inRangeU 8 i then .ok (.nat8 i.toNat) else .err .other
         | some i, .prim .nat16 => if inRangeU 16 i then .ok (.nat16 i.toNat) else .err .other
         | some i, .prim .nat32 => if inRangeU 32 i then .ok (.nat32 i.toNat) else .err .other
         | some i, .prim .nat64 => if inRangeU 64 i then .ok (.nat64 i.toNat) else .err .other
         | some i, .prim .int8 => if inRangeS 8 i then .ok (.int8 i) else .err .other
         | some i, .prim .int16 => if inRangeS 16 i then .ok (.int16 i) else .err .other
         | some i, .prim .int32 => if inRangeS 32 i then .ok (.int32 i) else .err .other
         | some i, .prim .int64 => if inRangeS 64 i then .ok (.int64 i) else .err .other
         | _, _ => .err .other)
      | _, _ => .err .other

def serPrincipal (b : Bytes) : Bytes := 1 :: (uleb b.length ++ b)
def serText (s : String) : Bytes := uleb (strBytes s).length ++ strBytes s

/-- `IDLValue::idl_serialize` on an annotated value (the value alone determines the bytes) -/
def serVal : Nat → Val → Outcome Bytes
  | 0, _ => .err .limit
  | fuel + 1, v =>
    match v with
    | .null | .reserved => .ok []
    | .bool b => .ok [if b then 1 else 0]
    | .number s => (match parseNumber s with | some i => .ok (Impl.intEncode i) | none => .err .other)
    | .int i => .ok (Impl.intEncode i)
    | .nat n => .ok (Impl.natEncode n)
    | .nat8 n => .ok (leBytes 1 n) | .nat16 n => .ok (leBytes 2 n)
    | .nat32 n => .ok (leBytes 4 n) | .nat64 n => .ok (leBytes 8 n)
    | .int8 i => .ok (leBytes 1 (ofSigned 8 i)) | .int16 i => .ok (leBytes 2 (ofSigned 16 i))
    | .int32 i => .ok (leBytes 4 (ofSigned 32 i)) | .int64 i => .ok (leBytes 8 (ofSigned 64 i))
    | .float32 b => .ok (leBytes 4 b) | .float64 b => .ok (leBytes 8 b)
    | .text s => .ok (serText s)
    | .none => .ok [0]
    | .opt v' => (serVal fuel v').map fun b => 1 :: b
    | .vec vs => (mapOutcomes (serVal fuel) vs).map fun bs => uleb vs.length ++ bs.flatten
    | .blob b => .ok (uleb b.length ++ b)
    | .record fs => (mapOutcomes (fun (p : Label × Val) => serVal fuel p.2) fs).map List.flatten
    | .variant _ v' idx => (serVal fuel v').map fun b => uleb idx ++ b
    | .principal b => .ok (serPrincipal b)
    | .service b => .ok (serPrincipal b)
    | .func b m => .ok (1 :: (serPrincipal b ++ serText m))

/-- state of `TypeSerialize` -/
structure TypeSer where
  table : List Bytes
  map : List (Ty × Nat)
  deriving Repr

def isPrimitiveTy : Ty → Outcome Bool
  | .prim _ => .ok true
  | .principal => .ok true
  | .knot _ => .ok true
  | .unknown => .panic "internal.rs:is_primitive(Unknown)"
  | .future => .panic "internal.rs:is_primitive(Future)"
  | .var _ => .panic "internal.rs:is_primitive(Var)"
  | _ => .ok false

def opcodeOfPrim : Prim → Int
  | .null => -1 | .bool => -2 | .nat => -3 | .int => -4 | .nat8 => -5 | .nat16 => -6 | .nat32 => -7
  | .nat64 => -8 | .int8 => -9 | .int16 => -10 | .int32 => -11 | .int64 => -12 | .float32 => -13
  | .float64 => -14 | .text => -15 | .reserved => -16 | .empty => -17

def lookupTy (m : List (Ty × Nat)) (t : Ty) : Option Nat :=
  match m with
  | [] => none
  | (k, i) :: r => if k = t then some i else lookupTy r t

/-- `TypeSerialize::encode`: the reference to a type inside the table or the argument list -/
def encodeTyRef (env : Env) (st : TypeSer) (t : Ty) : Outcome Bytes :=
  let direct : Ty → Outcome Bytes := fun t =>
    match t with
    | .prim p => .ok (sleb (opcodeOfPrim p))
    | .principal => .ok (sleb (-24))
    | .knot _ => .err .other
    | .future => .panic "ser.rs:encode(Future)"
    | t => match lookupTy st.map t with
      | some i => .ok (sleb i)
      | none => .err .other
  match t with
  | .var x =>
    (match Sub.recFindFull env x with
     | none => .err .other
     | some actual =>
       match isPrimitiveTy actual with
       | .ok true => direct actual
       | .ok false => direct t
       | .err k => .err k
       | .panic s => .panic s)
  | t => direct t

def setAt {α : Type} (l : List α) (i : Nat) (a : α) : List α :=
  l.zipIdx.map fun (x, j) => if j = i then a else x

def foldOutcome {α σ : Type} (f : σ → α → Outcome σ) : σ → List α → Outcome σ
  | s, [] => .ok s
  | s, a :: r =>
    match f s a with
    | .ok s' => foldOutcome f s' r
    | .err k => .err k
    | .panic p => .panic p

def concatOutcomes (l : List (Outcome Bytes)) : Outcome Bytes :=
  l.foldr (fun x acc => match x, acc with
    | .ok a, .ok b => .ok (a ++ b)
    | .panic s, _ => .panic s
    | .err k, _ => .err k
    | _, .panic s => .panic s
    | _, .err k => .err k) (.ok [])

/-- `TypeSerialize::build_type` -/
def buildType (env : Env) : Nat → TypeSer → Ty → Outcome TypeSer
  | 0, _, _ => .err .limit
  | fuel + 1, st, t =>
    if (lookupTy st.map t).isSome then .ok st else
    let actualO : Outcome Ty := match t with
      | .var x => (match Sub.recFindFull env x with | some a => .ok a | none => .err .other)
      | t => .ok t
    match actualO with
    | .err k => .err k
    | .panic s => .panic s
    | .ok actual =>
      match isPrimitiveTy actual with
      | .err k => .err k
      | .panic s => .panic s
      | .ok true => .ok st
      | .ok false =>
        let idx := st.table.length
        let st1 : TypeSer := { table := st.table ++ [[]], map := st.map ++ [(t, idx)] }
        let finish (st2 : TypeSer) (buf : Outcome Bytes) : Outcome TypeSer :=
          match buf with
          | .ok b => .ok { st2 with table := setAt st2.table idx b }
          | .err k => .err k
          | .panic s => .panic s
        match actual with
        | .opt ty =>
          (match buildType env fuel st1 ty with
           | .ok st2 => finish st2 ((encodeTyRef env st2 ty).map fun r => sleb (-18) ++ r)
           | e => e)
        | .vec ty =>
          (match buildType env fuel st1 ty with
           | .ok st2 => finish st2 ((encodeTyRef env st2 ty).map fun r => sleb (-19) ++ r)
           | e => e)
        | .record fs =>
          (match foldOutcome (buildType env fuel) st1 (fs.toList.map (·.2)) with
           | .ok st2 => finish st2 ((concatOutcomes (fs.toList.map fun (l, ty) =>
               (encodeTyRef env st2 ty).map fun r => uleb l.getId ++ r)).map fun body =>
               sleb (-20) ++ uleb fs.toList.length ++ body)
           | e => e)
        | .variant fs =>
          (match foldOutcome (buildType env fuel) st1 (fs.toList.map (·.2)) with
           | .ok st2 => finish st2 ((concatOutcomes (fs.toList.map fun (l, ty) =>
               (encodeTyRef env st2 ty).map fun r => uleb l.getId ++ r)).map fun body =>
               sleb (-21) ++ uleb fs.toList.length ++ body)
           | e => e)
        | .service ms =>
          (match foldOutcome (buildType env fuel) st1 (ms.toList.map (·.2)) with
           | .ok st2 => finish st2 ((concatOutcomes (ms.toList.map fun (n, ty) =>
               (encodeTyRef env st2 ty).map fun r => uleb (strBytes n).length ++ strBytes n ++ r)).map fun body =>
               sleb (-23) ++ uleb ms.toList.length ++ body)
           | e => e)
        | .func args rets modes =>
          (match foldOutcome (buildType env fuel) st1 (args.toList ++ rets.toList ++ rets.toList) with
           | .ok st2 =>
             finish st2 (match concatOutcomes (args.toList.map (encodeTyRef env st2)),
                               concatOutcomes (rets.toList.map (encodeTyRef env st2)) with
               | .ok a, .ok r => .ok (sleb (-22) ++ uleb args.toList.length ++ a ++ uleb rets.toList.length ++ r ++
                   uleb modes.length ++ (modes.map fun m => match m with
                     | .query => sleb 1 | .oneway => sleb 2 | .compositeQuery => sleb 3).flatten)
               | .panic s, _ => .panic s
               | .err k, _ => .err k
               | _, .panic s => .panic s
               | _, .err k => .err k)
           | e => e)
        | _ => .panic "ser.rs:build_type:unreachable"

/-- `IDLArgs::to_bytes_with_types` (values annotated with `from_parser = true`, then serialised) -/
def encodeArgs (env : Env) (tys : List Ty) (vals : List Val) : Outcome Bytes :=
  if tys.length > vals.length then .err .other else
  let fuel := defaultFuel
  let step (acc : TypeSer × Bytes) (p : Val × Ty) : Outcome (TypeSer × Bytes) :=
    match annotate true env fuel p.1 p.2 with
    | .ok v' =>
      (match buildType env fuel acc.1 p.2 with
       | .ok st =>
         (match serVal fuel v' with
          | .ok b => .ok (st, acc.2 ++ b)
          | .err k => .err k
          | .panic s => .panic s)
       | .err k => .err k
       | .panic s => .panic s)
    | .err k => .err k
    | .panic s => .panic s
  match foldOutcome step ({ table := [], map := [] }, []) (vals.zip tys) with
  | .ok (st, body) =>
    (match concatOutcomes ((tys.take vals.length).map (encodeTyRef env st)) with
     | .ok argRefs =>
       .ok (magic ++ uleb st.table.length ++ st.table.flatten ++ uleb (min tys.length vals.length) ++ argRefs ++ body)
     | .err k => .err k
     | .panic s => .panic s)
  | .err k => .err k
  | .panic s => .panic s

end Candid.Wire
