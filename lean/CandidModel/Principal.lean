import CandidModel.Basic
import CandidModel.Gen.Consts
/-
  Principal text form (rust/ic_principal/src/lib.rs): CRC32 (crc32fast, modelled bit-serially),
  RFC 4648 base32 without padding (data_encoding::BASE32_NOPAD, modelled arithmetically: the byte
  string is one big-endian number, left-aligned into 5-bit digits), grouping by five with dashes.
  `fromText` mirrors the Rust: parse liberally, re-print, compare.
-/
namespace Candid.Principal

inductive PErr where
  | bytesTooLong | invalidBase32 | textTooShort | textTooLong | checkSequenceNotMatch | abnormalGrouped
  deriving DecidableEq, Repr

def PErr.name : PErr → String
  | .bytesTooLong => "BytesTooLong" | .invalidBase32 => "InvalidBase32" | .textTooShort => "TextTooShort"
  | .textTooLong => "TextTooLong" | .checkSequenceNotMatch => "CheckSequenceNotMatch"
  | .abnormalGrouped => "AbnormalGrouped"

def maxLen : Nat := Gen.principalMaxLen
def crcLen : Nat := Gen.principalCrcLen

/-! ### CRC-32 (IEEE, reflected, polynomial 0xEDB88320) -/
def crcStep (c : Nat) : Nat := if c % 2 = 1 then (c / 2) ^^^ 0xEDB88320 else c / 2
def crcByte (crc : Nat) (b : UInt8) : Nat :=
  crcStep (crcStep (crcStep (crcStep (crcStep (crcStep (crcStep (crcStep (crc ^^^ b.toNat))))))))
def crc32 (bs : Bytes) : Nat := (bs.foldl crcByte 0xFFFFFFFF) ^^^ 0xFFFFFFFF

/-! ### fixed-length big-endian digits -/
def toDigitsBE (b : Nat) : Nat → Nat → List Nat
  | 0, _ => []
  | k + 1, n => toDigitsBE b k (n / b) ++ [n % b]

def ofDigitsBE (b : Nat) (ds : List Nat) : Nat := ds.foldl (fun acc d => acc * b + d) 0

def be32 (n : Nat) : Bytes := (toDigitsBE 256 4 n).map Nat.toUInt8

/-! ### base32 (values 0..31; alphabet applied separately) -/
def b32Encode (bs : Bytes) : List Nat :=
  let n := bs.length
  let m := (8 * n + 4) / 5
  toDigitsBE 32 m (ofDigitsBE 256 (bs.map UInt8.toNat) * 2 ^ (5 * m - 8 * n))

def b32Decode (vs : List Nat) : Option Bytes :=
  let m := vs.length
  if m % 8 = 1 ∨ m % 8 = 3 ∨ m % 8 = 6 then none
  else
    let n := 5 * m / 8
    let p := 5 * m - 8 * n
    let M := ofDigitsBE 32 vs
    if M % 2 ^ p ≠ 0 then none
    else some ((toDigitsBE 256 n (M / 2 ^ p)).map Nat.toUInt8)

/-- lower-case alphabet used by `Display` (`BASE32_NOPAD.encode` + `make_ascii_lowercase`) -/
def alphaLower (v : Nat) : Char := if v < 26 then Char.ofNat (97 + v) else Char.ofNat (24 + v)

/-- symbol value after `make_ascii_uppercase` -/
def valOfUpper (c : Char) : Option Nat :=
  if 'A' ≤ c ∧ c ≤ 'Z' then some (c.toNat - 65)
  else if '2' ≤ c ∧ c ≤ '7' then some (c.toNat - 24)
  else none

def asciiUpper (c : Char) : Char := if 'a' ≤ c ∧ c ≤ 'z' then Char.ofNat (c.toNat - 32) else c
def asciiLower (c : Char) : Char := if 'A' ≤ c ∧ c ≤ 'Z' then Char.ofNat (c.toNat + 32) else c

/-- `while s.len() > 5 { write s[..5]; write '-'; s = s[5..] }; write s` -/
def group5 : List Char → List Char
  | a :: b :: c :: d :: e :: f :: rest => a :: b :: c :: d :: e :: '-' :: group5 (f :: rest)
  | s => s

def toText (p : Bytes) : List Char :=
  group5 ((b32Encode (be32 (crc32 p) ++ p)).map alphaLower)

def tryFromSlice (bs : Bytes) : Except PErr Bytes :=
  if bs.length ≤ maxLen then .ok bs else .error .bytesTooLong

def allSome : List (Option Nat) → Option (List Nat)
  | [] => some []
  | none :: _ => none
  | some v :: r => (allSome r).map (v :: ·)

/-- `Principal::from_text` -/
def fromText (text : List Char) : Except PErr Bytes :=
  let s := (text.map asciiUpper).filter (· ≠ '-')
  match (allSome (s.map valOfUpper)).bind b32Decode with
  | none => .error .invalidBase32
  | some bytes =>
    if bytes.length < crcLen then .error .textTooShort
    else
      let crcBytes := bytes.take crcLen
      let dataBytes := bytes.drop crcLen
      if dataBytes.length > maxLen then .error .textTooLong
      else if be32 (crc32 dataBytes) ≠ crcBytes then .error .checkSequenceNotMatch
      else if text.map asciiLower ≠ toText dataBytes then .error .abnormalGrouped
      else .ok dataBytes

end Candid.Principal
