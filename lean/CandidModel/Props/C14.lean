import CandidModel.Proofs.Check
/-
  C14 — the type checker accepts exactly the well-formed programs.
  Property theorems only (helper lemmas: Proofs/Check.lean).
-/
namespace Candid.Props.C14
open Candid Candid.Check

/-- **The checker accepts exactly the well-formed programs**: the mirror of `check_prog` (placeholders,
`check_defs`, `check_cycle` with its visited set, `validate_decs` with its memo of entered names,
`check_actor`) returns `ok` if and only if the program satisfies the specification `WF`, which mentions no
traversal state.  For every program: any number of definitions, any alias chains, any nesting. -/
theorem checker_accepts_exactly_wellformed (p : Prog) : checkProg p = .ok () ↔ WF p = true := by
  unfold checkProg WF
  by_cases hg : grammarAll p = true
  case neg => simp [hg]
  simp only [hg, Bool.not_true, Bool.false_eq_true, if_false, Bool.true_and, Bool.and_eq_true, decide_eq_true_eq,
    List.all_eq_true]
  have hlen := length_sortedEnv p.decs
  have hbS := bound_sortedEnv p.decs
  have hmem := mem_sortedEnv p.decs
  constructor
  · intro h
    obtain ⟨pre, hpre, h⟩ := (bind_ok_iff _ _ _).mp h
    obtain ⟨_, hdefs, h⟩ := (bind_ok_iff _ _ _).mp h
    obtain ⟨_, hcyc, h⟩ := (bind_ok_iff _ _ _).mp h
    obtain ⟨_, hval, hact⟩ := (bind_ok_iff _ _ _).mp h
    have hnd := ((placeholders_ok_iff p.decs []).mp ⟨pre, hpre⟩).1
    have hbP := placeholders_bound p.decs [] pre hpre
    have hwf := (checkDefs_iff pre _ hbP p.decs).mp hdefs
    have hprod := (checkCycle_iff _ _).mp hcyc
    have hserv := validateDecs_sound _ _ _ hval
    have hno : ∀ x u, (sortedEnv p.decs).find x = some u → isCls u = false := by
      intro x u hf
      exact wfTy_not_cls _ u (hwf (x, u) ((hmem _).mp (find_some_mem _ x u hf)))
    refine ⟨⟨⟨⟨hnd, hwf⟩, ?_⟩, ?_⟩, (checkActor_iff _ _ hbS hno p.actor).mp hact⟩
    · intro d hd; exact (productive_iff _ _).mpr (hprod d ((hmem d).mpr hd))
    · intro d hd; exact hserv d ((hmem d).mpr hd)
  · rintro ⟨⟨⟨⟨hnd, hwf⟩, hprod⟩, hserv⟩, hact⟩
    obtain ⟨pre, hpre⟩ := (placeholders_ok_iff p.decs []).mpr ⟨hnd, by simp⟩
    have hbP := placeholders_bound p.decs [] pre hpre
    have hdefs := (checkDefs_iff pre _ hbP p.decs).mpr hwf
    have hcyc : checkCycle (sortedEnv p.decs) (sortedEnv p.decs) = .ok () :=
      (checkCycle_iff _ _).mpr (fun d hd => (productive_iff _ _).mp (hprod d ((hmem d).mp hd)))
    have hall : AllOk (sortedEnv p.decs) (p.decs.map (·.1)) := by
      intro x t hf
      have := (hmem _).mp (find_some_mem _ x t hf)
      exact ⟨hwf _ this, hserv _ this⟩
    have hval : validateDecs (sortedEnv p.decs) [] (sortedEnv p.decs) = .ok () :=
      validateDecs_complete _ _ hbS hall _ [] (fun d hd => ⟨hwf d ((hmem d).mp hd), hserv d ((hmem d).mp hd)⟩)
        (by simp) (by simp)
    have hno : ∀ x u, (sortedEnv p.decs).find x = some u → isCls u = false := by
      intro x u hf
      exact wfTy_not_cls _ u (hwf (x, u) ((hmem _).mp (find_some_mem _ x u hf)))
    rw [hpre]; simp only [Except.bind]
    rw [hdefs]; simp only []
    rw [hcyc]; simp only []
    rw [hval]; simp only []
    exact (checkActor_iff _ _ hbS hno p.actor).mpr hact


/-- Every accepted environment is closed and productive: each name used anywhere in a definition is
defined, and each definition reaches a type constructor after finitely many renamings — so name tracing
(and everything built on it) terminates. -/
theorem accepted_env_closed (p : Prog) (h : checkProg p = .ok ()) :
    (p.decs.map (·.1)).Nodup ∧
    ∀ d ∈ p.decs, wfTy (p.decs.map (·.1)) d.2 = true ∧ Productive (sortedEnv p.decs) d.2 := by
  have := (checker_accepts_exactly_wellformed p).mp h
  unfold WF at this
  simp only [Bool.and_eq_true, decide_eq_true_eq, List.all_eq_true] at this
  obtain ⟨⟨⟨⟨⟨_, hnd⟩, hwf⟩, hprod⟩, _⟩, _⟩ := this
  exact ⟨hnd, fun d hd => ⟨hwf d hd, (productive_iff _ _).mp (hprod d hd)⟩⟩

/-- in an accepted program every method of every service type occurring in a definition denotes a function -/
theorem accepted_methods_are_functions (p : Prog) (h : checkProg p = .ok ()) :
    ∀ d ∈ p.decs, servicesOk (sortedEnv p.decs) d.2 = true := by
  have := (checker_accepts_exactly_wellformed p).mp h
  unfold WF at this
  simp only [Bool.and_eq_true, decide_eq_true_eq, List.all_eq_true] at this
  exact this.1.2

/-- the two traversal phases, each against its declarative meaning (no visited set on the right-hand side) -/
theorem cycle_check_meaning (env : Env) (ds : List (String × Ty)) :
    checkCycle env ds = .ok () ↔ ∀ d ∈ ds, Productive env d.2 := checkCycle_iff env ds

/-- the memo of `validate_decs` never hides a service type: a successful walk has examined every service
type of every definition, whatever names were already entered -/
theorem validate_memo_sound (env : Env) (ds : List (String × Ty)) (seen : List String)
    (h : validateDecs env seen ds = .ok ()) : ∀ d ∈ ds, servicesOk env d.2 = true :=
  validateDecs_sound env ds seen h

/-- a vacuous definition is rejected: `type A = B; type B = A` -/
theorem alias_cycle_rejected :
    checkProg { decs := [("A", .var "B"), ("B", .var "A")], actor := none } ≠ .ok () := by
  intro h
  have := (checker_accepts_exactly_wellformed _).mp h
  revert this; decide

/-- a function reached through its own name is accepted (the walk enters `F` once):
`type F = func (service { m : F }) -> ()` -/
theorem function_through_itself_accepted :
    checkProg { decs := [("F", .func (.cons (.service (.cons "m" (.var "F") .nil)) .nil) .nil [])], actor := none }
      = .ok () :=
  (checker_accepts_exactly_wellformed _).mpr (by decide)

/-- a method that denotes a non-function through an alias is rejected even when the alias was entered before -/
theorem nonfunction_method_rejected :
    checkProg { decs := [("A", .prim .nat),
                         ("S", .service (.cons "a" (.func (.cons (.var "A") .nil) .nil []) (.cons "m" (.var "A") .nil)))],
                actor := none } ≠ .ok () := by
  intro h
  have := (checker_accepts_exactly_wellformed _).mp h
  revert this; decide

end Candid.Props.C14
