import CandidModel.Proofs.Principal
/-
  C16 — Principal text form is a checksummed bijection on 0..29-byte ids.
  Property theorems only (helper lemmas: Proofs/Principal.lean).
-/
namespace Candid.Props.C16
open Candid Candid.Principal

/-- the limits the translator extracted from /repo: 29 payload bytes for every constructor and for a
principal on the wire (binary_parser.rs), four checksum bytes -/
theorem extracted_limits :
    Gen.principalMaxLen = 29 ∧ Gen.wirePrincipalMax = 29 ∧ Gen.principalCrcLen = 4 := by decide

/-- the model's view of the characters of `toText p` before grouping -/
private theorem mem_lt (p : Bytes) : ∀ v ∈ b32Encode (be32 (crc32 p) ++ p), v < 32 := b32Encode_lt _

/-- Every text accepted by the parser is, up to ASCII letter case, exactly the canonical text of the
principal it returns; the principal has at most 29 bytes and the checksum matches. -/
theorem accepted_is_canonical (s : List Char) (p : Bytes) (h : fromText s = .ok p) :
    s.map asciiLower = toText p ∧ p.length ≤ maxLen := by
  unfold fromText at h
  dsimp only at h
  split at h
  · simp at h
  · rename_i bytes _
    split at h
    · simp at h
    · split at h
      · simp at h
      · split at h
        · simp at h
        · split at h
          · simp at h
          · rename_i h1 h2 h3
            simp only [Except.ok.injEq] at h
            subst h
            exact ⟨by simpa using h3, by omega⟩

/-- Converting a principal of at most 29 bytes to text and back returns the same principal. -/
theorem text_roundtrip (p : Bytes) (hp : p.length ≤ maxLen) : fromText (toText p) = .ok p := by
  have hE := mem_lt p
  generalize hEE : b32Encode (be32 (crc32 p) ++ p) = E at hE
  have hup : (toText p).map asciiUpper = group5 ((E.map alphaLower).map asciiUpper) := by
    unfold toText; rw [hEE]; exact group5_map asciiUpper (by decide) _ _ (Nat.le_refl _)
  have hlow : (toText p).map asciiLower = toText p := by
    unfold toText; rw [hEE, group5_map asciiLower (by decide) _ _ (Nat.le_refl _)]
    congr 1
    rw [List.map_map]
    apply List.map_congr_left
    intro v hv; exact alpha_lower_fix v (hE v hv)
  have hfil : ((toText p).map asciiUpper).filter (· ≠ '-') = (E.map alphaLower).map asciiUpper := by
    rw [hup]
    apply group5_filter _ _ (Nat.le_refl _)
    intro c hc
    simp only [List.map_map, List.mem_map] at hc
    obtain ⟨v, hv, rfl⟩ := hc
    exact (alpha_ne_dash v (hE v hv)).2
  have hvals : ((E.map alphaLower).map asciiUpper).map valOfUpper = E.map some := by
    rw [List.map_map, List.map_map]
    apply List.map_congr_left
    intro v hv; exact alpha_upper_val v (hE v hv)
  unfold fromText
  simp only [hfil, hvals, allSome_map_some, Option.bind_some]
  rw [← hEE, b32_roundtrip]
  have hlen : (be32 (crc32 p) ++ p).length = 4 + p.length := by simp [be32_length]
  have htake : (be32 (crc32 p) ++ p).take crcLen = be32 (crc32 p) := by
    simp [crcLen, Gen.principalCrcLen, List.take_append, be32_length]
  have hdrop : (be32 (crc32 p) ++ p).drop crcLen = p := by
    simp [crcLen, Gen.principalCrcLen, List.drop_append, be32_length]
  dsimp only
  rw [hlen, htake, hdrop, hlow]
  have h1 : ¬ (4 + p.length < crcLen) := by simp [crcLen, Gen.principalCrcLen]
  have h2 : ¬ (p.length > maxLen) := by omega
  rw [if_neg h1, if_neg h2]
  simp

/-- `toText` is injective on principals of at most 29 bytes (corollary of the round trip). -/
theorem toText_injective (p q : Bytes) (hp : p.length ≤ maxLen) (hq : q.length ≤ maxLen)
    (h : toText p = toText q) : p = q := by
  have h1 := text_roundtrip p hp
  have h2 := text_roundtrip q hq
  rw [h] at h1
  rw [h1] at h2
  exact Except.ok.inj h2

/-- Byte strings longer than 29 bytes are rejected by the constructor; shorter ones are kept as they are. -/
theorem slice_limit (bs : Bytes) :
    tryFromSlice bs = (if bs.length ≤ 29 then .ok bs else .error .bytesTooLong) := rfl

/-- A text whose payload decodes to more than 29 bytes is rejected whatever its checksum. -/
theorem text_payload_limit (s : List Char) (p : Bytes) (h : fromText s = .ok p) : p.length ≤ 29 :=
  (accepted_is_canonical s p h).2

/-- the text is lower-case base32 in dash-separated groups: re-lowering changes nothing -/
theorem toText_lower (p : Bytes) : (toText p).map asciiLower = toText p := by
  have hE := mem_lt p
  unfold toText
  rw [group5_map asciiLower (by decide) _ _ (Nat.le_refl _)]
  congr 1
  rw [List.map_map]
  apply List.map_congr_left
  intro v hv; exact alpha_lower_fix v (hE v hv)

/-- non-vacuity: the anonymous principal -/
example : toText [4] = ['2', 'v', 'x', 's', 'x', '-', 'f', 'a', 'e'] := by decide
example : fromText ['2', 'v', 'x', 's', 'x', '-', 'f', 'a', 'e'] = .ok [4] := by rfl
example : fromText ['2', 'V', 'X', 'S', 'X', '-', 'F', 'A', 'E'] = .ok [4] := by rfl
example : fromText ['2', 'v', 'x', 's', 'x', 'f', '-', 'a', 'e'] = .error .abnormalGrouped := by rfl

end Candid.Props.C16
