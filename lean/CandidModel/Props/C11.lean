import CandidModel.Proofs.Text
/-
  C11 — printing a value as Candid text and parsing it back returns the same value.
  Property theorems only (helper lemmas: Proofs/Text.lean).  Token level: text escaping, blob bytes,
  digit grouping, positional record fields.  `pr` / `ge` are Rust's Unicode tables (`is_printable`,
  `is_grapheme_extended`): the theorems hold for every such table.
-/
namespace Candid.Props.C11
open Candid Candid.Text

/-- Every text — any Unicode scalar at any position — printed by `escape_text` and followed by the closing
quote is read back by the string sub-lexer as exactly that text, and the rest of the input is untouched. -/
theorem text_roundtrip (pr ge : Char → Bool) (s rest : List Char) :
    lexString (escapeText pr ge s ++ '"' :: rest) = .ok (s.map Piece.ch, rest) := by
  unfold lexString escapeText
  apply lexPieces_escapeTextFrom
  have := escapeTextFrom_length pr ge s true
  simp only [List.length_append, List.length_cons]
  omega

/-- the bytes the grammar's `Text` rule receives are the UTF-8 encoding of the text, and they validate -/
theorem text_roundtrip_utf8 (s : List Char) :
    Wire.utf8 (piecesBytes (s.map Piece.ch)) = some (String.ofList s) := by
  have h : piecesBytes (s.map Piece.ch) = Wire.strBytes (String.ofList s) := by
    unfold Wire.strBytes
    simp only [String.toUTF8_eq_toByteArray, String.toByteArray_ofList]
    induction s with
    | nil => simp [piecesBytes]
    | cons c r ih =>
      rw [List.utf8Encode_cons, List.utf8Encode_singleton]
      simp only [piecesBytes, List.map_cons, List.flatMap_cons] at ih ⊢
      rw [ih, utf8Char_eq]
      simp [List.data_toByteArray]
  rw [h, Wire.utf8_strBytes]

private theorem flatMap_length_ge (f : UInt8 → List Char) (hf : ∀ v, 0 < (f v).length) :
    ∀ b : Bytes, b.length ≤ (b.flatMap f).length := by
  intro b
  induction b with
  | nil => simp
  | cons v r ih =>
    have := hf v
    simp only [List.flatMap_cons, List.length_append, List.length_cons]; omega

/-- Every blob — any byte at any position — printed by the Debug printer (readable or all-hex form) is read
back as exactly those bytes. -/
theorem blob_roundtrip (b : Bytes) (rest : List Char) :
    ∃ ps, lexString (ppBlob b ++ '"' :: rest) = .ok (ps, rest) ∧ piecesBytes ps = b := by
  unfold lexString ppBlob
  simp only []
  split
  · apply lexPieces_ppBytes ppByte lex_ppByte
    have := flatMap_length_ge ppByte (fun v => by unfold ppByte; simp only []; split <;> simp) b
    simp only [List.length_append, List.length_cons]; omega
  · apply lexPieces_ppBytes _ lex_hexByte
    have := flatMap_length_ge
      (fun v => ['\\', hexDigitLower (v.toNat / 16), hexDigitLower (v.toNat % 16)]) (fun v => by simp) b
    simp only [List.length_append, List.length_cons]; omega

/-- Digit grouping is undone by the number token: for every digit string, of any length. -/
theorem number_roundtrip (s : List Char) (hd : ∀ c ∈ s, isDigit c = true) :
    parseNumberTok (ppNumStr s) = s := by
  have hmem : ∀ c ∈ ppNumStr s, isDigit c = true ∨ c = '_' := by
    intro c hc
    have hs : ppNumStr s = (groupRev s.reverse).reverse := by
      unfold ppNumStr
      split
      · rename_i d; exact absurd rfl (isDigit_ne '-' (hd '-' (by simp))).2.2.2
      · rfl
    rw [hs] at hc
    rcases groupRev_mem _ c (by simpa using hc) with h | h
    · exact Or.inl (hd c (by simpa using h))
    · exact Or.inr h
  have hfil : (ppNumStr s).filter (· ≠ '_') = s := by
    have hs : ppNumStr s = (groupRev s.reverse).reverse := by
      unfold ppNumStr
      split
      · exact absurd rfl (isDigit_ne '-' (hd '-' (by simp))).2.2.2
      · rfl
    rw [hs, List.filter_reverse, groupRev_filter, ← List.filter_reverse, List.reverse_reverse,
      List.filter_eq_self]
    intro c hc; simpa using (isDigit_ne c (hd c hc)).1
  unfold parseNumberTok
  simp only []
  split
  · rename_i r heq
    have := hmem 'x' (by rw [heq]; simp)
    rcases this with h | h
    · exact absurd rfl (isDigit_ne 'x' h).2.1
    · exact absurd h (by decide)
  · rename_i r heq
    have := hmem 'X' (by rw [heq]; simp)
    rcases this with h | h
    · exact absurd rfl (isDigit_ne 'X' h).2.2.1
    · exact absurd h (by decide)
  · exact hfil

/-- … and the grouped form is itself a `Decimal` token `[0-9][_0-9]*`: it starts with a digit -/
theorem number_token_shape (s : List Char) (hne : s ≠ []) (hd : ∀ c ∈ s, isDigit c = true) :
    ∃ c r, ppNumStr s = c :: r ∧ isDigit c = true ∧ ∀ x ∈ r, isDigit x = true ∨ x = '_' := by
  have hs : ppNumStr s = (groupRev s.reverse).reverse := by
    unfold ppNumStr
    split
    · exact absurd rfl (isDigit_ne '-' (hd '-' (by simp))).2.2.2
    · rfl
  obtain ⟨c0, r0, hs0⟩ := List.exists_cons_of_ne_nil hne
  have hhead : (ppNumStr s).head? = some c0 := by
    rw [hs, List.head?_reverse, groupRev_getLast?, List.getLast?_reverse, hs0]; rfl
  cases hp : ppNumStr s with
  | nil => rw [hp] at hhead; simp at hhead
  | cons c r =>
    rw [hp] at hhead
    simp at hhead
    subst hhead
    refine ⟨c, r, rfl, hd c (by simp [hs0]), ?_⟩
    intro x hx
    have : x ∈ ppNumStr s := by rw [hp]; simp [hx]
    rw [hs] at this
    rcases groupRev_mem _ x (by simpa using this) with h | h
    · exact Or.inl (hd x (by simpa using h))
    · exact Or.inr h

/-- The Debug printer writes the field at position `i` without a label exactly when its id is `i`; the
value grammar's numbering gives every field its id back.  Holds for any strictly ascending list of ids
below 2^32 (what a record value holds). -/
theorem positional_fields_roundtrip (ids : List Nat) (hlt : ∀ x ∈ ids, x < 2 ^ 32)
    (hp : ids.Pairwise (· < ·)) : numberFields 0 (abbrevFields 0 ids) = .ok ids :=
  numberFields_abbrev ids 0 (fun _ _ => Nat.zero_le _) hlt hp

/-- non-vacuity / the pinned defect: NUL followed by a hex digit.  With `\u{0}` the lexer reads two
characters; the `\0` that `escape_debug` would print fuses with the digit into one byte. -/
theorem nul_then_digit :
    lexString (escapeText (fun _ => true) (fun _ => false) ['\x00', '1'] ++ ['"']) = .ok ([.ch '\x00', .ch '1'], [])
    ∧ lexString ['\\', '0', '1', '"'] = .ok ([.byte 1], []) := by
  constructor
  · exact text_roundtrip _ _ _ _
  · simp [lexString, lexPieces, isHex, Outcome.map]
    decide

end Candid.Props.C11
