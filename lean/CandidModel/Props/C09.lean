import CandidModel.Proofs.LebBig
import CandidModel.Proofs.LebSigned
import CandidModel.Gen.Consts
/-
  C09 — Unbounded and 128-bit integer codecs implement (S)LEB128 exactly.
  Property theorems only (helper lemmas: Proofs/Leb.lean, Proofs/LebBig.lean).  `Leb.*` is the specification layer,
  `Leb.Impl.*` mirrors the Rust.
-/
namespace Candid.Props.C09
open Candid Candid.Leb Candid.Leb.Impl

/-- the constants the translator extracted from /repo are the ones the model and proofs use -/
theorem extracted_bounds :
    Gen.tryReadLebU64Bound = 63 ∧ Gen.tryReadLebI64Bound = 63 ∧
    Gen.natDecodeGuard = (64, 64) ∧ Gen.intDecodeGuard = (57, 64) := by decide

/-- spec sanity: the minimal encoding reads back as its value and consumes exactly its bytes -/
theorem uleb_roundtrip (n : Nat) (r : Bytes) : specReadNat (uleb n ++ r) = some (n, r) :=
  specReadNat_uleb n r

/-- spec sanity: `uleb` is minimal among the terminated strings of the same value -/
theorem uleb_minimal (p : Bytes) (hp : Terminated p) : (uleb (uval p)).length ≤ p.length :=
  uleb_length_le p hp

/-- every terminated prefix is found, whatever follows (any length, any padding) -/
theorem split_terminated (p r : Bytes) (hp : Terminated p) : splitLeb (p ++ r) = some (p, r) :=
  splitLeb_append p r hp

/-- `Nat::decode`: every terminated string, minimal or padded, of any length, decodes to exactly its
mathematical value and exactly its bytes are consumed; unterminated input is an error; no panic. -/
theorem nat_decode_exact (p r : Bytes) (hp : Terminated p) : natDecode (p ++ r) = .ok (uval p, r) := by
  rw [natDecode_spec, specReadNat, splitLeb_append p r hp]; rfl

theorem nat_decode_total (bs : Bytes) :
    natDecode bs = (match specReadNat bs with | none => .err .eof | some x => .ok x) :=
  natDecode_spec bs

/-- `leb128::decode_nat` (u128, also `Decode!` at `u128`): accepts exactly the terminated strings whose
value is below 2^128, returns that value, consumes exactly the string; never panics. -/
theorem u128_decode_exact (p r : Bytes) (hp : Terminated p) :
    decodeNat128 (p ++ r) = (if uval p < 2 ^ 128 then .ok (uval p, r) else .err .overflow) := by
  rw [decodeNat128_spec, splitLeb_append p r hp]

theorem u128_decode_total (bs : Bytes) :
    decodeNat128 bs = (match splitLeb bs with
      | none => .err .eof
      | some (p, r) => if uval p < 2 ^ 128 then .ok (uval p, r) else .err .overflow) :=
  decodeNat128_spec bs

/-- Signed numbers: the minimal encoding of every integer is terminated, denotes that integer, and is read
back with nothing consumed beyond it. -/
theorem sleb_roundtrip (i : Int) (r : Bytes) :
    Terminated (sleb i) ∧ sval (sleb i) = i ∧ specReadInt (sleb i ++ r) = some (i, r) :=
  ⟨sleb_terminated i, sval_sleb i, specReadInt_sleb i r⟩

/-- `Nat::encode` writes the minimal encoding for every natural number, on both of its paths (up to 2^64
through the leb128 crate's loop, beyond through radix-128 groups); `leb128.rs::encode_nat` is the same loop. -/
theorem nat_encode_minimal (n : Nat) : Impl.natEncode n = uleb n ∧ Impl.encodeNatLoop n = uleb n :=
  ⟨natEncode_eq_uleb n, encodeNatLoop_eq_uleb n⟩

/-- the loop of `leb128.rs::encode_int` / `leb128::write::signed` (the path `Int::encode` takes below 2^63 in
magnitude, and `Encode!` at i128) writes the minimal signed encoding -/
theorem int_encode_loop_minimal (i : Int) : Impl.encodeIntLoop i = sleb i := encodeIntLoop_eq_sleb i

/-- **`Int::encode` writes the minimal signed encoding of every integer**: below 2^63 in magnitude through the
leb128 crate's loop, beyond by re-packing the two's-complement bytes of the big integer seven bits at a time, up to
the highest bit that differs from the sign — for integers of any size, either sign. -/
theorem int_encode_minimal (i : Int) : Impl.intEncode i = sleb i := intEncode_eq_sleb i

/-- hence every encoded integer reads back as itself, with nothing consumed beyond it -/
theorem int_encode_reads_back (i : Int) (r : Bytes) : specReadInt (Impl.intEncode i ++ r) = some (i, r) := by
  rw [intEncode_eq_sleb]; exact specReadInt_sleb i r

/-- hence an encoded natural number decodes to itself through `Nat::decode` -/
theorem nat_encode_decode (n : Nat) (r : Bytes) : natDecode (Impl.natEncode n ++ r) = .ok (n, r) := by
  rw [natEncode_eq_uleb, nat_decode_exact _ _ (uleb_terminated n), uval_uleb]

/-- non-vacuity: a 19-byte padded string of value 1 and the 19-byte encoding of 2^128 -/
example : Terminated ([0x81] ++ List.replicate 17 0x80 ++ [0x00]) := by simp [Terminated, List.replicate]
example : decodeNat128 ([0x80, 0x80, 0x80, 0x80, 0x80, 0x80, 0x80, 0x80, 0x80, 0x80, 0x80, 0x80, 0x80, 0x80,
    0x80, 0x80, 0x80, 0x80, 0x04]) = .err .overflow := by decide

/-- **`Int::decode` maps every terminated signed LEB128 string — minimal or padded, of any length — to exactly its
two's-complement value and consumes exactly its bytes**; without a terminating byte it reports the end of input.
Covers the `i64` accumulator, the last byte that only fits when it is all zeros or all ones, and the big-number
fallback. -/
theorem int_decode_exact (bs : Bytes) :
    intDecode bs = (match specReadInt bs with | none => .err .eof | some x => .ok x) := intDecode_spec bs

/-- in particular on a terminated string followed by anything -/
theorem int_decode_of_terminated (p r : Bytes) (hp : Terminated p) : intDecode (p ++ r) = .ok (sval p, r) := by
  rw [intDecode_spec]; unfold specReadInt; rw [splitLeb_append p r hp]; rfl

/-- hence an encoded integer decodes to itself through `Int::decode`, whatever its size -/
theorem int_encode_decode (i : Int) (r : Bytes) : intDecode (Impl.intEncode i ++ r) = .ok (i, r) := by
  rw [intEncode_eq_sleb, int_decode_of_terminated _ _ (sleb_terminated i), sval_sleb]

/-- **the deserializer's 64-bit fast paths** (`try_read_leb_u64` / `try_read_leb_i64`, with the rewind to the
big-number decoder when nine bytes do not end the number) compute the same values: no input makes the fast path
and the specification differ, and the `!0 << shift` of the signed path is never reached with `shift ≥ 64`. -/
theorem typed_nat_int_readers_exact (bs : Bytes) :
    deNat bs = (match specReadNat bs with | none => .err .eof | some x => .ok x) ∧
    deInt bs = (match specReadInt bs with | none => .err .eof | some x => .ok x) :=
  ⟨deNat_spec bs, deInt_spec bs⟩

/-- **the i128 decoder (`leb128.rs::decode_int`) rejects precisely the strings whose value is out of range**: a
terminated string of any length decodes to its two's-complement value when that lies in [-2^127, 2^127), is an
overflow error otherwise, and an unterminated one is an end-of-input error (the accumulator of the low 128 bits and
the two flags "everything above bit 127 was zero / one" are an invariant of the loop). -/
theorem i128_decoder_exact (bs : Bytes) :
    decodeInt128 bs = (match splitLeb bs with
      | none => .err .eof
      | some (p, r) =>
        if -(2 : Int) ^ 127 ≤ sval p ∧ sval p < (2 : Int) ^ 127 then .ok (sval p, r) else .err .overflow) :=
  decodeInt128_exact bs

/-- non-vacuity of the big-number path: `2^70` and `-2^70 - 1` are beyond the word path -/
example : ¬ (-(2 : Int) ^ 63 ≤ (2 : Int) ^ 70 ∧ (2 : Int) ^ 70 < (2 : Int) ^ 63) := by decide
example : Impl.intEncode (-(2 : Int) ^ 70 - 1) = [0xff, 0xff, 0xff, 0xff, 0xff, 0xff, 0xff, 0xff, 0xff, 0xff, 0x7e] := by
  decide +kernel

end Candid.Props.C09
