import CandidModel.Wire
import CandidModel.Proofs.CoerceSound
import CandidModel.Proofs.CoerceInhab
import CandidModel.Proofs.DeCoerce
/-
  C04 — Accepted subtyping means decoding at the supertype cannot fail.
  Mechanism lemmas about `Wire.coerce`, the μ-opt witness, and the soundness theorem on the specification side:
  `Sub w e → v canonical at w → coerce w e v` returns a value (or runs out of its depth budget) — helper lemmas in
  Proofs/CoerceSound.lean.
-/
namespace Candid.Props.C04
open Candid Candid.Wire

private theorem trace_prim (env : Env) (p : Prim) : Sub.traceFull env (.prim p) = some (.prim p) := by
  unfold Sub.traceFull Env.trace; rfl
private theorem trace_opt (env : Env) (t : Ty) : Sub.traceFull env (.opt t) = some (.opt t) := by
  unfold Sub.traceFull Env.trace; rfl

/-- `t <: reserved` is sound: coercion at `reserved` succeeds for every value of every (well-scoped) type -/
theorem sound_reserved (env : Env) (fuel : Nat) (w : Ty) (v : Val) (hw : (Sub.traceFull env w).isSome) :
    coerce env true env (fuel + 1) w (.prim .reserved) v = .ok .reserved := by
  unfold coerce
  rw [trace_prim]
  cases h : Sub.traceFull env w with
  | none => simp [h] at hw
  | some w' => rfl

/-- `nat <: int` is sound: every natural number reads at `int`, as the same number -/
theorem sound_nat_int (env : Env) (fuel : Nat) (n : Nat) :
    coerce env true env (fuel + 1) (.prim .nat) (.prim .int) (.nat n) = .ok (.int n) := by
  unfold coerce
  rw [trace_prim, trace_prim]

/-- identity on primitive types -/
theorem sound_prim_refl (env : Env) (fuel : Nat) (v : Val) :
    coerce env true env (fuel + 1) (.prim .nat8) (.prim .nat8) v = .ok v ∧
    coerce env true env (fuel + 1) (.prim .text) (.prim .text) v = .ok v ∧
    coerce env true env (fuel + 1) (.prim .bool) (.prim .bool) v = .ok v := by
  refine ⟨?_, ?_, ?_⟩ <;> (unfold coerce; rw [trace_prim]; simp)

/-- **the opt rule never propagates a coercion failure**: at an expected option type, the only errors are
those that are not coercion failures (malformed input, limits) — "anything <: opt t" is sound because a
failed attempt is turned into `null`, never into an error -/
theorem opt_never_subtype_error (env : Env) (specMu : Bool) (fuel : Nat) (w e2 : Ty) (v : Val) :
    coerce env specMu env (fuel + 1) w (.opt e2) v ≠ .err .subtype := by
  unfold coerce
  rw [trace_opt]
  cases hw : Sub.traceFull env w with
  | none => simp
  | some w' =>
    simp only
    split
    · simp
    · simp
    · simp
    · rename_i w2 v2
      split <;> simp_all
    · simp
    · split
      · split <;> simp
      · split <;> simp_all

/-- `null <: opt t` and `reserved <: opt t`: read as `null` -/
theorem sound_null_opt (env : Env) (fuel : Nat) (e2 : Ty) (v : Val) :
    coerce env true env (fuel + 1) (.prim .null) (.opt e2) v = .ok .none ∧
    coerce env true env (fuel + 1) (.prim .reserved) (.opt e2) v = .ok .none := by
  constructor <;> (unfold coerce; rw [trace_prim, trace_opt])

/-- known finding KF-C04-mu-opt, pinned as a theorem about the two readings: for `type O = opt O` the
specification's coercion gives `null`, the implementation-like reading fails (and the official test
suite demands the failure) -/
theorem mu_opt_witness :
    let env : Env := [("O", .opt (.var "O"))]
    coerce env true env 50 (.prim .bool) (.var "O") (.bool true) = .ok .none ∧
    coerce env false env 50 (.prim .bool) (.var "O") (.bool true) = .err .limit := by
  constructor <;> rfl

/-- **Accepted subtyping means the coercion cannot fail** (specification side: decode, then coerce).  For every
environment whose definitions resolve and are data types with distinct field ids, every pair `w <: e` of the
specification relation over it and every canonical value of `w`: the coercion `v : w ~> _ : e` returns a value — the
only other outcome is an exhausted depth budget; it never reports a subtype failure, a malformed value or a panic.
Reference types included (their check is the subtype checker, which never rejects a pair of the relation, C05). -/
theorem coercion_of_a_subtype_value_never_fails (env : Env) (hg : GoodEnv env) (fuel : Nat) (w e : Ty) (v : Val) (n : Nat)
    (hw : goodTy env w = true) (he : goodTy env e = true) (hc : canon env n v w = true) (hs : Sub.Sub env w e) :
    Snd (coerce env true env fuel w e v) :=
  coerce_sound env hg true fuel w e v n hw he hc hs

/-- without the subtyping hypothesis the coercion of a canonical value still ends regularly: a value, a subtype
failure (what an enclosing option turns into `null`), or an exhausted budget -/
theorem coercion_ends_regularly (env : Env) (hg : GoodEnv env) (fuel : Nat) (w e : Ty) (v : Val) (n : Nat)
    (hw : goodTy env w = true) (he : goodTy env e = true) (hc : canon env n v w = true) :
    Reg (coerce env true env fuel w e v) :=
  coerce_regular env hg true fuel w e v n hw he hc

/-- with what the checker says (C05): whenever the subtype check accepts `w <: e`, the coercion of every canonical
value of `w` to `e` cannot fail -/
theorem accepted_by_the_checker_means_coercion_cannot_fail (env : Env) (hg : GoodEnv env) (k fuel : Nat) (g' : Sub.Gamma)
    (w e : Ty) (v : Val) (n : Nat) (hw : goodTy env w = true) (he : goodTy env e = true) (hc : canon env n v w = true)
    (hacc : Sub.subAlg env k [] w e = .yes g') : Snd (coerce env true env fuel w e v) := by
  have hsw : Sub.safeTy env w = true := by simp only [goodTy, Bool.and_eq_true] at hw; exact hw.1
  have hse : Sub.safeTy env e = true := by simp only [goodTy, Bool.and_eq_true] at he; exact he.1
  exact coerce_sound env hg true fuel w e v n hw he hc
    (Sub.subAlg_sound_history env hg.1 k [] g' w e hsw hse (Sub.justified_nil env) hacc).1

/-- **the second half of coercion soundness: whatever the coercion returns is a value of the expected type.**
  For every environment whose types are well formed, every pair of types (no subtyping hypothesis is needed:
  a successful coercion is its own witness), every value canonical at the wire type and every budget: the
  result inhabits the expected type (`inhab`: the typing judgement of values as the decoder returns them, where
  a variant remembers its label and a blob may stand for a vector of bytes). Together with
  `coercion_of_a_subtype_value_never_fails` this is `v : t₁ ∧ t₁ <: t₂ ⇒ coerce v : t₂` of the specification. -/
theorem coercion_result_inhabits_the_expected_type (env : Env) (hg : GoodEnv env) (fuel : Nat) (w e : Ty) (v v' : Val) (n : Nat)
    (hw : goodTy env w = true) (he : goodTy env e = true) (hc : canon env n v w = true)
    (h : coerce env true env fuel w e v = .ok v') : inhab env (ibound env n fuel) v' e = true :=
  coerce_inhab env hg fuel w e v n v' hw he hc h

/-- the typing judgement is monotone in its budget, so the bound above is only a witness that some budget works -/
theorem inhabitation_is_monotone_in_the_budget (env : Env) (n m : Nat) (h : n ≤ m) (v : Val) (t : Ty)
    (hv : inhab env n v t = true) : inhab env m v t = true := inhab_le env n m h v t hv

/-- non-vacuity of the above: the record coercion below succeeds and fills in the missing optional field -/
example : coerce [] true [] 3 (.record (.cons (.id 0) (.prim .nat) .nil))
    (.record (.cons (.id 0) (.prim .int) (.cons (.id 1) (.opt (.prim .text)) .nil))) (.record [(.id 0, .nat 7)])
    = .ok (.record [(.id 0, .int 7), (.id 1, .none)]) := by rfl

/-- non-vacuity: `record {0 : nat} <: record {0 : int; 1 : opt text}` on a value -/
example : canon [] 5 (.record [(.id 0, .nat 7)]) (.record (.cons (.id 0) (.prim .nat) .nil)) = true ∧
    goodTy [] (.record (.cons (.id 0) (.prim .int) (.cons (.id 1) (.opt (.prim .text)) .nil))) = true := by
  constructor <;> decide

/-! ## the same on the decoder mirror -/

open Candid.De in
/-- **the decoder cannot fail on a value of a subtype** (mirror `De.deAny`, first-order types): for every good
environment, every pair `w <: e` of the specification relation whose types meet the conditions of
`Props.C02.decoding_a_wellformed_value_is_its_coercion`, every canonical value `v` of `w`, from the bytes the writer
produces for `v` followed by anything, with nothing metered: given a budget `n` at which the specification's coercion
finishes, the decoder — at every depth budget `m` — returns exactly the coerced value and leaves what followed, or is
stopped by its depth budget.  It never reports a subtype failure, a malformed value or a panic. -/
theorem decoding_a_subtype_value_never_fails (env : Env) (hg : GoodEnv env) (m n : Nat) (w e : Ty) (v : Val) (cf sf : Nat)
    (bs r : Bytes) (s : St) (hgw : goodTy env w = true) (hge : goodTy env e = true)
    (hc : canon env cf v w = true) (hs : serVal sf v = .ok bs) (hin : s.input = bs ++ r)
    (hu : Unmetered s) (hw : OKW env w) (he : OKE env e) (hsub : Sub.Sub env w e)
    (hn : coerce env false env n w e v ≠ .err .limit) :
    deAny env .idl m w e s = .err .limit ∨
      ∃ v', coerce env false env n w e v = .ok v' ∧ deAny env .idl m w e s = .ok v' { s with input := r } := by
  have hsnd := coerce_sound env hg false n w e v cf hgw hge hc hsub
  cases hco : coerce env false env n w e v with
  | ok v' =>
    rcases typed_read env m n w e v cf sf bs r s hc hs hin hu hw he trivial with h | h | h
    · rw [hco] at h; simp at h
    · exact Or.inl h
    · rw [hco] at h
      cases hd : deAny env .idl m w e s with
      | ok v'' s1 => rw [hd] at h; right; exact ⟨v', rfl, by rw [h.1, h.2]; rfl⟩
      | sub _ _ => rw [hd] at h; exact absurd h (by simp)
      | err _ => rw [hd] at h; exact absurd h (by simp)
      | panic _ => rw [hd] at h; exact absurd h (by simp)
  | err k =>
    rw [hco] at hsnd hn
    simp only [Snd] at hsnd
    subst hsnd
    exact absurd rfl hn
  | panic p => rw [hco] at hsnd; exact absurd hsnd (by simp [Snd])

end Candid.Props.C04
