import CandidModel.Wire
/-
  C04 — Accepted subtyping means decoding at the supertype cannot fail.
  (first instalment: the mechanism lemmas about `Wire.coerce`; the full soundness theorem
  `Sub t t' → v : t → coerce t t' v succeeds` is work in progress, see DESIGN.md)
-/
namespace Candid.Props.C04
open Candid Candid.Wire

private theorem trace_prim (env : Env) (p : Prim) : Sub.traceFull env (.prim p) = some (.prim p) := by
  unfold Sub.traceFull Env.trace; rfl
private theorem trace_opt (env : Env) (t : Ty) : Sub.traceFull env (.opt t) = some (.opt t) := by
  unfold Sub.traceFull Env.trace; rfl

/-- `t <: reserved` is sound: coercion at `reserved` succeeds for every value of every (well-scoped) type -/
theorem sound_reserved (env : Env) (fuel : Nat) (w : Ty) (v : Val) (hw : (Sub.traceFull env w).isSome) :
    coerce env true env (fuel + 1) w (.prim .reserved) v = .ok .reserved := by
  unfold coerce
  rw [trace_prim]
  cases h : Sub.traceFull env w with
  | none => simp [h] at hw
  | some w' => rfl

/-- `nat <: int` is sound: every natural number reads at `int`, as the same number -/
theorem sound_nat_int (env : Env) (fuel : Nat) (n : Nat) :
    coerce env true env (fuel + 1) (.prim .nat) (.prim .int) (.nat n) = .ok (.int n) := by
  unfold coerce
  rw [trace_prim, trace_prim]

/-- identity on primitive types -/
theorem sound_prim_refl (env : Env) (fuel : Nat) (v : Val) :
    coerce env true env (fuel + 1) (.prim .nat8) (.prim .nat8) v = .ok v ∧
    coerce env true env (fuel + 1) (.prim .text) (.prim .text) v = .ok v ∧
    coerce env true env (fuel + 1) (.prim .bool) (.prim .bool) v = .ok v := by
  refine ⟨?_, ?_, ?_⟩ <;> (unfold coerce; rw [trace_prim]; simp)

/-- **the opt rule never propagates a coercion failure**: at an expected option type, the only errors are
those that are not coercion failures (malformed input, limits) — "anything <: opt t" is sound because a
failed attempt is turned into `null`, never into an error -/
theorem opt_never_subtype_error (env : Env) (specMu : Bool) (fuel : Nat) (w e2 : Ty) (v : Val) :
    coerce env specMu env (fuel + 1) w (.opt e2) v ≠ .err .subtype := by
  unfold coerce
  rw [trace_opt]
  cases hw : Sub.traceFull env w with
  | none => simp
  | some w' =>
    simp only
    split
    · simp
    · simp
    · simp
    · rename_i w2 v2
      split <;> simp_all
    · simp
    · split
      · split <;> simp
      · split <;> simp_all

/-- `null <: opt t` and `reserved <: opt t`: read as `null` -/
theorem sound_null_opt (env : Env) (fuel : Nat) (e2 : Ty) (v : Val) :
    coerce env true env (fuel + 1) (.prim .null) (.opt e2) v = .ok .none ∧
    coerce env true env (fuel + 1) (.prim .reserved) (.opt e2) v = .ok .none := by
  constructor <;> (unfold coerce; rw [trace_prim, trace_opt])

/-- known finding KF-C04-mu-opt, pinned as a theorem about the two readings: for `type O = opt O` the
specification's coercion gives `null`, the implementation-like reading fails (and the official test
suite demands the failure) -/
theorem mu_opt_witness :
    let env : Env := [("O", .opt (.var "O"))]
    coerce env true env 50 (.prim .bool) (.var "O") (.bool true) = .ok .none ∧
    coerce env false env 50 (.prim .bool) (.var "O") (.bool true) = .err .limit := by
  constructor <;> rfl

end Candid.Props.C04
