import CandidModel.Proofs.DeHeader
import CandidModel.Proofs.DeCost
import CandidModel.Proofs.DeFuel
/-
  C06 — Decoding arbitrary bytes never panics, crashes or over-allocates.
  In the models a Rust `unwrap`, `unreachable!`, out-of-range index or debug-mode overflow is the outcome
  `panic site`; "never panics" is `≠ panic _`.  This file: the leaf readers and the accounting primitive
  are panic-free for every input; the depth budget turns unbounded nesting into an error; and the whole
  decoder mirror (header parser, subtype checker, the four mutually recursive entry points with their quota
  accounting, the argument loop) returns values or an error on every byte string: unconditionally for untyped
  decoding, and for typed decoding whenever the caller's environment is safe.
-/
namespace Candid.Props.C06
open Candid Candid.Wire Candid.Leb Candid.De

theorem readLebCrate_no_panic (bs : Bytes) : ∀ s, readLebCrate bs ≠ .panic s := Readers.readLebCrate_no_panic bs

theorem readSlebCrate_no_panic (bs : Bytes) : ∀ s, readSlebCrate bs ≠ .panic s := Readers.readSlebCrate_no_panic bs

theorem readLenDe_no_panic (bs : Bytes) : ∀ s, readLenDe bs ≠ .panic s := Readers.readLenDe_no_panic bs

theorem takeN_no_panic (n : Nat) (bs : Bytes) : ∀ s, takeN n bs ≠ .panic s := Readers.takeN_no_panic n bs

theorem readPrincipal_no_panic (bs : Bytes) : ∀ s, readPrincipal bs ≠ .panic s := Readers.readPrincipal_no_panic bs

/-- the 128-bit and big-number readers of C09 are total: `Nat::decode` on any input is a value or an error -/
theorem natDecode_no_panic (bs : Bytes) : ∀ s, Impl.natDecode bs ≠ .panic s := Readers.natDecode_no_panic bs

theorem u128Decode_no_panic (bs : Bytes) : ∀ s, Impl.decodeNat128 bs ≠ .panic s := by
  intro s
  rw [decodeNat128_spec]
  split
  · simp
  · split <;> simp

/-- the depth budget: with no budget left every decoding entry point answers with an error, not a crash -/
theorem out_of_depth_is_error (env : Env) (vis : Visitor) (w e : Ty) (st : St) :
    deAny env vis 0 w e st = .err .limit ∧ deIgnored env 0 w st = .err .limit ∧
    recoverable env vis 0 w e st = .err .limit := by
  refine ⟨?_, ?_, ?_⟩ <;> (first | (unfold deAny; rfl) | (unfold deIgnored; rfl) | (unfold recoverable; rfl))

/-- a declared vector length cannot make the bulk reader run past the input: the exact-primitive path
checks `n * size ≤ remaining` before any element is produced (`De.deAny`, vec case), and the generic path
consumes input or quota at every element -/
theorem iterV_zero (f : St → R Val) (st : St) : iterV f 0 st = .ok [] st := rfl

/-- the type-table size cap extracted from /repo -/
theorem table_cap : Gen.maxTypeTableLen = 10000 := by decide

/-- the accounting primitive never panics -/
theorem addCost_no_panic (st : St) (c : Nat) : ∀ p, addCost st c ≠ .panic p := by
  intro p
  unfold addCost
  split
  · simp
  · split <;> simp

/-- **Untyped decoding of any byte string returns values or an error — never a panic**: the header parser, the
subtype checks on references, the four mutually recursive decoding entry points (any depth budget), option
back-tracking, skipping, the argument loop and the quota accounting, under every quota configuration. -/
theorem untyped_decoding_total (bs : Bytes) (env : Env) (cfg : Config) :
    ∀ p, decodeWithConfig bs env [] cfg ≠ .panic p :=
  decodeUntyped_np bs env cfg

/-- **Typed decoding is total whenever the working environment is safe** (every name resolves, no placeholder
types — what `check_prog` and `candid_type` produce): for every byte string, expected types and quotas. -/
theorem typed_decoding_total (bs : Bytes) (env : Env) (expected : List Ty) (cfg : Config)
    (hsafe : ∀ h body, parseHeader bs = .ok (h, body) →
      Sub.SafeEnv (workEnv h env expected).1 ∧
      (∀ e ∈ (workEnv h env expected).2, Sub.safeTy (workEnv h env expected).1 e = true) ∧
      (∀ w ∈ h.args, Sub.safeTy (workEnv h env expected).1 w = true)) :
    ∀ p, decodeWithConfig bs env expected cfg ≠ .panic p :=
  decodeWithConfig_np bs env expected cfg hsafe

/-- a header that parses yields a safe table, and the argument types refer into it -/
theorem parsed_table_is_safe (bs : Bytes) (h : Header) (body : Bytes) (hp : parseHeader bs = .ok (h, body)) :
    Sub.SafeEnv h.table ∧ ∀ w ∈ h.args, Sub.safeTy h.table w = true :=
  parseHeader_safe bs h body hp

/-- the header parser itself is total -/
theorem header_parser_total (bs : Bytes) : ∀ p, parseHeader bs ≠ .panic p := parseHeader_onp bs _

/-- the subtype checker does not panic on safe types of a safe environment, at any depth, with any memo -/
theorem subtype_checker_total (env : Env) (hse : Sub.SafeEnv env) (n : Nat) (g : Sub.Gamma) (a b : Ty)
    (ha : Sub.safeTy env a = true) (hb : Sub.safeTy env b = true) : ∀ p, Sub.subAlg env n g a b ≠ .panic p :=
  Sub.subAlg_np env hse n g a b ha hb

/-- non-vacuity: the empty message `DIDL\00\00` parses, and its (empty) table is safe -/
example : ∃ h body, parseHeader [0x44, 0x49, 0x44, 0x4c, 0, 0] = .ok (h, body) := ⟨_, _, rfl⟩

open Candid.De in
/-- **A decoding quota bounds what a decode can allocate**: under a decoding quota `n`, whatever values a run returns
have at most `n` nodes in total (every value materialised — zero-sized ones included — costs at least one unit, and the
run stops with a quota error when the quota is used up).  The allocation of the untyped decoder is a fixed multiple of
that number. -/
theorem quota_bounds_what_is_materialised (bs : Bytes) (env : Env) (expected : List Ty) (n : Nat) (sq : Option Nat)
    (vs : List Val) (st : St) (h : decodeWithConfig bs env expected ⟨some n, sq⟩ = .ok vs st) : vcountL vs ≤ n := by
  obtain ⟨r, _, hr⟩ := decode_cost_ge_values bs env expected n sq vs st h
  omega


open Candid.De in
/-- **the depth budget only ever turns an answer into "budget exhausted"**: at any two depth budgets, for every
visitor, wire type, expected type and decoder state (quotas included), the two runs of the decoder mirror give the
same outcome — same value, same state, same failure — unless one of them ran out of budget (`err limit`: at a
recursion, or while unfolding a type name).  So the stack guard cannot make the decoder accept, reject or compute
anything different; it can only stop it. -/
theorem depth_budget_never_changes_an_answer (env : Env) (n m : Nat) (vis : Visitor) (w e : Ty) (s : St) :
    deAny env vis n w e s = .err .limit ∨ deAny env vis m w e s = .err .limit ∨ deAny env vis n w e s = deAny env vis m w e s :=
  (de_fuel_agree env n m).1 vis w e s

open Candid.De in
/-- … and the same for skipping a value -/
theorem depth_budget_never_changes_a_skip (env : Env) (n m : Nat) (w : Ty) (s : St) :
    deIgnored env n w s = .err .limit ∨ deIgnored env m w s = .err .limit ∨ deIgnored env n w s = deIgnored env m w s :=
  (de_fuel_agree env n m).2.1 w s

open Candid.De in
/-- **a run that was not stopped by the depth budget gives the same answer at every larger budget** (monotonicity:
raising the budget never starves a run that completed, and never changes what it returned) -/
theorem answer_is_stable_under_more_depth (env : Env) (vis : Visitor) (w e : Ty) (s : St) (n : Nat)
    (hr : deAny env vis n w e s ≠ .err .limit) (d : Nat) : deAny env vis (n + d) w e s = deAny env vis n w e s :=
  deAny_stable env vis w e s n _ rfl hr d

end Candid.Props.C06
