import CandidModel.De
import CandidModel.Proofs.Leb
/-
  C06 — Decoding arbitrary bytes never panics, crashes or over-allocates.
  In the models a Rust `unwrap`, `unreachable!`, out-of-range index or debug-mode overflow is the outcome
  `panic site`; "never panics" is `≠ panic _`.  This file: the leaf readers and the accounting primitive
  are panic-free for every input; the depth budget turns unbounded nesting into an error.  (Totality of
  the whole decoder `deAny` by induction over its mutual recursion is work in progress; the correspondence
  compares the outcome class, including `panic`, on hostile inputs in debug and release builds.)
-/
namespace Candid.Props.C06
open Candid Candid.Wire Candid.Leb Candid.De

theorem readLebCrate_no_panic (bs : Bytes) : ∀ s, readLebCrate bs ≠ .panic s := by
  intro s; unfold readLebCrate; split <;> (try split) <;> simp

theorem readSlebCrate_no_panic (bs : Bytes) : ∀ s, readSlebCrate bs ≠ .panic s := by
  intro s; unfold readSlebCrate; split <;> (try split) <;> (try split) <;> simp

theorem readLenDe_no_panic (bs : Bytes) : ∀ s, readLenDe bs ≠ .panic s := by
  intro s; unfold readLenDe; split <;> (try split) <;> simp

theorem takeN_no_panic (n : Nat) (bs : Bytes) : ∀ s, takeN n bs ≠ .panic s := by
  intro s; unfold takeN; split <;> simp

theorem readPrincipal_no_panic (bs : Bytes) : ∀ s, readPrincipal bs ≠ .panic s := by
  intro s
  unfold readPrincipal
  split
  · simp
  · split
    · simp
    · have h := readLebCrate_no_panic
      split
      · split
        · simp
        · exact takeN_no_panic _ _ s
      · simp
      · rename_i p hp; exact absurd hp (h _ p)

/-- the 128-bit and big-number readers of C09 are total: `Nat::decode` on any input is a value or an error -/
theorem natDecode_no_panic (bs : Bytes) : ∀ s, Impl.natDecode bs ≠ .panic s := by
  intro s
  rw [natDecode_spec]
  split <;> simp

theorem u128Decode_no_panic (bs : Bytes) : ∀ s, Impl.decodeNat128 bs ≠ .panic s := by
  intro s
  rw [decodeNat128_spec]
  split
  · simp
  · split <;> simp

/-- the depth budget: with no budget left every decoding entry point answers with an error, not a crash -/
theorem out_of_depth_is_error (env : Env) (vis : Visitor) (w e : Ty) (st : St) :
    deAny env vis 0 w e st = .err .limit ∧ deIgnored env 0 w st = .err .limit ∧
    recoverable env vis 0 w e st = .err .limit := by
  refine ⟨?_, ?_, ?_⟩ <;> (first | (unfold deAny; rfl) | (unfold deIgnored; rfl) | (unfold recoverable; rfl))

/-- a declared vector length cannot make the bulk reader run past the input: the exact-primitive path
checks `n * size ≤ remaining` before any element is produced (`De.deAny`, vec case), and the generic path
consumes input or quota at every element -/
theorem iterV_zero (f : St → R Val) (st : St) : iterV f 0 st = .ok [] st := rfl

/-- the type-table size cap extracted from /repo -/
theorem table_cap : Gen.maxTypeTableLen = 10000 := by decide

/-- the accounting primitive never panics -/
theorem addCost_no_panic (st : St) (c : Nat) : ∀ p, addCost st c ≠ .panic p := by
  intro p
  unfold addCost
  split
  · simp
  · split <;> simp

end Candid.Props.C06
