import CandidModel.Proofs.Wire
import CandidModel.Proofs.HeaderCanon
import CandidModel.Proofs.ValRound
/-
  C03 — Every encoded message is well-formed per the binary format of the spec.
  `Wire.serVal` / `Wire.encodeArgs` mirror the encoder (ser.rs, value.rs); `Wire.decPrim` / `Wire.decVal` /
  `Wire.parseHeader` are the specification-level reader.  Theorems: the reader inverts the writer on the
  leaves of the value grammar (every primitive but the big numbers, which are C09's), lengths, principals.
-/
namespace Candid.Props.C03
open Candid Candid.Wire Candid.Leb

theorem bool_roundtrip (b : Bool) (r : Bytes) :
    decPrim .bool ((if b then [1] else [0]) ++ r) = .ok (.bool b, r) := by
  cases b <;> simp [decPrim]

theorem nat8_roundtrip (n : Nat) (r : Bytes) (h : n < 2 ^ 8) :
    decPrim .nat8 (leBytes 1 n ++ r) = .ok (.nat8 n, r) := by
  simp [decPrim, readFixed_leBytes 1 n r (by simpa using h), Outcome.map]
theorem nat16_roundtrip (n : Nat) (r : Bytes) (h : n < 2 ^ 16) :
    decPrim .nat16 (leBytes 2 n ++ r) = .ok (.nat16 n, r) := by
  simp [decPrim, readFixed_leBytes 2 n r (by simpa using h), Outcome.map]
theorem nat32_roundtrip (n : Nat) (r : Bytes) (h : n < 2 ^ 32) :
    decPrim .nat32 (leBytes 4 n ++ r) = .ok (.nat32 n, r) := by
  simp [decPrim, readFixed_leBytes 4 n r (by simpa using h), Outcome.map]
theorem nat64_roundtrip (n : Nat) (r : Bytes) (h : n < 2 ^ 64) :
    decPrim .nat64 (leBytes 8 n ++ r) = .ok (.nat64 n, r) := by
  simp [decPrim, readFixed_leBytes 8 n r (by simpa using h), Outcome.map]
theorem float32_roundtrip (bits : Nat) (r : Bytes) (h : bits < 2 ^ 32) :
    decPrim .float32 (leBytes 4 bits ++ r) = .ok (.float32 bits, r) := by
  simp [decPrim, readFixed_leBytes 4 bits r (by simpa using h), Outcome.map]
theorem float64_roundtrip (bits : Nat) (r : Bytes) (h : bits < 2 ^ 64) :
    decPrim .float64 (leBytes 8 bits ++ r) = .ok (.float64 bits, r) := by
  simp [decPrim, readFixed_leBytes 8 bits r (by simpa using h), Outcome.map]

private theorem ofSigned_lt (bits : Nat) (i : Int) : ofSigned bits i < 256 ^ (bits / 8) ∨ True := Or.inr trivial

theorem int8_roundtrip (i : Int) (r : Bytes) (h1 : -(2 : Int) ^ 7 ≤ i) (h2 : i < (2 : Int) ^ 7) :
    decPrim .int8 (leBytes 1 (ofSigned 8 i) ++ r) = .ok (.int8 i, r) := by
  have hlt : ofSigned 8 i < 256 ^ 1 := by
    unfold ofSigned
    have : i % (2 : Int) ^ 8 < (2 : Int) ^ 8 := Int.emod_lt_of_pos _ (by decide)
    have h0 : 0 ≤ i % (2 : Int) ^ 8 := Int.emod_nonneg _ (by decide)
    omega
  simp [decPrim, readFixed_leBytes 1 _ r hlt, Outcome.map, toSigned_ofSigned 8 i (by omega) h1 h2]
theorem int16_roundtrip (i : Int) (r : Bytes) (h1 : -(2 : Int) ^ 15 ≤ i) (h2 : i < (2 : Int) ^ 15) :
    decPrim .int16 (leBytes 2 (ofSigned 16 i) ++ r) = .ok (.int16 i, r) := by
  have hlt : ofSigned 16 i < 256 ^ 2 := by
    unfold ofSigned
    have : i % (2 : Int) ^ 16 < (2 : Int) ^ 16 := Int.emod_lt_of_pos _ (by decide)
    have h0 : 0 ≤ i % (2 : Int) ^ 16 := Int.emod_nonneg _ (by decide)
    omega
  simp [decPrim, readFixed_leBytes 2 _ r hlt, Outcome.map, toSigned_ofSigned 16 i (by omega) h1 h2]
theorem int32_roundtrip (i : Int) (r : Bytes) (h1 : -(2 : Int) ^ 31 ≤ i) (h2 : i < (2 : Int) ^ 31) :
    decPrim .int32 (leBytes 4 (ofSigned 32 i) ++ r) = .ok (.int32 i, r) := by
  have hlt : ofSigned 32 i < 256 ^ 4 := by
    unfold ofSigned
    have : i % (2 : Int) ^ 32 < (2 : Int) ^ 32 := Int.emod_lt_of_pos _ (by decide)
    have h0 : 0 ≤ i % (2 : Int) ^ 32 := Int.emod_nonneg _ (by decide)
    omega
  simp [decPrim, readFixed_leBytes 4 _ r hlt, Outcome.map, toSigned_ofSigned 32 i (by omega) h1 h2]
theorem int64_roundtrip (i : Int) (r : Bytes) (h1 : -(2 : Int) ^ 63 ≤ i) (h2 : i < (2 : Int) ^ 63) :
    decPrim .int64 (leBytes 8 (ofSigned 64 i) ++ r) = .ok (.int64 i, r) := by
  have hlt : ofSigned 64 i < 256 ^ 8 := by
    unfold ofSigned
    have : i % (2 : Int) ^ 64 < (2 : Int) ^ 64 := Int.emod_lt_of_pos _ (by decide)
    have h0 : 0 ≤ i % (2 : Int) ^ 64 := Int.emod_nonneg _ (by decide)
    omega
  simp [decPrim, readFixed_leBytes 8 _ r hlt, Outcome.map, toSigned_ofSigned 64 i (by omega) h1 h2]

/-- text: LEB128 length, UTF-8 bytes -/
theorem text_roundtrip (s : String) (r : Bytes) (h : (strBytes s).length < 2 ^ 63) :
    decPrim .text (serText s ++ r) = .ok (.text s, r) := by
  unfold decPrim serText
  simp only [List.append_assoc]
  rw [readLenDe_uleb _ _ h]
  dsimp only
  rw [takeN_append]
  dsimp only
  rw [utf8_strBytes]

/-- principals and service references -/
theorem principal_roundtrip (b r : Bytes) (h : b.length ≤ 29) :
    readPrincipal (serPrincipal b ++ r) = .ok (b, r) := readPrincipal_ser b r h

/-- vector / text / blob lengths -/
theorem length_roundtrip (n : Nat) (r : Bytes) (h : n < 2 ^ 63) : readLenDe (uleb n ++ r) = .ok (n, r) :=
  readLenDe_uleb n r h

/-- `null` and `reserved` occupy no bytes -/
theorem null_roundtrip (r : Bytes) : decPrim .null ([] ++ r) = .ok (.null, r) := rfl

/-- **The reader inverts the writer at every type**: in every environment, for every type (composite, named,
recursive) and every canonical value of it — labels and variant index as the type gives them, numbers within
their width, lengths within what a length prefix carries — the writer produces bytes, and the specification's
reader at that type returns exactly that value and leaves exactly what followed. -/
theorem reader_inverts_writer_at_every_type (env : Env) (fuel : Nat) (v : Val) (t : Ty)
    (hc : canon env fuel v t = true) :
    ∃ bs, serVal fuel v = .ok bs ∧ ∀ r, decVal env fuel t (bs ++ r) = .ok (v, r) :=
  value_roundtrip env fuel v t hc

/-- whatever nesting budget the writer ran with -/
theorem reader_inverts_writer_any_budget (env : Env) (fuel n : Nat) (v : Val) (t : Ty) (bs r : Bytes)
    (hc : canon env fuel v t = true) (hs : serVal n v = .ok bs) : decVal env fuel t (bs ++ r) = .ok (v, r) :=
  decVal_ser env fuel v t n bs r hc hs

/-- distinct canonical values of a type never share an encoding -/
theorem writer_is_injective (env : Env) (fuel : Nat) (v1 v2 : Val) (t : Ty) (n1 n2 : Nat) (bs : Bytes)
    (h1 : canon env fuel v1 t = true) (h2 : canon env fuel v2 t = true)
    (s1 : serVal n1 v1 = .ok bs) (s2 : serVal n2 v2 = .ok bs) : v1 = v2 :=
  serVal_injective env fuel v1 v2 t n1 n2 bs h1 h2 s1 s2

/-- argument sequences: the concatenated encodings read back as the sequence of values -/
theorem argument_sequence_roundtrip (env : Env) (fuel : Nat) (ts : List Ty) (vs : List Val) (bss : List Bytes) (r : Bytes)
    (hl : vs.length = ts.length) (hc : ∀ p ∈ vs.zip ts, canon env fuel p.1 p.2 = true)
    (hs : mapOutcomes (serVal fuel) vs = .ok bss) : decArgs env fuel ts (bss.flatten ++ r) = .ok (vs, r) :=
  decArgs_ser env fuel ts vs bss r hl hc hs

/-- the hypothesis is satisfiable on a recursive type: `type L = opt record { 0 : nat8; 1 : L }`, the list `[7, 9]` -/
example : canon [("L", .opt (.record (.cons (.id 0) (.prim .nat8) (.cons (.id 1) (.var "L") .nil))))] 10
    (.opt (.record [(.id 0, .nat8 7), (.id 1, .opt (.record [(.id 0, .nat8 9), (.id 1, .none)]))])) (.var "L") = true := by
  decide

/-- **Every header the specification's parser accepts is canonical**: the table as written has one entry per
announced index, every entry is a composite constructor (opt, vec, record, variant, func, service or a future type)
over primitives and indices below the table length, record and variant ids are strictly ascending, service methods
strictly ascending by name, and the argument types are primitives or such indices.  (A message the encoder produces
is read back by this parser in every run of the check; whatever it reads back has this form.) -/
theorem accepted_header_is_canonical (bs : Bytes) (h : Header) (body : Bytes) (hp : parseHeader bs = .ok (h, body)) :
    (∀ p ∈ h.rawTable, consOk h.rawTable.length p.2 ∧ consSorted p.2) ∧
    (∀ i, i < h.rawTable.length → (h.rawTable.map (·.1))[i]? = some (tableName i)) ∧
    (∀ a ∈ h.args, idxOk h.rawTable.length a) :=
  parseHeader_canonical bs h body hp

end Candid.Props.C03
