import CandidModel.Proofs.BindgenDenote
/-
  C17 — the generated JavaScript binding denotes the same service interface.
  Property theorems only (helper lemmas: Proofs/Bindgen.lean).  The emitted module is modelled as the two
  statement lists `compile` prints (`const x = IDL.Rec()`, `x.fill(t)`, `const x = t`, `return …`), with the
  definition order of `chase_actor` / `chase_types` and the recursion set of `infer_rec`.
-/
namespace Candid.Props.C17
open Candid Candid.Bindgen

/-- **Every definition is declared before it is used or declared recursive first**, and every name is
declared once — in the service factory and in the init-args factory, for every environment and actor on
which the generator returns (any shape of recursion, any order of definitions). -/
theorem definitions_declared_before_use (env : Env) (actor : Ty) (f i : List Stmt)
    (h : jsFactory env actor = .ok (f, i)) : wellScoped [] [] f = true ∧ wellScoped [] [] i = true :=
  jsFactory_wellScoped env actor f i h

/-- The generator returns on every closed environment with a closed actor (what the type checker
accepts, C14): no unbound name, no `unwrap` of a missing definition, traversal within budget. -/
theorem generator_total (env : Env) (actor : Ty) (hce : ClosedEnv env)
    (ha : ∀ v ∈ varsOf actor, (env.find v).isSome) : ∃ f i, jsFactory env actor = .ok (f, i) :=
  jsFactory_total env actor hce ha

/-- the definitions emitted for a root are exactly closed: duplicate free, containing every name the root
mentions, and every name their own definitions mention -/
theorem emitted_definitions_closed (env : Env) (actor : Ty) (defs : List String)
    (h : chaseActor env actor = .ok defs) : Closed env defs (varsOf actor) := by
  obtain ⟨st', hst, hres⟩ := (map_ok _ _ _).mp h
  subst hres
  exact closed_of_spec env st' _ (chaseType_spec env _ actor _ st' hst)

/-- **The factory denotes the source interface**: the statements of the service factory (and of the init-args
factory) bind every name reachable from the service (the init arguments) exactly once and to the very definition the
program gives it — `const x = t` or, for a name declared recursive first, `x.fill(t)` — every `IDL.Rec()` cell is
filled exactly once, and the single `return` returns the service type (the init argument types).  Methods,
annotations, argument and result types, field ids and the recursion structure are therefore those of the source. -/
theorem factory_denotes_the_source (env : Env) (actor : Ty) (f i : List Stmt) (h : jsFactory env actor = .ok (f, i)) :
    Denotes env f (varsOf actor) [(splitActor actor).2] ∧
    Denotes env i (varsOfTys (splitActor actor).1) (splitActor actor).1.toList :=
  jsFactory_denotes env actor f i h

/-- hence the environment an IDL builder ends up with agrees with the program's on every name the factory binds -/
theorem built_environment_agrees_with_source (env : Env) (actor : Ty) (f i : List Stmt)
    (h : jsFactory env actor = .ok (f, i)) (x : String) (hx : x ∈ (bindings f).map (·.1)) :
    Env.find (bindings f) x = env.find x :=
  (jsFactory_denotes env actor f i h).1.find_eq x hx

/-- what `ident` does now, as read off /repo by the translator: the stem without trailing underscores is
looked up, and the factory parameter is escaped -/
theorem ident_shape : Gen.jsIdentTrims = true ∧ Gen.jsIdentEscapesIDL = true := by decide

/-- the two cases of `ident` -/
theorem ident_cases (s : String) :
    (jsIdent s = s ++ "_" ∧ (Gen.jsKeywords.contains (trimUnderscores s) || trimUnderscores s == "IDL") = true) ∨
    (jsIdent s = s ∧ (Gen.jsKeywords.contains (trimUnderscores s) || trimUnderscores s == "IDL") = false) := by
  unfold jsIdent
  simp only [ident_shape.1, ident_shape.2, if_true, Bool.true_and]
  cases hc : (Gen.jsKeywords.contains (trimUnderscores s) || trimUnderscores s == "IDL") <;> simp

/-- **JavaScript reserved words never appear as bare identifiers**: whatever the name, its spelling is not in
the keyword table (as extracted from /repo) and is not the factory parameter. -/
theorem ident_never_reserved (s : String) : jsIdent s ∉ Gen.jsKeywords ∧ jsIdent s ≠ "IDL" := by
  rcases ident_cases s with ⟨hs, _⟩ | ⟨hs, hk⟩
  · rw [hs]
    constructor
    · intro hk
      exact keywords_no_trailing_underscore _ hk (append_underscore_last s)
    · intro h
      have h1 := append_underscore_last s
      rw [h] at h1
      have h2 : "IDL".toList.getLast? = some 'L' := by decide
      rw [h2] at h1
      cases h1
  · rw [hs]
    simp only [Bool.or_eq_false_iff, beq_eq_false_iff_ne, ne_eq] at hk
    constructor
    · intro hmem
      have := trim_of_no_trailing s (keywords_no_trailing_underscore s hmem)
      rw [this] at hk
      have : Gen.jsKeywords.contains s = true := by simpa using hmem
      rw [this] at hk; exact absurd hk.1 (by simp)
    · intro h
      have h2 : "IDL".toList.getLast? ≠ some '_' := by decide
      have : trimUnderscores s = s := trim_of_no_trailing s (by rw [h]; exact h2)
      rw [this] at hk
      exact hk.2 h

/-- distinct names stay distinct after escaping -/
theorem ident_injective (a b : String) (h : jsIdent a = jsIdent b) : a = b := by
  rcases ident_cases a with ⟨ha, hka⟩ | ⟨ha, hka⟩ <;> rcases ident_cases b with ⟨hb, hkb⟩ | ⟨hb, hkb⟩
  · rw [ha, hb] at h
    exact (String.append_left_inj "_").mp h
  · rw [ha, hb] at h
    rw [← h, trim_append_underscore] at hkb
    rw [hka] at hkb; cases hkb
  · rw [ha, hb] at h
    rw [h, trim_append_underscore] at hka
    rw [hkb] at hka; cases hka
  · rw [ha, hb] at h; exact h

/-- non-vacuity: the generator returns on a mutually recursive pair behind a service -/
example : ∃ f i, jsFactory [("A", .opt (.var "B")), ("B", .record (.cons (.id 0) (.var "A") .nil))]
    (.service (.cons "m" (.func (.cons (.var "A") .nil) .nil []) .nil)) = .ok (f, i) := by
  apply generator_total
  · intro x t h v hv
    simp only [Env.find] at h
    split at h
    · simp only [Option.some.injEq] at h; subst h
      simp only [varsOf, List.mem_singleton] at hv; subst hv; decide
    · split at h
      · simp only [Option.some.injEq] at h; subst h
        simp only [varsOf, varsOfFields, List.append_nil, List.mem_singleton] at hv; subst hv; decide
      · simp at h
  · intro v hv
    simp only [varsOf, varsOfMeths, varsOfTys, List.append_nil, List.mem_singleton] at hv; subst hv; decide

end Candid.Props.C17
