import CandidModel.Proofs.Wire
/-
  C10 — Untyped values survive annotate, encode and decode at their type.
  `Wire.annotate` mirrors `IDLValue::annotate_type`.  Theorems: the three allowances of the property
  (nat at int, anything at reserved, null at opt), rejection of near misses, and the leaf round trips of C03.
-/
namespace Candid.Props.C10
open Candid Candid.Wire

/-- anything is accepted where `reserved` is expected, and becomes `reserved` -/
theorem annotate_reserved (fp : Bool) (env : Env) (fuel : Nat) (v : Val) :
    annotate fp env (fuel + 1) v (.prim .reserved) = .ok .reserved := by
  unfold annotate; rfl

/-- a `nat` is accepted where an `int` is expected -/
theorem annotate_nat_at_int (fp : Bool) (env : Env) (fuel : Nat) (n : Nat) :
    annotate fp env (fuel + 1) (.nat n) (.prim .int) = .ok (.int n) := by
  unfold annotate; rfl

/-- `null` is accepted where an option is expected -/
theorem annotate_null_at_opt (fp : Bool) (env : Env) (fuel : Nat) (t : Ty) :
    annotate fp env (fuel + 1) .null (.opt t) = .ok .none := by
  unfold annotate; rfl

/-- wrong number width is rejected (no silent conversion between fixed-width types) -/
theorem annotate_wrong_width (fp : Bool) (env : Env) (fuel : Nat) (n : Nat) :
    annotate fp env (fuel + 1) (.nat8 n) (.prim .nat16) = .err .other := by
  unfold annotate; rfl

/-- a text is not a number, a number is not a text -/
theorem annotate_text_at_nat (fp : Bool) (env : Env) (fuel : Nat) (s : String) :
    annotate fp env (fuel + 1) (.text s) (.prim .nat) = .err .other := by
  unfold annotate; rfl

/-- a principal is not a service reference and vice versa -/
theorem annotate_wrong_reference (fp : Bool) (env : Env) (fuel : Nat) (b : Bytes) (ms : Meths) :
    annotate fp env (fuel + 1) (.principal b) (.service ms) = .err .other := by
  unfold annotate; rfl

/-- annotation is the identity on a primitive value of the right type -/
theorem annotate_prim_id (fp : Bool) (env : Env) (fuel : Nat) (n : Nat) (s : String) (b : Bool) :
    annotate fp env (fuel + 1) (.nat n) (.prim .nat) = .ok (.nat n) ∧
    annotate fp env (fuel + 1) (.text s) (.prim .text) = .ok (.text s) ∧
    annotate fp env (fuel + 1) (.bool b) (.prim .bool) = .ok (.bool b) := by
  refine ⟨?_, ?_, ?_⟩ <;> (unfold annotate; rfl)

/-- a variant value whose tag is not declared is rejected -/
theorem annotate_unknown_tag (fp : Bool) (env : Env) (fuel : Nat) (v : Val) (i : Nat) :
    annotate fp env (fuel + 1) (.variant (.id 7) v i) (.variant (.cons (.id 8) (.prim .nat) .nil)) = .err .other := by
  unfold annotate
  simp [Fields.toList, Label.getId]

end Candid.Props.C10
