import CandidModel.Proofs.Wire
import CandidModel.Proofs.Annotate
import CandidModel.Proofs.AnnotateId
/-
  C10 — Untyped values survive annotate, encode and decode at their type.
  `Wire.annotate` mirrors `IDLValue::annotate_type`.  Theorems: the three allowances of the property
  (nat at int, anything at reserved, null at opt), rejection of near misses, and the leaf round trips of C03.
-/
namespace Candid.Props.C10
open Candid Candid.Wire

/-- anything is accepted where `reserved` is expected, and becomes `reserved` -/
theorem annotate_reserved (fp : Bool) (env : Env) (fuel : Nat) (v : Val) :
    annotate fp env (fuel + 1) v (.prim .reserved) = .ok .reserved := by
  unfold annotate; rfl

/-- a `nat` is accepted where an `int` is expected -/
theorem annotate_nat_at_int (fp : Bool) (env : Env) (fuel : Nat) (n : Nat) :
    annotate fp env (fuel + 1) (.nat n) (.prim .int) = .ok (.int n) := by
  unfold annotate; rfl

/-- `null` is accepted where an option is expected -/
theorem annotate_null_at_opt (fp : Bool) (env : Env) (fuel : Nat) (t : Ty) :
    annotate fp env (fuel + 1) .null (.opt t) = .ok .none := by
  unfold annotate; rfl

/-- wrong number width is rejected (no silent conversion between fixed-width types) -/
theorem annotate_wrong_width (fp : Bool) (env : Env) (fuel : Nat) (n : Nat) :
    annotate fp env (fuel + 1) (.nat8 n) (.prim .nat16) = .err .other := by
  unfold annotate; rfl

/-- a text is not a number, a number is not a text -/
theorem annotate_text_at_nat (fp : Bool) (env : Env) (fuel : Nat) (s : String) :
    annotate fp env (fuel + 1) (.text s) (.prim .nat) = .err .other := by
  unfold annotate; rfl

/-- a principal is not a service reference and vice versa -/
theorem annotate_wrong_reference (fp : Bool) (env : Env) (fuel : Nat) (b : Bytes) (ms : Meths) :
    annotate fp env (fuel + 1) (.principal b) (.service ms) = .err .other := by
  unfold annotate; rfl

/-- annotation is the identity on a primitive value of the right type -/
theorem annotate_prim_id (fp : Bool) (env : Env) (fuel : Nat) (n : Nat) (s : String) (b : Bool) :
    annotate fp env (fuel + 1) (.nat n) (.prim .nat) = .ok (.nat n) ∧
    annotate fp env (fuel + 1) (.text s) (.prim .text) = .ok (.text s) ∧
    annotate fp env (fuel + 1) (.bool b) (.prim .bool) = .ok (.bool b) := by
  refine ⟨?_, ?_, ?_⟩ <;> (unfold annotate; rfl)

/-- a variant value whose tag is not declared is rejected -/
theorem annotate_unknown_tag (fp : Bool) (env : Env) (fuel : Nat) (v : Val) (i : Nat) :
    annotate fp env (fuel + 1) (.variant (.id 7) v i) (.variant (.cons (.id 8) (.prim .nat) .nil)) = .err .other := by
  unfold annotate
  simp [Fields.toList, Label.getId]

/-- **What annotation returns is a canonical value of the type**: labels and variant index are the type's, numbers
are within their width, byte vectors are vectors of `nat8` — for every environment whose variants have fewer than
`2^64` alternatives, every type over it, every value the Rust representation can hold (`wfVal`). -/
theorem annotated_value_is_canonical (env : Env) (hse : SmallEnv env) (fuel : Nat) (v : Val) (t : Ty) (v' : Val)
    (hw : wfVal v = true) (hst : smallTy t = true) (h : annotate true env fuel v t = .ok v') :
    canon env (bound env fuel) (unblob v') t = true :=
  annotate_canon env hse fuel v t v' hw hst h

/-- **Annotate, encode, decode**: the annotated value is always written by the encoder, and from whatever the
encoder writes the specification's reader at the same type returns exactly the annotated value and leaves exactly
what followed. -/
theorem annotate_encode_decode_returns_the_value (env : Env) (hse : SmallEnv env) (fuel : Nat) (v : Val) (t : Ty)
    (v' : Val) (hw : wfVal v = true) (hst : smallTy t = true) (h : annotate true env fuel v t = .ok v') :
    (∃ n bs, serVal n v' = .ok bs) ∧
      ∀ n bs r, serVal n v' = .ok bs → decVal env (bound env fuel) t (bs ++ r) = .ok (unblob v', r) :=
  annotate_encode_decode env hse fuel v t v' hw hst h

/-- the hypotheses are satisfiable: a recursive record with an option and a variant, given out of order and
with a `nat` where an `int` is expected -/
example :
    let env : Env := [("T", .record (.cons (.id 1) (.prim .int) (.cons (.id 7) (.opt (.var "T")) .nil)))]
    let v : Val := .record [(.id 7, .opt (.record [(.id 1, .nat 5)])), (.id 1, .nat 3)]
    (match annotate true env 20 v (.var "T") with
     | .ok (.record [(.id 1, .int 3), (.id 7, .opt (.record [(.id 1, .int 5), (.id 7, .none)]))]) => true
     | _ => false) = true := by decide

/-- **Annotating a value of the type with the type succeeds and keeps it**: for every environment and type whose
records and variants have distinct field ids (what the checker guarantees), every canonical value `v` of the type
(`canon`: the values the reader returns at the type — labels and variant index of the type, numbers in range) and
every budget above the value's nesting, from the parser or not: `annotate_type` returns a value, and that value is `v`
itself, a vector of bytes coming back in its `blob` spelling (`unblob`).  With
`annotated_value_is_canonical` (whatever annotation returns is canonical) annotation is idempotent on its range. -/
theorem annotating_a_value_of_the_type_returns_it (env : Env)
    (hsh : ∀ x d, env.find x = some d → shapeTy d = true) (fp : Bool) (n : Nat) (v : Val) (t : Ty)
    (hc : canon env n v t = true) (hs : shapeTy t = true) (fuel : Nat) (hf : n < fuel) :
    ∃ v', annotate fp env fuel v t = .ok v' ∧ unblob v' = v :=
  annotate_of_canon env hsh fp n v t hc hs fuel hf

/-- non-vacuity: a recursive record type, a canonical value of it with a byte vector inside -/
example :
    let env : Env := [("T", .record (.cons (.id 1) (.vec (.prim .nat8)) (.cons (.id 7) (.opt (.var "T")) .nil)))]
    let v : Val := .record [(.id 1, .vec [.nat8 3, .nat8 255]), (.id 7, .opt (.record [(.id 1, .vec []), (.id 7, .none)]))]
    canon env 8 v (.var "T") = true ∧ shapeTy (.var "T") = true ∧
      (∀ x d, env.find x = some d → shapeTy d = true) := by
  refine ⟨by decide, by decide, ?_⟩
  intro x d h
  simp only [Env.find] at h
  split at h
  · simp only [Option.some.injEq] at h; subst h; decide
  · simp at h

end Candid.Props.C10
