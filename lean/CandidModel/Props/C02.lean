import CandidModel.Wire
/-
  C02 — Decoding at an expected type is exactly the specification's coercion.
  (first instalment; the decode/encode round-trip theorems live in Props/C03.lean and Props/C10.lean)
-/
namespace Candid.Props.C02
open Candid Candid.Wire

/-- coercion into `reserved` is the constant map, whatever the wire type and value -/
theorem coerce_reserved (env : Env) (fuel : Nat) (w : Ty) (v : Val)
    (hw : (Sub.traceFull env w).isSome) :
    coerce env true env (fuel + 1) w (.prim .reserved) v = .ok .reserved := by
  unfold coerce
  have he : Sub.traceFull env (.prim .reserved) = some (.prim .reserved) := by
    unfold Sub.traceFull Env.trace; rfl
  rw [he]
  cases h : Sub.traceFull env w with
  | none => simp [h] at hw
  | some w' => rfl

/-- a wire value of type `null` or `reserved` reads as `null` at every option type -/
theorem coerce_null_opt (env : Env) (fuel : Nat) (e2 : Ty) (v : Val) :
    coerce env true env (fuel + 1) (.prim .null) (.opt e2) v = .ok .none := by
  unfold coerce
  have h1 : Sub.traceFull env (.prim .null) = some (.prim .null) := by unfold Sub.traceFull Env.trace; rfl
  have h2 : Sub.traceFull env (.opt e2) = some (.opt e2) := by unfold Sub.traceFull Env.trace; rfl
  rw [h1, h2]

/-- no value is ever produced at the expected type `empty` -/
theorem coerce_empty (env : Env) (fuel : Nat) (w : Ty) (v : Val) :
    ∀ v', coerce env true env (fuel + 1) w (.prim .empty) v ≠ .ok v' := by
  intro v'
  unfold coerce
  have he : Sub.traceFull env (.prim .empty) = some (.prim .empty) := by unfold Sub.traceFull Env.trace; rfl
  rw [he]
  cases Sub.traceFull env w <;> simp

/-- a message whose magic is wrong is rejected -/
theorem header_magic (bs : Bytes) (h : bs.take 4 ≠ magic) : ∃ k, parseHeader bs = .err k := by
  unfold parseHeader
  simp [h]

/-- bytes left over after the declared arguments are an error -/
theorem trailing_is_error (bs : Bytes) (env : Env) (ts : List Ty) (h : Header) (body : Bytes)
    (vs : List Val) (b : UInt8) (rest : Bytes)
    (h1 : parseHeader bs = .ok (h, body))
    (h3 : decArgs (mergeEnv h.table env ts).1 defaultFuel h.args body = .ok (vs, b :: rest)) :
    decodeArgs bs env ts = .err .malformed := by
  unfold decodeArgs
  simp [h1, h3]

end Candid.Props.C02
