import CandidModel.Wire
import CandidModel.Proofs.DeWellFormed
import CandidModel.Proofs.DeCoerce
import CandidModel.Proofs.DeCoerceWf
import CandidModel.Proofs.DeNeutral
/-
  C02 — Decoding at an expected type is exactly the specification's coercion.
  The decode/encode round-trip theorems live in Props/C03.lean and Props/C10.lean; here: facts about the coercion
  relation, the header, the "only if" half of the property for the decoder mirror (`De`, with its cost
  accounting and back-tracking): what it accepts is a well-formed message; and the "if" half at the level of values:
  what the writer produces for a canonical value is decoded, at every expected type, to exactly the coercion the
  specification prescribes (`Proofs/DeCoerce`).
-/
namespace Candid.Props.C02
open Candid Candid.Wire

/-- coercion into `reserved` is the constant map, whatever the wire type and value -/
theorem coerce_reserved (env : Env) (fuel : Nat) (w : Ty) (v : Val)
    (hw : (Sub.traceFull env w).isSome) :
    coerce env true env (fuel + 1) w (.prim .reserved) v = .ok .reserved := by
  unfold coerce
  have he : Sub.traceFull env (.prim .reserved) = some (.prim .reserved) := by
    unfold Sub.traceFull Env.trace; rfl
  rw [he]
  cases h : Sub.traceFull env w with
  | none => simp [h] at hw
  | some w' => rfl

/-- a wire value of type `null` or `reserved` reads as `null` at every option type -/
theorem coerce_null_opt (env : Env) (fuel : Nat) (e2 : Ty) (v : Val) :
    coerce env true env (fuel + 1) (.prim .null) (.opt e2) v = .ok .none := by
  unfold coerce
  have h1 : Sub.traceFull env (.prim .null) = some (.prim .null) := by unfold Sub.traceFull Env.trace; rfl
  have h2 : Sub.traceFull env (.opt e2) = some (.opt e2) := by unfold Sub.traceFull Env.trace; rfl
  rw [h1, h2]

/-- no value is ever produced at the expected type `empty` -/
theorem coerce_empty (env : Env) (fuel : Nat) (w : Ty) (v : Val) :
    ∀ v', coerce env true env (fuel + 1) w (.prim .empty) v ≠ .ok v' := by
  intro v'
  unfold coerce
  have he : Sub.traceFull env (.prim .empty) = some (.prim .empty) := by unfold Sub.traceFull Env.trace; rfl
  rw [he]
  cases Sub.traceFull env w <;> simp

/-- a message whose magic is wrong is rejected -/
theorem header_magic (bs : Bytes) (h : bs.take 4 ≠ magic) : ∃ k, parseHeader bs = .err k := by
  unfold parseHeader
  simp [h]

/-- bytes left over after the declared arguments are an error -/
theorem trailing_is_error (bs : Bytes) (env : Env) (ts : List Ty) (h : Header) (body : Bytes)
    (vs : List Val) (b : UInt8) (rest : Bytes)
    (h1 : parseHeader bs = .ok (h, body))
    (h3 : decArgs (mergeEnv h.table env ts).1 defaultFuel h.args body = .ok (vs, b :: rest)) :
    decodeArgs bs env ts = .err .malformed := by
  unfold decodeArgs
  simp [h1, h3]

open Candid.De in
/-- **The decoder accepts only well-formed messages** (the "only if" half of the property, for the mirror of de.rs):
whenever decoding returns values — under any decoding / skipping quotas, with any back-tracking of options along the
way, at expected types that are closed in the working environment and free of the `future` placeholder — the bytes
are a header the specification's parser accepts, followed by exactly one well-formed value of every declared
argument type as the specification's reader sees it, with nothing left over. -/
theorem decoder_accepts_only_wellformed_messages (bs : Bytes) (env : Env) (expected : List Ty) (cfg : Config)
    (vs : List Val) (st : St) (h : decodeWithConfig bs env expected cfg = .ok vs st) :
    ∃ hd body, parseHeader bs = .ok (hd, body) ∧
      ∀ S, CleanCtx (workEnv hd env expected).1 S → (∀ e ∈ (workEnv hd env expected).2, cleanTy S e = true) →
        ∃ m ws, decArgs (workEnv hd env expected).1 m hd.args body = .ok (ws, []) :=
  decode_ok_wellformed bs env expected cfg vs st h

open Candid.De in
/-- when every argument is skipped (no expected types) no side condition is left: acceptance alone makes the message
well formed -/
theorem skipping_decoder_accepts_only_wellformed_messages (bs : Bytes) (env : Env) (cfg : Config) (vs : List Val)
    (st : St) (h : decodeWithConfig bs env [] cfg = .ok vs st) :
    ∃ hd body m ws, parseHeader bs = .ok (hd, body) ∧ decArgs hd.table m hd.args body = .ok (ws, []) :=
  decode_skip_wellformed bs env cfg vs st h

open Candid.De in
/-- every entry point of the decoder, at every depth, consumes exactly one value of the wire type it is given
(what the theorem above is assembled from) -/
theorem entry_points_read_one_wire_value (env : Env) (S : List String) (hc : CleanCtx env S) (fuel : Nat) :
    (∀ vis, HA env S vis (deAny env vis fuel)) ∧ HI env (deIgnored env fuel) ∧
    (∀ vis, HA env S vis (recoverable env vis fuel)) :=
  ⟨(de_reads env S hc fuel).1, (de_reads env S hc fuel).2.1, (de_reads env S hc fuel).2.2.1⟩

/-- non-vacuity: the side conditions hold for closed expected types over an empty caller environment -/
example : De.CleanCtx ([] : Env) [] ∧ De.cleanTy [] (.opt (.record (.cons (.id 0) (.prim .nat) .nil))) = true := by
  refine ⟨fun x hx => by simp at hx, by decide⟩

/-! ## the "if" half: a well-formed value is decoded to its coercion -/

open Candid.De in
/-- **Decoding a well-formed value at an expected type is the specification's coercion** (mirror `De.deAny` of
`deserialize_any` under the `IDLValue` visitor, with back-tracking; specification `Wire.coerce`, the relation
`v : w ~> v' : e` as a function, in the reading the implementation follows at an expected option cycle, KF-C04-mu-opt).
For every environment, every wire type `w` and expected type `e` such that within reach of either there is no function
or service reference, no placeholder, and records and variants list their fields by strictly ascending id (`OKW`,
`OKE`: what the header parser guarantees of a type table and the checker of a program; on the wire a variant case of
type `null` is spelled `null`), every canonical value `v` of `w` (`canon`), the bytes the value writer produces for
`v` followed by any `r`, a decoder state with nothing metered, and **every pair of depth budgets** `n`, `m`: unless one
of the two stops at a limit of the host (`err limit`: a depth budget ran out, or a vector announces a length whose
per-element cost does not fit a machine word, "Vec length overflow"),

* the coercion returns `v'` and the decoder returns `v'`, leaving exactly `r` and the rest of its state untouched, or
* the coercion fails with a subtype error and the decoder fails with a subtype error — the kind an enclosing option
  catches, on both sides, to read `null` —, or
* both fail otherwise, or both hit a panic site.

Not covered: reference types (their check is C05's), non-minimal (padded) LEB128 in the input, which the value writer
never produces, and the argument sequence around the values (correspondence only). -/
theorem decoding_a_wellformed_value_is_its_coercion (env : Env) (m n : Nat) (w e : Ty) (v : Val) (cf sf : Nat)
    (bs r : Bytes) (s : St) (hc : canon env cf v w = true) (hs : serVal sf v = .ok bs) (hin : s.input = bs ++ r)
    (hu : Unmetered s) (hw : OKW env w) (he : OKE env e) :
    CoRel (coerce env false env n w e v) (deAny env .idl m w e s) s r :=
  typed_read env m n w e v cf sf bs r s hc hs hin hu hw he trivial

open Candid.De in
/-- read off: what the coercion returns, the decoder returns, and leaves what followed -/
theorem coercible_value_is_accepted_with_its_coercion (env : Env) (m n : Nat) (w e : Ty) (v v' : Val) (cf sf : Nat)
    (bs r : Bytes) (s : St) (hc : canon env cf v w = true) (hs : serVal sf v = .ok bs) (hin : s.input = bs ++ r)
    (hu : Unmetered s) (hw : OKW env w) (he : OKE env e)
    (hco : coerce env false env n w e v = .ok v') :
    deAny env .idl m w e s = .err .limit ∨ deAny env .idl m w e s = .ok v' { s with input := r } := by
  rcases typed_read env m n w e v cf sf bs r s hc hs hin hu hw he trivial with h | h | h
  · rw [hco] at h; simp at h
  · exact Or.inl h
  · rw [hco] at h
    cases hd : deAny env .idl m w e s with
    | ok v'' s1 => rw [hd] at h; right; rw [h.1, h.2]; rfl
    | sub _ _ => rw [hd] at h; exact absurd h (by simp)
    | err _ => rw [hd] at h; exact absurd h (by simp)
    | panic _ => rw [hd] at h; exact absurd h (by simp)

open Candid.De in
/-- … what does not coerce is rejected with the error an enclosing option catches -/
theorem incoercible_value_is_a_subtype_failure (env : Env) (m n : Nat) (w e : Ty) (v : Val) (cf sf : Nat)
    (bs r : Bytes) (s : St) (hc : canon env cf v w = true) (hs : serVal sf v = .ok bs) (hin : s.input = bs ++ r)
    (hu : Unmetered s) (hw : OKW env w) (he : OKE env e)
    (hco : coerce env false env n w e v = .err .subtype) :
    deAny env .idl m w e s = .err .limit ∨ deAny env .idl m w e s = .sub none none := by
  rcases typed_read env m n w e v cf sf bs r s hc hs hin hu hw he trivial with h | h | h
  · rw [hco] at h; simp at h
  · exact Or.inl h
  · rw [hco] at h
    cases hd : deAny env .idl m w e s with
    | sub dq sq => rw [hd] at h; right; rw [h.2.1, h.2.2]
    | ok _ _ => rw [hd] at h; exact absurd h (by simp)
    | err _ => rw [hd] at h; simp at h
    | panic _ => rw [hd] at h; exact absurd h (by simp)

open Candid.De in
/-- … and conversely: what the decoder returns for a well-formed value is what the coercion returns -/
theorem accepted_value_is_the_coercion (env : Env) (m n : Nat) (w e : Ty) (v v' : Val) (cf sf : Nat)
    (bs r : Bytes) (s s1 : St) (hc : canon env cf v w = true) (hs : serVal sf v = .ok bs) (hin : s.input = bs ++ r)
    (hu : Unmetered s) (hw : OKW env w) (he : OKE env e)
    (hd : deAny env .idl m w e s = .ok v' s1) :
    coerce env false env n w e v = .err .limit ∨ (coerce env false env n w e v = .ok v' ∧ s1 = { s with input := r }) := by
  rcases typed_read env m n w e v cf sf bs r s hc hs hin hu hw he trivial with h | h | h
  · exact Or.inl h
  · rw [hd] at h; simp at h
  · rw [hd] at h
    cases hco : coerce env false env n w e v with
    | ok v'' => rw [hco] at h; right; exact ⟨by rw [h.1], h.2⟩
    | err _ => rw [hco] at h; exact absurd h (by simp)
    | panic _ => rw [hco] at h; exact absurd h (by simp)

open Candid.De in
/-- **skipping a well-formed value consumes exactly its bytes** (`deserialize_ignored_any`, what an option that
backtracks, a record with surplus fields and `reserved` rely on), at every depth budget -/
theorem skipping_a_wellformed_value_consumes_it (env : Env) (m : Nat) (w : Ty) (v : Val) (cf sf : Nat) (bs r : Bytes) (s : St)
    (hc : canon env cf v w = true) (hs : serVal sf v = .ok bs) (hin : s.input = bs ++ r) (hu : Unmetered s)
    (hw : OKW env w) :
    deIgnored env m w s = .err .limit ∨ ∃ x, deIgnored env m w s = .ok x { s with input := r } :=
  (skip_all env m).1 w v cf sf bs r s hc hs hin hu hw trivial

open Candid.De in
/-- the hypotheses on the types can be checked by evaluation: it is enough that everything written in the type and in
the definitions of the environment meets the head conditions -/
theorem type_conditions_by_evaluation (env : Env) (w e : Ty)
    (h1 : allEnv (fun t => headOK t && unitLit env t) env = true) (h2 : allTy (fun t => headOK t && unitLit env t) w = true)
    (h3 : allEnv headOK env = true) (h4 : allTy headOK e = true) : OKW env w ∧ OKE env e :=
  ⟨okw_of_all env w h1 h2, oke_of_all env e h3 h4⟩

open Candid.De in
/-- non-vacuity: a record with a variant inside on the wire, an extended record expected, a canonical value, its bytes -/
example :
    let w : Ty := .record (.cons (.id 0) (.prim .nat) (.cons (.id 2) (.variant (.cons (.id 5) (.prim .null) .nil)) .nil))
    let e : Ty := .record (.cons (.id 0) (.prim .int) (.cons (.id 1) (.opt (.prim .text)) .nil))
    let v : Val := .record [(.id 0, .nat 7), (.id 2, .variant (.id 5) .null 0)]
    allTy (fun t => headOK t && unitLit [] t) w = true ∧ allTy headOK e = true ∧ canon [] 5 v w = true ∧
      (∃ bs, serVal 5 v = .ok bs) ∧
      coerce [] false [] 5 w e v = .ok (.record [(.id 0, .int 7), (.id 1, .none)]) := by
  refine ⟨by decide, by decide, by decide, ⟨_, rfl⟩, by rfl⟩

/-! ## … and whole messages -/

open Candid.De in
/-- **A message the writer produced is decoded exactly as the specification prescribes** (mirror
`De.decodeWithConfig` of `IDLArgs::from_bytes_with_types`, no quota configured; specification `Wire.decodeArgs`:
parse the header, read the values with `M⁻¹`, coerce the argument sequence, in the implementation's reading of option
cycles and of reference types, neither of which occurs here).  For every byte string with a header the parser
accepts, every caller environment and non-empty sequence of expected types, when what follows the header is what the
value writer produces for canonical values `vs` of the declared argument types (one per type, nothing after them),
the declared and the expected types meet the conditions of `decoding_a_wellformed_value_is_its_coercion`, the working
environment has fewer than 99 998 entries: unless one side stops at a host limit, both return the same values — the coerced arguments, `null` for expected arguments the message does not
have, surplus arguments skipped — or both fail. -/
theorem decoding_a_written_message_is_the_specification (bs : Bytes) (env : Env) (expected : List Ty) (hd : Header)
    (body : Bytes) (vs : List Val) (cf sf : Nat) (bss : List Bytes) (hp : parseHeader bs = .ok (hd, body))
    (hne : expected.isEmpty = false) (hl : vs.length = hd.args.length)
    (hc : ∀ p ∈ vs.zip hd.args, canon (mergeEnv hd.table env expected).1 cf p.1 p.2 = true)
    (hm : mapOutcomes (serVal sf) vs = .ok bss) (hb : body = bss.flatten)
    (hokw : ∀ w ∈ hd.args, OKW (mergeEnv hd.table env expected).1 w)
    (hoke : ∀ e ∈ (mergeEnv hd.table env expected).2, OKE (mergeEnv hd.table env expected).1 e)
    (hlen : (mergeEnv hd.table env expected).1.length + 2 ≤ De.defaultFuel)
    (hcf : cf ≤ Wire.defaultFuel) (hsf : sf ≤ Wire.defaultFuel) :
    ArgRel (decodeArgs bs env expected false false) (decodeWithConfig bs env expected ⟨none, none⟩) := by
  rw [spec_decode_written bs env expected hd body vs cf sf bss hp hl hc hm hb hcf hsf]
  exact message_rel bs env expected hd body vs cf sf Wire.defaultFuel bss hp hne hl hc hm hb hokw hoke hlen

open Candid.De in
/-- the argument sequence on its own, at every budget of the coercion -/
theorem decoding_written_arguments_is_their_coercion (env : Env) (hlen : env.length + 2 ≤ De.defaultFuel) (n : Nat)
    (es ws : List Ty) (vs : List Val) (cf sf : Nat) (bss : List Bytes) (s : St)
    (hl : vs.length = ws.length) (hc : ∀ p ∈ vs.zip ws, canon env cf p.1 p.2 = true)
    (hm : mapOutcomes (serVal sf) vs = .ok bss) (hin : s.input = bss.flatten) (hu : Unmetered s)
    (hokw : ∀ w ∈ ws, OKW env w) (hoke : ∀ e ∈ es, OKE env e) :
    ArgRel (coerceArgs env n false env ws vs es) (argLoop env es ws s []) := by
  have := args_rel env hlen n es ws vs cf sf bss s [] hl hc hm hin hu hokw hoke trivial
  have hid : (fun (x : List Val) => ([] : List Val).reverse ++ x) = id := by funext x; simp
  rw [hid] at this
  have hmap : ∀ (x : Outcome (List Val)), x.map id = x := by intro x; cases x <;> rfl
  rw [hmap] at this
  exact this

/-! ## the "if" half on every well-formed input (padded LEB128 included) -/

open Candid.De in
/-- **Decoding any well-formed value at an expected type is the specification's coercion.**  The same statement as
`decoding_a_wellformed_value_is_its_coercion` with "the bytes the writer produces for `v`" replaced by "any input from
which the specification's reader `M⁻¹` (`Wire.decVal`, at some nesting budget `f`) reads `v` and leaves `r`" — so
numbers, lengths and variant indices in non-minimal (padded) LEB128 are covered too.  Unless one side runs out of its
depth budget, the decoder returns the coercion of `v` and leaves exactly `r`, or both report a subtype failure, or
both fail.  The wire type may contain function and service references (`OKWr`): they are skipped where the expected
type has no use for them, read as principals where it asks for one, and fail every other expected type on both
sides; only the *expected* type is first order. -/
theorem decoding_any_wellformed_value_is_its_coercion (env : Env) (m n : Nat) (w e : Ty) (v : Val) (f : Nat)
    (r : Bytes) (s : St) (hd : decVal env f w s.input = .ok (v, r)) (hu : Unmetered s) (hw : OKWr env w) (he : OKE env e)
    : CoRel (coerce env false env n w e v) (deAny env .idl m w e s) s r :=
  typed_read_w env m n w e v f r s hd hu hw he trivial

open Candid.De in
/-- skipping any well-formed value consumes exactly what the specification's reader consumes -/
theorem skipping_any_wellformed_value_consumes_it (env : Env) (m : Nat) (w : Ty) (v : Val) (f : Nat) (r : Bytes) (s : St)
    (hd : decVal env f w s.input = .ok (v, r)) (hu : Unmetered s) (hw : OKWr env w) :
    deIgnored env m w s = .err .limit ∨ ∃ x, deIgnored env m w s = .ok x { s with input := r } :=
  (skip_all_w env m).1 w v f r s hd hu hw trivial

open Candid.De in
/-- **Every well-formed message is decoded exactly as the specification prescribes** (no quota configured): for every
byte string whose header the parser accepts and whose body the specification's reader reads as values `vs` of the
declared argument types with nothing left over, every caller environment and non-empty sequence of expected types,
under the conditions on the types of `decoding_a_wellformed_value_is_its_coercion`: unless one side runs out of its
depth budget, `De.decodeWithConfig` and the specification's `Wire.decodeArgs` return the same values, or both fail.
Together with `decoder_accepts_only_wellformed_messages` (what the decoder accepts is such a message) this is the
property on the first-order fragment: the decoder succeeds exactly on the well-formed messages whose values coerce,
and returns exactly the coerced values. -/
theorem decoding_a_wellformed_message_is_the_specification (bs : Bytes) (env : Env) (expected : List Ty) (hd : Header)
    (body : Bytes) (vs : List Val) (hp : parseHeader bs = .ok (hd, body)) (hne : expected.isEmpty = false)
    (hda : decArgs (mergeEnv hd.table env expected).1 Wire.defaultFuel hd.args body = .ok (vs, []))
    (hokw : ∀ w ∈ hd.args, OKWr (mergeEnv hd.table env expected).1 w)
    (hoke : ∀ e ∈ (mergeEnv hd.table env expected).2, OKE (mergeEnv hd.table env expected).1 e)
    (hlen : (mergeEnv hd.table env expected).1.length + 2 ≤ De.defaultFuel) :
    ArgRel (decodeArgs bs env expected false false) (decodeWithConfig bs env expected ⟨none, none⟩) := by
  rw [spec_decode_accepted bs env expected hd body vs hp hda]
  exact message_rel_w bs env expected hd body vs Wire.defaultFuel Wire.defaultFuel hp hne hda hokw hoke hlen

open Candid.De in
/-- non-vacuity: a padded length and a padded number are read by the specification's reader (`vec nat`, one element,
the length written as `0x81 0x00`, the number 5 as `0x85 0x00`) -/
example : decVal [] 3 (.vec (.prim .nat)) [0x81, 0x00, 0x85, 0x00, 0xff] = .ok (.vec [.nat 5], [0xff]) := by rfl

/-! ## both halves together, under any quotas -/

open Candid.De in
/-- **What the decoder returns, under any quotas, is the specification's answer**: whenever
`De.decodeWithConfig` returns values `vs'` for a byte string whose header declares the argument types `hd.args` —
under any decoding / skipping quota — the body is read by the specification's reader `M⁻¹` as values `ws` of those
types with nothing left over (the message is well formed), and the specification's coercion of `ws` to the expected
types is `vs'` (or runs out of its own depth budget `n`).  Hypotheses: the expected types are closed in the working
environment (`CleanCtx`, `cleanTy`) and first order with fields in ascending order (`OKW`, `OKE`).  Put together from
`quotas_never_change_the_result` (C07), `decoder_accepts_only_wellformed_messages` and `message_rel_w`. -/
theorem accepted_message_is_wellformed_and_its_values_are_the_coercion (bs : Bytes) (env : Env) (expected : List Ty)
    (cfg : Config) (vs' : List Val) (st : St) (hd : Header) (body : Bytes) (S : List String) (n : Nat)
    (h : decodeWithConfig bs env expected cfg = .ok vs' st) (hp : parseHeader bs = .ok (hd, body))
    (hne : expected.isEmpty = false)
    (hclean : CleanCtx (mergeEnv hd.table env expected).1 S)
    (hcl : ∀ e ∈ (mergeEnv hd.table env expected).2, cleanTy S e = true)
    (hokw : ∀ w ∈ hd.args, OKWr (mergeEnv hd.table env expected).1 w)
    (hoke : ∀ e ∈ (mergeEnv hd.table env expected).2, OKE (mergeEnv hd.table env expected).1 e)
    (hlen : (mergeEnv hd.table env expected).1.length + 2 ≤ De.defaultFuel) :
    ∃ m ws, decArgs (mergeEnv hd.table env expected).1 m hd.args body = .ok (ws, []) ∧
      (coerceArgs (mergeEnv hd.table env expected).1 n false (mergeEnv hd.table env expected).1 hd.args ws
          (mergeEnv hd.table env expected).2 = .err .limit ∨
       coerceArgs (mergeEnv hd.table env expected).1 n false (mergeEnv hd.table env expected).1 hd.args ws
          (mergeEnv hd.table env expected).2 = .ok vs') := by
  obtain ⟨st', hun⟩ := decode_quota_neutral bs env expected cfg vs' st h
  obtain ⟨hd', body', hp', hwf⟩ := decode_ok_wellformed bs env expected ⟨none, none⟩ vs' st' hun
  rw [hp] at hp'
  simp only [Outcome.ok.injEq, Prod.mk.injEq] at hp'
  obtain ⟨e1, e2⟩ := hp'
  subst e1 e2
  have hwe : workEnv hd env expected = mergeEnv hd.table env expected := by
    simp only [workEnv, hne, Bool.false_eq_true, if_false]
  rw [hwe] at hwf
  obtain ⟨m, ws, hda⟩ := hwf S hclean hcl
  refine ⟨m, ws, hda, ?_⟩
  have hrel := message_rel_w bs env expected hd body ws m n hp hne hda hokw hoke hlen
  rw [hun] at hrel
  rcases hrel with hl | hl | hl
  · exact Or.inl hl
  · simp at hl
  · cases hc : coerceArgs (mergeEnv hd.table env expected).1 n false (mergeEnv hd.table env expected).1 hd.args ws
        (mergeEnv hd.table env expected).2 with
    | ok v'' => rw [hc] at hl; exact Or.inr (by rw [hl.1])
    | err k => rw [hc] at hl; exact absurd hl (by simp)
    | panic q => rw [hc] at hl; exact absurd hl (by simp)

open Candid.De in
/-- non-vacuity with a reference on the wire: a record with a function reference and a number, read at a record type
that only asks for the number — the conditions hold, the specification's reader reads the bytes, the coercion drops
the reference -/
example :
    let w : Ty := .record (.cons (.id 0) (.func .nil .nil []) (.cons (.id 1) (.prim .nat) .nil))
    let e : Ty := .record (.cons (.id 1) (.prim .nat) .nil)
    allTy (fun t => headOKW t && unitLit [] t) w = true ∧ allTy headOK e = true ∧
      decVal [] 3 w [1, 1, 1, 0xaa, 1, 0x66, 7] = .ok (.record [(.id 0, .func [0xaa] "f"), (.id 1, .nat 7)], []) ∧
      coerce [] false [] 3 w e (.record [(.id 0, .func [0xaa] "f"), (.id 1, .nat 7)]) = .ok (.record [(.id 1, .nat 7)]) := by
  refine ⟨by decide, by decide, by rfl, by rfl⟩

end Candid.Props.C02
