import CandidModel.Wire
import CandidModel.Proofs.DeWellFormed
/-
  C02 — Decoding at an expected type is exactly the specification's coercion.
  The decode/encode round-trip theorems live in Props/C03.lean and Props/C10.lean; here: facts about the coercion
  relation, the header, and the "only if" half of the property for the decoder mirror (`De`, with its cost
  accounting and back-tracking): what it accepts is a well-formed message.
-/
namespace Candid.Props.C02
open Candid Candid.Wire

/-- coercion into `reserved` is the constant map, whatever the wire type and value -/
theorem coerce_reserved (env : Env) (fuel : Nat) (w : Ty) (v : Val)
    (hw : (Sub.traceFull env w).isSome) :
    coerce env true env (fuel + 1) w (.prim .reserved) v = .ok .reserved := by
  unfold coerce
  have he : Sub.traceFull env (.prim .reserved) = some (.prim .reserved) := by
    unfold Sub.traceFull Env.trace; rfl
  rw [he]
  cases h : Sub.traceFull env w with
  | none => simp [h] at hw
  | some w' => rfl

/-- a wire value of type `null` or `reserved` reads as `null` at every option type -/
theorem coerce_null_opt (env : Env) (fuel : Nat) (e2 : Ty) (v : Val) :
    coerce env true env (fuel + 1) (.prim .null) (.opt e2) v = .ok .none := by
  unfold coerce
  have h1 : Sub.traceFull env (.prim .null) = some (.prim .null) := by unfold Sub.traceFull Env.trace; rfl
  have h2 : Sub.traceFull env (.opt e2) = some (.opt e2) := by unfold Sub.traceFull Env.trace; rfl
  rw [h1, h2]

/-- no value is ever produced at the expected type `empty` -/
theorem coerce_empty (env : Env) (fuel : Nat) (w : Ty) (v : Val) :
    ∀ v', coerce env true env (fuel + 1) w (.prim .empty) v ≠ .ok v' := by
  intro v'
  unfold coerce
  have he : Sub.traceFull env (.prim .empty) = some (.prim .empty) := by unfold Sub.traceFull Env.trace; rfl
  rw [he]
  cases Sub.traceFull env w <;> simp

/-- a message whose magic is wrong is rejected -/
theorem header_magic (bs : Bytes) (h : bs.take 4 ≠ magic) : ∃ k, parseHeader bs = .err k := by
  unfold parseHeader
  simp [h]

/-- bytes left over after the declared arguments are an error -/
theorem trailing_is_error (bs : Bytes) (env : Env) (ts : List Ty) (h : Header) (body : Bytes)
    (vs : List Val) (b : UInt8) (rest : Bytes)
    (h1 : parseHeader bs = .ok (h, body))
    (h3 : decArgs (mergeEnv h.table env ts).1 defaultFuel h.args body = .ok (vs, b :: rest)) :
    decodeArgs bs env ts = .err .malformed := by
  unfold decodeArgs
  simp [h1, h3]

open Candid.De in
/-- **The decoder accepts only well-formed messages** (the "only if" half of the property, for the mirror of de.rs):
whenever decoding returns values — under any decoding / skipping quotas, with any back-tracking of options along the
way, at expected types that are closed in the working environment and free of the `future` placeholder — the bytes
are a header the specification's parser accepts, followed by exactly one well-formed value of every declared
argument type as the specification's reader sees it, with nothing left over. -/
theorem decoder_accepts_only_wellformed_messages (bs : Bytes) (env : Env) (expected : List Ty) (cfg : Config)
    (vs : List Val) (st : St) (h : decodeWithConfig bs env expected cfg = .ok vs st) :
    ∃ hd body, parseHeader bs = .ok (hd, body) ∧
      ∀ S, CleanCtx (workEnv hd env expected).1 S → (∀ e ∈ (workEnv hd env expected).2, cleanTy S e = true) →
        ∃ m ws, decArgs (workEnv hd env expected).1 m hd.args body = .ok (ws, []) :=
  decode_ok_wellformed bs env expected cfg vs st h

open Candid.De in
/-- when every argument is skipped (no expected types) no side condition is left: acceptance alone makes the message
well formed -/
theorem skipping_decoder_accepts_only_wellformed_messages (bs : Bytes) (env : Env) (cfg : Config) (vs : List Val)
    (st : St) (h : decodeWithConfig bs env [] cfg = .ok vs st) :
    ∃ hd body m ws, parseHeader bs = .ok (hd, body) ∧ decArgs hd.table m hd.args body = .ok (ws, []) :=
  decode_skip_wellformed bs env cfg vs st h

open Candid.De in
/-- every entry point of the decoder, at every depth, consumes exactly one value of the wire type it is given
(what the theorem above is assembled from) -/
theorem entry_points_read_one_wire_value (env : Env) (S : List String) (hc : CleanCtx env S) (fuel : Nat) :
    (∀ vis, HA env S vis (deAny env vis fuel)) ∧ HI env (deIgnored env fuel) ∧
    (∀ vis, HA env S vis (recoverable env vis fuel)) :=
  ⟨(de_reads env S hc fuel).1, (de_reads env S hc fuel).2.1, (de_reads env S hc fuel).2.2.1⟩

/-- non-vacuity: the side conditions hold for closed expected types over an empty caller environment -/
example : De.CleanCtx ([] : Env) [] ∧ De.cleanTy [] (.opt (.record (.cons (.id 0) (.prim .nat) .nil))) = true := by
  refine ⟨fun x hx => by simp at hx, by decide⟩

end Candid.Props.C02
