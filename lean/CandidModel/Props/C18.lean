import CandidModel.RustId
import CandidModel.Proofs.RustFields
/-
  C18 — the generated Rust binding defines types with the same Candid meaning.
  Property theorems only.  Identifier level: the label the derive macro computes for an emitted field or variant
  is the source label (a `serde(rename)` is emitted whenever the identifier differs from the name); and the
  witnesses of the recorded findings (case conversion is not injective).
-/
namespace Candid.Props.C18
open Candid Candid.RustId

/-- what the branch for words that cannot be raw identifiers returns now, as read off /repo -/
theorem unusable_raw_counts_as_renamed : Gen.rustUnusableRawRenamed = true := by decide

private theorem plain_not_raw (id : String) (h : isPlainId id.toList = true) :
    (match id.toList with | 'r' :: '#' :: rest => String.ofList rest | _ => id) = id := by
  cases hl : id.toList with
  | nil => rfl
  | cons c r =>
    cases r with
    | nil => split <;> simp_all
    | cons d r' =>
      by_cases hc : c = 'r' ∧ d = '#'
      · obtain ⟨rfl, rfl⟩ := hc
        rw [hl] at h
        simp [isPlainId, isAsciiAlnum, isAsciiAlpha, isAsciiUpper, isAsciiLower, isAsciiDigit] at h
      · split
        · rename_i rest heq
          simp only [List.cons.injEq] at heq
          exact absurd ⟨heq.1, heq.2.1⟩ hc
        · rfl

private theorem raw_prefix_dropped (s : String) :
    (match ("r#" ++ s).toList with | 'r' :: '#' :: rest => String.ofList rest | _ => "r#" ++ s) = s := by
  have : ("r#" ++ s).toList = 'r' :: '#' :: s.toList := by simp
  rw [this]
  simp

/-- **The label the derive macro computes for an emitted field or variant is the source label**, for every
name and both case conventions: keywords (`r#type`), words that cannot be raw (`self_` + rename), names that
change under case conversion (rename), names that are not identifiers (`_hash_` + rename). -/
theorem emitted_label_is_source_label (id : String) (case : Case) :
    deriveLabel (emitField id case).1 (emitField id case).2 = id := by
  unfold emitField toIdentifierCase
  by_cases hp : isPlainId id.toList = true
  · simp only [hp, Bool.not_true, Bool.false_eq_true, if_false]
    generalize hproc : String.ofList (match case with | .snake => toSnake id.toList | .upperCamel => toUpperCamel id.toList) = processed
    by_cases hk : Gen.rustKeywords.contains processed = true
    · simp only [hk, if_true]
      by_cases hm : (processed != id) = true
      · simp [hm, deriveLabel]
      · have hm' : (processed != id) = false := by simpa using hm
        have heq : processed = id := by simpa using hm'
        simp only [hm', Bool.false_eq_true, if_false, deriveLabel]
        rw [heq]; exact raw_prefix_dropped id
    · simp only [hk, Bool.false_eq_true, if_false]
      by_cases hu : Gen.rustUnusableRaw.contains processed = true
      · simp only [hu, if_true, unusable_raw_counts_as_renamed, Bool.true_or, deriveLabel]
      · simp only [hu, Bool.false_eq_true, if_false]
        by_cases hm : (processed != id) = true
        · simp [hm, deriveLabel]
        · have hm' : (processed != id) = false := by simpa using hm
          have heq : processed = id := by simpa using hm'
          simp only [hm', Bool.false_eq_true, if_false, deriveLabel]
          rw [heq]; exact plain_not_raw id hp
  · have hp' : isPlainId id.toList = false := by simpa using hp
    simp [hp', deriveLabel]

/-- recorded finding, witness: case conversion collapses distinct type names (`a_b`, `aB` → `AB`) and distinct
field names (`fooBar`, `foo_bar` → `foo_bar`) -/
theorem case_conversion_not_injective :
    toUpperCamel "a_b".toList = toUpperCamel "aB".toList ∧ toSnake "fooBar".toList = toSnake "foo_bar".toList := by
  decide

/-- **Every field of a record and every tag of a variant keeps its label**, also when its identifier had to be changed
because an earlier field of the same type was given the same one (`fooBar` / `foo_bar`): the changed identifier carries
a rename. -/
theorem emitted_fields_keep_their_labels (case : Case) : ∀ (ids taken : List String),
    (emitFields case ids taken).map (fun p => deriveLabel p.1 p.2) = ids := by
  intro ids
  induction ids with
  | nil => intro taken; rfl
  | cons id rest ih =>
    intro taken
    simp only [emitFields, List.map_cons, ih, List.cons.injEq, and_true]
    split
    · rename_i heq
      rw [heq]; exact emitted_label_is_source_label id case
    · rfl

/-- **The identifiers given to the fields of one record (the tags of one variant) are pairwise distinct as rustc
compares them** (`r#x` and `x` are one identifier), whatever the labels: the emitted struct / enum has no duplicate
member. -/
theorem emitted_field_identifiers_are_distinct (case : Case) (ids : List String) :
    ((emitFields case ids []).map fun p => unraw p.1).Nodup :=
  (emitFields_distinct case ids []).2

/-- non-vacuity: three labels that all convert to `foo_bar`, and a raw identifier that meets a plain one after the
first repair (`type`, `Type` → `r#type`, `r#type_`; `type_` → `type_`) -/
example :
    emitFields .snake ["fooBar", "foo_bar", "FooBar", "type", "Type", "type_"] [] =
      [("foo_bar", some "fooBar"), ("foo_bar_", some "foo_bar"), ("foo_bar__", some "FooBar"),
       ("r#type", none), ("r#type_", some "Type"), ("type__", some "type_")] := by
  decide +kernel

end Candid.Props.C18
