import CandidModel.Proofs.Wire
/-
  C01 — Native encode/decode round-trip is the identity, whatever ran before.
  Native encoding goes through the same `TypeSerialize` / `ValueSerializer` as untyped encoding (C03); the
  harness reads every natively encoded message back with the specification decoder at the type computed
  by `TypeContainer` and compares with the abstract value converted by hand from the Rust value, under
  random call histories.  Theorems here are the leaf round trips the native primitives rest on (shared
  with C03) in the form "value of a host type → bytes → same value".
-/
namespace Candid.Props.C01
open Candid Candid.Wire Candid.Leb

/-- u8 / u16 / u32 / u64: every host value round-trips (no range side condition beyond the host type's) -/
theorem u8_roundtrip (v : UInt8) (r : Bytes) : decPrim .nat8 (leBytes 1 v.toNat ++ r) = .ok (.nat8 v.toNat, r) := by
  have h : v.toNat < 256 ^ 1 := by simpa using v.toNat_lt
  simp [decPrim, readFixed_leBytes 1 _ r h, Outcome.map]
theorem u16_roundtrip (v : UInt16) (r : Bytes) : decPrim .nat16 (leBytes 2 v.toNat ++ r) = .ok (.nat16 v.toNat, r) := by
  have h : v.toNat < 256 ^ 2 := by simpa using v.toNat_lt
  simp [decPrim, readFixed_leBytes 2 _ r h, Outcome.map]
theorem u32_roundtrip (v : UInt32) (r : Bytes) : decPrim .nat32 (leBytes 4 v.toNat ++ r) = .ok (.nat32 v.toNat, r) := by
  have h : v.toNat < 256 ^ 4 := by simpa using v.toNat_lt
  simp [decPrim, readFixed_leBytes 4 _ r h, Outcome.map]
theorem u64_roundtrip (v : UInt64) (r : Bytes) : decPrim .nat64 (leBytes 8 v.toNat ++ r) = .ok (.nat64 v.toNat, r) := by
  have h : v.toNat < 256 ^ 8 := by simpa using v.toNat_lt
  simp [decPrim, readFixed_leBytes 8 _ r h, Outcome.map]

/-- String: any Rust string shorter than 2^63 bytes -/
theorem string_roundtrip (s : String) (r : Bytes) (h : (strBytes s).length < 2 ^ 63) :
    decPrim .text (serText s ++ r) = .ok (.text s, r) := by
  unfold decPrim serText
  simp only [List.append_assoc]
  rw [readLenDe_uleb _ _ h]
  dsimp only
  rw [takeN_append]
  dsimp only
  rw [utf8_strBytes]

/-- Principal -/
theorem principal_roundtrip (b r : Bytes) (h : b.length ≤ 29) :
    readPrincipal (serPrincipal b ++ r) = .ok (b, r) := readPrincipal_ser b r h

/-- u128: the host encoder (`encode_nat`, minimal LEB128) followed by the host decoder is the identity on
the whole range of the type, and nothing outside the range decodes -/
theorem u128_decode_of_uleb (n : Nat) (r : Bytes) (h : n < 2 ^ 128) :
    Impl.decodeNat128 (uleb n ++ r) = .ok (n, r) := by
  rw [decodeNat128_spec, splitLeb_append _ _ (uleb_terminated n)]
  dsimp only
  rw [uval_uleb]
  simp [h]

/-- Nat (big number): `Nat::decode` inverts the minimal encoding for every natural number -/
theorem nat_decode_of_uleb (n : Nat) (r : Bytes) : Impl.natDecode (uleb n ++ r) = .ok (n, r) := by
  rw [natDecode_spec, specReadNat_uleb]

end Candid.Props.C01
