import CandidModel.Proofs.Wire
import CandidModel.Proofs.NativeRound
/-
  C01 — Native encode/decode round-trip is the identity, whatever ran before.
  Native encoding goes through the same `TypeSerialize` / `ValueSerializer` as untyped encoding (C03); the
  harness reads every natively encoded message back with the specification decoder at the type computed
  by `TypeContainer` and compares with the abstract value converted by hand from the Rust value, under
  random call histories.  Theorems here are the leaf round trips the native primitives rest on (shared
  with C03) in the form "value of a host type → bytes → same value".
-/
namespace Candid.Props.C01
open Candid Candid.Wire Candid.Leb

/-- u8 / u16 / u32 / u64: every host value round-trips (no range side condition beyond the host type's) -/
theorem u8_roundtrip (v : UInt8) (r : Bytes) : decPrim .nat8 (leBytes 1 v.toNat ++ r) = .ok (.nat8 v.toNat, r) := by
  have h : v.toNat < 256 ^ 1 := by simpa using v.toNat_lt
  simp [decPrim, readFixed_leBytes 1 _ r h, Outcome.map]
theorem u16_roundtrip (v : UInt16) (r : Bytes) : decPrim .nat16 (leBytes 2 v.toNat ++ r) = .ok (.nat16 v.toNat, r) := by
  have h : v.toNat < 256 ^ 2 := by simpa using v.toNat_lt
  simp [decPrim, readFixed_leBytes 2 _ r h, Outcome.map]
theorem u32_roundtrip (v : UInt32) (r : Bytes) : decPrim .nat32 (leBytes 4 v.toNat ++ r) = .ok (.nat32 v.toNat, r) := by
  have h : v.toNat < 256 ^ 4 := by simpa using v.toNat_lt
  simp [decPrim, readFixed_leBytes 4 _ r h, Outcome.map]
theorem u64_roundtrip (v : UInt64) (r : Bytes) : decPrim .nat64 (leBytes 8 v.toNat ++ r) = .ok (.nat64 v.toNat, r) := by
  have h : v.toNat < 256 ^ 8 := by simpa using v.toNat_lt
  simp [decPrim, readFixed_leBytes 8 _ r h, Outcome.map]

/-- String: any Rust string shorter than 2^63 bytes -/
theorem string_roundtrip (s : String) (r : Bytes) (h : (strBytes s).length < 2 ^ 63) :
    decPrim .text (serText s ++ r) = .ok (.text s, r) := by
  unfold decPrim serText
  simp only [List.append_assoc]
  rw [readLenDe_uleb _ _ h]
  dsimp only
  rw [takeN_append]
  dsimp only
  rw [utf8_strBytes]

/-- Principal -/
theorem principal_roundtrip (b r : Bytes) (h : b.length ≤ 29) :
    readPrincipal (serPrincipal b ++ r) = .ok (b, r) := readPrincipal_ser b r h

/-- u128: the host encoder (`encode_nat`, minimal LEB128) followed by the host decoder is the identity on
the whole range of the type, and nothing outside the range decodes -/
theorem u128_decode_of_uleb (n : Nat) (r : Bytes) (h : n < 2 ^ 128) :
    Impl.decodeNat128 (uleb n ++ r) = .ok (n, r) := by
  rw [decodeNat128_spec, splitLeb_append _ _ (uleb_terminated n)]
  dsimp only
  rw [uval_uleb]
  simp [h]

/-- Nat (big number): `Nat::decode` inverts the minimal encoding for every natural number -/
theorem nat_decode_of_uleb (n : Nat) (r : Bytes) : Impl.natDecode (uleb n ++ r) = .ok (n, r) := by
  rw [natDecode_spec, specReadNat_uleb]


/-! ## the native decoder mirror inverts the writer -/
open Candid.Native Candid.De

/-- **native decoding of what was written returns the value** (mirror of `get_value::<T>()`, `CandidModel/Native.lean`).
For every environment, every Rust type `t` of the grammar and every value `v` of `t` at its Candid type `e` within
reach of the depth budget `k` (`wt`: primitives, `u128` / `i128` within their range, `Nat` / `Int`, text, principals,
`Reserved`, byte buffers, options, vectors and sets — through the bulk reader, the big-number shortcut or element by
element —, arrays of their own length, bounded vectors within their limits, tuples, newtype structs, maps — with
their text-key and big-number shortcuts —, derived structs and enums, named recursive types, function and service
references — whose subtype check of the type against itself is the checker's first test and leaves the memo as it
was): from the bytes the
value writer produces for `v`, followed by anything, with nothing metered, at wire type = expected type, the mirror
returns exactly `v` and leaves exactly what followed. -/
theorem native_decoding_inverts_encoding (mk : String → NR) (env : Env) (tl : Nat) (renv : REnv) (k : Nat) (t : RTy)
    (e : Ty) (v : Val) (fs : Nat) (b r : Bytes) (st : St) (hwt : wt env renv k t e v = true) (hs : serVal fs v = .ok b)
    (hu : Unmetered st) (hin : st.input = b ++ r) :
    ∃ fl', deN mk env tl renv k t Flags.clear e e st = .ok (v, fl') { st with input := r } := by
  obtain ⟨fl', _, h⟩ := deN_round mk env tl renv k t e e v Flags.clear fs b r st hwt (Rel.refl env e) (FlagsFit.clear e e) hs hu hin
  exact ⟨fl', h⟩

/-- … also when the wire type is the unfolding of the expected type (what a vector hands its elements), and under a
shortcut flag that fits the position -/
theorem native_decoding_inverts_encoding_under_flags (mk : String → NR) (env : Env) (tl : Nat) (renv : REnv) (k : Nat)
    (t : RTy) (w e : Ty) (v : Val) (fl : Flags) (fs : Nat) (b r : Bytes) (st : St) (hwt : wt env renv k t e v = true)
    (hrel : Rel env w e) (hf : FlagsFit fl w e) (hs : serVal fs v = .ok b) (hu : Unmetered st) (hin : st.input = b ++ r) :
    ∃ fl', (fl' = fl ∨ fl' = Flags.clear) ∧ deN mk env tl renv k t fl w e st = .ok (v, fl') { st with input := r } :=
  deN_round mk env tl renv k t w e v fl fs b r st hwt hrel hf hs hu hin

/-- non-vacuity: a `BTreeMap<u8, Vec<Nat>>` with one entry is a value of its type within depth 6 (bulk-free key, big-number
shortcut for the elements of the value) -/
example : wt [] [] 6 (.map (.prim .nat8) (.seq .nat))
    (.vec (.record (.cons (.id 0) (.prim .nat8) (.cons (.id 1) (.vec (.prim .nat)) .nil))))
    (.vec [.record [(.id 0, .nat8 7), (.id 1, .vec [.nat 5, .nat 300])]]) = true := by decide

/-- non-vacuity: a vector of a newtype struct around `u16` (the bulk reader, through the wrapper) -/
example : wt [] [] 4 (.seq (.newtype (.prim .nat16))) (.vec (.prim .nat16)) (.vec [.nat16 1, .nat16 65535]) = true := by
  decide

/-- non-vacuity: `[u8; 2]` as a blob of its own length, and a bounded vector of `u64` within its limits -/
example : wt [] [] 3 (.array 2 (.prim .nat8)) (.vec (.prim .nat8)) (.blob [1, 2]) = true := by decide
example : wt [] [] 3 (.bounded 18446744073709551615 16 18446744073709551615 (.prim .nat64)) (.vec (.prim .nat64))
    (.vec [.nat64 1, .nat64 2]) = true := by decide

end Candid.Props.C01
