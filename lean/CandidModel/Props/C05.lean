import CandidModel.Subtype
/-
  C05 — Subtype and upgrade checks decide the spec relation, independent of order and history.
  (first instalment: structural facts about the specification relation; soundness of the algorithm follows)
-/
namespace Candid.Props.C05
open Candid Candid.Sub

/-- the rule functional is monotone, so its greatest fixed point exists -/
theorem F_mono {env : Env} {R S : Rel} (h : ∀ a b, R a b → S a b) : ∀ a b, F env R a b → F env S a b := by
  intro a b hF
  unfold F at *
  rcases hF with h1 | h1 | h1 | h1 | h1 | h1 | ⟨a', b', e1, e2, r⟩ | ⟨fs1, fs2, e1, e2, r⟩ | ⟨fs1, fs2, e1, e2, r⟩ |
    ⟨a1, r1, m1, a2, r2, m2, e1, e2, e3, ra, rr⟩ | ⟨ms1, ms2, e1, e2, r⟩ | ⟨x, d, e1, e2, r⟩ | ⟨x, d, e1, e2, e3, r⟩ |
    ⟨args, t, e1, e2, r⟩ | ⟨args, t, e1, e2, r⟩
  · exact Or.inl h1
  · exact Or.inr (Or.inl h1)
  · exact Or.inr (Or.inr (Or.inl h1))
  · exact Or.inr (Or.inr (Or.inr (Or.inl h1)))
  · exact Or.inr (Or.inr (Or.inr (Or.inr (Or.inl h1))))
  · exact Or.inr (Or.inr (Or.inr (Or.inr (Or.inr (Or.inl h1)))))
  · exact Or.inr (Or.inr (Or.inr (Or.inr (Or.inr (Or.inr (Or.inl ⟨a', b', e1, e2, h _ _ r⟩))))))
  · refine Or.inr (Or.inr (Or.inr (Or.inr (Or.inr (Or.inr (Or.inr (Or.inl ⟨fs1, fs2, e1, e2, ?_⟩)))))))
    intro p hp
    have := r p hp
    split at this <;> simp_all
  · refine Or.inr (Or.inr (Or.inr (Or.inr (Or.inr (Or.inr (Or.inr (Or.inr (Or.inl ⟨fs1, fs2, e1, e2, ?_⟩))))))))
    intro p hp
    have := r p hp
    split at this <;> simp_all
  · exact Or.inr (Or.inr (Or.inr (Or.inr (Or.inr (Or.inr (Or.inr (Or.inr (Or.inr (Or.inl
      ⟨a1, r1, m1, a2, r2, m2, e1, e2, e3, h _ _ ra, h _ _ rr⟩)))))))))
  · refine Or.inr (Or.inr (Or.inr (Or.inr (Or.inr (Or.inr (Or.inr (Or.inr (Or.inr (Or.inr (Or.inl
      ⟨ms1, ms2, e1, e2, ?_⟩))))))))))
    intro p hp
    have := r p hp
    split at this <;> simp_all
  · exact Or.inr (Or.inr (Or.inr (Or.inr (Or.inr (Or.inr (Or.inr (Or.inr (Or.inr (Or.inr (Or.inr (Or.inl
      ⟨x, d, e1, e2, h _ _ r⟩)))))))))))
  · exact Or.inr (Or.inr (Or.inr (Or.inr (Or.inr (Or.inr (Or.inr (Or.inr (Or.inr (Or.inr (Or.inr (Or.inr (Or.inl
      ⟨x, d, e1, e2, e3, h _ _ r⟩))))))))))))
  · exact Or.inr (Or.inr (Or.inr (Or.inr (Or.inr (Or.inr (Or.inr (Or.inr (Or.inr (Or.inr (Or.inr (Or.inr (Or.inr
      (Or.inl ⟨args, t, e1, e2, h _ _ r⟩)))))))))))))
  · exact Or.inr (Or.inr (Or.inr (Or.inr (Or.inr (Or.inr (Or.inr (Or.inr (Or.inr (Or.inr (Or.inr (Or.inr (Or.inr
      (Or.inr ⟨args, t, e1, e2, h _ _ r⟩)))))))))))))

/-- `Sub` is a fixed point: it can be unfolded one rule at a time -/
theorem sub_unfold {env : Env} {a b : Ty} (h : Sub env a b) : F env (Sub env) a b := by
  obtain ⟨R, hR, hab⟩ := h
  exact F_mono (fun a b r => ⟨R, hR, r⟩) a b (hR a b hab)

/-- coinduction principle: any relation closed under the rules is included in `Sub` -/
theorem sub_coind {env : Env} (R : Rel) (hR : ∀ a b, R a b → F env R a b) : ∀ a b, R a b → Sub env a b :=
  fun _ _ r => ⟨R, hR, r⟩

/-- the relation is reflexive -/
theorem sub_refl (env : Env) (t : Ty) : Sub env t t :=
  sub_coind (fun a b => a = b) (fun _ _ h => Or.inl h) t t rfl

/-- everything is below `reserved`, `empty` is below everything, `nat <: int` -/
theorem sub_reserved (env : Env) (t : Ty) : Sub env t (.prim .reserved) :=
  sub_coind (fun _ b => b = .prim .reserved) (fun _ _ h => Or.inr (Or.inl h)) _ _ rfl
theorem sub_empty (env : Env) (t : Ty) : Sub env (.prim .empty) t :=
  sub_coind (fun a _ => a = .prim .empty) (fun _ _ h => Or.inr (Or.inr (Or.inl h))) _ _ rfl
theorem sub_nat_int (env : Env) : Sub env (.prim .nat) (.prim .int) :=
  sub_coind (fun a b => a = .prim .nat ∧ b = .prim .int) (fun _ _ h => Or.inr (Or.inr (Or.inr (Or.inl h)))) _ _ ⟨rfl, rfl⟩

/-- a successful probe commits its memo, a failed one leaves the caller's memo untouched -/
theorem probe_fail_keeps_memo (r : Res) (g : Gamma) (h : (probe r g).1 = false) : (probe r g).2 = g := by
  unfold probe at *
  cases r <;> simp_all

end Candid.Props.C05
