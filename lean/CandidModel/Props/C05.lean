import CandidModel.Proofs.SubSound
import CandidModel.Proofs.SubComplete
import CandidModel.Proofs.SubTrans
import CandidModel.Proofs.EqSub
import CandidModel.Proofs.EqTrans
import CandidModel.Proofs.EqSubRef
import CandidModel.Proofs.EqComplete
import CandidModel.Proofs.SubTransRef
/-
  C05 — Subtype and upgrade checks decide the spec relation, independent of order and history.
  Structural facts about the specification relation, and soundness of the checking algorithm (memo table,
  probes on a copy of the memo, depth budget) for it: whatever was checked before in the same run.
-/
namespace Candid.Props.C05
open Candid Candid.Sub

/-- the rule functional is monotone, so its greatest fixed point exists -/
theorem F_mono {env : Env} {R S : Rel} (h : ∀ a b, R a b → S a b) : ∀ a b, F env R a b → F env S a b :=
  Sub.F_mono h

/-- `Sub` is a fixed point: it can be unfolded one rule at a time -/
theorem sub_unfold {env : Env} {a b : Ty} (h : Sub env a b) : F env (Sub env) a b := Sub.sub_unfold h

/-- coinduction principle: any relation closed under the rules is included in `Sub` -/
theorem sub_coind {env : Env} (R : Rel) (hR : ∀ a b, R a b → F env R a b) : ∀ a b, R a b → Sub env a b :=
  Sub.sub_coind R hR

/-- the relation is reflexive -/
theorem sub_refl (env : Env) (t : Ty) : Sub env t t :=
  sub_coind (fun a b => a = b) (fun _ _ h => Or.inl h) t t rfl

/-- everything is below `reserved`, `empty` is below everything, `nat <: int` -/
theorem sub_reserved (env : Env) (t : Ty) : Sub env t (.prim .reserved) :=
  sub_coind (fun _ b => b = .prim .reserved) (fun _ _ h => Or.inr (Or.inl h)) _ _ rfl
theorem sub_empty (env : Env) (t : Ty) : Sub env (.prim .empty) t :=
  sub_coind (fun a _ => a = .prim .empty) (fun _ _ h => Or.inr (Or.inr (Or.inl h))) _ _ rfl
theorem sub_nat_int (env : Env) : Sub env (.prim .nat) (.prim .int) :=
  sub_coind (fun a b => a = .prim .nat ∧ b = .prim .int) (fun _ _ h => Or.inr (Or.inr (Or.inr (Or.inl h)))) _ _ ⟨rfl, rfl⟩

/-- a successful probe commits its memo, a failed one leaves the caller's memo untouched -/
theorem probe_fail_keeps_memo (r : Res) (g : Gamma) (h : (probe r g).1 = false) : (probe r g).2 = g := by
  unfold probe at *
  cases r <;> simp_all

/-- **The checker is sound**: if `subtype_` (mirrored with its memo table, its probes and its depth budget)
accepts `a <: b` starting from an empty memo, then `a <: b` holds in the specification — for every environment
whose names resolve, every pair of types over it, every depth budget. -/
theorem checker_sound (env : Env) (hse : SafeEnv env) (n : Nat) (g' : Gamma) (a b : Ty)
    (ha : safeTy env a = true) (hb : safeTy env b = true) (h : subAlg env n [] a b = .yes g') : Sub env a b :=
  (subAlg_sound_history env hse n [] g' a b ha hb (justified_nil env) h).1

/-- **Independent of history**: a check that starts from the memo left by any sequence of earlier successful
checks (every pair in it justified) still only accepts subtypings of the specification, and leaves such a
memo behind.  (A failed attempt leaves no trace: probes run on a copy, `probe_fail_keeps_memo`.) -/
theorem checker_sound_after_history (env : Env) (hse : SafeEnv env) (n : Nat) (g g' : Gamma) (a b : Ty)
    (ha : safeTy env a = true) (hb : safeTy env b = true) (hj : Justified env g)
    (h : subAlg env n g a b = .yes g') : Sub env a b ∧ Justified env g' :=
  subAlg_sound_history env hse n g g' a b ha hb hj h

/-- hence for a whole sequence of checks sharing one memo: every accepted query is a subtyping of the
specification, in whatever order the queries come -/
theorem checker_sound_sequence (env : Env) (hse : SafeEnv env) (n : Nat) :
    ∀ (qs : List (Ty × Ty)) (g : Gamma), Justified env g → (∀ q ∈ qs, safeTy env q.1 = true ∧ safeTy env q.2 = true) →
      ∀ (run : List (Ty × Ty) → Gamma → Option Gamma),
        (∀ g, run [] g = some g) →
        (∀ q qs g, run (q :: qs) g = match subAlg env n g q.1 q.2 with | .yes g1 => run qs g1 | _ => none) →
        ∀ gEnd, run qs g = some gEnd → ∀ q ∈ qs, Sub env q.1 q.2 := by
  intro qs
  induction qs with
  | nil => intro g _ _ run _ _ gEnd _ q hq; simp at hq
  | cons q0 rest ih =>
    intro g hj hsafe run hnil hcons gEnd hrun q hq
    rw [hcons] at hrun
    cases hs : subAlg env n g q0.1 q0.2 with
    | yes g1 =>
      rw [hs] at hrun
      simp only [] at hrun
      have ⟨hsub, hj1⟩ := subAlg_sound_history env hse n g g1 q0.1 q0.2 (hsafe q0 (by simp)).1 (hsafe q0 (by simp)).2 hj hs
      simp only [List.mem_cons] at hq
      rcases hq with rfl | hq
      · exact hsub
      · exact ih g1 hj1 (fun x hx => hsafe x (by simp [hx])) run hnil hcons gEnd hrun q hq
    | no => rw [hs] at hrun; simp at hrun
    | out => rw [hs] at hrun; simp at hrun
    | panic s => rw [hs] at hrun; simp at hrun

/-- **The checker never rejects a pair of the specification relation**: on types whose names resolve it answers
"yes" or runs out of its depth budget — never "no" — whatever the memo it starts from (any earlier checks, any
failed probes) and whatever the budget. -/
theorem checker_never_rejects_wrongly (env : Env) (hse : SafeEnv env) (n : Nat) (g : Gamma) (a b : Ty)
    (ha : safeTy env a = true) (hb : safeTy env b = true) (h : Sub env a b) : subAlg env n g a b ≠ .no :=
  subAlg_never_rejects env hse n g a b ha hb h

/-- **Both definite answers are right**: from a justified memo, "yes" means the pair is in the relation and "no"
means it is not.  (What is left open is only whether the depth budget suffices.) -/
theorem definite_answers_decide_the_relation (env : Env) (hse : SafeEnv env) (n : Nat) (g : Gamma) (a b : Ty)
    (ha : safeTy env a = true) (hb : safeTy env b = true) (hj : Justified env g) :
    (∀ g', subAlg env n g a b = .yes g' → Sub env a b) ∧ (subAlg env n g a b = .no → ¬ Sub env a b) :=
  ⟨fun g' h => (subAlg_sound_history env hse n g g' a b ha hb hj h).1,
   fun h hs => subAlg_never_rejects env hse n g a b ha hb hs h⟩

/-- **Independent of order, names of the memo, earlier successes and failed probes**: two runs of the checker on
the same pair — with different memos, different budgets, after different histories — never give contradicting
definite answers. -/
theorem verdicts_never_contradict (env : Env) (hse : SafeEnv env) (n1 n2 : Nat) (g1 g2 g' : Gamma) (a b : Ty)
    (ha : safeTy env a = true) (hb : safeTy env b = true) (hj1 : Justified env g1)
    (h1 : subAlg env n1 g1 a b = .yes g') : subAlg env n2 g2 a b ≠ .no :=
  subAlg_never_rejects env hse n2 g2 a b ha hb (subAlg_sound_history env hse n1 g1 g' a b ha hb hj1 h1).1

/-! ## transitivity: false as stated (known finding KF-C05-transitivity-null-field) -/

namespace Trans
def rNat : Ty := .record (.cons (.named "x") (.prim .nat) .nil)
def rEmpty : Ty := .record .nil
def rNull : Ty := .record (.cons (.named "x") (.prim .null) .nil)

theorem sub12 : Sub [] rNat rEmpty := by
  refine ⟨fun a b => a = rNat ∧ b = rEmpty, ?_, ⟨rfl, rfl⟩⟩
  intro a b ⟨ha, hb⟩
  subst ha hb
  unfold F
  right; right; right; right; right; right; right; left
  exact ⟨_, _, rfl, rfl, by intro p hp; simp [Fields.toList] at hp⟩

theorem sub23 : Sub [] rEmpty rNull := by
  refine ⟨fun a b => a = rEmpty ∧ b = rNull, ?_, ⟨rfl, rfl⟩⟩
  intro a b ⟨ha, hb⟩
  subst ha hb
  unfold F
  right; right; right; right; right; right; right; left
  refine ⟨_, _, rfl, rfl, ?_⟩
  intro p hp
  simp only [Fields.toList, List.mem_singleton] at hp
  subst hp
  simp only [lookupF]
  decide

theorem not_sub13 : ¬ Sub [] rNat rNull := by
  intro ⟨R, hR, h⟩
  have h1 := hR _ _ h
  unfold F at h1
  simp only [rNat, rNull] at h1
  rcases h1 with h1 | h1 | h1 | h1 | h1 | h1 | h1 | h1 | h1 | h1 | h1 | h1 | h1 | h1 | h1
  all_goals first
    | (simp at h1; done)
    | skip
  obtain ⟨fs1, fs2, e1, e2, hall⟩ := h1
  simp only [Ty.record.injEq] at e1 e2
  subst e1 e2
  have := hall (.named "x", .prim .null) (by simp [Fields.toList])
  simp only [lookupF] at this
  simp only [if_true] at this
  have h2 := hR _ _ this
  unfold F at h2
  rcases h2 with h2 | h2 | h2 | h2 | h2 | h2 | h2 | h2 | h2 | h2 | h2 | h2 | h2 | h2 | h2
  all_goals first
    | (simp [isName] at h2; done)
    | (obtain ⟨x, d, hx1, hx2, _⟩ := h2; simp [recFindFull, recFind, Env.find] at hx2; done)
    | skip

/-- the same obstruction under any label -/
theorem not_sub_nat_null (l : Label) :
    ¬ Sub [] (.record (.cons l (.prim .nat) .nil)) (.record (.cons l (.prim .null) .nil)) := by
  intro ⟨R, hR, h⟩
  have h1 := hR _ _ h
  unfold F at h1
  rcases h1 with h1 | h1 | h1 | h1 | h1 | h1 | h1 | h1 | h1 | h1 | h1 | h1 | h1 | h1 | h1
  all_goals first
    | (simp at h1; done)
    | skip
  obtain ⟨fs1, fs2, e1, e2, hall⟩ := h1
  simp only [Ty.record.injEq] at e1 e2
  subst e1 e2
  have := hall (l, .prim .null) (by simp [Fields.toList])
  simp only [lookupF] at this
  simp only [if_true] at this
  have h2 := hR _ _ this
  unfold F at h2
  rcases h2 with h2 | h2 | h2 | h2 | h2 | h2 | h2 | h2 | h2 | h2 | h2 | h2 | h2 | h2 | h2
  all_goals first
    | (simp [isName] at h2; done)
    | (obtain ⟨x, d, hx1, hx2, _⟩ := h2; simp [recFindFull, recFind, Env.find] at hx2; done)
    | skip

def fNull : Ty := .func (.cons (.prim .null) .nil) .nil []
def fNone : Ty := .func .nil .nil []
def fNat : Ty := .func (.cons (.prim .nat) .nil) .nil []

theorem fsub12 : Sub [] fNull fNone := by
  refine ⟨fun a b => (a = fNull ∧ b = fNone) ∨ (a = tupleTy .nil ∧ b = tupleTy (.cons (.prim .null) .nil)) ∨
    (a = tupleTy .nil ∧ b = tupleTy .nil), ?_, Or.inl ⟨rfl, rfl⟩⟩
  intro a b h
  rcases h with ⟨ha, hb⟩ | ⟨ha, hb⟩ | ⟨ha, hb⟩
  · subst ha hb; exact F.func _ _ _ _ _ (Or.inr (Or.inl ⟨rfl, rfl⟩)) (Or.inr (Or.inr ⟨rfl, rfl⟩))
  · subst ha hb
    refine F.record _ _ ?_
    intro p hp
    simp only [tupleFields, Fields.toList, List.mem_singleton] at hp
    subst hp
    simp only [tupleFields, lookupF]
    decide
  · subst ha hb; exact F.refl _

theorem fsub23 : Sub [] fNone fNat := by
  refine ⟨fun a b => (a = fNone ∧ b = fNat) ∨ (a = tupleTy (.cons (.prim .nat) .nil) ∧ b = tupleTy .nil) ∨
    (a = tupleTy .nil ∧ b = tupleTy .nil), ?_, Or.inl ⟨rfl, rfl⟩⟩
  intro a b h
  rcases h with ⟨ha, hb⟩ | ⟨ha, hb⟩ | ⟨ha, hb⟩
  · subst ha hb; exact F.func _ _ _ _ _ (Or.inr (Or.inl ⟨rfl, rfl⟩)) (Or.inr (Or.inr ⟨rfl, rfl⟩))
  · subst ha hb
    refine F.record _ _ ?_
    intro p hp
    simp [tupleFields, Fields.toList] at hp
  · subst ha hb; exact F.refl _

theorem not_fsub13 : ¬ Sub [] fNull fNat := by
  intro h
  have := (Wire.sub_func_inv' h).2.1
  exact not_sub_nat_null (.id 0) this
end Trans

/-- **The subtype relation of the specification is not transitive**: `record { x : nat } <: record {}` (a field may be
dropped) and `record {} <: record { x : null }` (a field may be added when `null <:` its type), but
`record { x : nat } <: record { x : null }` would need `nat <: null`.  The property (and spec/Candid.md, "Transitivity
of subtyping") claims transitivity; the rules as written, which the checker implements exactly (`checker_sound`,
`checker_never_rejects_wrongly`), do not have it.  The same chain with `opt _` or `reserved` instead of `null` is
fine (any type is a subtype of those); the witness is replayed on the implementation by `sub.trans`. -/
theorem subtyping_is_not_transitive_at_a_null_field :
    Sub [] Trans.rNat Trans.rEmpty ∧ Sub [] Trans.rEmpty Trans.rNull ∧ ¬ Sub [] Trans.rNat Trans.rNull :=
  ⟨Trans.sub12, Trans.sub23, Trans.not_sub13⟩

/-- the same failure through an argument of type `null` in the *sub*type (argument lists are compared as tuple records,
the other way round): `func (null) -> () <: func () -> () <: func (nat) -> ()`, but not the ends -/
theorem subtyping_is_not_transitive_at_a_null_argument :
    Sub [] Trans.fNull Trans.fNone ∧ Sub [] Trans.fNone Trans.fNat ∧ ¬ Sub [] Trans.fNull Trans.fNat :=
  ⟨Trans.fsub12, Trans.fsub23, Trans.not_fsub13⟩

/-- **… and that is the only obstruction on first-order types**: over an environment whose definitions resolve and
have distinct field ids (`GoodEnv`), for types without function or service references within reach (`FOT`),
`a <: b` and `b <: c` give `a <: c` whenever no record type within reach of `c` has a field whose type unfolds to
`null` (`NNT`).  (By coinduction on chains; the record case is where a field dropped by `b` and re-added by `c` must
be a supertype of whatever `a` had there — true of `opt _` and `reserved`, false of `null`.) -/
theorem subtyping_is_transitive_away_from_null_fields (env : Env) (hg : Wire.GoodEnv env) (a b c : Ty)
    (hga : Wire.goodTy env a = true) (hgb : Wire.goodTy env b = true) (hgc : Wire.goodTy env c = true)
    (hfa : Wire.FOT env a) (hfb : Wire.FOT env b) (hfc : Wire.FOT env c) (hnn : Wire.NNT env c)
    (h1 : Sub env a b) (h2 : Sub env b c) : Sub env a c :=
  Wire.sub_trans_no_null_field env hg a b c hga hgb hgc hfa hfb hfc hnn h1 h2

/-- **… function and service references included**: over an environment and for types in which every name resolves,
there is no placeholder or class type, and field ids / method names are distinct (`deepTy`, `DeepEnv`), `a <: b` and
`b <: c` give `a <: c` whenever no record and no argument or result list written anywhere in `a`, in `c` or in the
definitions has a member whose type unfolds to `null` (`nnTy`, `NNEnv`; argument lists are compared as tuple records
the other way round, which is why the condition is asked of both ends). -/
theorem subtyping_is_transitive_away_from_null_members (env : Env) (hd : Wire.DeepEnv env) (hn : Wire.NNEnv env) (a b c : Ty)
    (hda : Wire.deepTy env a = true) (hdb : Wire.deepTy env b = true) (hdc : Wire.deepTy env c = true)
    (hnna : Wire.nnTy env a = true) (hnnc : Wire.nnTy env c = true)
    (h1 : Sub env a b) (h2 : Sub env b c) : Sub env a c :=
  Wire.sub_trans_deep env hd hn a b c hda hdb hdc hnna hnnc h1 h2

/-- the hypothesis on the environment, by evaluation -/
theorem null_free_environment_by_evaluation (env : Env) (h : Wire.nnEnvB env = true) : Wire.NNEnv env :=
  Wire.nnEnv_of_B env h

/-- non-vacuity: the chain of the counterexample with `opt text` in place of `null` meets every hypothesis -/
example :
    let a : Ty := .record (.cons (.named "x") (.prim .nat) .nil)
    let c : Ty := .record (.cons (.named "x") (.opt (.prim .text)) .nil)
    Wire.goodTy [] a = true ∧ Wire.goodTy [] c = true ∧ De.allTy Wire.fo1 a = true ∧ De.allTy Wire.fo1 c = true ∧
      De.allTy (Wire.nn1 []) c = true := by
  refine ⟨by decide, by decide, by decide, by decide, by decide⟩

/-! ### type equality -/

/-- **The `equal` check is sound for type equality, whatever was checked before**: `TyEq` is the greatest relation
closed under the congruence rules with names unfolded on either side (`CandidModel/TypeEq.lean`); a successful run of
the algorithm (`equal_impl`, mirrored by `eqAlg`), started from a memo every pair of which is justified, establishes
it and leaves such a memo. -/
theorem equal_check_is_sound_after_history (env : Env) (n : Nat) (g g' : Gamma) (a b : Ty) (hj : EJustified env g)
    (h : eqAlg env n g a b = .yes g') : TyEq env a b ∧ EJustified env g' :=
  eqAlg_sound_history env n g g' a b hj h

/-- **The `equal` check never rejects a pair of equal types**, whatever memo it is started with and for any
environment: with `equal_check_is_sound_after_history`, both definite answers decide `TyEq` (what is left is the depth
budget, answer `out`, and the panics on unresolved names). -/
theorem equal_check_never_rejects_wrongly (env : Env) (n : Nat) (g : Gamma) (a b : Ty)
    (h : eqAlg env n g a b = .no) : ¬ TyEq env a b :=
  fun heq => Wire.eqAlg_never_rejects env n g a b heq h

/-- both definite answers of a fresh `equal` check decide type equality -/
theorem definite_equal_answers_decide_equality (env : Env) (n : Nat) (a b : Ty) :
    (∀ g', eqAlg env n [] a b = .yes g' → TyEq env a b) ∧ (eqAlg env n [] a b = .no → ¬ TyEq env a b) :=
  ⟨fun g' h => (eqAlg_sound_history env n [] g' a b (Ejustified_nil env) h).1,
   fun h => equal_check_never_rejects_wrongly env n [] a b h⟩

/-- **Type equality is an equivalence relation**, over any environment (unlike subtyping, which fails transitivity at
`null`-typed fields): reflexive, symmetric, transitive. -/
theorem type_equality_is_an_equivalence (env : Env) :
    (∀ a, TyEq env a a) ∧ (∀ a b, TyEq env a b → TyEq env b a) ∧ (∀ a b c, TyEq env a b → TyEq env b c → TyEq env a c) :=
  ⟨tyeq_refl env, fun _ _ h => Wire.tyeq_symm h, fun _ _ _ h1 h2 => Wire.tyeq_trans h1 h2⟩

/-- **Equal types are subtypes of each other**, function and service references included: over an environment and for
types in which every name resolves, there is no placeholder or class type, and the ids of every record / variant and
the method names of every service are distinct (`deepTy`, `DeepEnv` — what a type table or a checked program provides),
type equality gives subtyping in both directions.  (By coinduction: each equality rule is matched by the subtyping
rule of the same shape — function arguments through the symmetry of equality — a name is unfolded on whichever side it
stands; distinct ids make "the field at the same position" and "the field with the same id" the same field.) -/
theorem equal_types_are_subtypes_both_ways (env : Env) (hd : Wire.DeepEnv env) (a b : Ty)
    (hda : Wire.deepTy env a = true) (hdb : Wire.deepTy env b = true)
    (h : TyEq env a b) : Sub env a b ∧ Sub env b a :=
  Wire.tyeq_sub_deep env hd a b hda hdb h

/-- **… and so a successful `equal` check implies subtyping both ways.** -/
theorem equal_check_implies_subtyping_both_ways (env : Env) (hd : Wire.DeepEnv env) (n : Nat) (g' : Gamma) (a b : Ty)
    (hda : Wire.deepTy env a = true) (hdb : Wire.deepTy env b = true)
    (h : eqAlg env n [] a b = .yes g') : Sub env a b ∧ Sub env b a :=
  Wire.equal_sub_both_deep env hd n g' a b hda hdb h

/-- the hypothesis on the environment, by evaluation -/
theorem deep_environment_by_evaluation (env : Env) (h : Wire.deepEnvB env = true) : Wire.DeepEnv env :=
  Wire.deepEnv_of_B env h

namespace EqEx
/-- `type A = record { x : opt A; f : func (A) -> (B) query }; type B = record { x : opt B; f : func (B) -> (A) query }` -/
def env : Env :=
  [("A", .record (.cons (.named "x") (.opt (.var "A")) (.cons (.named "f") (.func (.cons (.var "A") .nil) (.cons (.var "B") .nil) [.query]) .nil))),
   ("B", .record (.cons (.named "x") (.opt (.var "B")) (.cons (.named "f") (.func (.cons (.var "B") .nil) (.cons (.var "A") .nil) [.query]) .nil)))]
def accepted : Res → Bool | .yes _ => true | _ => false
end EqEx

/-- non-vacuity: two mutually recursive definitions with function references that differ only in their names are
accepted by the `equal` check and meet the hypotheses -/
example :
    EqEx.accepted (eqAlg EqEx.env 20 [] (.var "A") (.var "B")) = true ∧
    Wire.deepTy EqEx.env (.var "A") = true ∧ Wire.deepTy EqEx.env (.var "B") = true ∧ Wire.deepEnvB EqEx.env = true := by
  refine ⟨by decide +kernel, by decide +kernel, by decide +kernel, by decide +kernel⟩

/-- non-vacuity of `subtyping_is_transitive_away_from_null_members`: the same environment (function references inside
recursive records) meets the `null`-freeness hypotheses -/
example : Wire.nnEnvB EqEx.env = true ∧ Wire.nnTy EqEx.env (.var "A") = true ∧ Wire.nnTy EqEx.env (.var "B") = true := by
  refine ⟨by decide +kernel, by decide +kernel, by decide +kernel⟩

end Candid.Props.C05
