import CandidModel.Proofs.Text
import CandidModel.Props.C11
/-
  C12 — printing an interface as .did text and re-checking it yields an equal interface.
  Property theorems only.  Token level: how names are spelled by the printers (bare or quoted, keyword
  table extracted from /repo by the translator) against what the lexer returns for that spelling
  (reserved words extracted from the `#[token]` / `#[regex]` attributes of token.rs), and the positional
  shorthand of the type grammar.
-/
namespace Candid.Props.C12
open Candid Candid.Text

/-- every word the lexer reserves (it would not come back as an identifier) is in the printer's keyword
table — checked on the two tables as they are in /repo now -/
theorem lexer_words_are_printer_keywords : ∀ w ∈ Gen.lexerWords, w ∈ Gen.printerKeywords := by decide

/-- A name the printers leave bare is returned by the lexer as an identifier with the same spelling. -/
theorem bare_name_lexes_as_id (s : String) (h : needsQuote s = false) : lexesAsId s = true := by
  unfold needsQuote at h
  unfold lexesAsId
  simp only [Bool.or_eq_false_iff, Bool.not_eq_false', List.contains_eq_mem, decide_eq_false_iff_not] at h
  simp only [Bool.and_eq_true, h.1, Bool.not_eq_true', List.contains_eq_mem, decide_eq_false_iff_not, true_and]
  intro hw
  exact h.2 (lexer_words_are_printer_keywords s hw)

/-- A name the printers quote is written with `escape_text`, and the sub-lexer returns exactly the name —
for every name: keywords, empty, spaces, quotes, control characters, any Unicode scalar. -/
theorem quoted_name_roundtrip (pr ge : Char → Bool) (s : String) (rest : List Char) :
    lexString (escapeText pr ge s.toList ++ '"' :: rest) = .ok (s.toList.map Piece.ch, rest)
    ∧ Wire.utf8 (piecesBytes (s.toList.map Piece.ch)) = some s := by
  refine ⟨C11.text_roundtrip pr ge s.toList rest, ?_⟩
  rw [C11.text_roundtrip_utf8]
  simp

/-- every name falls in exactly one of the two cases -/
theorem name_spelling_cases (s : String) : needsQuote s = true ∨ (needsQuote s = false ∧ lexesAsId s = true) := by
  cases h : needsQuote s
  · exact Or.inr ⟨rfl, bare_name_lexes_as_id s h⟩
  · exact Or.inl rfl

private theorem abbrev_range' : ∀ (n i : Nat), abbrevFields i (List.range' i n) = List.replicate n none := by
  intro n
  induction n with
  | zero => intro _; rfl
  | succ n ih => intro i; simp [List.range', abbrevFields, ih (i + 1), List.replicate_succ]

/-- tuple shorthand of the type printer (`record { t0; t1; … }` when the ids are 0..n-1): the type grammar
numbers the fields 0..n-1 again -/
theorem tuple_shorthand_roundtrip (n : Nat) (h : n ≤ 2 ^ 32) :
    numberFields 0 (List.replicate n none) = .ok (List.range n) := by
  have := numberFields_abbrev (List.range n) 0 (fun _ _ => Nat.zero_le _)
    (fun x hx => by simp at hx; omega) (by simp [List.pairwise_lt_range])
  rw [List.range_eq_range', abbrev_range'] at this
  rw [List.range_eq_range']; exact this

/-- the explicit form (`id : t` for every field) keeps every id, whatever came before it -/
theorem explicit_fields_roundtrip (ids : List Nat) : numberFields 0 (ids.map some) = .ok ids :=
  numberFields_explicit ids 0

/-- non-vacuity: `true` is a reserved word of the lexer, so it must be quoted; `nat` is not reserved by the
lexer, yet quoted by the printer (harmless) -/
example : needsQuote "true" = true ∧ lexesAsId "true" = false ∧ needsQuote "nat" = true ∧ lexesAsId "nat" = true ∧
    needsQuote "field_1" = false := by decide

end Candid.Props.C12
