import CandidModel.Proofs.Text
/-
  C13 — the text parsers return a result for every input and never panic.
  Property theorems only.  In the model a Rust `unwrap`, `unreachable!`, slice out of range or overflowing
  addition is the outcome `.panic`; the theorems say that no input reaches one, in the modelled parts: the
  string sub-lexer, number normalisation, and the numbering of positional record fields.
-/
namespace Candid.Props.C13
open Candid Candid.Text

def NoPanic {α : Type} (x : Outcome α) : Prop := ∀ s, x ≠ .panic s

private theorem noPanic_map {α β : Type} (f : α → β) (x : Outcome α) (h : NoPanic x) : NoPanic (x.map f) := by
  intro s
  cases x with
  | ok a => simp [Outcome.map]
  | err k => simp [Outcome.map]
  | panic t => exact absurd rfl (h t)

private theorem noPanic_err {α : Type} (k : ErrKind) : NoPanic (Outcome.err k : Outcome α) := by
  intro s; simp

private theorem noPanic_ok {α : Type} (a : α) : NoPanic (Outcome.ok a) := by
  intro s; simp

private theorem lexPieces_noPanic : ∀ (fuel : Nat) (cs : List Char), NoPanic (lexPieces fuel cs) := by
  intro fuel
  induction fuel with
  | zero => intro cs; unfold lexPieces; exact noPanic_err _
  | succ f ih =>
    intro cs
    have hesc : ∀ c r, NoPanic (lexPieces.escapeChar f c r) := by
      intro c r
      unfold lexPieces.escapeChar
      simp only []
      repeat' split
      all_goals first | exact noPanic_map _ _ (ih _) | exact noPanic_err _
    unfold lexPieces
    repeat' split
    all_goals first
      | exact noPanic_map _ _ (ih _)
      | exact noPanic_err _
      | exact noPanic_ok _
      | exact hesc _ _
      | (simp only []
         split
         · exact noPanic_map _ _ (ih _)
         · exact noPanic_err _)

/-- The string sub-lexer returns a text or an error for every input: any characters, any malformed or
truncated escape, `\u{…}` of any length or value (surrogates, beyond 0x10FFFF, beyond 2^32), unterminated
strings. -/
theorem string_lexer_total (cs : List Char) : NoPanic (lexString cs) := lexPieces_noPanic _ _

/-- an escape naming a surrogate or a value beyond the Unicode range is an error, not a character -/
theorem surrogate_escape_is_error (digits r : List Char) (h1 : ∀ c ∈ digits, isHex c = true) (hne : digits ≠ [])
    (hv : isScalar (hexNum digits) = false) (fuel : Nat) :
    lexPieces (fuel + 1) ('\\' :: 'u' :: '{' :: (digits ++ '}' :: r)) = .err .malformed := by
  obtain ⟨h, t, rfl⟩ := List.exists_cons_of_ne_nil hne
  have hh : isHex h = true := h1 h (by simp)
  have hspan := spanHexUnderscore_hex (h :: t) r h1
  have hfil := filter_hex (h :: t) h1
  have hfil' : List.filter (fun x => !decide (x = '_')) (h :: t) = h :: t := by simpa using hfil
  conv => lhs; unfold lexPieces
  simp only [List.cons_append] at hspan ⊢
  simp [hh, hspan, hfil', hv]

/-- Numbering positional record fields: no id leaves the u32 range and the counter never exceeds 2^32 (it
fits the u64 the grammar action uses); a positional field after id 2^32-1 is an error. -/
theorem numbering_in_range : ∀ (fs : List (Option Nat)) (next : Nat) (ids : List Nat),
    (∀ i, some i ∈ fs → i < 2 ^ 32) → numberFields next fs = .ok ids → ∀ x ∈ ids, x < 2 ^ 32 := by
  intro fs
  induction fs with
  | nil => intro next ids _ h; simp [numberFields] at h; subst h; simp
  | cons f r ih =>
    intro next ids hfs h
    cases f with
    | none =>
      simp only [numberFields] at h
      split at h
      · rename_i hn
        cases hr : numberFields (next + 1) r with
        | ok ids' =>
          rw [hr] at h; simp [Outcome.map] at h; subst h
          intro x hx
          simp only [List.mem_cons] at hx
          rcases hx with rfl | hx
          · exact hn
          · exact ih (next + 1) ids' (fun i hi => hfs i (by simp [hi])) hr x hx
        | err k => rw [hr] at h; simp [Outcome.map] at h
        | panic s => rw [hr] at h; simp [Outcome.map] at h
      · simp at h
    | some i =>
      simp only [numberFields] at h
      cases hr : numberFields (i + 1) r with
      | ok ids' =>
        rw [hr] at h; simp [Outcome.map] at h; subst h
        intro x hx
        simp only [List.mem_cons] at hx
        rcases hx with rfl | hx
        · exact hfs x (by simp)
        · exact ih (i + 1) ids' (fun j hj => hfs j (by simp [hj])) hr x hx
      | err k => rw [hr] at h; simp [Outcome.map] at h
      | panic s => rw [hr] at h; simp [Outcome.map] at h

theorem numbering_total : ∀ (fs : List (Option Nat)) (next : Nat), NoPanic (numberFields next fs) := by
  intro fs
  induction fs with
  | nil => intro next; exact noPanic_ok _
  | cons f r ih =>
    intro next
    cases f with
    | none => unfold numberFields; split
              · exact noPanic_map _ _ (ih _)
              · exact noPanic_err _
    | some i => unfold numberFields; exact noPanic_map _ _ (ih _)

/-- the pinned defect `record { 4294967295 = 1; 2 }`: the positional field after the last id is an error -/
theorem field_after_last_id : numberFields 0 [some 4294967295, none] = .err .overflow := by
  simp [numberFields, Outcome.map]

/-- A `Hex` token (`0x` or `0X`, then hex digits and underscores) is normalised to hex digits only, so the
base-16 conversion in the `Number` rule cannot fail. -/
theorem hex_token_digits (x : Char) (hx : x = 'x' ∨ x = 'X') (body : List Char)
    (hb : ∀ c ∈ body, isHex c = true ∨ c = '_') :
    ∀ c ∈ parseNumberTok ('0' :: x :: body), isHex c = true := by
  intro c hc
  have hmem : c ∈ body.filter (· ≠ '_') := by
    rcases hx with rfl | rfl <;> simpa [parseNumberTok] using hc
  rw [List.mem_filter] at hmem
  rcases hb c hmem.1 with h | h
  · exact h
  · simp [h] at hmem

/-- a `Decimal` token keeps only its digits -/
theorem decimal_token_digits (tok : List Char) (hd : ∀ c ∈ tok, isDigit c = true ∨ c = '_') :
    ∀ c ∈ parseNumberTok tok, isDigit c = true := by
  intro c hc
  have hmem : c ∈ tok.filter (· ≠ '_') := by
    unfold parseNumberTok at hc
    simp only [] at hc
    split at hc
    · rename_i r; have := hd 'x' (by simp); rcases this with h | h
      · exact absurd rfl (isDigit_ne 'x' h).2.1
      · exact absurd h (by decide)
    · rename_i r; have := hd 'X' (by simp); rcases this with h | h
      · exact absurd rfl (isDigit_ne 'X' h).2.2.1
      · exact absurd h (by decide)
    · exact hc
  rw [List.mem_filter] at hmem
  rcases hd c hmem.1 with h | h
  · exact h
  · simp [h] at hmem

end Candid.Props.C13
