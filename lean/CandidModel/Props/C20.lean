import CandidModel.Rand
/-
  C20 — randomly generated arguments always inhabit the requested types.
  Property theorems only.  The decisions of random.rs that determine which alternative can be returned:
  weights, selection from weights, number bounds, and the size estimate behind the weights.
-/
namespace Candid.Props.C20
open Candid Candid.Rand

private theorem go_sound : ∀ (ws : List Nat) (sel acc i j : Nat), acc ≤ sel →
    pickIndex.go ws sel acc i = some j → ∃ k, j = i + k ∧ ∃ h : k < ws.length, 0 < ws[k] := by
  intro ws
  induction ws with
  | nil => intro sel acc i j _ h; simp [pickIndex.go] at h
  | cons w r ih =>
    intro sel acc i j hle h
    simp only [pickIndex.go] at h
    split at h
    · rename_i hlt
      simp only [Option.some.injEq] at h
      exact ⟨0, by omega, by simp, by simp; omega⟩
    · rename_i hge
      obtain ⟨k, hk, hlen, hpos⟩ := ih sel (acc + w) (i + 1) j (by omega) h
      exact ⟨k + 1, by omega, by simp; omega, by simpa using hpos⟩

private theorem go_complete : ∀ (ws : List Nat) (sel acc i : Nat), acc ≤ sel → sel < acc + ws.sum →
    ∃ j, pickIndex.go ws sel acc i = some j := by
  intro ws
  induction ws with
  | nil => intro sel acc i hle h; simp at h; omega
  | cons w r ih =>
    intro sel acc i hle h
    simp only [pickIndex.go]
    split
    · exact ⟨i, rfl⟩
    · rename_i hge
      apply ih
      · omega
      · simp only [List.sum_cons] at h
        omega

private theorem le_sum_of_mem : ∀ (l : List Nat) (x : Nat), x ∈ l → x ≤ l.sum := by
  intro l
  induction l with
  | nil => intro x h; simp at h
  | cons a r ih =>
    intro x h
    simp only [List.mem_cons] at h
    simp only [List.sum_cons]
    rcases h with rfl | h
    · omega
    · have := ih x h; omega

/-- **An alternative of weight zero is never selected**, whatever number is drawn: the index returned is in
range and its weight is positive. -/
theorem selected_alternative_has_positive_weight (ws : List Nat) (drawn i : Nat) (h : pickIndex ws drawn = some i) :
    ∃ hi : i < ws.length, 0 < ws[i] := by
  unfold pickIndex at h
  simp only [] at h
  split at h
  · simp at h
  · obtain ⟨k, hk, hlen, hpos⟩ := go_sound ws _ 0 0 i (Nat.zero_le _) h
    simp only [Nat.zero_add] at hk; subst hk
    exact ⟨hlen, hpos⟩

/-- selection succeeds exactly when some weight is positive (otherwise: an error, not a panic) -/
theorem selection_total (ws : List Nat) (drawn : Nat) (h : 0 < ws.sum) : ∃ i, pickIndex ws drawn = some i := by
  unfold pickIndex
  simp only []
  have hne : ws.isEmpty = false := by cases ws <;> simp at h ⊢
  have htot : ¬ ws.sum = 0 := by omega
  simp only [hne, htot, Bool.false_or, decide_false, Bool.false_eq_true, if_false]
  exact go_complete ws _ 0 0 (Nat.zero_le _) (by simpa using Nat.mod_lt _ h)

private theorem min?_mem_le (l : List Nat) (m : Nat) (h : l.min? = some m) : m ∈ l ∧ ∀ x ∈ l, m ≤ x := by
  have := List.min?_eq_some_iff (xs := l) (a := m)
  exact ⟨(this.mp h).1, (this.mp h).2⟩

/-- **An inhabited alternative always keeps a positive weight**: if some alternative has positive size, the
weights are not all zero — with or without budget left.  (An uninhabited alternative, of size 0, must not
crowd out the others when the budget is spent.) -/
theorem inhabited_alternative_keeps_weight (depth sz : Option Int) (choices : List Nat)
    (h : ∃ c ∈ choices, 0 < c) : 0 < (variantWeights depth sz choices).sum := by
  obtain ⟨c, hc, hpos⟩ := h
  unfold variantWeights
  split
  · -- budget spent
    have hcf : c ∈ choices.filter (· > 0) := by simp [hc, hpos]
    cases hm : (choices.filter (· > 0)).min? with
    | none => rw [List.min?_eq_none_iff] at hm; rw [hm] at hcf; simp at hcf
    | some m =>
      obtain ⟨hmem, _⟩ := min?_mem_le _ m hm
      simp only [List.mem_filter, decide_eq_true_eq] at hmem
      simp only [Option.getD_some]
      -- the alternative of size m keeps weight m > 0
      have : m ∈ choices.map (fun d => if d > m then 0 else d) := by
        simp only [List.mem_map]; exact ⟨m, hmem.1, by simp⟩
      have hle := le_sum_of_mem _ _ this
      omega
  · exact Nat.lt_of_lt_of_le hpos (le_sum_of_mem _ _ hc)

/-- an uninhabited alternative (size 0) has weight 0, so it is never selected -/
theorem uninhabited_alternative_has_no_weight (depth sz : Option Int) (choices : List Nat) (i : Nat)
    (hi : i < choices.length) (h0 : choices[i] = 0) :
    ∃ hw : i < (variantWeights depth sz choices).length, (variantWeights depth sz choices)[i] = 0 := by
  unfold variantWeights
  split
  · refine ⟨by simpa using hi, ?_⟩
    simp [h0]
  · exact ⟨hi, h0⟩

/-- **When the budget is spent only the smallest inhabited alternatives remain**: an alternative that keeps a
positive weight has exactly the smallest positive size. -/
theorem spent_budget_keeps_smallest (depth sz : Option Int) (choices : List Nat) (hs : spent depth sz = true)
    (i : Nat) (hi : i < choices.length)
    (hw : 0 < ((variantWeights depth sz choices)[i]'(by unfold variantWeights; simp [hs]; exact hi))) :
    0 < choices[i] ∧ ∀ c ∈ choices, 0 < c → choices[i] ≤ c := by
  have hw' : (variantWeights depth sz choices)[i]'(by unfold variantWeights; simp [hs]; exact hi) =
      (if choices[i] > ((choices.filter (· > 0)).min?).getD 0 then 0 else choices[i]) := by
    simp [variantWeights, hs]
  rw [hw'] at hw
  split at hw
  · omega
  · rename_i hle
    refine ⟨hw, ?_⟩
    intro c hc hpos
    have hcf : c ∈ choices.filter (· > 0) := by simp [hc, hpos]
    cases hm : (choices.filter (· > 0)).min? with
    | none => rw [List.min?_eq_none_iff] at hm; rw [hm] at hcf; simp at hcf
    | some m =>
      obtain ⟨_, hmin⟩ := min?_mem_le _ m hm
      rw [hm] at hle
      simp only [Option.getD_some] at hle
      have := hmin c hcf
      omega

/-- with the budget spent `opt` yields `null`: the only index with a positive weight is 0 -/
theorem spent_budget_opt_is_none (env : Env) (depth sz : Option Int) (t : Ty) (hs : spent depth sz = true)
    (drawn : Nat) : pickIndex (optWeights env depth sz t) drawn = some 0 := by
  simp [optWeights, hs, pickIndex, pickIndex.go, Nat.mod_one]

/-- **Numbers under a `range` configuration stay within the type and within the (clamped) range**; an empty
range is an error. -/
theorem number_bounds_within_type (lo hi : Int) (range : Option (Int × Int)) (l r : Int) (hlh : lo ≤ hi)
    (h : numBounds lo hi range = some (l, r)) : lo ≤ l ∧ l ≤ r ∧ r ≤ hi := by
  unfold numBounds at h
  cases range with
  | none => simp at h; omega
  | some p =>
    obtain ⟨a, b⟩ := p
    simp only [] at h
    have hl' : lo ≤ (if lo ≤ a ∧ a ≤ hi then a else lo) ∧ (if lo ≤ a ∧ a ≤ hi then a else lo) ≤ hi := by
      split <;> omega
    have hr' : lo ≤ (if lo ≤ b ∧ b ≤ hi then b else hi) ∧ (if lo ≤ b ∧ b ≤ hi then b else hi) ≤ hi := by
      split <;> omega
    generalize (if lo ≤ a ∧ a ≤ hi then a else lo) = l' at h hl'
    generalize (if lo ≤ b ∧ b ≤ hi then b else hi) = r' at h hr'
    split at h
    · simp only [Option.some.injEq, Prod.mk.injEq] at h; omega
    · simp at h

/-- the size estimate is 0 only for a type that denotes `empty` (through names): every other constructor
counts at least 1, so weight 0 means uninhabited -/
theorem size_zero_only_for_empty (env : Env) : ∀ (fuel : Nat) (t : Ty) (seen : List String),
    sizeH env fuel seen t = some 0 → (t = .prim .empty ∨ ∃ x, t = .var x) := by
  intro fuel t seen h
  cases t with
  | var x => exact Or.inr ⟨x, rfl⟩
  | prim p =>
    cases p <;> simp [sizeH] at h
    exact Or.inl rfl
  | opt t =>
    rw [sizeH] at h
    cases hs : sizeH env fuel seen t <;> simp [hs] at h
  | vec t =>
    rw [sizeH] at h
    cases hs : sizeH env fuel seen t <;> simp [hs] at h
  | record fs =>
    rw [sizeH] at h
    cases hs : sizeSum env fuel seen fs <;> simp [hs] at h
  | variant fs =>
    rw [sizeH] at h
    cases hs : sizeMax env fuel seen fs <;> simp [hs] at h
  | principal => simp [sizeH] at h
  | knot _ => simp [sizeH] at h
  | unknown => simp [sizeH] at h
  | future => simp [sizeH] at h
  | func _ _ _ => simp [sizeH] at h
  | service _ => simp [sizeH] at h
  | cls _ _ => simp [sizeH] at h

/-- the value built for a selected alternative inhabits the variant type -/
theorem selected_alternative_is_typed (env : Env) (fuel : Nat) : ∀ (fs : Fields) (i : Nat) (l : Label) (t : Ty) (v : Val),
    fs.toList[i]? = some (l, t) → hasType env fuel v t = true → altHasType env fuel l.getId v fs = true
  | .nil, i, _, _, _, h, _ => by simp [Fields.toList] at h
  | .cons l' t' r, 0, l, t, v, h, hv => by
    simp only [Fields.toList, List.getElem?_cons_zero, Option.some.injEq, Prod.mk.injEq] at h
    obtain ⟨rfl, rfl⟩ := h
    simp [altHasType, hv]
  | .cons l' t' r, i + 1, l, t, v, h, hv => by
    simp only [Fields.toList, List.getElem?_cons_succ] at h
    simp only [altHasType, Bool.or_eq_true]
    exact Or.inr (selected_alternative_is_typed env fuel r i l t v h hv)

/-- non-vacuity: sizes of `variant { nil; cons : record { nat; L } }` against itself are 1 and unbounded; with
the budget spent only `nil` keeps its weight -/
example : variantWeights (some 0) none [1, 20] = [1, 0] ∧ variantWeights (some 3) (some 5) [1, 20] = [1, 20] ∧
    variantWeights (some 0) none [0, 1] = [0, 1] := by decide

namespace RecAlt
/-- `type T = variant { b : variant { stop; go : T }; err : variant { ok : T } }`: every alternative mentions `T` -/
def body : Fields :=
  .cons (.named "b") (.variant (.cons (.named "stop") (.prim .null) (.cons (.named "go") (.var "T") .nil)))
    (.cons (.named "err") (.variant (.cons (.named "ok") (.var "T") .nil)) .nil)
def env : Env := [("T", .variant body)]
end RecAlt

/-- **Known finding KF-C20-recursive-alternatives, on the mirror**: the size estimate of anything that mentions a name
under definition is `none`, which counts as `MAX_DEPTH`; with the budget spent a variant all of whose alternatives are
recursive therefore keeps every alternative (here both, weight 20 each), including `err`, which only leads back to
`T`: the selection does not force termination, the seed's entropy does. -/
theorem spent_budget_keeps_recursive_alternatives :
    size RecAlt.env (.var "T") = none ∧
    variantWeights (some 0) none (choicesOf RecAlt.env RecAlt.body) = [20, 20] := by
  have hT : size RecAlt.env (.var "T") = none := by
    simp [size, sizeH, sizeMax, recFind, Env.find, RecAlt.env, RecAlt.body]
  have hgo : size RecAlt.env (.variant (.cons (.named "stop") (.prim .null) (.cons (.named "go") (.var "T") .nil))) = none := by
    simp [size, sizeH, sizeMax, recFind, Env.find, RecAlt.env, RecAlt.body]
  have herr : size RecAlt.env (.variant (.cons (.named "ok") (.var "T") .nil)) = none := by
    simp [size, sizeH, sizeMax, recFind, Env.find, RecAlt.env, RecAlt.body]
  refine ⟨hT, ?_⟩
  simp only [choicesOf, RecAlt.body, Fields.toList, List.map_cons, List.map_nil, hgo, herr, Option.getD_none, maxDepth]
  decide

end Candid.Props.C20
