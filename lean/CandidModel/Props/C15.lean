import CandidModel.Labels
/-
  C15 — Field names and numeric ids are identified consistently by the spec's hash.
-/
namespace Candid.Props.C15
open Candid Candid.Labels

/-! ### the hash is the specification's polynomial -/

/-- both copies of `idl_hash` (candid and candid_derive) use the multiplier of the spec; the values are
extracted from /repo by the translator on every run -/
theorem hash_multipliers : Gen.idlHashMul32 = 223 ∧ Gen.idlHashMulDerive32 = 223 := by decide

private def foldNat (bs : Bytes) (s : Nat) : Nat := bs.foldl (fun s c => s * 223 + c.toNat) s

private theorem foldNat_eq (bs : Bytes) (s : Nat) : foldNat bs s = s * 223 ^ bs.length + specSum bs := by
  induction bs generalizing s with
  | nil => simp [foldNat, specSum]
  | cons b rest ih =>
    simp only [foldNat, List.foldl_cons] at *
    rw [ih]
    simp only [specSum, List.length_cons, Nat.pow_succ]
    rw [Nat.add_mul, Nat.mul_assoc, Nat.mul_comm 223, Nat.add_assoc]

private theorem fold_congr : ∀ (l : Bytes) (a b : Nat), a % 2 ^ 32 = b % 2 ^ 32 →
    (l.foldl (fun s c => s * 223 + c.toNat) a) % 2 ^ 32 = (l.foldl (fun s c => s * 223 + c.toNat) b) % 2 ^ 32 := by
  intro l
  induction l with
  | nil => intro a b h; simpa using h
  | cons c l ihl =>
    intro a b h
    simp only [List.foldl_cons]
    apply ihl
    rw [Nat.add_mod, Nat.mul_mod, h, ← Nat.mul_mod, ← Nat.add_mod]

private theorem fold_toNat (bs : Bytes) (s : UInt32) :
    (bs.foldl (fun s c => s * Gen.idlHashMul32 + c.toUInt32) s).toNat = foldNat bs s.toNat % 2 ^ 32 := by
  have hm : Gen.idlHashMul32 = 223 := by decide
  rw [hm]
  induction bs generalizing s with
  | nil => simp [foldNat]
  | cons b rest ih =>
    simp only [List.foldl_cons, foldNat] at *
    rw [ih]
    have h : (s * 223 + b.toUInt32).toNat = (s.toNat * 223 + b.toNat) % 2 ^ 32 := by
      simp [UInt32.toNat_add, UInt32.toNat_mul]
    rw [h]
    exact fold_congr rest _ _ (by simp)

/-- `idl_hash` (u32 wrapping multiply-add, as in both copies of the function) equals the spec formula
`(Σ bᵢ·223^(k−i)) mod 2^32` for every byte string -/
theorem hash_spec (bs : Bytes) : (idlHashBytes bs).toNat = hashSpec bs := by
  unfold idlHashBytes hashSpec
  rw [fold_toNat, foldNat_eq]
  simp

theorem hash_lt (bs : Bytes) : (idlHashBytes bs).toNat < 2 ^ 32 := (idlHashBytes bs).toNat_lt

/-! ### labels are compared, ordered and hashed through their id only -/

/-- a name and the numeric id equal to its hash are the same label everywhere -/
theorem named_numeric_same_id (s : String) : (Label.named s).getId = (Label.id (idlHash s)).getId := rfl

theorem unnamed_same_id (n : Nat) : (Label.unnamed n).getId = (Label.id n).getId := rfl

/-! ### sorting + adjacent comparison finds every duplicate -/

theorem insert_perm_keys {α : Type} (key : α → Nat) (a : α) (l : List α) :
    ((insertByKey key a l).map key).Perm (key a :: l.map key) := by
  induction l with
  | nil => simp [insertByKey]
  | cons b r ih =>
    simp only [insertByKey]
    split
    · simp
    · simp only [List.map_cons]
      exact (List.Perm.cons _ ih).trans (List.Perm.swap _ _ _)

theorem sort_perm_keys {α : Type} (key : α → Nat) (l : List α) :
    ((sortByKey key l).map key).Perm (l.map key) := by
  induction l with
  | nil => simp [sortByKey]
  | cons a r ih =>
    simp only [sortByKey, List.map_cons]
    exact (insert_perm_keys key a _).trans (List.Perm.cons _ ih)

/-- ascending (non-strict) order of a key list -/
abbrev Ascending (l : List Nat) : Prop := l.Pairwise (· ≤ ·)

theorem insert_ascending {α : Type} (key : α → Nat) (a : α) (l : List α) (h : Ascending (l.map key)) :
    Ascending ((insertByKey key a l).map key) := by
  induction l with
  | nil => simp [insertByKey]
  | cons b r ih =>
    have hb : (∀ x ∈ r.map key, key b ≤ x) ∧ Ascending (r.map key) := by
      simpa [List.pairwise_cons] using h
    simp only [insertByKey]
    split
    · rename_i hle
      simp only [List.map_cons, List.pairwise_cons]
      refine ⟨?_, ?_⟩
      · intro x hx
        rcases List.mem_cons.mp hx with rfl | hx'
        · exact hle
        · exact Nat.le_trans hle (hb.1 x hx')
      · simpa [List.pairwise_cons] using h
    · rename_i hgt
      simp only [List.map_cons, List.pairwise_cons]
      refine ⟨?_, ih hb.2⟩
      intro x hx
      have hm : x ∈ key a :: r.map key := (insert_perm_keys key a r).mem_iff.mp hx
      rcases List.mem_cons.mp hm with rfl | hx'
      · omega
      · exact hb.1 x hx'

theorem sort_ascending {α : Type} (key : α → Nat) (l : List α) : Ascending ((sortByKey key l).map key) := by
  induction l with
  | nil => simp [sortByKey]
  | cons a r ih => exact insert_ascending key a _ ih

/-- on an ascending list, "no two adjacent keys are equal" is the same as "no two keys are equal" -/
theorem checkUnique_iff_nodup : ∀ (l : List Nat), Ascending l → (checkUnique l = true ↔ l.Nodup) := by
  intro l
  induction l with
  | nil => intro _; simp [checkUnique]
  | cons a r ih =>
    intro h
    cases r with
    | nil => simp [checkUnique]
    | cons b r' =>
      have h1 : (∀ x ∈ b :: r', a ≤ x) ∧ Ascending (b :: r') := List.pairwise_cons.mp h
      have h2 : (∀ x ∈ r', b ≤ x) ∧ Ascending r' := List.pairwise_cons.mp h1.2
      have ih' := ih h1.2
      have hnot : a ∉ b :: r' ↔ a ≠ b := by
        constructor
        · intro hn e; exact hn (e ▸ List.mem_cons_self)
        · intro hne hmem
          rcases List.mem_cons.mp hmem with e | hm
          · exact hne e
          · have := h2.1 a hm
            have := h1.1 b List.mem_cons_self
            omega
      have hcu : checkUnique (a :: b :: r') = (a != b && checkUnique (b :: r')) := rfl
      rw [hcu, Bool.and_eq_true, bne_iff_ne, ih', List.nodup_cons (a := a), hnot]

/-- **completeness of the duplicate check**: the sort-then-compare-neighbours step used by the parsers,
`record!`/`variant!` and the derive macro accepts a list of labels exactly when their ids are pairwise
distinct, however the labels are spelled (name, numeric id, positional) and in whatever order -/
theorem sortAndCheck_iff (ls : List Label) :
    (sortAndCheck ls).isSome ↔ (ls.map Label.getId).Nodup := by
  unfold sortAndCheck
  have hp := sort_perm_keys Label.getId ls
  have ha := sort_ascending Label.getId ls
  by_cases hc : checkUnique ((sortByKey Label.getId ls).map Label.getId) = true
  · simp only [hc, if_true, Option.isSome_some, true_iff]
    exact (hp.nodup_iff).1 ((checkUnique_iff_nodup _ ha).1 hc)
  · simp only [hc, Option.isSome_none]
    constructor
    · intro h; cases h
    · intro hn
      exact absurd ((checkUnique_iff_nodup _ ha).2 ((hp.nodup_iff).2 hn)) hc

/-- the accepted result lists the ids in ascending order: records and variants are ordered by id, not by spelling -/
theorem sortAndCheck_ascending (ls : List Label) (ids : List Nat) (h : sortAndCheck ls = some ids) : Ascending ids := by
  unfold sortAndCheck at h
  dsimp only at h
  split at h
  · simp only [Option.some.injEq] at h
    subst h
    exact sort_ascending Label.getId ls
  · cases h

/-- binary header: "strictly ascending as written" is "sorted and free of duplicates" -/
theorem strictly_iff (l : List Nat) : strictlyAscending l = true ↔ (Ascending l ∧ l.Nodup) := by
  induction l with
  | nil => simp [strictlyAscending]
  | cons a r ih =>
    cases r with
    | nil => simp [strictlyAscending]
    | cons b r' =>
      have hs : strictlyAscending (a :: b :: r') = (decide (a < b) && strictlyAscending (b :: r')) := rfl
      rw [hs, Bool.and_eq_true, decide_eq_true_eq, ih]
      constructor
      · rintro ⟨hab, hasc, hnd⟩
        have h2 : (∀ x ∈ r', b ≤ x) ∧ Ascending r' := List.pairwise_cons.mp hasc
        have hall : ∀ x ∈ b :: r', a < x := by
          intro x hx
          rcases List.mem_cons.mp hx with rfl | hx'
          · exact hab
          · exact Nat.lt_of_lt_of_le hab (h2.1 x hx')
        refine ⟨List.pairwise_cons.mpr ⟨fun x hx => Nat.le_of_lt (hall x hx), hasc⟩, ?_⟩
        exact List.nodup_cons.mpr ⟨fun hm => Nat.lt_irrefl _ (hall a hm), hnd⟩
      · rintro ⟨hA, hnd⟩
        have h1 : (∀ x ∈ b :: r', a ≤ x) ∧ Ascending (b :: r') := List.pairwise_cons.mp hA
        have hnd' := List.nodup_cons.mp hnd
        have hne : a ≠ b := fun e => hnd'.1 (e ▸ List.mem_cons_self)
        have := h1.1 b List.mem_cons_self
        exact ⟨by omega, h1.2, hnd'.2⟩

/-- non-vacuity: two distinct names with the same hash are rejected; a name and a different id are accepted -/
example : sortAndCheck [.id 5, .unnamed 5] = none := by decide
example : (sortAndCheck [.id 7, .id 5]).isSome = true := by decide

end Candid.Props.C15
