import CandidModel.Proofs.Bindgen
/-
  C19 — all binding generators are total, deterministic and closed on checked programs.
  Property theorems only.  Shared analysis (chase / infer_rec: JavaScript, TypeScript, Motoko), the spelling of
  names in the Motoko binding, and the escaping of doc comment lines in the TypeScript binding.
-/
namespace Candid.Props.C19
open Candid Candid.Bindgen

/-- the analysis all back ends start from returns on every closed environment with a closed actor: no
`unwrap` of a missing definition, no unbound name, traversal within budget (the model is a function, so it
is deterministic by construction) -/
theorem analysis_total (env : Env) (actor : Ty) (hce : ClosedEnv env)
    (ha : ∀ v ∈ varsOf actor, (env.find v).isSome) : ∃ f i, jsFactory env actor = .ok (f, i) :=
  jsFactory_total env actor hce ha

/-- the emitted definitions are closed: every type name a listed definition mentions is listed, once -/
theorem emitted_definitions_closed (env : Env) (actor : Ty) (defs : List String)
    (h : chaseActor env actor = .ok defs) :
    defs.Nodup ∧ (∀ v ∈ varsOf actor, v ∈ defs) ∧
      ∀ x ∈ defs, ∃ u, env.find x = some u ∧ ∀ v ∈ varsOf u, v ∈ defs := by
  obtain ⟨st', hst, hres⟩ := (map_ok _ _ _).mp h
  subst hres
  have := closed_of_spec env st' _ (chaseType_spec env _ actor _ st' hst)
  exact ⟨this.nodup, this.root, this.closed⟩

private theorem escapeDocLine_inv (l : List Char) :
    hasCommentEnd (escapeDocLine l) = false ∧ ((escapeDocLine l).head? = some '/' → l.head? = some '/') := by
  fun_induction escapeDocLine l with
  | case1 r ih => simp [hasCommentEnd, ih.1]
  | case2 c r hne ih =>
    refine ⟨?_, by simp⟩
    cases he : escapeDocLine r with
    | nil => cases c <;> simp [hasCommentEnd]
    | cons d e =>
      by_cases hc : c = '*' ∧ d = '/'
      · obtain ⟨rfl, rfl⟩ := hc
        have := ih.2 (by rw [he]; rfl)
        cases r with
        | nil => simp at this
        | cons r0 rs => simp at this; subst this; exact (hne rs rfl rfl).elim
      · have h1 := ih.1
        rw [he] at h1
        unfold hasCommentEnd
        split
        · rename_i heq
          simp only [List.cons.injEq] at heq
          exact absurd ⟨heq.1, heq.2.1⟩ hc
        · rename_i heq
          simp only [List.cons.injEq] at heq
          obtain ⟨_, rfl⟩ := heq
          exact h1
        · rename_i heq; simp at heq
  | case3 => simp [escapeDocLine, hasCommentEnd]

/-- **a doc line cannot end the block comment it is printed in**: after `escape_doc_comment` the line never
contains `*/`, whatever it contained -/
theorem doc_line_cannot_end_comment (l : List Char) : hasCommentEnd (escapeDocLine l) = false :=
  (escapeDocLine_inv l).1

/-- what `escape` does now, as read off /repo by the translator: the identifier test comes first -/
theorem motoko_escape_shape : Gen.moEscapeIdFirst = true := by decide

private theorem kw_no_trailing_underscore : ∀ k ∈ Gen.motokoKeywords, k.toList.getLast? ≠ some '_' := by decide

private theorem digit_idchar (k : Nat) (h : k < 10) : isIdChar (Char.ofNat (48 + k)) = true := by
  have : ∀ k : Fin 10, isIdChar (Char.ofNat (48 + k.val)) = true := by decide
  exact this ⟨k, h⟩

private theorem decDigits_idchars (n : Nat) : ∀ c ∈ decDigits n, isIdChar c = true := by
  fun_induction decDigits n with
  | case1 n h => intro c hc; simp at hc; subst hc; exact digit_idchar n h
  | case2 n h ih =>
    intro c hc
    simp only [List.mem_append, List.mem_singleton] at hc
    rcases hc with hc | hc
    · exact ih c hc
    · subst hc; exact digit_idchar _ (Nat.mod_lt _ (by decide))

private theorem valid_append_underscore (l : List Char) (h : isValidAsId l = true) : isValidAsId (l ++ ['_']) = true := by
  cases l with
  | nil => simp [isValidAsId] at h
  | cons c r =>
    simp only [isValidAsId, Bool.and_eq_true, List.cons_append, List.all_append, List.all_cons, List.all_nil, Bool.and_true] at h ⊢
    exact ⟨h.1, h.2, by decide⟩

/-- **Whatever the name, its spelling in the Motoko binding is an identifier and not a keyword** (keyword
table extracted from /repo). -/
theorem motoko_name_is_identifier (s : String) :
    isValidAsId (moEscape s).toList = true ∧ moEscape s ∉ Gen.motokoKeywords := by
  unfold moEscape
  simp only [motoko_escape_shape, if_true]
  by_cases hv : isValidAsId s.toList = true
  · simp only [hv, if_true]
    by_cases hk : (Gen.motokoKeywords.contains s || decide (s.toList.getLast? = some '_')) = true
    · simp only [hk, if_true]
      have hl : (s ++ "_").toList = s.toList ++ ['_'] := by simp
      refine ⟨by rw [hl]; exact valid_append_underscore _ hv, ?_⟩
      intro hm
      have := kw_no_trailing_underscore _ hm
      rw [hl] at this; simp at this
    · simp only [hk]
      refine ⟨hv, ?_⟩
      intro hm
      simp only [Bool.or_eq_true, List.contains_eq_mem, decide_eq_true_eq, not_or] at hk
      exact hk.1 hm
  · have hv' : isValidAsId s.toList = false := by simpa using hv
    simp only [hv', Bool.false_eq_true, if_false]
    have hl : ("_" ++ String.ofList (decDigits (idlHash s)) ++ "_").toList = '_' :: (decDigits (idlHash s) ++ ['_']) := by
      simp
    refine ⟨?_, ?_⟩
    · rw [hl]
      simp only [isValidAsId, Bool.and_eq_true, List.all_append, List.all_cons, List.all_nil, Bool.and_true]
      refine ⟨by decide, ?_, by decide⟩
      rw [List.all_eq_true]; exact decDigits_idchars _
    · intro hm
      have := kw_no_trailing_underscore _ hm
      rw [hl] at this
      apply this
      have : '_' :: (decDigits (idlHash s) ++ ['_']) = ('_' :: decDigits (idlHash s)) ++ ['_'] := rfl
      rw [this, List.getLast?_append]; rfl

/-- distinct identifiers stay distinct -/
theorem motoko_identifiers_stay_distinct (a b : String) (ha : isValidAsId a.toList = true)
    (hb : isValidAsId b.toList = true) (h : moEscape a = moEscape b) : a = b := by
  unfold moEscape at h
  simp only [motoko_escape_shape, if_true, ha, hb] at h
  by_cases hka : (Gen.motokoKeywords.contains a || decide (a.toList.getLast? = some '_')) = true <;>
  by_cases hkb : (Gen.motokoKeywords.contains b || decide (b.toList.getLast? = some '_')) = true
  · simp only [hka, hkb, if_true] at h
    exact (String.append_left_inj "_").mp h
  · simp only [hka, hkb, if_true] at h
    have hl : (a ++ "_").toList.getLast? = some '_' := by simp
    rw [h] at hl
    simp only [Bool.or_eq_true, decide_eq_true_eq, not_or] at hkb
    exact absurd hl hkb.2
  · simp only [hka, hkb, if_true] at h
    have hl : (b ++ "_").toList.getLast? = some '_' := by simp
    rw [← h] at hl
    simp only [Bool.or_eq_true, decide_eq_true_eq, not_or] at hka
    exact absurd hl hka.2
  · simp only [hka, hkb] at h
    exact h

end Candid.Props.C19
