import CandidModel.Wire
/-
  C08 — Native decoding agrees with untyped decoding at the same Candid type.
  The model side of this property is the specification decoder at `T::ty()`; native decoding of every
  corpus type is compared with it (and with the implementation's own untyped decoding) by the harness.
  Theorems here: the predicate behind the known finding, and the shape facts the comparison relies on.
-/
namespace Candid.Props.C08
open Candid Candid.Wire

/-- a wire record that starts with the positional ids is never flagged (the finding is narrow) -/
theorem positional_not_flagged_prims (env : Env) :
    tupleNonPositional env 5
      (.record (.cons (.id 0) (.prim .nat) (.cons (.id 1) (.prim .text) (.cons (.id 7) (.prim .bool) .nil))))
      (.record (.cons (.id 0) (.prim .nat) (.cons (.id 1) (.prim .text) .nil))) = false := by
  unfold tupleNonPositional Sub.traceFull Env.trace
  rfl

/-- the witness of KF-C08-tuple-nonpositional: an all-optional tuple against a record of hashed fields -/
theorem nonpositional_witness (env : Env) :
    tupleNonPositional env 5
      (.record (.cons (.id 1092323457) (.prim .nat) .nil))
      (.record (.cons (.id 0) (.prim .null) (.cons (.id 1) (.prim .null) .nil))) = true := by
  unfold tupleNonPositional Sub.traceFull Env.trace
  rfl

/-- blob-shaped expected types: a wire vector of another element type coerces exactly when it is empty
(the specialised blob path may not accept more, nor less) -/
theorem blob_from_nonblob (env : Env) (fuel : Nat) (vs : List Val) :
    coerce env true env (fuel + 1) (.vec (.prim .int)) (.vec (.prim .nat8)) (.vec vs) =
      (if vs.isEmpty then .ok (.blob []) else .err .subtype) := by
  unfold coerce
  have h1 : Sub.traceFull env (.vec (.prim .int)) = some (.vec (.prim .int)) := by unfold Sub.traceFull Env.trace; rfl
  have h2 : Sub.traceFull env (.vec (.prim .nat8)) = some (.vec (.prim .nat8)) := by unfold Sub.traceFull Env.trace; rfl
  have b1 : isBlobTy env (.vec (.prim .nat8)) = true := by
    unfold isBlobTy Sub.traceFull Env.trace; rfl
  have b2 : isBlobTy env (.vec (.prim .int)) = false := by
    unfold isBlobTy Sub.traceFull Env.trace; rfl
  rw [h1, h2]
  simp [b1, b2]

/-- text is never accepted where a blob is expected, and vice versa -/
theorem text_is_not_blob (env : Env) (fuel : Nat) (v : Val) :
    coerce env true env (fuel + 1) (.prim .text) (.vec (.prim .nat8)) v = .err .subtype ∧
    coerce env true env (fuel + 1) (.vec (.prim .nat8)) (.prim .text) v = .err .subtype := by
  have h1 : Sub.traceFull env (.prim .text) = some (.prim .text) := by unfold Sub.traceFull Env.trace; rfl
  have h2 : Sub.traceFull env (.vec (.prim .nat8)) = some (.vec (.prim .nat8)) := by unfold Sub.traceFull Env.trace; rfl
  constructor
  · unfold coerce; rw [h1, h2]
  · unfold coerce; rw [h1, h2]; simp

end Candid.Props.C08
