import CandidModel.Wire
import CandidModel.Native
import CandidModel.Proofs.NativeLocal
import CandidModel.Proofs.NativeStep
import CandidModel.Proofs.NativeSim
/-
  C08 — Native decoding agrees with untyped decoding at the same Candid type.
  The model side of this property is the specification decoder at `T::ty()`; native decoding of every
  corpus type is compared with it (and with the implementation's own untyped decoding) by the harness.
  Theorems here: the predicate behind the known finding, and the shape facts the comparison relies on.
-/
namespace Candid.Props.C08
open Candid Candid.Wire

/-- a wire record that starts with the positional ids is never flagged (the finding is narrow) -/
theorem positional_not_flagged_prims (env : Env) :
    tupleNonPositional env 5
      (.record (.cons (.id 0) (.prim .nat) (.cons (.id 1) (.prim .text) (.cons (.id 7) (.prim .bool) .nil))))
      (.record (.cons (.id 0) (.prim .nat) (.cons (.id 1) (.prim .text) .nil))) = false := by
  unfold tupleNonPositional Sub.traceFull Env.trace
  rfl

/-- the witness of KF-C08-tuple-nonpositional: an all-optional tuple against a record of hashed fields -/
theorem nonpositional_witness (env : Env) :
    tupleNonPositional env 5
      (.record (.cons (.id 1092323457) (.prim .nat) .nil))
      (.record (.cons (.id 0) (.prim .null) (.cons (.id 1) (.prim .null) .nil))) = true := by
  unfold tupleNonPositional Sub.traceFull Env.trace
  rfl

/-- blob-shaped expected types: a wire vector of another element type coerces exactly when it is empty
(the specialised blob path may not accept more, nor less) -/
theorem blob_from_nonblob (env : Env) (fuel : Nat) (vs : List Val) :
    coerce env true env (fuel + 1) (.vec (.prim .int)) (.vec (.prim .nat8)) (.vec vs) =
      (if vs.isEmpty then .ok (.blob []) else .err .subtype) := by
  unfold coerce
  have h1 : Sub.traceFull env (.vec (.prim .int)) = some (.vec (.prim .int)) := by unfold Sub.traceFull Env.trace; rfl
  have h2 : Sub.traceFull env (.vec (.prim .nat8)) = some (.vec (.prim .nat8)) := by unfold Sub.traceFull Env.trace; rfl
  have b1 : isBlobTy env (.vec (.prim .nat8)) = true := by
    unfold isBlobTy Sub.traceFull Env.trace; rfl
  have b2 : isBlobTy env (.vec (.prim .int)) = false := by
    unfold isBlobTy Sub.traceFull Env.trace; rfl
  rw [h1, h2]
  simp [b1, b2]

/-- text is never accepted where a blob is expected, and vice versa -/
theorem text_is_not_blob (env : Env) (fuel : Nat) (v : Val) :
    coerce env true env (fuel + 1) (.prim .text) (.vec (.prim .nat8)) v = .err .subtype ∧
    coerce env true env (fuel + 1) (.vec (.prim .nat8)) (.prim .text) v = .err .subtype := by
  have h1 : Sub.traceFull env (.prim .text) = some (.prim .text) := by unfold Sub.traceFull Env.trace; rfl
  have h2 : Sub.traceFull env (.vec (.prim .nat8)) = some (.vec (.prim .nat8)) := by unfold Sub.traceFull Env.trace; rfl
  constructor
  · unfold coerce; rw [h1, h2]
  · unfold coerce; rw [h1, h2]; simp


/-! ## the specialised paths of the native decoder (mirror: `CandidModel/Native.lean`) -/
open Candid.Native Candid.De

/-- **bounded vectors accept exactly the vectors within their limits**: the visitor of `BoundedVec<L, S, E, T>`
succeeds on an element reader exactly when the plain vector visitor succeeds with the same elements and these are at
most `L`, each of data size at most `E`, of total data size at most `S` — for every element reader (hence every path:
bulk, big-number, generic), every length, every state. -/
theorem bounded_vector_accepts_exactly_within_limits (f : Flags → St → NR) (maxLen maxTotal maxElem n : Nat)
    (fl : Flags) (st : St) (vs : List Val) (fl' : Flags) (s' : St) :
    runSeq (.bounded maxLen maxTotal maxElem) f n fl st = .ok (vs, fl') s' ↔
      (runSeq .all f n fl st = .ok (vs, fl') s' ∧
        vs.length ≤ maxLen ∧ (∀ v ∈ vs, dataSize v ≤ maxElem) ∧ (vs.map dataSize).sum ≤ maxTotal) := by
  simp only [runSeq]
  rw [iterB_ok_iff, within_iff]
  constructor
  · rintro ⟨h, hw⟩
    refine ⟨h, ?_⟩
    rcases hw with ⟨h1, h2, h3⟩ | hw
    · exact ⟨by omega, h2, by omega⟩
    · subst hw; simp
  · rintro ⟨h, h1, h2, h3⟩
    exact ⟨h, Or.inl ⟨by omega, h2, by omega⟩⟩

/-- **the bulk reader of primitive vectors reads what the element-wise path reads** (restated from
`Proofs/NativeLocal`): for `Vec<T>`, `[T; n]`, `BoundedVec<…, T>` with `T` one of the eleven fixed-width primitives,
expected and wire element type both that primitive, nothing metered, the announced bytes present. -/
theorem primitive_vector_shortcut_is_sound (mk : String → NR) (env : Env) (tl : Nat) (renv : REnv) (k : Nat) (vis : SeqVisitor)
    (p : Prim) (sz : Nat) (hs : primSize p = some sz) (fl : Flags) (n : Nat) (s2 : St) (hu : Unmetered s2)
    (hfit : n * (3 + sz) ≤ usizeMax) (hbytes : n * sz ≤ s2.input.length) :
    (bulkElems renv vis (.prim p) fl p n s2).map (fun q => (q.1, Flags.clear)) =
      genericElems (deN mk env tl renv (k + 1)) vis (.prim p) fl (.prim p) (.prim p) n s2 :=
  bulk_reads_what_the_generic_path_reads mk env tl renv k vis p sz hs fl n s2 hu hfit hbytes

/-- … and it rejects nothing the element-wise path accepts: a vector read element by element had its announced bytes -/
theorem primitive_vector_shortcut_is_complete (mk : String → NR) (env : Env) (tl : Nat) (renv : REnv) (k : Nat)
    (p : Prim) (sz : Nat) (hs : primSize p = some sz) (fl : Flags) (n : Nat) (s2 : St) (hu : Unmetered s2)
    (vs : List Val) (f : Flags) (s' : St)
    (h : genericElems (deN mk env tl renv (k + 1)) .all (.prim p) fl (.prim p) (.prim p) n s2 = .ok (vs, f) s') :
    n * sz ≤ s2.input.length :=
  generic_success_needs_the_announced_bytes mk env tl renv k p sz hs fl n s2 hu vs f s' h

/-- the bulk reader is chosen only for identical fixed-width primitives on both sides -/
theorem primitive_vector_shortcut_only_at_identical_primitives (e w : Ty) (p : Prim) (h : exactPrim e w = some p) :
    e = .prim p ∧ w = .prim p ∧ (primSize p).isSome := by
  unfold exactPrim at h
  split at h
  · rename_i a b
    split at h
    · rename_i hc
      simp only [Option.some.injEq] at h
      subst h
      exact ⟨rfl, by rw [hc.1], hc.2⟩
    · simp at h
  · simp at h

/-- **the big-number shortcut** (vectors of `Nat` / `Int`, map values): taken exactly at `nat/nat`, `int/int`, `int/nat`;
there the unchecked element reader reads what the checked one reads, for every sequence visitor. -/
theorem bignum_shortcut_only_at_its_three_pairs (ee wire : Ty) (b : Big) : bigOf ee wire = some b ↔
    (b = .nat ∧ ee = .prim .nat ∧ wire = .prim .nat) ∨ (b = .int ∧ ee = .prim .int ∧ wire = .prim .int) ∨
    (b = .natAsInt ∧ ee = .prim .int ∧ wire = .prim .nat) := bigOf_eq_some ee wire b

theorem bignum_vector_shortcut_is_sound (mk : String → NR) (env : Env) (tl : Nat) (renv : REnv) (k : Nat) (vis : SeqVisitor)
    (t : RTy) (b : Big) (wire ee : Ty) (hc : BigCase t b wire ee) (tx : Bool) (n : Nat) (s2 : St) (hu : Unmetered s2)
    (hfit : n * 3 ≤ usizeMax) :
    bigElems (deN mk env tl renv (k + 1)) vis t ⟨none, tx⟩ b wire ee n s2 =
      genericElems (deN mk env tl renv (k + 1)) vis t ⟨none, tx⟩ wire ee n s2 :=
  big_shortcut_reads_what_the_generic_path_reads mk env tl renv k vis t b wire ee hc tx n s2 hu hfit

/-- the leaf readers under a flag (map values, map keys): same values, same remaining input, same quotas as the
checked readers at the types the flag stands for -/
theorem flagged_leaf_readers_are_sound (mk : String → NR) (env : Env) (fuel : Nat) (tx : Bool) (b : Option Big) (st : St) :
    (nNat mk env fuel ⟨some .nat, tx⟩ (.prim .nat) (.prim .nat) st).map Prod.fst =
      (nNat mk env fuel ⟨none, tx⟩ (.prim .nat) (.prim .nat) st).map Prod.fst ∧
    (nInt mk env fuel ⟨some .int, tx⟩ (.prim .int) (.prim .int) st).map Prod.fst =
      (nInt mk env fuel ⟨none, tx⟩ (.prim .int) (.prim .int) st).map Prod.fst ∧
    (nInt mk env fuel ⟨some .natAsInt, tx⟩ (.prim .nat) (.prim .int) st).map Prod.fst =
      (nInt mk env fuel ⟨none, tx⟩ (.prim .nat) (.prim .int) st).map Prod.fst ∧
    (nText env fuel ⟨b, true⟩ (.prim .text) (.prim .text) st).map Prod.fst =
      (nText env fuel ⟨b, false⟩ (.prim .text) (.prim .text) st).map Prod.fst :=
  ⟨nat_shortcut_sound mk env fuel tx st, int_shortcut_sound mk env fuel tx st, nat_as_int_shortcut_sound mk env fuel tx st,
   text_shortcut_sound env fuel b st⟩

/-- non-vacuity: a bulk read of three `nat16` with nothing metered -/
example : (bulkElems [] .all (.prim .nat16) Flags.clear .nat16 3
    { input := [1, 0, 2, 0, 3, 0, 9], gamma := [], dq := none, sq := none, untyped := false }).map (fun q => q.1) =
    .ok [.nat16 1, .nat16 2, .nat16 3] { input := [9], gamma := [], dq := none, sq := none, untyped := false } := by
  rfl


/-- **no value is read at the wrong type, no shortcut flag outlives its position.**  The native mirror marks two
situations instead of modelling them: a visitor of a Rust type meeting an expected type that is not that type's Candid
type, and a skip entered while a shortcut flag is set.  Whenever the expected type is the Candid type of the Rust type
down to the depth explored (`agree`, evaluated by the driver on every request of the correspondence run), neither is
reached: for every wire type, every state and every depth the outcome is the same whatever a marked situation would
answer.  In particular `Nat` / `Int` / `String` read under a flag only at the literal types the flag stands for, and
every compound leaves the flags cleared. -/
theorem marked_situations_are_never_reached (mk mk' : String → NR) (env : Env) (tl : Nat) (renv : REnv) (fuel : Nat)
    (t : RTy) (w e : Ty) (st : St) (ha : agree env renv fuel t e = true) :
    deN mk env tl renv fuel t Flags.clear w e st = deN mk' env tl renv fuel t Flags.clear w e st :=
  (deN_good mk mk' env tl renv fuel t Flags.clear w e st ha (FlagsFit.clear w e)).1

/-- … and what a top-level call returns carries cleared flags -/
theorem top_level_call_returns_cleared_flags (mk : String → NR) (env : Env) (tl : Nat) (renv : REnv) (fuel : Nat)
    (t : RTy) (w e : Ty) (st : St) (ha : agree env renv fuel t e = true) (v : Val) (fl' : Flags) (s : St)
    (h : deN mk env tl renv fuel t Flags.clear w e st = .ok (v, fl') s) : fl' = Flags.clear := by
  rcases (deN_good mk mk env tl renv fuel t Flags.clear w e st ha (FlagsFit.clear w e)).2 v fl' s h with h1 | h1 <;> exact h1

/-- the same under a flag, provided the flag fits the position (this is the induction hypothesis the vector and map
loops rely on) -/
theorem marked_situations_are_never_reached_under_flags (mk mk' : String → NR) (env : Env) (tl : Nat) (renv : REnv)
    (fuel : Nat) (t : RTy) (fl : Flags) (w e : Ty) (st : St) (ha : agree env renv fuel t e = true) (hf : FlagsFit fl w e) :
    deN mk env tl renv fuel t fl w e st = deN mk' env tl renv fuel t fl w e st :=
  (deN_good mk mk' env tl renv fuel t fl w e st ha hf).1

/-- non-vacuity: `BTreeMap<String, Vec<Nat>>` against its Candid type, to depth 6 -/
example : agree [] [] 6 (.map (.prim .text) (.seq .nat))
    (.vec (.record (.cons (.id 0) (.prim .text) (.cons (.id 1) (.vec (.prim .nat)) .nil)))) = true := by decide


/-! ## native decoding against untyped decoding, for every wire type and every input -/

/-- **native decoding at a Rust type agrees with untyped decoding at its Candid type** (mirrors `Native.lean` and
`De.lean`).  For every environment, every Rust type `t` of the grammar without tuples, 128-bit integers, arrays and
bounded vectors (`Vec<u8>` and `ByteBuf` included: the bulk reader of bytes against the blob reader), every expected type `e` that is `t`'s
Candid type in the strict sense of `agreeS`, **every wire type `w`** whose records and variants list their fields in
ascending order of id (`srt`, `SortedEnv`: what the header parser guarantees of every type table), every input and
decoder state with nothing metered, and every pair of depth budgets: unless one of the two runs stops at a limit of the
host (`err limit`: the depth budget ran out, or — native side, maps read under a shortcut — seven times the announced
number of entries does not fit a machine word, "Map length overflow"), the two
runs end the same way — both return the same value and leave the same input and the same subtype memo, or both fail
with a subtype error (so an enclosing option backtracks in both), or both fail with an error, or both hit a panic site
of the shared subtype checker.  (`SimN` spells this out; the native run is in a state with `is_untyped = false`, the
untyped run in the same state with the flag set.) -/
theorem native_decoding_agrees_with_untyped_decoding (mk : String → NR) (env : Env) (tl : Nat) (renv : REnv) (k m : Nat)
    (t : RTy) (w e : Ty) (s : St) (hse : SortedEnv env) (hsw : srt w = true)
    (ha : agreeS env renv k t e = true) (hs : s.untyped = false) (hu : Unmetered s) :
    SimN Flags.clear (deN mk env tl renv k t Flags.clear w e s) (deAny env .idl m w e (up s)) :=
  deN_sim mk env tl renv hse k m t Flags.clear w e s ha (FlagsFit.clear w e) ⟨hs, hu⟩ hsw

/-- read off: what the native run accepts, the untyped run accepts with the same value and the same remaining input -/
theorem native_acceptance_is_untyped_acceptance (mk : String → NR) (env : Env) (tl : Nat) (renv : REnv) (k m : Nat)
    (t : RTy) (w e : Ty) (s : St) (hse : SortedEnv env) (hsw : srt w = true)
    (ha : agreeS env renv k t e = true) (hs : s.untyped = false) (hu : Unmetered s)
    (v : Val) (fl' : Flags) (s1 : St) (hn : deN mk env tl renv k t Flags.clear w e s = .ok (v, fl') s1) :
    deAny env .idl m w e (up s) = .err .limit ∨ deAny env .idl m w e (up s) = .ok v (up s1) := by
  rcases native_decoding_agrees_with_untyped_decoding mk env tl renv k m t w e s hse hsw ha hs hu with h | h | h
  · rw [hn] at h; simp at h
  · exact Or.inl h
  · rw [hn] at h
    cases hy : deAny env .idl m w e (up s) with
    | ok v' s2 => rw [hy] at h; exact Or.inr (by rw [← h.1, h.2.1])
    | sub d q => rw [hy] at h; exact absurd h (by simp)
    | err x => rw [hy] at h; exact absurd h (by simp)
    | panic x => rw [hy] at h; exact absurd h (by simp)

/-- … and conversely -/
theorem untyped_acceptance_is_native_acceptance (mk : String → NR) (env : Env) (tl : Nat) (renv : REnv) (k m : Nat)
    (t : RTy) (w e : Ty) (s : St) (hse : SortedEnv env) (hsw : srt w = true)
    (ha : agreeS env renv k t e = true) (hs : s.untyped = false) (hu : Unmetered s)
    (v : Val) (s2 : St) (hn : deAny env .idl m w e (up s) = .ok v s2) :
    deN mk env tl renv k t Flags.clear w e s = .err .limit ∨
      ∃ fl' s1, deN mk env tl renv k t Flags.clear w e s = .ok (v, fl') s1 ∧ s2 = up s1 := by
  rcases native_decoding_agrees_with_untyped_decoding mk env tl renv k m t w e s hse hsw ha hs hu with h | h | h
  · exact Or.inl h
  · rw [hn] at h; simp at h
  · rw [hn] at h
    cases hx : deN mk env tl renv k t Flags.clear w e s with
    | ok p s1 =>
      obtain ⟨v', f'⟩ := p
      rw [hx] at h
      exact Or.inr ⟨f', s1, by rw [h.1], h.2.1⟩
    | sub d q => rw [hx] at h; exact absurd h (by simp)
    | err x => rw [hx] at h; exact absurd h (by simp)
    | panic x => rw [hx] at h; exact absurd h (by simp)

/-- non-vacuity: `BTreeMap<String, Vec<Nat>>` (key read under the text shortcut) and `BTreeMap<u32, Int>` (value read
under the big-number shortcut) against their Candid types, strictly, to depth 6 -/
example : agreeS [] [] 6 (.map (.prim .text) (.seq .nat))
    (.vec (.record (.cons (.id 0) (.prim .text) (.cons (.id 1) (.vec (.prim .nat)) .nil)))) = true := by decide
example : agreeS [] [] 6 (.map (.prim .nat32) .int)
    (.vec (.record (.cons (.id 0) (.prim .nat32) (.cons (.id 1) (.prim .int) .nil)))) = true := by decide

/-- non-vacuity: `Vec<u8>` and a vector of a newtype around `u8` against `vec nat8` -/
example : agreeS [] [] 5 (.seq (.prim .nat8)) (.vec (.prim .nat8)) = true := by decide
example : agreeS [] [] 5 (.seq (.newtype (.prim .nat8))) (.vec (.prim .nat8)) = true := by decide

/-- non-vacuity: `Vec<Option<Nat>>` against its Candid type, strictly, to depth 5 -/
example : agreeS [] [] 5 (.seq (.opt .nat)) (.vec (.opt (.prim .nat))) = true := by decide

end Candid.Props.C08
