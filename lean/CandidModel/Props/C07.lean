import CandidModel.Proofs.DeNeutral
import CandidModel.Proofs.DeCost
import CandidModel.Proofs.DeShift
/-
  C07 — Decoding quotas bound the work and never change the result.
  `De.*` mirrors de.rs with its cost accounting.  This file: the accounting primitive, and neutrality for
  whole messages — a simulation between a metered run and the unmetered run over the four mutually recursive
  entry points, option back-tracking (which restores everything but the quotas), skipping and the argument loop.
-/
namespace Candid.Props.C07
open Candid Candid.De

/-- without quotas `add_cost` never fails and changes nothing -/
theorem addCost_unmetered (st : St) (c : Nat) (h1 : st.dq = none) (h2 : st.sq = none) :
    addCost st c = .ok () st := by
  have hd : chargeD st c = some st := by simp [chargeD, h1]
  have hs : chargeS st c = some st := by
    unfold chargeS; cases st.untyped <;> simp [h2]
  simp [addCost, hd, hs]

/-- the only error `add_cost` can produce is a quota error (which no option catches); it never raises a
subtype error and never panics -/
theorem addCost_outcomes (st : St) (c : Nat) :
    (∃ s, addCost st c = .ok () s) ∨ addCost st c = .err .quota := by
  unfold addCost
  split
  · exact Or.inr rfl
  · split
    · exact Or.inr rfl
    · exact Or.inl ⟨_, rfl⟩

theorem chargeD_frame (st s : St) (c : Nat) (h : chargeD st c = some s) :
    s.input = st.input ∧ s.gamma = st.gamma ∧ s.untyped = st.untyped ∧ s.sq = st.sq := by
  unfold chargeD at h
  cases hq : st.dq with
  | none => simp [hq] at h; subst h; exact ⟨rfl, rfl, rfl, rfl⟩
  | some n =>
    simp only [hq] at h
    by_cases hlt : n < chargeAmount st c
    · simp [hlt] at h
    · simp only [hlt, if_false, Option.some.injEq] at h
      subst h; exact ⟨rfl, rfl, rfl, rfl⟩

theorem chargeS_frame (st s : St) (c : Nat) (h : chargeS st c = some s) :
    s.input = st.input ∧ s.gamma = st.gamma ∧ s.untyped = st.untyped ∧ s.dq = st.dq := by
  unfold chargeS at h
  by_cases hu : st.untyped = true
  · simp only [hu, if_true] at h
    cases hq : st.sq with
    | none => simp [hq] at h; subst h; exact ⟨rfl, rfl, rfl, rfl⟩
    | some n =>
      simp only [hq] at h
      by_cases hlt : n < c
      · simp [hlt] at h
      · simp only [hlt, if_false, Option.some.injEq] at h
        subst h; exact ⟨rfl, rfl, hu.symm, rfl⟩
  · simp [hu] at h; subst h; exact ⟨rfl, rfl, rfl, rfl⟩

/-- `add_cost` touches nothing but the two counters -/
theorem addCost_frame (st s : St) (c : Nat) (h : addCost st c = .ok () s) :
    s.input = st.input ∧ s.gamma = st.gamma ∧ s.untyped = st.untyped := by
  unfold addCost at h
  split at h
  · cases h
  · rename_i s1 hd
    split at h
    · cases h
    · rename_i s2 hs
      cases h
      have f1 := chargeD_frame _ _ _ hd
      have f2 := chargeS_frame _ _ _ hs
      exact ⟨f2.1.trans f1.1, f2.2.1.trans f1.2.1, f2.2.2.1.trans f1.2.2.1⟩

/-- success of one charge is monotone in the decoding quota -/
theorem chargeD_monotone (st : St) (c n m : Nat) (hn : st.dq = some n) (hnm : n ≤ m)
    (h : (chargeD st c).isSome) : (chargeD { st with dq := some m } c).isSome := by
  unfold chargeD at *
  simp only [hn] at h
  simp only []
  by_cases hlt : n < chargeAmount st c
  · simp [hlt] at h
  · have e : chargeAmount { st with dq := some m } c = chargeAmount st c := rfl
    have : ¬ m < chargeAmount st c := by omega
    simp [e, this]

/-- … and in the skipping quota -/
theorem chargeS_monotone (st : St) (c n m : Nat) (hn : st.sq = some n) (hnm : n ≤ m)
    (h : (chargeS st c).isSome) : (chargeS { st with sq := some m } c).isSome := by
  unfold chargeS at *
  cases hu : st.untyped
  · simp
  · simp only [hu, if_true, hn] at h ⊢
    by_cases hlt : n < c
    · simp [hlt] at h
    · have : ¬ m < c := by omega
      simp [this]

/-- the amount charged does not depend on the quota supplied: (quota − remaining) is the same -/
theorem chargeD_amount (st : St) (c n m : Nat) (s s' : St) (hn : st.dq = some n)
    (h : chargeD st c = some s) (h' : chargeD { st with dq := some m } c = some s') :
    ∃ a b, s.dq = some a ∧ s'.dq = some b ∧ n - a = m - b ∧ a ≤ n ∧ b ≤ m := by
  unfold chargeD at h h'
  simp only [hn] at h
  simp only [] at h'
  by_cases h1 : n < chargeAmount st c
  · simp [h1] at h
  · have e : chargeAmount { st with dq := some m } c = chargeAmount st c := rfl
    rw [e] at h'
    by_cases h2 : m < chargeAmount st c
    · simp [h2] at h'
    · simp only [h1, if_false, Option.some.injEq] at h
      simp only [h2, if_false, Option.some.injEq] at h'
      subst h; subst h'
      refine ⟨_, _, rfl, rfl, ?_, ?_, ?_⟩ <;> omega

/-- while `is_untyped` (IDLValue decoding and every skipped value) the decoding counter is charged fifty
times the cost and the skipping counter once: skipped data is charged to the skipping quota -/
theorem addCost_untyped_charges_both (st : St) (c n q : Nat) (hu : st.untyped = true)
    (hn : st.dq = some n) (hq : st.sq = some q) (h1 : c * 50 ≤ n) (h2 : c ≤ q) (h3 : c * 50 ≤ usizeMax) :
    addCost st c = .ok () { st with dq := some (n - c * 50), sq := some (q - c) } := by
  have ha : chargeAmount st c = c * 50 := by
    unfold chargeAmount; simp [hu, Nat.min_eq_left h3]
  have hd : chargeD st c = some { st with dq := some (n - c * 50) } := by
    unfold chargeD
    have : ¬ n < c * 50 := by omega
    simp [hn, ha, this]
  have hs : chargeS { st with dq := some (n - c * 50) } c = some { st with dq := some (n - c * 50), sq := some (q - c) } := by
    unfold chargeS
    have : ¬ q < c := by omega
    simp [hu, hq, this]
  simp [addCost, hd, hs]

/-- typed (native) decoding is charged once to the decoding counter and not at all to the skipping counter -/
theorem addCost_typed_charges_decoding_only (st : St) (c n : Nat) (hu : st.untyped = false)
    (hn : st.dq = some n) (h1 : c ≤ n) :
    addCost st c = .ok () { st with dq := some (n - c) } := by
  have ha : chargeAmount st c = c := by unfold chargeAmount; simp [hu]
  have hd : chargeD st c = some { st with dq := some (n - c) } := by
    unfold chargeD
    have : ¬ n < c := by omega
    simp [hn, ha, this]
  have hs : chargeS { st with dq := some (n - c) } c = some { st with dq := some (n - c) } := by
    unfold chargeS; simp [hu]
  simp [addCost, hd, hs]

/-- **Quotas never change the result**: whenever decoding a message under any decoding / skipping quota returns
values, decoding the same bytes at the same expected types without quotas returns exactly the same values —
for every byte string, environment, expected types and quota configuration. -/
theorem quotas_never_change_the_result (bs : Bytes) (env : Env) (expected : List Ty) (cfg : Config)
    (vs : List Val) (st : St) (h : decodeWithConfig bs env expected cfg = .ok vs st) :
    ∃ st', decodeWithConfig bs env expected ⟨none, none⟩ = .ok vs st' :=
  decode_quota_neutral bs env expected cfg vs st h

/-- the same for every entry point at every depth: from equal states (quotas aside) the unmetered run reproduces
the value of the metered one, and a subtype failure stays a subtype failure (what option back-tracking sees) -/
theorem entry_points_quota_neutral (env : Env) (fuel : Nat) :
    (∀ vis w e, Neutral (deAny env vis fuel w e)) ∧ (∀ w, Neutral (deIgnored env fuel w)) ∧
    (∀ vis w e, Neutral (recoverable env vis fuel w e)) :=
  ⟨(de_sim env fuel).1, (de_sim env fuel).2.1, (de_sim env fuel).2.2.1⟩

/-- two different quota configurations that both succeed give the same values -/
theorem two_quota_configurations_agree (bs : Bytes) (env : Env) (expected : List Ty) (c1 c2 : Config)
    (v1 v2 : List Val) (s1 s2 : St) (h1 : decodeWithConfig bs env expected c1 = .ok v1 s1)
    (h2 : decodeWithConfig bs env expected c2 = .ok v2 s2) : v1 = v2 := by
  obtain ⟨a, ha⟩ := decode_quota_neutral bs env expected c1 v1 s1 h1
  obtain ⟨b, hb⟩ := decode_quota_neutral bs env expected c2 v2 s2 h2
  rw [ha] at hb
  simp only [R.ok.injEq] at hb
  exact hb.1

/-- the order on quotas: no quota is the largest -/
def qle (a b : Option Nat) : Prop :=
  match a, b with
  | _, none => True
  | some n, some m => n ≤ m
  | none, some _ => False

theorem qle_mode (a b : Option Nat) (h : qle a b) : ∃ δ, qrel δ a b := by
  cases b with
  | none => exact ⟨.drop, rfl⟩
  | some m =>
    cases a with
    | none => simp [qle] at h
    | some n =>
      simp only [qle] at h
      exact ⟨.both (m - n), n, rfl, by congr 1; omega⟩

/-- **Success is monotone in both quotas**: when decoding returns values under some quotas, it returns the same
values under any larger decoding quota and any larger skipping quota (an absent quota counting as the largest). -/
theorem success_is_monotone_in_both_quotas (bs : Bytes) (env : Env) (expected : List Ty) (c1 c2 : Config)
    (vs : List Val) (st : St)
    (hd : qle c1.decodingQuota c2.decodingQuota) (hs : qle c1.skippingQuota c2.skippingQuota)
    (h : decodeWithConfig bs env expected c1 = .ok vs st) :
    ∃ st', decodeWithConfig bs env expected c2 = .ok vs st' := by
  obtain ⟨δd, h1⟩ := qle_mode _ _ hd
  obtain ⟨δs, h2⟩ := qle_mode _ _ hs
  obtain ⟨st', h3, _⟩ := decode_shift (δd := δd) (δs := δs) bs env expected c1 c2 vs st h1 h2 h
  exact ⟨st', h3⟩

/-- a failure under larger quotas is a failure under smaller ones (contrapositive) -/
theorem failure_is_antitone_in_both_quotas (bs : Bytes) (env : Env) (expected : List Ty) (c1 c2 : Config)
    (hd : qle c1.decodingQuota c2.decodingQuota) (hs : qle c1.skippingQuota c2.skippingQuota)
    (h : ∀ vs st, decodeWithConfig bs env expected c2 ≠ .ok vs st) :
    ∀ vs st, decodeWithConfig bs env expected c1 ≠ .ok vs st := by
  intro vs st h1
  obtain ⟨st', h2⟩ := success_is_monotone_in_both_quotas bs env expected c1 c2 vs st hd hs h1
  exact h vs st' h2

/-- **The cost of a successful decode does not depend on the quotas supplied**: two successful runs under
decoding quotas `n1`, `n2` (and any skipping quotas) leave `r1`, `r2` with `n1 - r1 = n2 - r2` (as integers). -/
theorem cost_does_not_depend_on_quotas (bs : Bytes) (env : Env) (expected : List Ty) (n1 n2 : Nat) (q1 q2 : Option Nat)
    (v1 v2 : List Val) (s1 s2 : St)
    (h1 : decodeWithConfig bs env expected ⟨some n1, q1⟩ = .ok v1 s1)
    (h2 : decodeWithConfig bs env expected ⟨some n2, q2⟩ = .ok v2 s2) :
    v1 = v2 ∧ ∃ r1 r2, s1.dq = some r1 ∧ s2.dq = some r2 ∧ (n1 : Int) - r1 = (n2 : Int) - r2 := by
  -- a configuration above both
  let q3 : Option Nat := match q1, q2 with
    | some a, some b => some (max a b)
    | _, _ => none
  have hq1 : qle q1 q3 := by
    cases q1 <;> cases q2 <;> simp [q3, qle] <;> omega
  have hq2 : qle q2 q3 := by
    cases q1 <;> cases q2 <;> simp [q3, qle] <;> omega
  obtain ⟨δ1, hδ1⟩ := qle_mode _ _ hq1
  obtain ⟨δ2, hδ2⟩ := qle_mode _ _ hq2
  have e1 : qrel (.both (max n1 n2 - n1)) (some n1) (some (max n1 n2)) := ⟨n1, rfl, by congr 1; omega⟩
  have e2 : qrel (.both (max n1 n2 - n2)) (some n2) (some (max n1 n2)) := ⟨n2, rfl, by congr 1; omega⟩
  obtain ⟨a, ha, ra, _⟩ := decode_shift bs env expected ⟨some n1, q1⟩ ⟨some (max n1 n2), q3⟩ v1 s1 e1 hδ1 h1
  obtain ⟨b, hb, rb, _⟩ := decode_shift bs env expected ⟨some n2, q2⟩ ⟨some (max n1 n2), q3⟩ v2 s2 e2 hδ2 h2
  rw [ha] at hb
  simp only [R.ok.injEq] at hb
  obtain ⟨hv, hab⟩ := hb
  subst hab
  obtain ⟨r1, hr1, hr1'⟩ := ra
  obtain ⟨r2, hr2, hr2'⟩ := rb
  rw [hr1'] at hr2'
  simp only [Option.some.injEq] at hr2'
  exact ⟨hv, r1, r2, hr1, hr2, by omega⟩

/-- **The cost is at least the number of values materialised** (zero-sized elements are not free): with a decoding
quota `n` configured, a run that returns the values `vs` leaves `r` with `r + (number of value nodes in vs) ≤ n` —
for every message, every expected type, every skipping quota, with back-tracking of options charged as well. -/
theorem cost_is_at_least_the_number_of_values (bs : Bytes) (env : Env) (expected : List Ty) (n : Nat) (sq : Option Nat)
    (vs : List Val) (st : St) (h : decodeWithConfig bs env expected ⟨some n, sq⟩ = .ok vs st) :
    ∃ r, st.dq = some r ∧ r + vcountL vs ≤ n :=
  decode_cost_ge_values bs env expected n sq vs st h

/-- non-vacuity: a message that decodes under quotas, and what is left of the decoding quota -/
example : (match decodeWithConfig [0x44, 0x49, 0x44, 0x4c, 0, 1, 0x7e, 1] [] [.prim .bool] ⟨some 1000, some 1000⟩ with
    | .ok [.bool true] s => s.dq == some 922
    | _ => false) = true := by decide

end Candid.Props.C07
