import CandidModel.Types
/-
  The type checker for programs (C14): mirror of `candid_parser/src/typing.rs` (`check_prog`: `check_decs`
  = placeholders + `check_defs` + `check_cycle` + `validate_decs`, then `check_actor`) together with the
  uniqueness checks the grammar actions perform (grammar.lalrpop: labels, method names), and the
  specification's well-formedness predicate `WF` stated without any traversal state.

  A program is given as written: declarations in source order (names may repeat), optional main actor.
-/
namespace Candid.Check
open Candid

structure Prog where
  decs : List (String × Ty)
  actor : Option Ty
  deriving Repr

/-- error classes (what the correspondence compares; the Rust messages are mapped to these) -/
inductive Err where
  | parse | duplicate | unbound | mode | cls | cycle | nonfunc | notservice | limit
  deriving DecidableEq, Repr

def Err.name : Err → String
  | .parse => "parse" | .duplicate => "duplicate" | .unbound => "unbound" | .mode => "mode" | .cls => "class"
  | .cycle => "cycle" | .nonfunc => "nonfunc" | .notservice => "notservice" | .limit => "limit"

abbrev R := Except Err

/-! ## grammar actions: uniqueness of labels (by id) and of method names, shape of method types -/

mutual
def grammarOk : Ty → Bool
  | .opt t | .vec t => grammarOk t
  | .record fs | .variant fs => grammarOkFields fs && decide ((fs.toList.map fun f => f.1.getId).Nodup)
  | .func a r _ => grammarOkTys a && grammarOkTys r
  | .service ms => grammarOkMeths ms && decide ((ms.toList.map fun m => m.1).Nodup)
  | .cls a t => grammarOkTys a && grammarOk t
  | _ => true
def grammarOkFields : Fields → Bool
  | .nil => true
  | .cons _ t r => grammarOk t && grammarOkFields r
def grammarOkTys : Tys → Bool
  | .nil => true
  | .cons t r => grammarOk t && grammarOkTys r
def grammarOkMeths : Meths → Bool
  | .nil => true
  | .cons _ t r =>
    -- `MethTyp`: a method is written with a function type or with a type name
    (match t with | .func _ _ _ => true | .var _ => true | _ => false) && grammarOk t && grammarOkMeths r
end

/-! ## `TypeEnv` helpers -/

def findType (env : Env) (x : String) : R Ty :=
  match env.find x with
  | some t => .ok t
  | none => .error .unbound

/-- `TypeEnv::as_func`: follow names to a function type.  `fuel` bounds the chain (the Rust recursion is
bounded by its depth guard; on checked environments chains are shorter than the environment). -/
def asFunc (env : Env) : Nat → Ty → R (Tys × Tys × List FuncMode)
  | _, .func a r m => .ok (a, r, m)
  | fuel + 1, .var x => (findType env x).bind (asFunc env fuel)
  | 0, .var _ => .error .limit
  | _, _ => .error .nonfunc

/-- `TypeEnv::as_service` -/
def asService (env : Env) : Nat → Ty → R Meths
  | _, .service ms => .ok ms
  | fuel + 1, .var x => (findType env x).bind (asService env fuel)
  | fuel + 1, .cls _ t => asService env fuel t
  | 0, _ => .error .limit
  | _, _ => .error .notservice

/-! ## `check_type` -/

def modesOk (rets : Tys) (modes : List FuncMode) : R Unit :=
  if modes.length > 1 then .error .mode
  else if modes = [.oneway] ∧ rets ≠ .nil then .error .mode
  else .ok ()

mutual
/-- `check_type`; `pre = true` while definitions are still placeholders (method types are not inspected) -/
def checkType (env : Env) (pre : Bool) : Ty → R Unit
  | .var x => (findType env x).map fun _ => ()
  | .opt t | .vec t => checkType env pre t
  | .record fs | .variant fs => checkFields env pre fs
  | .func a r m => (checkTys env pre a).bind fun _ => (checkTys env pre r).bind fun _ => modesOk r m
  | .service ms => checkMeths env pre ms
  | .cls _ _ => .error .cls
  | _ => .ok ()
def checkFields (env : Env) (pre : Bool) : Fields → R Unit
  | .nil => .ok ()
  | .cons _ t r => (checkType env pre t).bind fun _ => checkFields env pre r
def checkTys (env : Env) (pre : Bool) : Tys → R Unit
  | .nil => .ok ()
  | .cons t r => (checkType env pre t).bind fun _ => checkTys env pre r
def checkMeths (env : Env) (pre : Bool) : Meths → R Unit
  | .nil => .ok ()
  | .cons _ t r =>
    (checkType env pre t).bind fun _ =>
      if !pre && (match asFunc env (env.length + 1) t with | .ok _ => false | .error _ => true) then .error .nonfunc
      else checkMeths env pre r
end

/-! ## `check_decs` -/

/-- first pass: a placeholder per declared name; a repeated name is an error -/
def placeholders : List String → List (String × Ty) → R Env
  | _, [] => .ok []
  | seen, (n, _) :: r =>
    if seen.contains n then .error .duplicate
    else (placeholders (n :: seen) r).map fun e => (n, Ty.unknown) :: e

/-- `check_defs` with `pre = true`; only the set of bound names matters -/
def checkDefs (pre : Env) : List (String × Ty) → R Unit
  | [] => .ok ()
  | (_, t) :: r => (checkType pre true t).bind fun _ => checkDefs pre r

/-- `has_cycle`: follow names from `t`, remembering the ones passed -/
def hasCycle (env : Env) : Nat → List String → Ty → R Bool
  | fuel + 1, seen, .var x =>
    if seen.contains x then .ok true
    else (findType env x).bind fun t => hasCycle env fuel (x :: seen) t
  | 0, _, .var _ => .error .limit
  | _, _, _ => .ok false

def checkCycle (env : Env) : List (String × Ty) → R Unit
  | [] => .ok ()
  | (_, t) :: r =>
    (hasCycle env (env.length + 1) [] t).bind fun c => if c then .error .cycle else checkCycle env r

/-! ### `validate_decs`: every service type inside the definitions has methods that denote functions.
The walk enters a name at most once (`seen`); the state is threaded through. -/

mutual
def validateType (env : Env) : Nat → List String → Ty → R (List String)
  | fuel, seen, .var x =>
    if seen.contains x then .ok seen
    else match fuel with
      | 0 => .error .limit
      | fuel + 1 => (findType env x).bind fun t => validateType env fuel (x :: seen) t
  | fuel, seen, .opt t | fuel, seen, .vec t => validateType env fuel seen t
  | fuel, seen, .record fs | fuel, seen, .variant fs => validateFields env fuel seen fs
  | fuel, seen, .func a r _ => (validateTys env fuel seen a).bind fun s => validateTys env fuel s r
  | fuel, seen, .service ms => validateMeths env fuel seen ms
  | fuel, seen, .cls a t => (validateTys env fuel seen a).bind fun s => validateType env fuel s t
  | _, seen, _ => .ok seen
termination_by fuel _ t => (fuel, sizeOf t)
def validateFields (env : Env) : Nat → List String → Fields → R (List String)
  | _, seen, .nil => .ok seen
  | fuel, seen, .cons _ t r => (validateType env fuel seen t).bind fun s => validateFields env fuel s r
termination_by fuel _ fs => (fuel, sizeOf fs)
def validateTys (env : Env) : Nat → List String → Tys → R (List String)
  | _, seen, .nil => .ok seen
  | fuel, seen, .cons t r => (validateType env fuel seen t).bind fun s => validateTys env fuel s r
termination_by fuel _ ts => (fuel, sizeOf ts)
def validateMeths (env : Env) : Nat → List String → Meths → R (List String)
  | _, seen, .nil => .ok seen
  | fuel, seen, .cons _ t r =>
    -- `env.as_func(ty)?`, then the method type is walked like any other type (a name is entered once)
    match asFunc env (env.length + 1) t with
    | .error _ => .error .nonfunc
    | .ok _ => (validateType env fuel seen t).bind fun s => validateMeths env fuel s r
termination_by fuel _ ms => (fuel, sizeOf ms)
end

def validateDecs (env : Env) : List String → List (String × Ty) → R Unit
  | _, [] => .ok ()
  | seen, (_, t) :: r => (validateType env (env.length + 1) seen t).bind fun s => validateDecs env s r

/-- `check_actor` -/
def checkActor (env : Env) : Option Ty → R Unit
  | none => .ok ()
  | some (.cls args t) =>
    (checkTys env false args).bind fun _ => (checkType env false t).bind fun _ =>
      (asService env (env.length + 1) t).map fun _ => ()
  | some t => (checkType env false t).bind fun _ => (asService env (env.length + 1) t).map fun _ => ()

def grammarAll (p : Prog) : Bool :=
  p.decs.all (fun d => grammarOk d.2) && (match p.actor with | some t => grammarOk t | none => true)

/-- the environment after `check_defs`: a map sorted by name (`BTreeMap`); declared names are distinct here -/
def insertSorted (d : String × Ty) : Env → Env
  | [] => [d]
  | e :: r => if d.1 < e.1 then d :: e :: r else e :: insertSorted d r

def sortedEnv (decs : List (String × Ty)) : Env := decs.foldr insertSorted []

/-- `check_prog` on the text's syntax tree (grammar checks first: the whole text is parsed before it is checked) -/
def checkProg (p : Prog) : R Unit :=
  if !grammarAll p then .error .parse
  else
    (placeholders [] p.decs).bind fun pre =>
    (checkDefs pre p.decs).bind fun _ =>
    let env := sortedEnv p.decs
    (checkCycle env env).bind fun _ =>
    (validateDecs env [] env).bind fun _ =>
    checkActor env p.actor

/-! ## the specification: well-formed programs (spec/Candid.md), stated without traversal state -/

mutual
/-- every name is bound, functions have at most one annotation and oneway functions no results, service
constructors do not occur -/
def wfTy (names : List String) : Ty → Bool
  | .var x => names.contains x
  | .opt t | .vec t => wfTy names t
  | .record fs | .variant fs => wfFields names fs
  | .func a r m => wfTys names a && wfTys names r && decide (m.length ≤ 1) && !(decide (m = [.oneway]) && decide (r ≠ .nil))
  | .service ms => wfMeths names ms
  | .cls _ _ => false
  | _ => true
def wfFields (names : List String) : Fields → Bool
  | .nil => true
  | .cons _ t r => wfTy names t && wfFields names r
def wfTys (names : List String) : Tys → Bool
  | .nil => true
  | .cons t r => wfTy names t && wfTys names r
def wfMeths (names : List String) : Meths → Bool
  | .nil => true
  | .cons _ t r => wfTy names t && wfMeths names r
end

/-- a name denotes a type constructor after finitely many renamings (not "equal to itself through names only") -/
def productive (env : Env) (t : Ty) : Bool := (env.trace (env.length + 2) t).isSome

def denotesFunc (env : Env) (t : Ty) : Bool :=
  match env.trace (env.length + 2) t with
  | some (.func _ _ _) => true
  | _ => false

mutual
/-- every service type occurring in `t` has methods that denote function types (names are not entered:
every definition is examined on its own) -/
def servicesOk (env : Env) : Ty → Bool
  | .opt t | .vec t => servicesOk env t
  | .record fs | .variant fs => servicesOkFields env fs
  | .func a r _ => servicesOkTys env a && servicesOkTys env r
  | .service ms => servicesOkMeths env ms
  | .cls a t => servicesOkTys env a && servicesOk env t
  | _ => true
def servicesOkFields (env : Env) : Fields → Bool
  | .nil => true
  | .cons _ t r => servicesOk env t && servicesOkFields env r
def servicesOkTys (env : Env) : Tys → Bool
  | .nil => true
  | .cons t r => servicesOk env t && servicesOkTys env r
def servicesOkMeths (env : Env) : Meths → Bool
  | .nil => true
  | .cons _ t r => denotesFunc env t && servicesOk env t && servicesOkMeths env r
end

def denotesService (env : Env) (t : Ty) : Bool :=
  match env.trace (env.length + 2) t with
  | some (.service _) => true
  | _ => false

def actorOk (env : Env) (names : List String) : Option Ty → Bool
  | none => true
  | some (.cls args t) => wfTys names args && servicesOkTys env args && wfTy names t && servicesOk env t && denotesService env t
  | some t => wfTy names t && servicesOk env t && denotesService env t

def WF (p : Prog) : Bool :=
  let names := p.decs.map (·.1)
  let env := sortedEnv p.decs
  grammarAll p && decide names.Nodup
    && p.decs.all (fun d => wfTy names d.2)
    && p.decs.all (fun d => productive env d.2)
    && p.decs.all (fun d => servicesOk env d.2)
    && actorOk env names p.actor

end Candid.Check
