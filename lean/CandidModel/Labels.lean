import CandidModel.Types
/-
  Names and numeric ids (C15): the specification's hash as a polynomial, sorting and the duplicate check
  shared by the parsers, the `record!` / `variant!` macros and the derive macro (`utils::check_unique` after
  `sort_unstable_by_key(get_id)`), and the binary header's "strictly ascending" check.
-/
namespace Candid.Labels
open Candid

/-- spec: `hash(id) = (Σ_{i=0..k} utf8(id)[i] · 223^(k-i)) mod 2^32` -/
def specSum : Bytes → Nat
  | [] => 0
  | b :: rest => b.toNat * 223 ^ rest.length + specSum rest

def hashSpec (bs : Bytes) : Nat := specSum bs % 2 ^ 32

/-- insertion sort by key (the Rust uses an unstable sort; only the sorted *keys* matter for the check) -/
def insertByKey {α : Type} (key : α → Nat) (a : α) : List α → List α
  | [] => [a]
  | b :: r => if key a ≤ key b then a :: b :: r else b :: insertByKey key a r

def sortByKey {α : Type} (key : α → Nat) : List α → List α
  | [] => []
  | a :: r => insertByKey key a (sortByKey key r)

/-- `check_unique` over an already sorted sequence: adjacent equal keys are an error -/
def checkUnique : List Nat → Bool
  | a :: b :: r => a != b && checkUnique (b :: r)
  | _ => true

/-- what every entry point does with a list of labels -/
def sortAndCheck (ls : List Label) : Option (List Nat) :=
  let ids := (sortByKey Label.getId ls).map Label.getId
  if checkUnique ids then some ids else none

/-- binary header: ids must be strictly ascending as written -/
def strictlyAscending : List Nat → Bool
  | a :: b :: r => a < b && strictlyAscending (b :: r)
  | _ => true

end Candid.Labels
