import CandidModel.Basic
import CandidModel.Gen.Consts
import CandidModel.Gen.Keywords
/-
  Candid text syntax, token level.

  * the string sub-lexer of `candid_parser/src/token.rs` (`enum Text`, longest match between `\.`, `\xx`
    and `\u{…}`), numbers (`parse_number`, the `Number` / `FieldId` grammar actions), identifiers;
  * the printers' side of the same tokens in `candid/src/pretty/candid.rs`: text escaping (Rust's
    `str::escape_debug`, whose Unicode tables are *parameters* of the model), blob bytes (`pp_char`),
    digit grouping (`pp_num_str`), identifier quoting (`needs_quote`, `KEYWORDS`);
  * the numbering of unnamed record fields shared by the value and type grammars.
-/
namespace Candid.Text
open Candid

/-! ## lexing string literals -/

/-- what a string literal denotes: scalars, and raw bytes from `\xx` escapes -/
inductive Piece where
  | ch (c : Char)
  | byte (b : UInt8)
  deriving DecidableEq, Repr

def isHex (c : Char) : Bool :=
  ('0' ≤ c ∧ c ≤ '9') ∨ ('a' ≤ c ∧ c ≤ 'f') ∨ ('A' ≤ c ∧ c ≤ 'F')

def hexVal (c : Char) : Nat :=
  if '0' ≤ c ∧ c ≤ '9' then c.toNat - 48
  else if 'a' ≤ c ∧ c ≤ 'f' then c.toNat - 87
  else c.toNat - 55

/-- value of a hex digit string (most significant first) -/
def hexNum (cs : List Char) : Nat := cs.foldl (fun acc c => acc * 16 + hexVal c) 0

/-- split the maximal run `[_0-9a-fA-F]*` -/
def spanHexUnderscore : List Char → List Char × List Char
  | [] => ([], [])
  | c :: r => if isHex c ∨ c = '_' then
      let (a, b) := spanHexUnderscore r
      (c :: a, b)
    else ([], c :: r)

/-- is `n` a Unicode scalar value (`char::from_u32`)? -/
def isScalar (n : Nat) : Bool := n < 0xD800 ∨ (0xE000 ≤ n ∧ n < 0x110000)

/-- The `Text` sub-lexer after the opening quote: pieces up to the closing quote, and the rest of the input.
`fuel` bounds the number of tokens (≤ number of characters). -/
def lexPieces : Nat → List Char → Outcome (List Piece × List Char)
  | 0, _ => .err .limit
  | fuel + 1, cs =>
    match cs with
    | [] => .err .malformed                       -- unclosed string
    | '"' :: r => .ok ([], r)
    | '\\' :: r =>
      (match r with
       | [] => .err .malformed
       | 'u' :: '{' :: r2 =>
         -- Codepoint  \u{[0-9a-fA-F][_0-9a-fA-F]*}  if it matches (longest match), else `\u` is an unknown escape
         (match r2 with
          | h :: _ =>
            if isHex h then
              let (run, after) := spanHexUnderscore r2
              match after with
              | '}' :: r3 =>
                let digits := run.filter (· ≠ '_')
                -- u32::from_str_radix: more than 8 significant… any value ≥ 2^32 is an error
                if hexNum digits < 2 ^ 32 ∧ isScalar (hexNum digits) then
                  (lexPieces fuel r3).map fun (ps, rest) => (.ch (Char.ofNat (hexNum digits)) :: ps, rest)
                else .err .malformed
              | _ => .err .malformed
            else .err .malformed
          | [] => .err .malformed)
       | c1 :: r1 =>
         (match r1 with
          | c2 :: r2 =>
            if isHex c1 ∧ isHex c2 then
              -- Byte  \xx  (three characters: longer than `\.`)
              (lexPieces fuel r2).map fun (ps, rest) => (.byte (hexVal c1 * 16 + hexVal c2).toUInt8 :: ps, rest)
            else escapeChar fuel c1 r1
          | [] => escapeChar fuel c1 r1))
    | c :: r => (lexPieces fuel r).map fun (ps, rest) => (.ch c :: ps, rest)
where
  /-- EscapeCharacter `\.` -/
  escapeChar (fuel : Nat) (c : Char) (rest : List Char) : Outcome (List Piece × List Char) :=
    let mk (x : Char) := (lexPieces fuel rest).map fun (ps, r) => (Piece.ch x :: ps, r)
    if c = 'n' then mk '\n' else if c = 'r' then mk '\r' else if c = 't' then mk '\t'
    else if c = '\\' then mk '\\' else if c = '"' then mk '"' else if c = '\'' then mk '\''
    else .err .malformed

def lexString (cs : List Char) : Outcome (List Piece × List Char) := lexPieces (cs.length + 1) cs

def utf8Char (c : Char) : Bytes := (String.singleton c).toUTF8.data.toList

def piecesBytes (ps : List Piece) : Bytes :=
  ps.flatMap fun p => match p with | .ch c => utf8Char c | .byte b => [b]

/-! ## printing text -/

def hexDigitLower (n : Nat) : Char := if n < 10 then Char.ofNat (48 + n) else Char.ofNat (87 + n)

/-- lower-case hex digits of `n`, most significant first, at least one digit (`{:x}`) -/
def toHexDigits (n : Nat) : List Char :=
  if n < 16 then [hexDigitLower n] else toHexDigits (n / 16) ++ [hexDigitLower (n % 16)]
termination_by n
decreasing_by omega

def unicodeEsc (c : Char) : List Char := ['\\', 'u', '{'] ++ toHexDigits c.toNat ++ ['}']

/-- `char::escape_debug_ext` as used by `str::escape_debug`, with the NUL repair of `escape_text`
(pretty/candid.rs): NUL is written `\u{0}`.  `printable` / `graphemeExt` are Rust's Unicode tables —
parameters of the model. -/
def escChar (printable graphemeExt : Char → Bool) (first : Bool) (c : Char) : List Char :=
  if c = '\x00' then ['\\', 'u', '{', '0', '}']
  else if c = '\t' then ['\\', 't']
  else if c = '\r' then ['\\', 'r']
  else if c = '\n' then ['\\', 'n']
  else if c = '\\' then ['\\', '\\']
  else if c = '"' then ['\\', '"']
  else if c = '\'' then ['\\', '\'']
  else if first ∧ graphemeExt c then unicodeEsc c
  else if printable c then [c]
  else unicodeEsc c

/-- `escape_text`: the text is split at NUL, every part goes through `escape_debug` (whose first character
is treated specially) -/
def escapeTextFrom (printable graphemeExt : Char → Bool) : Bool → List Char → List Char
  | _, [] => []
  | first, c :: r => escChar printable graphemeExt first c ++ escapeTextFrom printable graphemeExt (c = '\x00') r

def escapeText (printable graphemeExt : Char → Bool) (s : List Char) : List Char :=
  escapeTextFrom printable graphemeExt true s

/-- `pp_char` for blobs -/
def ppByte (v : UInt8) : List Char :=
  let n := v.toNat
  if 0x20 ≤ n ∧ n ≤ 0x7e ∧ n ≠ 0x22 ∧ n ≠ 0x27 ∧ n ≠ 0x60 ∧ n ≠ 0x5c then [Char.ofNat n]
  else ['\\', hexDigitLower (n / 16), hexDigitLower (n % 16)]

/-- the Debug printer of `Blob`: readable form if every byte is printable ASCII or tab / LF / CR, else all hex -/
def ppBlob (b : Bytes) : List Char :=
  let readable := b.all fun c => (0x20 ≤ c.toNat ∧ c.toNat ≤ 0x7e) ∨ c.toNat = 9 ∨ c.toNat = 10 ∨ c.toNat = 13
  if readable then b.flatMap ppByte
  else b.flatMap fun v => ['\\', hexDigitLower (v.toNat / 16), hexDigitLower (v.toNat % 16)]

/-! ## numbers -/

/-- `parse_number`: underscores removed, a `0x` / `0X` prefix dropped -/
def parseNumberTok (slice : List Char) : List Char :=
  let noUnd := slice.filter (· ≠ '_')
  match slice with
  | '0' :: 'x' :: _ => noUnd.drop 2
  | '0' :: 'X' :: _ => noUnd.drop 2
  | _ => noUnd

def decNum (cs : List Char) : Nat := cs.foldl (fun acc c => acc * 10 + (c.toNat - 48)) 0

/-- `pp_num_str`: groups of three from the right separated by `_` (sign kept in front) -/
def groupRev : List Char → List Char
  | a :: b :: c :: d :: r => a :: b :: c :: '_' :: groupRev (d :: r)
  | s => s

def ppNumStr (s : List Char) : List Char :=
  match s with
  | '-' :: digits => '-' :: (groupRev digits.reverse).reverse
  | digits => (groupRev digits.reverse).reverse

/-! ## identifiers -/

def isIdStart (c : Char) : Bool := ('a' ≤ c ∧ c ≤ 'z') ∨ ('A' ≤ c ∧ c ≤ 'Z') ∨ c = '_'
def isIdChar (c : Char) : Bool := isIdStart c ∨ ('0' ≤ c ∧ c ≤ '9')

/-- `is_valid_as_id` = the lexer's `[a-zA-Z_][a-zA-Z0-9_]*` -/
def isValidAsId : List Char → Bool
  | [] => false
  | c :: r => isIdStart c && r.all isIdChar

/-- `needs_quote` with the printer's keyword table extracted from /repo -/
def needsQuote (s : String) : Bool := !isValidAsId s.toList || Gen.printerKeywords.contains s

/-- would the lexer return this identifier-shaped word as an `Id` token? (`#[token("…")]` words and the
`true|false` regex take precedence over the identifier regex) -/
def lexesAsId (s : String) : Bool := isValidAsId s.toList && !Gen.lexerWords.contains s

/-! ## numbering of record fields (`Arg` / `Typ` grammar actions) -/

/-- fields as written: `some id` for `id = v` / `name = v` (by hash), `none` for a positional field -/
def numberFields (next : Nat) : List (Option Nat) → Outcome (List Nat)
  | [] => .ok []
  | none :: r => if next < 2 ^ 32 then (numberFields (next + 1) r).map (next :: ·) else .err .overflow
  | some i :: r => (numberFields (i + 1) r).map (i :: ·)

end Candid.Text
