import CandidModel.Subtype
/-
  Type equality, specification layer: two types are equal when they unfold to the same (possibly infinite) tree —
  the greatest relation closed under the congruence rules below, names unfolded on either side.  Field and method
  lists are compared position by position (the Rust keeps them sorted by id / name), which is what `equal_impl`
  (mirrored by `Sub.eqAlg`) does.
-/
namespace Candid.Sub
open Candid

/-- field lists of the same length, ids equal and types related position by position -/
def FieldsEq (R : Rel) (fs1 fs2 : Fields) : Prop :=
  fs1.toList.length = fs2.toList.length ∧
    ∀ p ∈ fs1.toList.zip fs2.toList, p.1.1.getId = p.2.1.getId ∧ R p.1.2 p.2.2

/-- method lists of the same length, names equal and types related position by position -/
def MethsEq (R : Rel) (ms1 ms2 : Meths) : Prop :=
  ms1.toList.length = ms2.toList.length ∧
    ∀ p ∈ ms1.toList.zip ms2.toList, p.1.1 = p.2.1 ∧ R p.1.2 p.2.2

/-- one step of the equality rules, premises in `R` -/
def FE (env : Env) (R : Rel) (a b : Ty) : Prop :=
  a = b
  ∨ (∃ a' b', a = .opt a' ∧ b = .opt b' ∧ R a' b')
  ∨ (∃ a' b', a = .vec a' ∧ b = .vec b' ∧ R a' b')
  ∨ (∃ fs1 fs2, a = .record fs1 ∧ b = .record fs2 ∧ FieldsEq R fs1 fs2)
  ∨ (∃ fs1 fs2, a = .variant fs1 ∧ b = .variant fs2 ∧ FieldsEq R fs1 fs2)
  ∨ (∃ a1 r1 m a2 r2, a = .func a1 r1 m ∧ b = .func a2 r2 m ∧ R (tupleTy a1) (tupleTy a2) ∧ R (tupleTy r1) (tupleTy r2))
  ∨ (∃ ms1 ms2, a = .service ms1 ∧ b = .service ms2 ∧ MethsEq R ms1 ms2)
  ∨ (∃ i1 t1 i2 t2, a = .cls i1 t1 ∧ b = .cls i2 t2 ∧ R (tupleTy i1) (tupleTy i2) ∧ R t1 t2)
  ∨ (∃ x d, a = .var x ∧ recFindFull env x = some d ∧ R d b)
  ∨ (∃ x d, b = .var x ∧ recFindFull env x = some d ∧ R a d)

/-- type equality: greatest fixed point of `FE` -/
def TyEq (env : Env) (a b : Ty) : Prop := ∃ R : Rel, (∀ a b, R a b → FE env R a b) ∧ R a b

end Candid.Sub
