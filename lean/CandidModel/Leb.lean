import CandidModel.Basic
import CandidModel.Gen.Consts
/-
  (S)LEB128.

  * `Leb.*`        — the specification layer: the mathematical value of a terminated (S)LEB128 string
                     and the minimal encodings (written from spec/Candid.md / the DWARF definition,
                     never looking at the Rust).
  * `Leb.Impl.*`   — mirrors of the Rust codecs *as written*:
        `types/leb128.rs`   encode_nat / encode_int / decode_nat / decode_int     (u128 / i128)
        `types/number.rs`   Nat::encode / Nat::decode / Int::encode / Int::decode  (big numbers, u64/i64 fast path)
        `de.rs`             try_read_leb_u64 / try_read_leb_i64 + fallback         (decoder fast path)
     Machine words are modelled as `Nat` bit patterns with explicit `% 2^w`; a shift whose amount is
     not syntactically below the width is an explicit `panic` branch (debug semantics).
     External crates (`leb128::write::*`, `BigUint::{to,from}_radix_le`, `BigInt::to_signed_bytes_le`)
     are modelled by their arithmetic meaning; the correspondence check validates that.
-/
namespace Candid.Leb

/-! ## Specification layer -/

/-- Minimal unsigned LEB128. -/
def uleb (n : Nat) : Bytes :=
  if n < 128 then [n.toUInt8]
  else (n % 128 + 128).toUInt8 :: uleb (n / 128)
termination_by n
decreasing_by omega

/-- Minimal signed LEB128. -/
def sleb (i : Int) : Bytes :=
  if -64 ≤ i ∧ i < 64 then [(i % 128).toNat.toUInt8]
  else ((i % 128).toNat + 128).toUInt8 :: sleb (i / 128)
termination_by i.natAbs
decreasing_by omega

/-- Σ dᵢ·128ⁱ over the low seven bits of every byte. -/
def uval : Bytes → Nat
  | [] => 0
  | b :: r => b.toNat % 128 + 128 * uval r

/-- Split off the shortest terminated prefix (all bytes ≥ 0x80 but the last). -/
def splitLeb : Bytes → Option (Bytes × Bytes)
  | [] => none
  | b :: r =>
    if b.toNat < 128 then some ([b], r)
    else match splitLeb r with
      | none => none
      | some (p, r') => some (b :: p, r')

/-- `p` is a terminated LEB128 string: non-empty, continuation bit on every byte but the last. -/
def Terminated : Bytes → Prop
  | [] => False
  | [b] => b.toNat < 128
  | b :: r => 128 ≤ b.toNat ∧ Terminated r

/-- Sign bit (0x40) of the last byte. -/
def signBit : Bytes → Bool
  | [] => false
  | [b] => 64 ≤ b.toNat % 128
  | _ :: r => signBit r

/-- Two's-complement value of a terminated signed LEB128 string. -/
def sval (p : Bytes) : Int :=
  (uval p : Int) - (if signBit p then (2 : Int) ^ (7 * p.length) else 0)

def specReadNat (bs : Bytes) : Option (Nat × Bytes) :=
  (splitLeb bs).map fun (p, r) => (uval p, r)

def specReadInt (bs : Bytes) : Option (Int × Bytes) :=
  (splitLeb bs).map fun (p, r) => (sval p, r)

/-- What the 128-bit host decoders must compute (C09: reject precisely the out-of-range values). -/
def specReadU128 (bs : Bytes) : Option (Nat × Bytes) :=
  match specReadNat bs with
  | some (v, r) => if v < 2 ^ 128 then some (v, r) else none
  | none => none

def specReadI128 (bs : Bytes) : Option (Int × Bytes) :=
  match specReadInt bs with
  | some (v, r) => if -(2 : Int) ^ 127 ≤ v ∧ v < (2 : Int) ^ 127 then some (v, r) else none
  | none => none

/-! ## Implementation mirrors -/
namespace Impl

/-- `leb128.rs::encode_nat` and `leb128::write::unsigned`: same loop on u128 / u64. -/
def encodeNatLoop (val : Nat) : Bytes :=
  let byte := val &&& 0x7f
  let val' := val >>> 7
  if h : val' ≠ 0 then (byte ||| 0x80).toUInt8 :: encodeNatLoop val'
  else [byte.toUInt8]
termination_by val
decreasing_by
  simp only [Nat.shiftRight_eq_div_pow] at *
  omega

/-- `leb128.rs::encode_int` and `leb128::write::signed`: same loop on i128 / i64
(`val as u8`, arithmetic `>>`). -/
def encodeIntLoop (val : Int) : Bytes :=
  let byte := (val % 256).toNat
  let v6 := val >>> 6
  if v6 = 0 ∨ v6 = -1 then [(byte &&& 0x7f).toUInt8]
  else (byte ||| 0x80).toUInt8 :: encodeIntLoop (v6 >>> 1)
termination_by val.natAbs
decreasing_by
  rename_i h
  have e1 : val >>> 6 = val / 64 := by simp [Int.shiftRight_eq_div_pow]
  have e2 : (val >>> 6) >>> 1 = val / 64 / 2 := by rw [e1]; simp [Int.shiftRight_eq_div_pow]
  rw [e2]
  have h' : ¬(val / 64 = 0 ∨ val / 64 = -1) := by rw [← e1]; exact h
  omega

/-- `BigUint::to_radix_le(128)`: base-128 digits, least significant first, `[0]` for zero. -/
def toRadixLE128 (n : Nat) : List Nat :=
  if n < 128 then [n] else n % 128 :: toRadixLE128 (n / 128)
termination_by n
decreasing_by omega

/-- `*byte |= 0x80` on every group but the last. -/
def markCont : List Nat → Bytes
  | [] => []
  | [d] => [d.toUInt8]
  | d :: r => (d ||| 0x80).toUInt8 :: markCont r

/-- `Nat::encode` (`number.rs`): `to_u64` fast path through the leb128 crate, else radix groups. -/
def natEncode (n : Nat) : Bytes :=
  if n < 2 ^ 64 then encodeNatLoop n else markCont (toRadixLE128 n)

/-- number of bytes of `BigInt::to_signed_bytes_le`: the least `k ≥ 1` with `-2^(8k-1) ≤ i < 2^(8k-1)`. -/
def signedLenFrom (i : Int) (k fuel : Nat) : Nat :=
  match fuel with
  | 0 => k
  | fuel + 1 =>
    if -(2 : Int) ^ (8 * k - 1) ≤ i ∧ i < (2 : Int) ^ (8 * k - 1) then k
    else signedLenFrom i (k + 1) fuel

def signedLen (i : Int) : Nat := signedLenFrom i 1 (i.natAbs + 1)

/-- `BigInt::to_signed_bytes_le`: minimal two's complement, little endian. -/
def toSignedBytesLE (i : Int) : List Nat :=
  let k := signedLen i
  let m := (i % (2 : Int) ^ (8 * k)).toNat
  (List.range k).map fun j => (m >>> (8 * j)) % 256

/-- The bit-repacking loop of `Int::encode` (big path), `number.rs:278-323`. `fuel` bounds the
number of groups (the loop ends at the first group above `high_diff`). -/
def intEncodeBigLoop (bytes : List Nat) (signBit : Nat) (highDiff : Int) (shift fuel : Nat) : Bytes :=
  match fuel with
  | 0 => []
  | fuel + 1 =>
    let bitAt := fun (p : Nat) =>
      let idx := p / 8
      if idx < bytes.length then (bytes.getD idx 0 >>> (p % 8)) &&& 1 else signBit
    let group := (List.range 7).foldl (fun g k => g ||| (bitAt (shift + k) <<< k)) 0
    let shift' := shift + 7
    if (shift' : Int) > highDiff ∧ group >>> 6 = signBit then [(group &&& 0x7f).toUInt8]
    else (group ||| 0x80).toUInt8 :: intEncodeBigLoop bytes signBit highDiff shift' fuel

/-- highest bit position that differs from the sign bit, or -1. -/
def highDiffOf (bytes : List Nat) (signBit : Nat) : Int :=
  let n := bytes.length * 8
  match (List.range n).reverse.find? (fun p => (bytes.getD (p / 8) 0 >>> (p % 8)) &&& 1 ≠ signBit) with
  | some p => (p : Int)
  | none => -1

def intEncode (i : Int) : Bytes :=
  if -(2 : Int) ^ 63 ≤ i ∧ i < (2 : Int) ^ 63 then encodeIntLoop i
  else
    let bytes := toSignedBytesLE i
    let signBit := bytes.getLastD 0 >>> 7
    intEncodeBigLoop bytes signBit (highDiffOf bytes signBit) 0 (bytes.length * 8 / 7 + 2)

/-- Read groups until a byte without continuation bit (inclusive). `none` = ran out of input. -/
def drainGroups : Bytes → Option (List Nat × Bytes)
  | [] => none
  | b :: r =>
    if b.toNat &&& 0x80 = 0 then some ([b.toNat &&& 0x7f], r)
    else match drainGroups r with
      | none => none
      | some (g, r') => some ((b.toNat &&& 0x7f) :: g, r')

/-- `BigUint::from_radix_le(_, 128)`. -/
def fromRadixLE128 : List Nat → Nat
  | [] => 0
  | d :: r => d + 128 * fromRadixLE128 r

/-- groups recovered from the u64 accumulator: `(small >> (7*i)) & 0x7f` for `i < shift/7`. -/
def groupsOfSmall (small shift : Nat) : List Nat :=
  (List.range (shift / 7)).map fun i => (small >>> (7 * i)) &&& 0x7f

/-- `Nat::decode` (`number.rs:230-273`). `small : u64`, `shift : u32`. -/
def natDecodeLoop (small shift : Nat) : Bytes → Outcome (Nat × Bytes)
  | [] => .err .eof
  | b :: r =>
    let byte := b.toNat
    let low := byte &&& 0x7f
    if shift = 0 ∨ (shift < Gen.natDecodeGuard.1 ∧ low < 1 <<< (Gen.natDecodeGuard.2 - shift)) then
      let small' := small ||| ((low <<< shift) % 2 ^ 64)
      if byte &&& 0x80 = 0 then .ok (small', r)
      else natDecodeLoop small' (shift + 7) r
    else
      let groups := groupsOfSmall small shift ++ [low]
      if byte &&& 0x80 = 0 then .ok (fromRadixLE128 groups, r)
      else match drainGroups r with
        | none => .err .eof
        | some (g, r') => .ok (fromRadixLE128 (groups ++ g), r')

def natDecode (bs : Bytes) : Outcome (Nat × Bytes) := natDecodeLoop 0 0 bs

/-- reinterpret a 64-bit pattern as i64. -/
def toI64 (bits : Nat) : Int := if bits < 2 ^ 63 then (bits : Int) else (bits : Int) - (2 : Int) ^ 64

/-- `Int::decode` (`number.rs:325-403`). `small` is the bit pattern of the `i64` accumulator. -/
def intDecodeLoop (small shift : Nat) : Bytes → Outcome (Int × Bytes)
  | [] => .err .eof
  | b :: r =>
    let byte := b.toNat
    let low := byte &&& 0x7f
    let fits : Bool :=
      if shift < Gen.intDecodeGuard.1 then true
      else if shift < Gen.intDecodeGuard.2 ∧ byte &&& 0x80 = 0 then
        let rb := 64 - shift
        if byte &&& 0x40 ≠ 0 then decide ((((low : Int) - 128) >>> (rb - 1)) = -1)
        else decide (low >>> (rb - 1) = 0)
      else false
    if fits then
      let small' := small ||| ((low <<< shift) % 2 ^ 64)
      let shift' := shift + 7
      if byte &&& 0x80 = 0 then
        let s2 := if shift' < 64 ∧ byte &&& 0x40 ≠ 0
                  then small' ||| (((2 ^ 64 - 1) <<< shift') % 2 ^ 64) else small'
        .ok (toI64 s2, r)
      else intDecodeLoop small' shift' r
    else
      let groups := groupsOfSmall small shift ++ [low]
      let finish := fun (gs : List Nat) (last : Nat) =>
        let mag : Int := (fromRadixLE128 gs : Int)
        if last &&& 0x40 ≠ 0 then mag - (1 : Int) <<< (7 * gs.length) else mag
      if byte &&& 0x80 = 0 then .ok (finish groups byte, r)
      else match drainGroups r with
        | none => .err .eof
        | some (g, r') =>
          let gs := groups ++ g
          -- `last` is the final byte read; only its 0x40 bit is inspected, and that bit
          -- survives in the final group
          .ok (finish gs (gs.getLastD 0), r')

def intDecode (bs : Bytes) : Outcome (Int × Bytes) := intDecodeLoop 0 0 bs

/-- `shift.saturating_add(7)` on u32. -/
def satAdd7 (shift : Nat) : Nat := if shift + 7 < 2 ^ 32 then shift + 7 else 2 ^ 32 - 1

/-- skip the rest of an over-long number: `while buf[0] & 0x80 != 0 { read_exact }` -/
def drainCont : Bytes → Option Bytes
  | [] => none
  | b :: r => if b.toNat &&& 0x80 = 0 then some r else drainCont r

/-- the overflow test of `decode_nat`: bits at position 128 and above must be zero -/
def natOverflow (shift low : Nat) : Bool :=
  if shift ≥ 128 then decide (low ≠ 0)
  else decide (shift > 121 ∧ low >>> (128 - shift) ≠ 0)

/-- `leb128.rs::decode_nat` (u128). -/
def decodeNat128Loop (result shift : Nat) : Bytes → Outcome (Nat × Bytes)
  | [] => .err .eof
  | b :: r =>
    let byte := b.toNat
    let low := byte &&& 0x7f
    if natOverflow shift low then
      (if byte &&& 0x80 = 0 then .err .overflow
       else match drainCont r with
        | none => .err .eof
        | some _ => .err .overflow)
    else
      let result' := if shift < 128 then result ||| ((low <<< shift) % 2 ^ 128) else result
      if byte &&& 0x80 = 0 then .ok (result', r)
      else decodeNat128Loop result' (satAdd7 shift) r

def decodeNat128 (bs : Bytes) : Outcome (Nat × Bytes) := decodeNat128Loop 0 0 bs

def toI128 (bits : Nat) : Int := if bits < 2 ^ 127 then (bits : Int) else (bits : Int) - (2 : Int) ^ 128

/-- `leb128.rs::decode_int` (i128). `result` is the low 128 bits, `hz`/`ho` = all bits at position
≥ 128 seen so far are zero / one. -/
def decodeInt128Loop (result shift : Nat) (hz ho : Bool) : Bytes → Outcome (Int × Bytes)
  | [] => .err .eof
  | b :: r =>
    let byte := b.toNat
    let low := byte &&& 0x7f
    let (result', hz', ho') :=
      if shift < 128 then
        let res := result ||| ((low <<< shift) % 2 ^ 128)
        if shift > 121 then
          let beyond := low >>> (128 - shift)
          let width := shift + 7 - 128
          (res, hz && decide (beyond = 0), ho && decide (beyond = (1 <<< width) - 1))
        else (res, hz, ho)
      else (result, hz && decide (low = 0), ho && decide (low = 0x7f))
    let shift' := satAdd7 shift
    if byte &&& 0x80 = 0 then
      let negative := byte &&& 0x40 ≠ 0
      if shift' < 128 then
        let res := if negative then result' ||| (((2 ^ 128 - 1) <<< shift') % 2 ^ 128) else result'
        .ok (toI128 res, r)
      else
        let signSet := result' >>> 127 = 1
        let fitsB : Bool := if negative then ho' && decide signSet else hz' && !decide signSet
        if fitsB then .ok (toI128 result', r) else .err .overflow
    else decodeInt128Loop result' shift' hz' ho' r

def decodeInt128 (bs : Bytes) : Outcome (Int × Bytes) := decodeInt128Loop 0 0 true true bs

/-- `de.rs::try_read_leb_u64`: `ok none` = "may not fit, use the bignum path". -/
def tryReadLebU64Loop (result shift : Nat) : Bytes → Outcome (Option (Nat × Bytes))
  | [] => .err .eof
  | b :: r =>
    let byte := b.toNat
    let result' := result ||| (((byte &&& 0x7f) <<< shift) % 2 ^ 64)
    if byte &&& 0x80 = 0 then .ok (some (result', r))
    else if shift + 7 ≥ Gen.tryReadLebU64Bound then .ok none
    else tryReadLebU64Loop result' (shift + 7) r

/-- `de.rs::try_read_leb_i64`. -/
def tryReadLebI64Loop (result shift : Nat) : Bytes → Outcome (Option (Int × Bytes))
  | [] => .err .eof
  | b :: r =>
    let byte := b.toNat
    let result' := result ||| (((byte &&& 0x7f) <<< shift) % 2 ^ 64)
    let shift' := shift + 7
    if byte &&& 0x80 = 0 then
      -- `!0i64 << shift`: shift' ≤ 63 on every path that reaches here (checked: `shift' ≥ 64 → panic`)
      if shift' ≥ 64 then .panic "de.rs:try_read_leb_i64:shl"
      else
        let res := if byte &&& 0x40 ≠ 0 then result' ||| (((2 ^ 64 - 1) <<< shift') % 2 ^ 64) else result'
        .ok (some (toI64 res, r))
    else if shift' ≥ Gen.tryReadLebI64Bound then .ok none
    else tryReadLebI64Loop result' shift' r

/-- `deserialize_nat` for a typed (native) visitor: fast path, else rewind and `Nat::decode`. -/
def deNat (bs : Bytes) : Outcome (Nat × Bytes) :=
  match tryReadLebU64Loop 0 0 bs with
  | .ok (some x) => .ok x
  | .ok none => natDecode bs
  | .err k => .err k
  | .panic s => .panic s

/-- `deserialize_int` at wire type `int` for a typed visitor. -/
def deInt (bs : Bytes) : Outcome (Int × Bytes) :=
  match tryReadLebI64Loop 0 0 bs with
  | .ok (some x) => .ok x
  | .ok none => intDecode bs
  | .err k => .err k
  | .panic s => .panic s

end Impl
end Candid.Leb
