import CandidModel.Types
/-
  S-expression syntax shared with the Rust harness (harness/src/sexp.rs) for types, environments and
  values.  Driver-side glue: not part of any theorem.
-/
namespace Candid

inductive Sexp where
  | atom (s : String)
  | list (xs : List Sexp)
  deriving Repr, Inhabited

namespace Sexp

/-- tokens: "(", ")", atoms -/
def tokenize (s : String) : List String :=
  let rec go (cs : List Char) (cur : List Char) (acc : List String) : List String :=
    match cs with
    | [] => (if cur.isEmpty then acc else String.ofList cur.reverse :: acc).reverse
    | c :: r =>
      if c = '(' ∨ c = ')' then
        let acc := if cur.isEmpty then acc else String.ofList cur.reverse :: acc
        go r [] (String.singleton c :: acc)
      else if c = ' ' then
        let acc := if cur.isEmpty then acc else String.ofList cur.reverse :: acc
        go r [] acc
      else go r (c :: cur) acc
  go s.toList [] []

/-- parse one expression; returns the rest. `fuel` = number of tokens. -/
def parseToks : Nat → List String → Option (Sexp × List String)
  | 0, _ => none
  | fuel + 1, toks =>
    match toks with
    | [] => none
    | "(" :: r =>
      let rec items (n : Nat) (ts : List String) (acc : List Sexp) : Option (List Sexp × List String) :=
        match n with
        | 0 => none
        | n + 1 =>
          match ts with
          | [] => none
          | ")" :: r => some (acc.reverse, r)
          | _ => match parseToks fuel ts with
            | none => none
            | some (x, r) => items n r (x :: acc)
      (items (fuel + 1) r []).map fun (xs, r) => (Sexp.list xs, r)
    | ")" :: _ => none
    | a :: r => some (Sexp.atom a, r)

def parse (s : String) : Option Sexp :=
  let toks := tokenize s
  match parseToks (toks.length + 1) toks with
  | some (x, []) => some x
  | _ => none

end Sexp

/-! ### decoding S-expressions into model objects -/

def strOfHex (h : String) : Option String :=
  (bytesOfHex h).bind fun bs => String.fromUTF8? (ByteArray.mk bs.toArray)

def hexOfStr (s : String) : String := hexOrDash s.toUTF8.toList

def Prim.ofName : String → Option Prim
  | "null" => some .null | "bool" => some .bool | "nat" => some .nat | "int" => some .int
  | "nat8" => some .nat8 | "nat16" => some .nat16 | "nat32" => some .nat32 | "nat64" => some .nat64
  | "int8" => some .int8 | "int16" => some .int16 | "int32" => some .int32 | "int64" => some .int64
  | "float32" => some .float32 | "float64" => some .float64 | "text" => some .text
  | "reserved" => some .reserved | "empty" => some .empty
  | _ => none

def Prim.name : Prim → String
  | .null => "null" | .bool => "bool" | .nat => "nat" | .int => "int"
  | .nat8 => "nat8" | .nat16 => "nat16" | .nat32 => "nat32" | .nat64 => "nat64"
  | .int8 => "int8" | .int16 => "int16" | .int32 => "int32" | .int64 => "int64"
  | .float32 => "float32" | .float64 => "float64" | .text => "text"
  | .reserved => "reserved" | .empty => "empty"

def Label.ofAtom (a : String) : Option Label :=
  match a.toList with
  | 'i' :: r => (String.ofList r).toNat?.map Label.id
  | 'u' :: r => (String.ofList r).toNat?.map Label.unnamed
  | 'n' :: r => (strOfHex (if r.isEmpty then "-" else String.ofList r)).map Label.named
  | _ => none

def Label.toAtom : Label → String
  | .id n => s!"i{n}"
  | .unnamed n => s!"u{n}"
  | .named s => "n" ++ (if s.isEmpty then "" else hexOfStr s)

def FuncMode.ofName : String → Option FuncMode
  | "oneway" => some .oneway | "query" => some .query | "composite_query" => some .compositeQuery
  | _ => none
def FuncMode.name : FuncMode → String
  | .oneway => "oneway" | .query => "query" | .compositeQuery => "composite_query"

def optAll {α : Type} : List (Option α) → Option (List α)
  | [] => some []
  | none :: _ => none
  | some a :: r => (optAll r).map (a :: ·)

partial def Ty.ofSexp : Sexp → Option Ty
  | .atom "principal" => some .principal
  | .atom "unknown" => some .unknown
  | .atom "future" => some .future
  | .atom a => (Prim.ofName a).map Ty.prim
  | .list [.atom "var", .atom h] => (strOfHex h).map Ty.var
  | .list [.atom "knot", .atom n] => n.toNat?.map Ty.knot
  | .list [.atom "opt", t] => (Ty.ofSexp t).map Ty.opt
  | .list [.atom "vec", t] => (Ty.ofSexp t).map Ty.vec
  | .list (.atom "record" :: fs) => (optAll (fs.map fieldOf)).map fun l => Ty.record (Fields.ofList l)
  | .list (.atom "variant" :: fs) => (optAll (fs.map fieldOf)).map fun l => Ty.variant (Fields.ofList l)
  | .list [.atom "func", .list args, .list rets, .list modes] =>
    match optAll (args.map Ty.ofSexp), optAll (rets.map Ty.ofSexp),
          optAll (modes.map fun m => match m with | .atom a => FuncMode.ofName a | _ => none) with
    | some a, some r, some m => some (Ty.func (Tys.ofList a) (Tys.ofList r) m)
    | _, _, _ => none
  | .list (.atom "service" :: ms) =>
    (optAll (ms.map fun m => match m with
      | .list [.atom h, t] => match strOfHex h, Ty.ofSexp t with
        | some n, some t => some (n, t)
        | _, _ => none
      | _ => none)).map fun l => Ty.service (Meths.ofList l)
  | .list [.atom "class", .list args, t] =>
    match optAll (args.map Ty.ofSexp), Ty.ofSexp t with
    | some a, some t => some (Ty.cls (Tys.ofList a) t)
    | _, _ => none
  | _ => none
where
  fieldOf : Sexp → Option (Label × Ty)
    | .list [.atom l, t] => match Label.ofAtom l, Ty.ofSexp t with
      | some l, some t => some (l, t)
      | _, _ => none
    | _ => none

def Env.ofSexp : Sexp → Option Env
  | .list (.atom "env" :: bs) =>
    optAll (bs.map fun b => match b with
      | .list [.atom h, t] => match strOfHex h, Ty.ofSexp t with
        | some n, some t => some (n, t)
        | _, _ => none
      | _ => none)
  | _ => none

def tysOfSexp : Sexp → Option (List Ty)
  | .list ts => optAll (ts.map Ty.ofSexp)
  | _ => none

partial def Ty.toSexp : Ty → String
  | .prim p => p.name
  | .principal => "principal"
  | .unknown => "unknown"
  | .future => "future"
  | .var x => s!"(var {hexOfStr x})"
  | .knot k => s!"(knot {k})"
  | .opt t => s!"(opt {t.toSexp})"
  | .vec t => s!"(vec {t.toSexp})"
  | .record fs => "(record" ++ String.join (fs.toList.map fun (l, t) => s!" ({l.toAtom} {t.toSexp})") ++ ")"
  | .variant fs => "(variant" ++ String.join (fs.toList.map fun (l, t) => s!" ({l.toAtom} {t.toSexp})") ++ ")"
  | .func a r m => "(func (" ++ " ".intercalate (a.toList.map Ty.toSexp) ++ ") (" ++
      " ".intercalate (r.toList.map Ty.toSexp) ++ ") (" ++ " ".intercalate (m.map FuncMode.name) ++ "))"
  | .service ms => "(service" ++ String.join (ms.toList.map fun (n, t) => s!" ({hexOfStr n} {t.toSexp})") ++ ")"
  | .cls a t => "(class (" ++ " ".intercalate (a.toList.map Ty.toSexp) ++ ") " ++ t.toSexp ++ ")"

partial def Val.ofSexp : Sexp → Option Val
  | .atom "null" => some .null
  | .atom "none" => some .none
  | .atom "reserved" => some .reserved
  | .list [.atom "bool", .atom "true"] => some (.bool true)
  | .list [.atom "bool", .atom "false"] => some (.bool false)
  | .list [.atom "nat", .atom n] => n.toNat?.map Val.nat
  | .list [.atom "int", .atom n] => n.toInt?.map Val.int
  | .list [.atom "nat8", .atom n] => n.toNat?.map Val.nat8
  | .list [.atom "nat16", .atom n] => n.toNat?.map Val.nat16
  | .list [.atom "nat32", .atom n] => n.toNat?.map Val.nat32
  | .list [.atom "nat64", .atom n] => n.toNat?.map Val.nat64
  | .list [.atom "int8", .atom n] => n.toInt?.map Val.int8
  | .list [.atom "int16", .atom n] => n.toInt?.map Val.int16
  | .list [.atom "int32", .atom n] => n.toInt?.map Val.int32
  | .list [.atom "int64", .atom n] => n.toInt?.map Val.int64
  | .list [.atom "f32", .atom n] => n.toNat?.map Val.float32
  | .list [.atom "f64", .atom n] => n.toNat?.map Val.float64
  | .list [.atom "text", .atom h] => (strOfHex h).map Val.text
  | .list [.atom "number", .atom h] => (strOfHex h).map Val.number
  | .list [.atom "principal", .atom h] => (bytesOfHex h).map Val.principal
  | .list [.atom "service", .atom h] => (bytesOfHex h).map Val.service
  | .list [.atom "func", .atom h, .atom m] => match bytesOfHex h, strOfHex m with
    | some b, some m => some (.func b m)
    | _, _ => Option.none
  | .list [.atom "blob", .atom h] => (bytesOfHex h).map Val.blob
  | .list [.atom "opt", v] => (Val.ofSexp v).map Val.opt
  | .list (.atom "vec" :: vs) => (optAll (vs.map Val.ofSexp)).map Val.vec
  | .list (.atom "record" :: fs) =>
    (optAll (fs.map fun f => match f with
      | .list [.atom l, v] => match Label.ofAtom l, Val.ofSexp v with
        | some l, some v => some (l, v)
        | _, _ => Option.none
      | _ => Option.none)).map Val.record
  | .list [.atom "variant", .atom l, v, .atom idx] => match Label.ofAtom l, Val.ofSexp v, idx.toNat? with
    | some l, some v, some i => some (.variant l v i)
    | _, _, _ => Option.none
  | _ => Option.none

def valsOfSexp : Sexp → Option (List Val)
  | .list vs => optAll (vs.map Val.ofSexp)
  | _ => none

/-- canonical printing of a value: labels as numeric ids, variant index dropped -/
partial def Val.canon : Val → String
  | .null => "null" | .none => "none" | .reserved => "reserved"
  | .bool b => if b then "(bool true)" else "(bool false)"
  | .nat n => s!"(nat {n})" | .int i => s!"(int {i})"
  | .nat8 n => s!"(nat8 {n})" | .nat16 n => s!"(nat16 {n})" | .nat32 n => s!"(nat32 {n})" | .nat64 n => s!"(nat64 {n})"
  | .int8 n => s!"(int8 {n})" | .int16 n => s!"(int16 {n})" | .int32 n => s!"(int32 {n})" | .int64 n => s!"(int64 {n})"
  | .float32 b => s!"(f32 {b})" | .float64 b => s!"(f64 {b})"
  | .text s => s!"(text {hexOfStr s})"
  | .number s => s!"(number {hexOfStr s})"
  | .principal b => s!"(principal {hexOrDash b})"
  | .service b => s!"(service {hexOrDash b})"
  | .func b m => s!"(func {hexOrDash b} {hexOfStr m})"
  | .blob b => s!"(blob {hexOrDash b})"
  | .opt v => s!"(opt {v.canon})"
  | .vec vs => "(vec" ++ String.join (vs.map fun v => " " ++ v.canon) ++ ")"
  | .record fs => "(record" ++ String.join (fs.map fun (l, v) => s!" (i{l.getId} {v.canon})") ++ ")"
  | .variant l v _ => s!"(variant i{l.getId} {v.canon})"

/-- canonical printing that ignores the order of vector elements (maps and sets decoded natively) -/
partial def Val.canonSorted : Val → String
  | .opt v => s!"(opt {v.canonSorted})"
  | .vec vs =>
    let ss := (vs.map Val.canonSorted).toArray.qsort (· < ·) |>.toList
    "(vec" ++ String.join (ss.map fun s => " " ++ s) ++ ")"
  | .blob b =>
    let ss := (b.map fun x => s!"(nat8 {x.toNat})").toArray.qsort (· < ·) |>.toList
    "(vec" ++ String.join (ss.map fun s => " " ++ s) ++ ")"
  | .record fs => "(record" ++ String.join (fs.map fun (l, v) => s!" (i{l.getId} {v.canonSorted})") ++ ")"
  | .variant l v _ => s!"(variant i{l.getId} {v.canonSorted})"
  | v => v.canon

def valsCanon (vs : List Val) : String := "(" ++ " ".intercalate (vs.map Val.canon) ++ ")"

end Candid
