import CandidModel.De
/-
  Mirror of `de.rs` for *native* decoding: `IDLDeserialize::get_value::<T>()` for a Rust type `T`, i.e. the serde
  `Deserializer` methods that `T`'s `Deserialize` implementation calls (`deserialize_u8`, `deserialize_seq`,
  `deserialize_map`, `deserialize_struct`, …), with `is_untyped = false`, the specialised paths (bulk primitive
  vectors, big-number shortcut, text-key shortcut, byte buffers, bounded vectors) and the cost accounting.

  The Rust type is a term of the grammar `RTy`: what matters of a Rust type is which entry points its (std / serde
  derive / candid) `Deserialize` implementation drives, in which order, with which visitor.  Those implementations are
  *modelled* here (trusted, validated by the correspondence run on the Rust corpus):
    serde std impls: integers, floats, bool, String, (), Option, Vec / sets, arrays, tuples, maps, Box (transparent),
                     Result; serde derive: structs with named fields, tuple structs, newtype structs, enums with
                     unit / newtype / tuple / struct variants; serde_bytes::ByteBuf;
    candid impls   : Nat, Int, Principal, Reserved, Empty, Func, Service, BoundedVec.

  The three shortcut flags are part of the decoder state (`Flags`): they are threaded through every call exactly as the
  Rust assigns them (set by the enclosing compound, cleared when a `Compound` is dropped).  Two situations are marked
  instead of modelled, with a `panic` outcome naming them; `Props/C08` proves that neither is reachable when the
  expected type is the Candid type of the Rust type:
    * "out of step": a visitor meets an expected type that is not the type of its Rust type;
    * "skip under a set flag": `deserialize_ignored_any` entered while a shortcut flag is set.
-/
namespace Candid.Native
open Candid Candid.Wire Candid.Leb Candid.De

/-- which accessor a derived enum uses for a variant (for struct fields the kind is not used) -/
inductive VKind where
  | unit | newtype | tuple | strct
  deriving DecidableEq, Repr

mutual
inductive RTy where
  | prim (p : Prim)            -- bool, nat8 … nat64, int8 … int64, float32/64, text (String), null (unit)
  | u128 | i128
  | nat | int                  -- candid::Nat / candid::Int
  | principal | reserved | empty | func | service
  | opt (t : RTy)
  | seq (t : RTy)              -- Vec, VecDeque, BTreeSet, HashSet (messages without duplicates)
  | array (n : Nat) (t : RTy)  -- [T; n]
  | tuple (ts : RTys)          -- tuples and tuple structs
  | newtype (t : RTy)          -- newtype struct
  | byteBuf
  | map (k v : RTy)
  | strct (fs : RFields)       -- derived struct with named fields
  | enm (vs : RFields)         -- derived enum / Result
  | ref (name : String)        -- a named (possibly recursive) Rust type
  | bounded (maxLen maxTotal maxElem : Nat) (t : RTy)
inductive RTys where
  | nil
  | cons (t : RTy) (rest : RTys)
inductive RFields where
  | nil
  | cons (l : Label) (k : VKind) (t : RTy) (rest : RFields)
end

deriving instance Repr for RTy, RTys, RFields
instance : Inhabited RTy := ⟨.prim .null⟩

def RTys.toList : RTys → List RTy
  | .nil => []
  | .cons t r => t :: r.toList

def RFields.toList : RFields → List (Label × VKind × RTy)
  | .nil => []
  | .cons l k t r => (l, k, t) :: r.toList

abbrev REnv := List (String × RTy)

def REnv.find (renv : REnv) (x : String) : Option RTy := (List.lookup x renv)

/-- serde's field / variant identifier visitor: a name selects the item of that name (`visit_str`), a number is an
index (`visit_u32` → `visit_u64`) -/
def RFields.select (fs : RFields) (l : Label) : Option (VKind × RTy) :=
  match l with
  | .named s => (fs.toList.find? fun p => p.1 = .named s).map fun p => p.2
  | .id h | .unnamed h => fs.toList[h]?.map fun p => p.2

inductive Big where
  | nat | int | natAsInt
  deriving DecidableEq, Repr

/-- `bignum_vec_fast_path`, `text_fast_path` (`primitive_vec_fast_path` is never set on a little-endian target: the
bulk reader returns before the assignment) -/
structure Flags where
  big : Option Big
  text : Bool
  deriving DecidableEq, Repr

def Flags.clear : Flags := ⟨none, false⟩

abbrev NR := R (Val × Flags)

/-- what the mirror answers in the two situations it marks instead of modelling.  Every function below takes the
answer as a parameter `mk`, so that "never reached" can be stated without looking into strings: the outcome does not
depend on `mk` (`Props/C08`). -/
def marker (what : String) : NR := .panic ("native: " ++ what)

/-- `deserialize_ignored_any` from a native position -/
def ignF (mk : String → NR) (ign : Ty → St → R Val) (fl : Flags) (w : Ty) (st : St) : NR :=
  if fl ≠ Flags.clear then mk "skip under a set flag"
  else (ign w st).map fun v => (v, Flags.clear)

def withFlags (fl : Flags) (x : R Val) : NR := x.map fun v => (v, fl)

/-- `check!(expect == p && wire == p)`, cost, read (`primitive_impl!`, `deserialize_bool`, `deserialize_unit`) -/
def nPrim (env : Env) (fuel : Nat) (p : Prim) (cost : Nat) (fl : Flags) (w e : Ty) (st : St) : NR :=
  (unroll env fuel w e st).bind fun (w', e') s => withFlags fl (dePrimExact p cost w' e' s)

/-- `deserialize_str` -/
def nText (env : Env) (fuel : Nat) (fl : Flags) (w e : Ty) (st : St) : NR :=
  let checked : R Unit :=
    if fl.text then .ok () st
    else (unroll env fuel w e st).bind fun (w', e') s =>
      if e' = .prim .text ∧ w' = .prim .text then .ok () s else subErr s
  checked.bind fun _ s =>
    (lenBytes s).bind fun b s' =>
      match utf8 b with
      | some str => .ok (.text str, fl) s'
      | none => .err .malformed

def natFast (mk : Nat → Val) (bs : Bytes) : Outcome (Val × Bytes) :=
  match Impl.deNat bs with
  | .ok (n, r) => .ok (mk n, r) | .err k => .err k | .panic p => .panic p
def intFast (bs : Bytes) : Outcome (Val × Bytes) :=
  match Impl.deInt bs with
  | .ok (i, r) => .ok (.int i, r) | .err k => .err k | .panic p => .panic p

/-- `Nat::deserialize`: `deserialize_any(NatVisitor)` -/
def nNat (mk : String → NR) (env : Env) (fuel : Nat) (fl : Flags) (w e : Ty) (st : St) : NR :=
  match fl.big with
  | some .nat => withFlags fl (bigNum (natFast Val.nat) st)
  | some _ => mk "out of step: Nat under an int flag"
  | none =>
    (unroll env fuel w e st).bind fun (w', e') s =>
      if e' = .prim .nat then
        (if w' = .prim .nat then withFlags fl (bigNum (natFast Val.nat) s) else subErr s)
      else mk "out of step: Nat"

/-- `Int::deserialize`: `deserialize_any(IntVisitor)` -/
def nInt (mk : String → NR) (env : Env) (fuel : Nat) (fl : Flags) (w e : Ty) (st : St) : NR :=
  let body (w' : Ty) (s : St) : NR :=
    match w' with
    | .prim .int => withFlags fl (bigNum intFast s)
    | .prim .nat => withFlags fl (bigNum (natFast fun n => .int n) s)
    | _ => subErr s
  match fl.big with
  | some .int | some .natAsInt => body w st
  | some .nat => mk "out of step: Int under a nat flag"
  | none =>
    (unroll env fuel w e st).bind fun (w', e') s =>
      if e' = .prim .int then body w' s else mk "out of step: Int"

def nat128 (bs : Bytes) : Outcome (Val × Bytes) :=
  match Impl.decodeNat128 bs with
  | .ok (n, r) => .ok (.nat n, r) | .err k => .err k | .panic p => .panic p

/-- `deserialize_u128` -/
def nU128 (env : Env) (fuel : Nat) (fl : Flags) (w e : Ty) (st : St) : NR :=
  (unroll env fuel w e st).bind fun (w', e') s =>
    if e' = .prim .nat ∧ w' = .prim .nat then
      (addCost s 16).bind fun _ s1 => withFlags fl (rd nat128 s1)
    else subErr s

/-- `deserialize_i128` -/
def nI128 (env : Env) (fuel : Nat) (fl : Flags) (w e : Ty) (st : St) : NR :=
  (unroll env fuel w e st).bind fun (w', e') s =>
    if e' ≠ .prim .int then .err .other else
    (addCost s 16).bind fun _ s1 =>
      match w' with
      | .prim .int =>
        withFlags fl (rd (fun bs => match Impl.decodeInt128 bs with
          | .ok (i, r) => .ok (.int i, r) | .err k => .err k | .panic p => .panic p) s1)
      | .prim .nat =>
        withFlags fl (rd (fun bs => match Impl.decodeNat128 bs with
          | .ok (n, r) => if n < 2 ^ 127 then .ok (.int n, r) else .err .overflow
          | .err k => .err k | .panic p => .panic p) s1)
      | _ => subErr s1

/-- `Principal::deserialize`: `deserialize_bytes(PrincipalVisitor)` -/
def nPrincipal (mk : String → NR) (env : Env) (fuel : Nat) (fl : Flags) (w e : Ty) (st : St) : NR :=
  (unroll env fuel w e st).bind fun (w', e') s =>
    match e' with
    | .principal =>
      (match w' with
       | .principal | .service _ => withFlags fl ((dePrincipalBytes s).map Val.principal)
       | _ => subErr s)
    | _ => mk "out of step: Principal"

/-- `check_subtype` on the native path: the table is the one of the message header only (`get_value::<T>` merges
nothing into it; the names of `T::ty()` live in the derive macro's thread-local environment), so that is the size charged -/
def nCheckSubtype (env : Env) (tableLen : Nat) (w e : Ty) (st : St) : R Unit :=
  (addCost st tableLen).bind fun _ s =>
    match Sub.subAlg env Sub.defaultFuel s.gamma w e with
    | .yes g => .ok () { s with gamma := g }
    | .panic p => .panic p
    | _ => subErr s

/-- `Empty::deserialize`, `Func::deserialize`, `Service::deserialize`: `deserialize_any` with a one-method visitor -/
def nViaAny (mk : String → NR) (env : Env) (tableLen : Nat) (fuel : Nat) (which : RTy) (fl : Flags) (w e : Ty) (st : St) : NR :=
  if fl.big.isSome then mk "out of step: reference under a big-number flag" else
  (unroll env fuel w e st).bind fun (w', e') s =>
    match which, e' with
    | .empty, .prim .empty => if w' = .prim .empty then .err .malformed else subErr s
    | .func, .func _ _ _ =>
      (nCheckSubtype env tableLen w' e' s).bind fun _ s1 => withFlags fl (deFuncCase w' s1)
    | .service, .service _ =>
      (nCheckSubtype env tableLen w' e' s).bind fun _ s1 =>
        (match w' with
         | .service _ => withFlags fl ((dePrincipalBytes s1).map Val.service)
         | _ => subErr s1)
    | _, _ => mk "out of step: reference"

/-- `deserialize_byte_buf` (`read_blob_len`) -/
def nByteBuf (env : Env) (fuel : Nat) (fl : Flags) (w e : Ty) (st : St) : NR :=
  (unroll env fuel w e st).bind fun (w', e') s =>
    if isBlobTy env e' then withFlags fl (deBlobCase env w' s) else subErr s

/-- run `f` `n` times, threading the flags -/
def iterF (f : Flags → St → NR) : Nat → Flags → St → R (List Val × Flags)
  | 0, fl, st => .ok ([], fl) st
  | n + 1, fl, st =>
    (f fl st).bind fun (v, fl1) s => (iterF f n fl1 s).map fun (vs, fl2) => (v :: vs, fl2)

/-- `DataSize::data_size` of the Rust value a decoded element denotes (the instances that exist: u8, u64, String) -/
def dataSize : Val → Nat
  | .nat8 _ => 1
  | .nat64 _ => 8
  | .text s => (strBytes s).length
  | _ => 0

/-- the visitor of `BoundedVec`: limits are checked after each element is read, before it is pushed -/
def iterB (f : Flags → St → NR) (maxLen maxTotal maxElem : Nat) : Nat → Nat → Nat → Flags → St → R (List Val × Flags)
  | 0, _, _, fl, st => .ok ([], fl) st
  | n + 1, count, total, fl, st =>
    (f fl st).bind fun (v, fl1) s =>
      if count ≥ maxLen then .err .other
      else if dataSize v > maxElem then .err .other
      else if total + dataSize v > maxTotal then .err .other
      else (iterB f maxLen maxTotal maxElem n (count + 1) (total + dataSize v) fl1 s).map fun (vs, fl2) => (v :: vs, fl2)

/-- how a sequence visitor consumes the elements offered to it -/
inductive SeqVisitor where
  | all                                          -- Vec, sets: until `None`
  | exactly (n : Nat)                            -- arrays: `n` calls, `None` is an error, no call after the `n`-th
  | bounded (maxLen maxTotal maxElem : Nat)      -- BoundedVec

def runSeq (vis : SeqVisitor) (f : Flags → St → NR) (len : Nat) (fl : Flags) (st : St) : R (List Val × Flags) :=
  match vis with
  | .all => iterF f len fl st
  | .exactly n =>
    (iterF f (min n len) fl st).bind fun r s => if len < n then .err .other else .ok r s
  | .bounded a b c => iterB f a b c len 0 0 fl st

/-- the value a sequence of elements denotes: a vector of `nat8` is a blob in the untyped world -/
def seqVal (elemIsByte : Bool) (vs : List Val) : Val :=
  if elemIsByte then
    match bytesOfVals vs with
    | some b => .blob b
    | none => .vec vs
  else .vec vs

/-- how far element types are resolved through names and newtype wrappers (`none` / `false` beyond) -/
def resolveDepth (renv : REnv) : Nat := renv.length + 32

/-- what a Rust element type reads from the element deserializer of the bulk reader (`PrimitiveElement` around
`u8.into_deserializer()` …): the primitive itself accepts it, and a newtype struct sees through to its field
(before the fix bed45e4 it did not: serde's value deserializers answer `deserialize_newtype_struct` with `visit_u8`,
which a derived newtype visitor lacks — `Vec<Id>` with `struct Id(u64)` did not decode) -/
def acceptsPrimitive (renv : REnv) : Nat → RTy → Prim → Option Bool
  | 0, _, _ => none
  | k + 1, t, p =>
    match t with
    | .prim q => some (decide (q = p))
    | .newtype t' => acceptsPrimitive renv k t' p
    | .ref x => (match renv.find x with | some t' => acceptsPrimitive renv k t' p | none => none)
    | _ => some false

def bigOf (ee wire : Ty) : Option Big :=
  match ee, wire with
  | .prim .nat, .prim .nat => some .nat
  | .prim .int, .prim .int => some .int
  | .prim .int, .prim .nat => some .natAsInt
  | _, _ => none

/-- the elements of a vector on the generic path: `Compound` in `Style::Vector`, `add_cost(3)` and the element's own
entry point per element; the flags are cleared when the compound is dropped -/
def genericElem (rec : RTy → Flags → Ty → Ty → St → NR) (t : RTy) (wire ee : Ty) (f : Flags) (s : St) : NR :=
  (addCost s 3).bind fun _ s' => rec t f wire ee s'

def genericElems (rec : RTy → Flags → Ty → Ty → St → NR) (vis : SeqVisitor) (t : RTy) (fl : Flags) (wire ee : Ty)
    (n : Nat) (s2 : St) : R (List Val × Flags) :=
  (runSeq vis (genericElem rec t wire ee) n fl s2).map fun (vs, _) => (vs, Flags.clear)

/-- … under the big-number shortcut: the cost of all elements up front, no check per element -/
def bigElems (rec : RTy → Flags → Ty → Ty → St → NR) (vis : SeqVisitor) (t : RTy) (fl : Flags) (b : Big) (wire ee : Ty)
    (n : Nat) (s2 : St) : R (List Val × Flags) :=
  if n * 3 > usizeMax then .err .limit else
  (addCost s2 (n * 3)).bind fun _ s3 =>
    (runSeq vis (fun f s => rec t f wire ee s) n { fl with big := some b } s3).map fun (vs, _) => (vs, Flags.clear)

def bulkElem (p : Prim) (f : Flags) (s : St) : NR := withFlags f (rd (decPrim p) s)

/-- … of identical primitive type on both sides: the bulk reader (`PrimitiveVecAccess`) -/
def bulkElems (renv : REnv) (vis : SeqVisitor) (t : RTy) (fl : Flags) (p : Prim) (n : Nat) (s2 : St) : R (List Val × Flags) :=
  let size := (primSize p).getD 1
  if n * (3 + size) > usizeMax then .err .limit else
  (addCost s2 (n * (3 + size))).bind fun _ s3 =>
    if n * size > s3.input.length then .err .eof
    else
      match acceptsPrimitive renv (resolveDepth renv) t p with
      | some true => runSeq vis (bulkElem p) n fl s3
      | some false =>
        -- the element visitor rejects the primitive (an error at the first element it is offered)
        runSeq vis (fun _ _ => .err .other) n fl s3
      | none => .err .limit

/-- `deserialize_seq`, vector branch; `guard`, `unroll` and `add_cost(1)` were done by the caller -/
def nVecCase (env : Env) (renv : REnv) (fuel : Nat) (rec : RTy → Flags → Ty → Ty → St → NR) (vis : SeqVisitor)
    (t : RTy) (fl : Flags) (ww ee : Ty) (s1 : St) : R (List Val × Flags) :=
  match env.trace fuel ww with
  | none => .err .limit
  | some wire =>
    (rd readLenDe s1).bind fun n s2 =>
      match exactPrim ee wire with
      | some p => bulkElems renv vis t fl p n s2
      | none =>
        match bigOf ee wire with
        | some b => bigElems rec vis t fl b wire ee n s2
        | none => genericElems rec vis t fl wire ee n s2

/-- `Type::is_tuple` -/
def isTupleFields (fs : List (Label × Ty)) : Bool :=
  (fs.zipIdx).all fun (p, i) => p.1.getId = i

/-- the wire record starts with the ids `0, 1, …` of the expected tuple -/
def positional (arity : Nat) (wfs : List (Label × Ty)) : Bool :=
  ((wfs.take arity).zipIdx).all fun (p, i) => p.1.getId = i

/-- `Compound` in `Style::Struct` used as a `SeqAccess` by a tuple visitor: components by position -/
def tupleLoop (rec : RTy → Flags → Ty → Ty → St → NR) :
    List RTy → List (Label × Ty) → List (Label × Ty) → Nat → Flags → St → R (List (Label × Val) × List (Label × Ty) × Flags)
  | [], _, ws, _, fl, st => .ok ([], ws, fl) st
  | t :: ts, es, ws, i, fl, st =>
    (addCost st 3).bind fun _ s1 =>
      if es.isEmpty ∧ ws.isEmpty then .err .other
      else
        let e : Ty := match es with | (_, et) :: _ => et | [] => .prim .reserved
        let l : Label := match es with | (l, _) :: _ => l | [] => .id i
        let w : Ty := match ws with | (_, wt) :: _ => wt | [] => .prim .null
        (rec t fl w e s1).bind fun (v, fl1) s2 =>
          (tupleLoop rec ts es.tail ws.tail (i + 1) fl1 s2).map fun (vs, rest, fl2) => ((l, v) :: vs, rest, fl2)

/-- `skip_remaining_wire_fields` -/
def skipFields (mk : String → NR) (ign : Ty → St → R Val) : List (Label × Ty) → Flags → St → R Flags
  | [], fl, st => .ok fl st
  | (_, wt) :: ws, fl, st =>
    (addCost st 3).bind fun _ s1 => (ignF mk ign fl wt s1).bind fun (_, fl1) s2 => skipFields mk ign ws fl1 s2

/-- `deserialize_seq`, record branch (tuples): `guard`, `unroll`, `add_cost(1)` by the caller -/
def nTupleCase (mk : String → NR) (rec : RTy → Flags → Ty → Ty → St → NR) (ign : Ty → St → R Val)
    (ts : List RTy) (fl : Flags) (wfs efs : Fields) (s1 : St) : NR :=
  if !(isTupleFields efs.toList) then subErr s1
  else if !(positional efs.toList.length wfs.toList) then subErr s1
  else
    (tupleLoop rec ts efs.toList wfs.toList 0 fl s1).bind fun (vs, rest, fl1) s2 =>
      (skipFields mk ign rest fl1 s2).map fun _ => (.record vs, Flags.clear)

/-- `Compound` in `Style::Struct` used as a `MapAccess` by a derived struct visitor -/
def structLoop (mk : String → NR) (env : Env) (fuel : Nat) (rec : RTy → Flags → Ty → Ty → St → NR) (ign : Ty → St → R Val) (fs : RFields) :
    List FieldStep → Flags → St → List (Label × Val) → NR
  | [], _, st, acc => (addCost st 4).map fun _ => (.record acc.reverse, Flags.clear)
  | step :: rest, fl, st, acc =>
    (addCost st 4).bind fun _ s1 =>
      -- key (cost by `deserialize_identifier`), then `next_value_seed` (cost 1) at the field's Rust type,
      -- or `IgnoredAny` when the struct has no such field
      let value (l : Label) (w e : Ty) (s : St) : R (Option (Label × Val) × Flags) :=
        (addCost s (labelKeyCost l)).bind fun _ s2 =>
          (addCost s2 1).bind fun _ s3 =>
            match fs.select l with
            | some (_, t) => (rec t fl w e s3).map fun (v, fl1) => (some (l, v), fl1)
            | none => (ignF mk ign fl w s3).map fun (_, fl1) => (none, fl1)
      let next (r : R (Option (Label × Val) × Flags)) : NR :=
        r.bind fun (o, fl1) s4 =>
          structLoop mk env fuel rec ign fs rest fl1 s4 (match o with | some p => p :: acc | none => acc)
      match step with
      | .both l et wt => next (value l wt et s1)
      | .expectOnly l et =>
        (match env.trace fuel et with
         | none => .err .limit
         | some et' => if !(Sub.isOptLikeTy et') then subErr s1 else next (value l (.prim .null) et' s1))
      | .expectTail l et => next (value l (.prim .null) et s1)
      | .wireOnly wt =>
        -- key "_": the derived field visitor answers `__ignore` (unless the struct has a field of that name)
        (addCost s1 1).bind fun _ s2 =>
          (addCost s2 1).bind fun _ s3 =>
            match fs.select (.named "_") with
            | some (_, t) =>
              (rec t fl wt (.prim .reserved) s3).bind fun (_, fl1) s4 => structLoop mk env fuel rec ign fs rest fl1 s4 acc
            | none =>
              (ignF mk ign fl wt s3).bind fun (_, fl1) s4 => structLoop mk env fuel rec ign fs rest fl1 s4 acc

/-- the fields of a map entry beyond key and value are skipped -/
def skipTys (mk : String → NR) (ign : Ty → St → R Val) : List Ty → Flags → St → R Flags
  | [], f, s => .ok f s
  | t :: ts, f, s => (addCost s 3).bind fun _ s' => (ignF mk ign f t s').bind fun (_, f') s'' => skipTys mk ign ts f' s''

/-- `Compound` in `Style::Map`: entries of a map -/
def mapLoop (mk : String → NR) (rec : RTy → Flags → Ty → Ty → St → NR) (ign : Ty → St → R Val) (k v : RTy) (l0 l1 : Label)
    (ek ev wk wv : Ty) (extra : List Ty) (keyFast : Bool) (valFast : Option Big) :
    Nat → St → R (List Val)
  | 0, st => (addCost st 4).map fun _ => []
  | n + 1, st =>
    let anyFast := keyFast || valFast.isSome
    (addCost st 4).bind fun _ s1 =>
      (if anyFast then R.ok () s1 else addCost s1 4).bind fun _ s2 =>
        (rec k ⟨none, keyFast⟩ wk ek s2).bind fun (kv, _) s3 =>
          (if anyFast then R.ok () s3 else addCost s3 3).bind fun _ s4 =>
            (rec v ⟨valFast, false⟩ wv ev s4).bind fun (vv, fl2) s5 =>
              (skipTys mk ign extra { fl2 with big := none } s5).bind fun _ s6 =>
                (mapLoop mk rec ign k v l0 l1 ek ev wk wv extra keyFast valFast n s6).map fun es =>
                  .record [(l0, kv), (l1, vv)] :: es

/-- `deserialize_map`: `guard`, `unroll`, `add_cost(1)` by the caller.  `len.checked_mul(7)` failing ("Map length
overflow") is reported as `err limit`, a limit of the host like the depth budget: the untyped decoder has no such
check, so the agreement theorem of `Proofs/NativeSim` excepts this outcome together with depth starvation (the driver
prints every error kind as `err`) -/
def nMapCase (mk : String → NR) (env : Env) (fuel : Nat) (rec : RTy → Flags → Ty → Ty → St → NR) (ign : Ty → St → R Val) (k v : RTy)
    (ww ee : Ty) (s1 : St) : NR :=
  match env.trace fuel ee, env.trace fuel ww with
  | some e', some w' =>
    let emptyMap (s : St) : NR :=
      (rd readLenDe s).bind fun n s2 =>
        if n ≠ 0 then subErr s2 else (addCost s2 4).map fun _ => (.vec [], Flags.clear)
    (match e', w' with
     | .record efs, .record wfs =>
       (match efs.toList with
        | [(l0, ek), (l1, ev)] =>
          if l0.getId = 0 ∧ l1.getId = 1 then
            let ws := wfs.toList
            let (wk, ws1) : Ty × List (Label × Ty) := match ws with
              | (l, t) :: r => if l.getId = 0 then (t, r) else (.prim .null, ws)
              | [] => (.prim .null, ws)
            let (wv, ws2) : Ty × List (Label × Ty) := match ws1 with
              | (l, t) :: r => if l.getId = 1 then (t, r) else (.prim .null, ws1)
              | [] => (.prim .null, ws1)
            let extra := ws2.map fun p => p.2
            (rd readLenDe s1).bind fun n s2 =>
              let keyFast : Bool := decide (ek = .prim .text) && decide (wk = .prim .text)
              let valFast := bigOf ev wv
              let anyFast := keyFast || valFast.isSome
              (if anyFast then (if n * 7 > usizeMax then R.err .limit else addCost s2 (n * 7)) else R.ok () s2).bind fun _ s3 =>
                (mapLoop mk rec ign k v l0 l1 ek ev wk wv extra keyFast valFast n s3).map fun es => (.vec es, Flags.clear)
          else emptyMap s1
        | _ => emptyMap s1)
     | _, _ => emptyMap s1)
  | _, _ => .err .limit

/-- `deserialize_enum` -/
def nEnumCase (rec : RTy → Flags → Ty → Ty → St → NR)
    (vs : RFields) (fl : Flags) (w : Ty) (efs : Fields) (s1 : St) : NR :=
  match w with
  | .variant wfs =>
    (rd readLebCrate s1).bind fun idx s2 =>
      match wfs.toList[idx]? with
      | none => .err .malformed
      | some (wl, wt) =>
        match efs.toList.find? (fun p => p.1.getId = wl.getId) with
        | none => subErr s2
        | some (el, et) =>
          (addCost s2 4).bind fun _ s3 =>
            -- not untyped: the label travels as its name, or as the decimal of its id
            let keyLen : Nat := match el with
              | .named nm => (strBytes nm).length
              | .id h | .unnamed h => (toString h).length
            (addCost s3 keyLen).bind fun _ s4 =>
              let sel : Option (VKind × RTy) := match el with
                | .named nm => vs.select (.named nm)
                | _ => none     -- a derived enum has no variant whose name is a number
              match sel with
              | none => .err .other
              | some (.unit, _) =>
                if et = .prim .null ∧ wt = .prim .null then (addCost s4 1).map fun _ => (.variant el .null idx, Flags.clear)
                else subErr s4
              | some (_, t) =>
                -- newtype_variant_seed / tuple_variant / struct_variant: add_cost(1), then the payload's own entry
                (addCost s4 1).bind fun _ s5 =>
                  (rec t fl wt et s5).map fun (v, _) => (.variant el v idx, Flags.clear)
  | _ => subErr s1

/-- `recoverable_visit_some` with `OptionVisitor<T>` -/
def nRecoverable (mk : String → NR) (rec : RTy → Flags → Ty → Ty → St → NR) (ign : Ty → St → R Val) (t : RTy) (fl : Flags) (w e : Ty) (st : St) : NR :=
  match rec t fl w e st with
  | .ok (v, fl1) s => .ok (.opt v, fl1) s
  | .sub dq sq =>
    (addCost { st with dq := dq, sq := sq } 10).bind fun _ s1 =>
      (ignF mk ign fl w s1).map fun (_, fl1) => (.none, fl1)
  | .err k => .err k
  | .panic p => .panic p

/-- `deserialize_option`; `unroll` by the caller -/
def nOptCase (mk : String → NR) (env : Env) (fuel : Nat) (rec : RTy → Flags → Ty → Ty → St → NR) (ign : Ty → St → R Val)
    (t : RTy) (fl : Flags) (w e : Ty) (st : St) : NR :=
  (addCost st 1).bind fun _ s1 =>
    match e with
    | .opt e2 =>
      (match w with
       | .prim .null | .prim .reserved => .ok (.none, fl) s1
       | .opt w2 =>
         (match s1.input with
          | [] => .err .eof
          | b :: rest =>
            if b = 0 then .ok (.none, fl) { s1 with input := rest }
            else if b = 1 then nRecoverable mk rec ign t fl w2 e2 { s1 with input := rest }
            else .err .malformed)
       | _ =>
         (match env.trace fuel e2 with
          | none => .err .limit
          | some e2' => nRecoverable mk rec ign t fl w e2' s1))
    | _ => subErr s1

def isByte (renv : REnv) : Nat → RTy → Bool
  | 0, _ => false
  | k + 1, t =>
    match t with
    | .prim .nat8 => true
    | .newtype t' => isByte renv k t'
    | .ref x => (match renv.find x with | some t' => isByte renv k t' | none => false)
    | _ => false

/-- one call of `T::deserialize(&mut de)` as a function of the recursive entry points -/
def deNBody (mk : String → NR) (env : Env) (tableLen : Nat) (renv : REnv) (fuel : Nat) (rec : RTy → Flags → Ty → Ty → St → NR) (ign : Ty → St → R Val)
    (t : RTy) (fl : Flags) (w e : Ty) (st : St) : NR :=
  -- `deserialize_seq` with a sequence visitor
  let seqEntry (extraCost : Bool) (vis : SeqVisitor) (el : RTy) : NR :=
    (if extraCost then addCost st 1 else R.ok () st).bind fun _ s0 =>
      (unroll env fuel w e s0).bind fun (w', e') s =>
        (addCost s 1).bind fun _ s1 =>
          match e', w' with
          | .vec ee, .vec ww =>
            (nVecCase env renv fuel rec vis el fl ww ee s1).map fun (vs, f) => (seqVal (isByte renv (resolveDepth renv) el) vs, f)
          | .record _, .record _ => mk "out of step: sequence visitor at a record"
          | _, _ => subErr s1
  match t with
  | .prim .bool => nPrim env fuel .bool 1 fl w e st
  | .prim .nat8 => nPrim env fuel .nat8 1 fl w e st | .prim .nat16 => nPrim env fuel .nat16 2 fl w e st
  | .prim .nat32 => nPrim env fuel .nat32 4 fl w e st | .prim .nat64 => nPrim env fuel .nat64 8 fl w e st
  | .prim .int8 => nPrim env fuel .int8 1 fl w e st | .prim .int16 => nPrim env fuel .int16 2 fl w e st
  | .prim .int32 => nPrim env fuel .int32 4 fl w e st | .prim .int64 => nPrim env fuel .int64 8 fl w e st
  | .prim .float32 => nPrim env fuel .float32 4 fl w e st | .prim .float64 => nPrim env fuel .float64 8 fl w e st
  | .prim .null => nPrim env fuel .null 1 fl w e st
  | .prim .text => nText env fuel fl w e st
  | .prim _ => mk "out of step: no Rust type reads this primitive directly"
  | .u128 => nU128 env fuel fl w e st
  | .i128 => nI128 env fuel fl w e st
  | .nat => nNat mk env fuel fl w e st
  | .int => nInt mk env fuel fl w e st
  | .principal => nPrincipal mk env fuel fl w e st
  | .reserved => (ignF mk ign fl w st).map fun (_, f) => (.reserved, f)
  | .empty => nViaAny mk env tableLen fuel .empty fl w e st
  | .func => nViaAny mk env tableLen fuel .func fl w e st
  | .service => nViaAny mk env tableLen fuel .service fl w e st
  | .byteBuf => nByteBuf env fuel fl w e st
  | .opt t' => (unroll env fuel w e st).bind fun (w', e') s => nOptCase mk env fuel rec ign t' fl w' e' s
  | .newtype t' => (addCost st 1).bind fun _ s => rec t' fl w e s
  | .ref x => (match renv.find x with | some t' => rec t' fl w e st | none => .err .other)
  | .seq el => seqEntry false .all el
  | .array n el => seqEntry true (.exactly n) el
  | .bounded a b c el => seqEntry false (.bounded a b c) el
  | .tuple ts =>
    -- deserialize_tuple / deserialize_tuple_struct: add_cost(1), then deserialize_seq
    (addCost st 1).bind fun _ s0 =>
      (unroll env fuel w e s0).bind fun (w', e') s =>
        (addCost s 1).bind fun _ s1 =>
          match e', w' with
          | .record efs, .record wfs => nTupleCase mk rec ign ts.toList fl wfs efs s1
          | .vec _, .vec _ => mk "out of step: tuple visitor at a vector"
          | _, _ => subErr s1
  | .map k v =>
    (unroll env fuel w e st).bind fun (w', e') s =>
      (addCost s 1).bind fun _ s1 =>
        match e', w' with
        | .vec ee, .vec ww => nMapCase mk env fuel rec ign k v ww ee s1
        | _, _ => subErr s1
  | .strct fs =>
    (unroll env fuel w e st).bind fun (w', e') s =>
      (addCost s 1).bind fun _ s1 =>
        match e', w' with
        | .record efs, .record wfs =>
          structLoop mk env fuel rec ign fs (mergeFields (efs.toList.length + wfs.toList.length + 1) efs.toList wfs.toList) fl s1 []
        | _, _ => subErr s1
  | .enm vs =>
    (unroll env fuel w e st).bind fun (w', e') s =>
      (addCost s 1).bind fun _ s1 =>
        match e' with
        | .variant efs => nEnumCase rec vs fl w' efs s1
        | _ => subErr s1

/-- `T::deserialize(&mut de)`; the stack guard is the fuel -/
def deN (mk : String → NR) (env : Env) (tableLen : Nat) (renv : REnv) : Nat → RTy → Flags → Ty → Ty → St → NR
  | 0, _, _, _, _, _ => .err .limit
  | fuel + 1, t, fl, w, e, st => deNBody mk env tableLen renv fuel (deN mk env tableLen renv fuel) (deIgnored env fuel) t fl w e st

/-! ## the expected type is the type of the Rust type

`agree env renv k t e`: down to depth `k`, the Candid type `e` is the type `T::ty()` of the Rust type `t` as far as the
decoder looks at it — the head constructor after unfolding names, then the components a visitor of `t` is handed.
It asks for no more than `Props/C08` needs (a struct may lack a field of the expected record: the field is ignored),
and it is executable: the driver evaluates it on every request of the correspondence run. -/

def directPrim : Prim → Bool
  | .nat | .int | .reserved | .empty => false
  | _ => true

def agree (env : Env) (renv : REnv) : Nat → RTy → Ty → Bool
  | 0, _, _ => true
  | k + 1, t, e =>
    match t with
    | .newtype t' => agree env renv k t' e
    | .ref x => (match renv.find x with | some t' => agree env renv k t' e | none => false)
    | _ =>
      match Sub.traceFull env e with
      | none => false
      | some e' =>
        match t, e' with
        | .prim p, .prim q => decide (p = q) && directPrim p
        | .u128, .prim .nat | .nat, .prim .nat | .i128, .prim .int | .int, .prim .int => true
        | .principal, .principal | .reserved, .prim .reserved | .empty, .prim .empty => true
        | .func, .func _ _ _ | .service, .service _ | .byteBuf, .vec _ => true
        | .opt t', .opt e2 => agree env renv k t' e2
        | .seq t', .vec ee | .array _ t', .vec ee | .bounded _ _ _ t', .vec ee => agree env renv k t' ee
        | .tuple ts, .record efs =>
          isTupleFields efs.toList && decide (ts.toList.length = efs.toList.length) &&
            (ts.toList.zip efs.toList).all fun p => agree env renv k p.1 p.2.2
        | .map kt vt, .vec ee =>
          (match Sub.traceFull env ee with
           | some (.record efs) =>
             (match efs.toList with
              | [(l0, ek), (l1, ev)] =>
                if l0.getId = 0 ∧ l1.getId = 1 then agree env renv k kt ek && agree env renv k vt ev else true
              | _ => true)
           | _ => true)
        | .strct fs, .record efs =>
          (fs.select (.named "_")).isNone &&
            efs.toList.all fun p => match fs.select p.1 with
              | some (_, t') => agree env renv k t' p.2
              | none => true
        | .enm vs, .variant efs =>
          efs.toList.all fun p => match p.1 with
            | .named nm => (match vs.select (.named nm) with
                | some (.unit, _) => true
                | some (_, t') => agree env renv k t' p.2
                | none => true)
            | _ => true
        | _, _ => false

/-- a shortcut flag is set only where the literal types it stands for are the current ones -/
def FlagsFit (fl : Flags) (w e : Ty) : Prop :=
  (fl.big = some .nat → e = .prim .nat ∧ w = .prim .nat) ∧
  (fl.big = some .int → e = .prim .int ∧ w = .prim .int) ∧
  (fl.big = some .natAsInt → e = .prim .int ∧ w = .prim .nat) ∧
  (fl.text = true → e = .prim .text ∧ w = .prim .text)

/-- the lockstep hypothesis at the entry of `decodeNative`, evaluated by the driver -/
def lockstep (bs : Bytes) (env : Env) (renv : REnv) (t : RTy) (expected : Ty) (depth : Nat) : Bool :=
  match parseHeader bs with
  | .ok (h, _) =>
    let (full, expected') := mergeEnv h.table env [expected]
    agree full renv depth t (expected'.headD expected)
  | _ => true

/-- `Decode!(bytes, T)`: header, `get_value::<T>()`, `done()` -/
def decodeNative (bs : Bytes) (env : Env) (renv : REnv) (t : RTy) (expected : Ty) (cfg : Config) : R Val :=
  match parseHeader bs with
  | .err k => .err k
  | .panic p => .panic p
  | .ok (h, body) =>
    -- `T::ty()` lives in the thread-local environment of the derive macro, the wire types in the table: one
    -- environment here, with the table's generated names kept apart from Rust type names
    let (full, expected') := mergeEnv h.table env [expected]
    let e0 := expected'.headD expected
    let st0 : St := { input := body, gamma := [], dq := cfg.decodingQuota, sq := cfg.skippingQuota, untyped := false }
    (addCost st0 ((bs.length - body.length) * 4)).bind fun _ st1 =>
      match full.trace De.defaultFuel e0 with
      | none => .err .other
      | some e' =>
        let first : R (Val × List Ty) :=
          match h.args with
          | [] =>
            if Sub.isOptLikeTy e' then (deN marker full h.table.length renv De.defaultFuel t Flags.clear (.prim .null) e' st1).map fun (v, _) => (v, [])
            else .err .other
          | w :: ws => (deN marker full h.table.length renv De.defaultFuel t Flags.clear w e' st1).map fun (v, _) => (v, ws)
        first.bind fun (v, ws) s =>
          let rec drain : List Ty → St → R Unit
            | [], s => .ok () s
            | w :: ws', s => (deIgnored full De.defaultFuel w { s with untyped := false }).bind fun _ s' => drain ws' s'
          (drain ws s).bind fun _ s' => if s'.input.isEmpty then .ok v s' else .err .malformed

end Candid.Native
