//! Compile stage of the C18 check.  `$BINDCHECK_GEN` (set by `./check` at build time) is the file the harness wrote:
//! one module per program with the items the generator emitted, `items()` listing `T::ty()` of each, and `all()`.
//! Output: one line per program, `ok\t<idx>` or `fail\t<idx>\t<what>`.
#![recursion_limit = "512"]
use candid::types::subtype::{equal, Gamma};
use candid::types::{Type, TypeEnv, TypeInner};
use std::collections::BTreeSet;

pub struct Prog {
    pub idx: usize,
    pub src: &'static str,
    pub items: fn() -> Vec<(&'static str, Type)>,
}

include!(env!("BINDCHECK_GEN"));

fn reach(env: &TypeEnv, t: &Type, used: &mut BTreeSet<String>) {
    use TypeInner::*;
    match t.as_ref() {
        Var(x) => {
            if used.insert(x.clone()) {
                if let Ok(d) = env.find_type(x) {
                    reach(env, d, used);
                }
            }
        }
        Opt(x) | Vec(x) => reach(env, x, used),
        Record(fs) | Variant(fs) => fs.iter().for_each(|f| reach(env, &f.ty, used)),
        Func(f) => f.args.iter().chain(f.rets.iter()).for_each(|x| reach(env, x, used)),
        Service(ms) => ms.iter().for_each(|(_, x)| reach(env, x, used)),
        Class(a, x) => {
            a.iter().for_each(|y| reach(env, y, used));
            reach(env, x, used)
        }
        _ => {}
    }
}

/// the derive macro ties recursive types with knots (`TypeInner::Knot`, resolved through a thread-local table); the
/// printer of /repo cannot show a knot in method position and `equal` formats its context eagerly, so the knots are
/// first turned into named definitions of an environment of their own
fn unknot(t: &Type, env: &mut TypeEnv) -> Type {
    use candid::types::internal::{find_type, Field, Function};
    use TypeInner::*;
    match t.as_ref() {
        Knot(id) => {
            let name = format!("{id}");
            if !env.0.contains_key(&name) {
                if let Some(d) = find_type(id) {
                    env.0.insert(name.clone(), TypeInner::Empty.into());
                    let body = unknot(&d, env);
                    env.0.insert(name.clone(), body);
                }
            }
            Var(name).into()
        }
        Opt(x) => Opt(unknot(x, env)).into(),
        Vec(x) => Vec(unknot(x, env)).into(),
        Record(fs) => Record(fs.iter().map(|f| Field { id: f.id.clone(), ty: unknot(&f.ty, env) }).collect()).into(),
        Variant(fs) => Variant(fs.iter().map(|f| Field { id: f.id.clone(), ty: unknot(&f.ty, env) }).collect()).into(),
        Func(f) => Func(Function {
            modes: f.modes.clone(),
            args: f.args.iter().map(|x| unknot(x, env)).collect(),
            rets: f.rets.iter().map(|x| unknot(x, env)).collect(),
        })
        .into(),
        Service(ms) => Service(ms.iter().map(|(n, x)| (n.clone(), unknot(x, env))).collect()).into(),
        Class(a, x) => Class(a.iter().map(|y| unknot(y, env)).collect(), unknot(x, env)).into(),
        _ => t.clone(),
    }
}

/// `a` lives in `env`, `b` in `env_b`
fn same(env: &TypeEnv, a: &Type, env_b: &TypeEnv, b: &Type) -> bool {
    let (env, a, env_b, b) = (env.clone(), a.clone(), env_b.clone(), b.clone());
    std::panic::catch_unwind(move || {
        let mut merged = env.clone();
        let b = merged.merge_type(env_b, b);
        let mut g = Gamma::new();
        equal(&mut g, &merged, &a, &b).is_ok()
    })
    .unwrap_or(false)
}

fn one_line(s: String) -> String {
    s.split_whitespace().collect::<Vec<_>>().join(" ")
}

fn main() {
    for p in all() {
        let verdict = (|| -> Result<(), String> {
            let ast = p.src.parse::<candid_parser::IDLProg>().map_err(|e| format!("source does not parse: {e}"))?;
            let mut env = TypeEnv::new();
            let actor = candid_parser::check_prog(&mut env, &ast).map_err(|e| format!("source does not check: {e}"))?;
            let raw = std::panic::catch_unwind(|| (p.items)()).map_err(|_| "the derive macro's ty() panics".to_string())?;
            let mut env_items = TypeEnv::new();
            let items: Vec<(&'static str, Type)> = raw.iter().map(|(n, t)| (*n, unknot(t, &mut env_items))).collect();
            let mut used = BTreeSet::new();
            match &actor {
                Some(a) => reach(&env, a, &mut used),
                None => used.extend(env.0.keys().cloned()),
            }
            for name in env.0.keys().filter(|k| used.contains(*k)) {
                let var: Type = TypeInner::Var(name.clone()).into();
                if !items.iter().any(|(_, t)| same(&env, &var, &env_items, t)) {
                    let def = env.find_type(name).map(|d| d.to_string()).unwrap_or_default();
                    let cands: Vec<String> = items
                        .iter()
                        .map(|(n, t)| {
                            let (n, t) = (n.to_string(), t.clone());
                            std::panic::catch_unwind(move || format!("{n} = {t}")).unwrap_or_else(|_| "<unprintable>".to_string())
                        })
                        .collect();
                    return Err(one_line(format!("no emitted item has a derived type equal to the definition {name} = {def} ; derived: {}", cands.join(" ; "))));
                }
            }
            Ok(())
        })();
        match verdict {
            Ok(()) => println!("ok\t{}", p.idx),
            Err(w) => println!("fail\t{}\t{}", p.idx, w),
        }
    }
}
