//! Compile stage of the C18 check.  `$BINDCHECK_GEN` (set by `./check` at build time) is the file the harness wrote:
//! one module per program with the items the generator emitted, `items()` listing `T::ty()` of each, and `all()`.
//! Output: one line per program, `ok\t<idx>` or `fail\t<idx>\t<what>`.
#![recursion_limit = "512"]
use candid::types::subtype::{equal, Gamma};
use candid::types::{Type, TypeEnv, TypeInner};
use std::collections::BTreeSet;

pub struct Prog {
    pub idx: usize,
    pub src: &'static str,
    pub items: fn() -> Vec<(&'static str, Type)>,
}

include!(env!("BINDCHECK_GEN"));

fn reach(env: &TypeEnv, t: &Type, used: &mut BTreeSet<String>) {
    use TypeInner::*;
    match t.as_ref() {
        Var(x) => {
            if used.insert(x.clone()) {
                if let Ok(d) = env.find_type(x) {
                    reach(env, d, used);
                }
            }
        }
        Opt(x) | Vec(x) => reach(env, x, used),
        Record(fs) | Variant(fs) => fs.iter().for_each(|f| reach(env, &f.ty, used)),
        Func(f) => f.args.iter().chain(f.rets.iter()).for_each(|x| reach(env, x, used)),
        Service(ms) => ms.iter().for_each(|(_, x)| reach(env, x, used)),
        Class(a, x) => {
            a.iter().for_each(|y| reach(env, y, used));
            reach(env, x, used)
        }
        _ => {}
    }
}

fn same(env: &TypeEnv, a: &Type, b: &Type) -> bool {
    let (env, a, b) = (env.clone(), a.clone(), b.clone());
    std::panic::catch_unwind(move || {
        let mut g = Gamma::new();
        equal(&mut g, &env, &a, &b).is_ok()
    })
    .unwrap_or(false)
}

fn one_line(s: String) -> String {
    s.split_whitespace().collect::<Vec<_>>().join(" ")
}

fn main() {
    std::panic::set_hook(Box::new(|_| {}));
    for p in all() {
        let verdict = (|| -> Result<(), String> {
            let ast = p.src.parse::<candid_parser::IDLProg>().map_err(|e| format!("source does not parse: {e}"))?;
            let mut env = TypeEnv::new();
            let actor = candid_parser::check_prog(&mut env, &ast).map_err(|e| format!("source does not check: {e}"))?;
            let items = std::panic::catch_unwind(|| (p.items)()).map_err(|_| "the derive macro's ty() panics".to_string())?;
            let mut used = BTreeSet::new();
            match &actor {
                Some(a) => reach(&env, a, &mut used),
                None => used.extend(env.0.keys().cloned()),
            }
            for name in env.0.keys().filter(|k| used.contains(*k)) {
                let var: Type = TypeInner::Var(name.clone()).into();
                if !items.iter().any(|(_, t)| same(&env, &var, t)) {
                    let def = env.find_type(name).map(|d| d.to_string()).unwrap_or_default();
                    let cands: Vec<String> = items.iter().map(|(n, t)| format!("{n} = {t}")).collect();
                    return Err(one_line(format!("no emitted item has a derived type equal to the definition {name} = {def} ; derived: {}", cands.join(" ; "))));
                }
            }
            Ok(())
        })();
        match verdict {
            Ok(()) => println!("ok\t{}", p.idx),
            Err(w) => println!("fail\t{}\t{}", p.idx, w),
        }
    }
}
