//! C07 (and the quota part of C06) — decoding quotas.  Op (model: lean/CandidModel/Driver/De.lean):
//!   de.decode <hex> <env> <types> <dq|-> <sq|->   IDLDeserialize::new_with_config + get_value_with_type* + done,
//!                                                 answer: values and the cost pair reported by compute_cost
//! Oracles on the implementation: a quota can only turn success into a quota error; success is monotone;
//! cost is independent of the quotas supplied; exact-cost quotas succeed, one less fails; cost ≥ #values.
use crate::c02;
use crate::gen;
use crate::sexp;
use crate::{guarded, Ctx, Out};
use candid::de::IDLDeserialize;
use candid::types::internal::{Type, TypeInner};
use candid::types::value::IDLValue;
use candid::types::TypeEnv;
use candid::DecoderConfig;

#[derive(Clone, Debug, PartialEq)]
pub enum Res {
    Ok(String, Option<usize>, Option<usize>),
    Quota,
    Err,
    Panic,
}

pub fn decode(bytes: &[u8], env: &TypeEnv, tys: &[Type], dq: Option<usize>, sq: Option<usize>) -> Res {
    let (b, e, t) = (bytes.to_vec(), env.clone(), tys.to_vec());
    let r = guarded(move || -> Result<(Vec<IDLValue>, DecoderConfig), candid::Error> {
        let mut cfg = DecoderConfig::new();
        if let Some(n) = dq {
            cfg.set_decoding_quota(n);
        }
        if let Some(n) = sq {
            cfg.set_skipping_quota(n);
        }
        let mut de = IDLDeserialize::new_with_config(&b, &cfg)?;
        let mut vals = vec![];
        for ty in &t {
            vals.push(de.get_value_with_type(&e, ty)?);
        }
        de.done()?;
        Ok((vals, de.get_config().compute_cost(&cfg)))
    });
    match r {
        Err(_) => Res::Panic,
        Ok(Err(e)) => {
            let m = format!("{e:?}");
            if m.contains("cost exceeds the limit") {
                Res::Quota
            } else {
                Res::Err
            }
        }
        Ok(Ok((v, c))) => Res::Ok(sexp::vals(&v, true), c.decoding_quota, c.skipping_quota),
    }
}

fn q(s: &str) -> Option<Option<usize>> {
    if s == "-" {
        Some(None)
    } else {
        s.parse().ok().map(Some)
    }
}
fn show(c: Option<usize>) -> String {
    c.map(|x| x.to_string()).unwrap_or_else(|| "-".into())
}

fn count_values(v: &IDLValue) -> usize {
    match v {
        IDLValue::Opt(x) => 1 + count_values(x),
        IDLValue::Vec(xs) => 1 + xs.iter().map(count_values).sum::<usize>(),
        IDLValue::Record(fs) => 1 + fs.iter().map(|f| count_values(&f.val)).sum::<usize>(),
        IDLValue::Variant(x) => 1 + count_values(&x.0.val),
        _ => 1,
    }
}

pub fn eval(out: &mut Out, op: &str, args: &[&str]) -> Option<String> {
    if op != "de.decode" {
        return None;
    }
    let bytes = sexp::unhx(args.first()?)?;
    let env = sexp::to_env(&sexp::parse(args.get(1)?)?)?;
    let tys = sexp::to_tys(&sexp::parse(args.get(2)?)?)?;
    let dq = q(args.get(3)?)?;
    let sq = q(args.get(4)?)?;
    let line = args.join("\t");
    let r = decode(&bytes, &env, &tys, dq, sq);
    // metamorphic oracles
    // the unmetered reference run is only made when it is known to be bounded: a metered run that ended with
    // a quota error may be a bomb (an unmetered vec of 2^60 zero-sized elements really is iterated)
    let free = if matches!(r, Res::Quota) { Res::Quota } else { decode(&bytes, &env, &tys, None, None) };
    match (&r, &free) {
        (Res::Ok(v, _, _), Res::Ok(v0, _, _)) => {
            if v != v0 {
                out.oracle_failure("a quota changed the decoded value", &line);
            }
        }
        (Res::Ok(..), _) => out.oracle_failure("metered decoding succeeds where unmetered decoding fails", &line),
        (Res::Err, Res::Ok(..)) => out.oracle_failure("a quota turned success into a non-quota error", &line),
        (Res::Panic, _) | (_, Res::Panic) => out.oracle_failure("panic", &line),
        _ => {}
    }
    if let Res::Ok(v, Some(cd), Some(cs)) = &r {
        // cost is independent of the quotas supplied; exact quotas succeed; one less fails
        let big = 1usize << 50;
        match decode(&bytes, &env, &tys, Some(big), Some(big)) {
            Res::Ok(v2, Some(cd2), Some(cs2)) => {
                if &v2 != v || cd2 != *cd || cs2 != *cs {
                    out.oracle_failure("reported cost depends on the quotas supplied", &line);
                }
            }
            _ => out.oracle_failure("larger quotas turn success into failure", &line),
        }
        if !matches!(decode(&bytes, &env, &tys, Some(*cd), Some(*cs)), Res::Ok(..)) {
            out.oracle_failure("quotas equal to the measured cost fail", &line);
        }
        if *cd > 0 && !matches!(decode(&bytes, &env, &tys, Some(*cd - 1), Some(*cs)), Res::Quota) {
            out.oracle_failure("decoding quota one below the measured cost does not fail with a quota error", &line);
        }
        if *cs > 0 && !matches!(decode(&bytes, &env, &tys, Some(*cd), Some(*cs - 1)), Res::Quota) {
            out.oracle_failure("skipping quota one below the measured cost does not fail with a quota error", &line);
        }
        // cost is at least the number of values materialised (IDLValue decoding is charged to both counters)
        if let Some(S) = sexp::parse(v).and_then(|s| sexp::to_vals(&s)) {
            let n: usize = S.iter().map(count_values).sum();
            if *cs < n || *cd < n {
                out.oracle_failure("cost below the number of values materialised", &line);
            }
        }
    }
    Some(match r {
        Res::Ok(v, cd, cs) => format!("ok {} {} {}", v, show(cd), show(cs)),
        Res::Quota => "err quota".into(),
        Res::Err => "err".into(),
        Res::Panic => "panic".into(),
    })
}

fn emit(ctx: &mut Ctx, bytes: &[u8], env: &TypeEnv, tys: &[Type], dq: Option<usize>, sq: Option<usize>) -> String {
    ctx.emit(
        &format!("de.decode\t{}\t{}\t{}\t{}\t{}", sexp::hx(bytes), sexp::env(env), sexp::tys(tys), show(dq), show(sq)),
        true,
    )
}

/// measured cost, then quotas around it
fn around(ctx: &mut Ctx, bytes: &[u8], env: &TypeEnv, tys: &[Type]) {
    // generous, but finite: a mutated length can announce 10^8 zero-sized elements, which the decoder would decode
    // (and the model would have to) if the quotas allowed it
    let big = 50_000_000usize;
    let a = emit(ctx, bytes, env, tys, Some(big), Some(big));
    // "ok (<vals>) cd cs"
    if let Some(rest) = a.strip_prefix("ok ") {
        let parts: Vec<&str> = rest.rsplitn(3, ' ').collect();
        if parts.len() == 3 {
            if let (Ok(cs), Ok(cd)) = (parts[0].parse::<usize>(), parts[1].parse::<usize>()) {
                for (d, s) in [
                    (Some(cd), Some(cs)),
                    (Some(cd.saturating_sub(1)), Some(cs)),
                    (Some(cd), Some(cs.saturating_sub(1))),
                    (Some(cd + 1), None),
                    (None, Some(cs)),
                    (Some(cd / 2), Some(cs / 2)),
                    (Some(0), None),
                    (None, Some(0)),
                ] {
                    emit(ctx, bytes, env, tys, d, s);
                }
            }
        }
    }
    emit(ctx, bytes, env, tys, None, None);
}

pub fn run(ctx: &mut Ctx) {
    // zero-sized elements, surplus arguments, mismatched options — by hand
    {
        let none = TypeEnv::new();
        let opt_text: Type = TypeInner::Opt(TypeInner::Text.into()).into();
        let cases: Vec<(&str, Vec<Type>)> = vec![
            ("4449444c016d7f0100e807", vec![TypeInner::Vec(TypeInner::Null.into()).into()]), // vec null × 1000
            ("4449444c016d7f0100e807", vec![]),                                                // … skipped
            ("4449444c016d700100e807", vec![TypeInner::Vec(TypeInner::Reserved.into()).into()]),
            ("4449444c026d016c00010080 08".trim(), vec![]),                                    // vec record {} × 1024, skipped
            ("4449444c00027d7d0102", vec![TypeInner::Nat.into()]),                             // surplus argument
            ("4449444c00027d7d0102", vec![TypeInner::Nat.into(), TypeInner::Nat.into(), opt_text.clone()]),
            ("4449444c016e7d0100012a", vec![opt_text.clone()]),                                // opt nat at opt text: back-track
            ("4449444c00017d2a", vec![opt_text.clone()]),                                      // nat at opt text
            ("4449444c016c02007d017101002a0568656c6c6f", vec![TypeInner::Record(vec![]).into()]), // surplus fields
        ];
        for (h, tys) in cases {
            let h: String = h.split_whitespace().collect();
            if let Some(b) = sexp::unhx(&h) {
                around(ctx, &b, &none, &tys);
            }
        }
    }
    let n = if ctx.thorough { 40_000 } else { 1_200 };
    for _ in 0..n {
        let refs = ctx.rng.chance(1, 3);
        let Some((m, g)) = c02::message(ctx, refs) else { continue };
        around(ctx, &m.bytes, &m.env, &m.tys);
        // related expected types: skipping and back-tracking paths
        for _ in 0..2 {
            let mut tys: Vec<Type> = m
                .tys
                .iter()
                .map(|t| {
                    let mut t2 = t.clone();
                    for _ in 0..ctx.rng.range(0, 2) {
                        t2 = gen::step(&mut ctx.rng, &g, &t2, true, 2);
                    }
                    t2
                })
                .collect();
            match ctx.rng.below(5) {
                0 => {
                    tys.pop();
                }
                1 => tys.push(TypeInner::Opt(g.ty(&mut ctx.rng, 1)).into()),
                2 => tys.clear(),
                _ => {}
            }
            around(ctx, &m.bytes, &m.env, &tys);
        }
        if ctx.rng.chance(1, 4) {
            let b2 = c02::mutate(ctx, &m.bytes);
            around(ctx, &b2, &m.env, &m.tys);
        }
    }
}
