//! Generators shared by the properties: type environments (possibly recursive), types, related
//! types (upgrade steps in both directions) and inhabitants.  Every choice comes from `Rng`.
use crate::Rng;
use candid::types::internal::{Field, Function, FuncMode, Label, Type, TypeInner};
use candid::types::value::{IDLField, IDLValue, VariantValue};
use candid::types::TypeEnv;
use candid::{Int, Nat, Principal};
use num_bigint::{BigInt, BigUint};
use std::rc::Rc;

pub const PRIMS: [TypeInner; 17] = [
    TypeInner::Null,
    TypeInner::Bool,
    TypeInner::Nat,
    TypeInner::Int,
    TypeInner::Nat8,
    TypeInner::Nat16,
    TypeInner::Nat32,
    TypeInner::Nat64,
    TypeInner::Int8,
    TypeInner::Int16,
    TypeInner::Int32,
    TypeInner::Int64,
    TypeInner::Float32,
    TypeInner::Float64,
    TypeInner::Text,
    TypeInner::Reserved,
    TypeInner::Empty,
];

pub struct TyGen {
    pub names: Vec<String>,
    /// allow func / service / principal
    pub refs: bool,
    /// use named labels (otherwise numeric ids only)
    pub named: bool,
    pub max_fields: u64,
}

pub const FIELD_NAMES: [&str; 12] = ["a", "b", "c", "id", "name", "value", "x", "y", "ok", "err", "left", "right"];
pub const METH_NAMES: [&str; 6] = ["f", "g", "get", "put", "m1", "m2"];

impl TyGen {
    pub fn label(&self, rng: &mut Rng) -> Label {
        if self.named && rng.chance(2, 3) {
            Label::Named(rng.pick(&FIELD_NAMES).to_string())
        } else if rng.chance(1, 12) {
            Label::Id(*rng.pick(&[4294967295u32, 4294967294, 1 << 31, 97, 98]))
        } else {
            Label::Id(rng.below(5) as u32)
        }
    }
    pub fn fields(&self, rng: &mut Rng, depth: u32) -> Vec<Field> {
        let n = rng.below(self.max_fields + 1);
        let mut fs: Vec<Field> = vec![];
        for _ in 0..n {
            let l = self.label(rng);
            if fs.iter().any(|f| f.id.get_id() == l.get_id()) {
                continue;
            }
            fs.push(Field { id: Rc::new(l), ty: self.ty(rng, depth) });
        }
        fs.sort_unstable_by_key(|f| f.id.get_id());
        fs
    }
    pub fn func(&self, rng: &mut Rng, depth: u32) -> Function {
        let na = rng.below(3);
        let nr = rng.below(3);
        let modes = match rng.below(5) {
            0 => vec![FuncMode::Query],
            1 => vec![FuncMode::Oneway],
            2 => vec![FuncMode::CompositeQuery],
            _ => vec![],
        };
        let rets = if modes == vec![FuncMode::Oneway] { vec![] } else { (0..nr).map(|_| self.ty(rng, depth)).collect() };
        Function { modes, args: (0..na).map(|_| self.ty(rng, depth)).collect(), rets }
    }
    pub fn service(&self, rng: &mut Rng, depth: u32) -> Vec<(String, Type)> {
        let n = rng.below(3);
        let mut ms: Vec<(String, Type)> = vec![];
        for _ in 0..n {
            let name = rng.pick(&METH_NAMES).to_string();
            if ms.iter().any(|m| m.0 == name) {
                continue;
            }
            // a method is a function type, sometimes through a name that denotes one
            ms.push((name, TypeInner::Func(self.func(rng, depth)).into()));
        }
        ms.sort_unstable_by(|a, b| a.0.cmp(&b.0));
        ms
    }
    pub fn ty(&self, rng: &mut Rng, depth: u32) -> Type {
        if depth == 0 {
            return if !self.names.is_empty() && rng.chance(1, 3) {
                TypeInner::Var(rng.pick(&self.names).clone()).into()
            } else {
                rng.pick(&PRIMS).clone().into()
            };
        }
        let d = depth - 1;
        match rng.below(if self.refs { 14 } else { 11 }) {
            0 | 1 => rng.pick(&PRIMS).clone().into(),
            2 | 3 if !self.names.is_empty() => TypeInner::Var(rng.pick(&self.names).clone()).into(),
            2 | 3 => rng.pick(&PRIMS).clone().into(),
            4 | 5 => TypeInner::Opt(self.ty(rng, d)).into(),
            6 => TypeInner::Vec(self.ty(rng, d)).into(),
            7 | 8 => TypeInner::Record(self.fields(rng, d)).into(),
            9 | 10 => TypeInner::Variant(self.fields(rng, d)).into(),
            11 => TypeInner::Func(self.func(rng, d)).into(),
            12 => TypeInner::Service(self.service(rng, d)).into(),
            _ => TypeInner::Principal.into(),
        }
    }
}

/// A closed, productive environment of `n` definitions `T0..`: a definition that is a bare name only
/// refers to an earlier definition, so no alias cycle exists.
pub fn env(rng: &mut Rng, n: usize, depth: u32, refs: bool, named: bool) -> (TypeEnv, TyGen) {
    let names: Vec<String> = (0..n).map(|i| format!("T{i}")).collect();
    let g = TyGen { names: names.clone(), refs, named, max_fields: 3 };
    let mut e = TypeEnv::new();
    for (i, name) in names.iter().enumerate() {
        let mut t = g.ty(rng, depth);
        loop {
            match t.as_ref() {
                TypeInner::Var(x) => {
                    let j: usize = x[1..].parse().unwrap();
                    if j < i {
                        break;
                    }
                    t = g.ty(rng, depth);
                }
                _ => break,
            }
        }
        e.0.insert(name.clone(), t);
    }
    (e, g)
}

/// One random upgrade step. `up = true`: the result is meant to be a supertype of `t` (what a reader
/// of an old message expects after an upgrade); `false`: a subtype. Not every step is sound on purpose
/// (e.g. changing a field type) — the checker's verdict is what is compared.
pub fn step(rng: &mut Rng, g: &TyGen, t: &Type, up: bool, depth: u32) -> Type {
    use TypeInner::*;
    let k = rng.below(12);
    match t.as_ref() {
        Opt(inner) if k < 6 => Opt(step(rng, g, inner, up, depth)).into(),
        Vec(inner) if k < 8 => Vec(step(rng, g, inner, up, depth)).into(),
        Record(fs) if k < 9 => {
            let mut fs = fs.clone();
            match rng.below(5) {
                0 | 1 if !fs.is_empty() => {
                    let i = rng.below(fs.len() as u64) as usize;
                    fs[i].ty = step(rng, g, &fs[i].ty.clone(), up, depth);
                }
                2 => {
                    // add a field: optional (fine both ways) or, sometimes, required
                    let l = g.label(rng);
                    if !fs.iter().any(|f| f.id.get_id() == l.get_id()) {
                        let ty: Type = if rng.chance(3, 4) {
                            Opt(g.ty(rng, depth.min(1))).into()
                        } else {
                            g.ty(rng, depth.min(1))
                        };
                        fs.push(Field { id: Rc::new(l), ty });
                    }
                }
                3 if !fs.is_empty() => {
                    let i = rng.below(fs.len() as u64) as usize;
                    fs.remove(i);
                }
                _ => {}
            }
            fs.sort_unstable_by_key(|f| f.id.get_id());
            Record(fs).into()
        }
        Variant(fs) if k < 9 => {
            let mut fs = fs.clone();
            match rng.below(4) {
                0 if !fs.is_empty() => {
                    let i = rng.below(fs.len() as u64) as usize;
                    fs[i].ty = step(rng, g, &fs[i].ty.clone(), up, depth);
                }
                1 => {
                    let l = g.label(rng);
                    if !fs.iter().any(|f| f.id.get_id() == l.get_id()) {
                        fs.push(Field { id: Rc::new(l), ty: g.ty(rng, depth.min(1)) });
                    }
                }
                2 if !fs.is_empty() => {
                    let i = rng.below(fs.len() as u64) as usize;
                    fs.remove(i);
                }
                _ => {}
            }
            fs.sort_unstable_by_key(|f| f.id.get_id());
            Variant(fs).into()
        }
        Func(f) if k < 9 => {
            let mut f = f.clone();
            match rng.below(5) {
                0 if !f.args.is_empty() => {
                    let i = rng.below(f.args.len() as u64) as usize;
                    f.args[i] = step(rng, g, &f.args[i].clone(), !up, depth);
                }
                1 if !f.rets.is_empty() => {
                    let i = rng.below(f.rets.len() as u64) as usize;
                    f.rets[i] = step(rng, g, &f.rets[i].clone(), up, depth);
                }
                2 => f.args.push(if rng.chance(1, 2) { Opt(g.ty(rng, 0)).into() } else { g.ty(rng, 0) }),
                3 if !f.modes.contains(&FuncMode::Oneway) => {
                    f.rets.push(if rng.chance(1, 2) { Opt(g.ty(rng, 0)).into() } else { g.ty(rng, 0) })
                }
                _ => {
                    if rng.chance(1, 2) {
                        f.args.pop();
                    } else {
                        f.rets.pop();
                    }
                }
            }
            Func(f).into()
        }
        Service(ms) if k < 9 => {
            let mut ms = ms.clone();
            match rng.below(3) {
                0 if !ms.is_empty() => {
                    let i = rng.below(ms.len() as u64) as usize;
                    ms[i].1 = step(rng, g, &ms[i].1.clone(), up, depth);
                }
                1 => {
                    let name = rng.pick(&METH_NAMES).to_string();
                    if !ms.iter().any(|m| m.0 == name) {
                        ms.push((name, Func(g.func(rng, 0)).into()));
                    }
                }
                _ => {
                    ms.pop();
                }
            }
            ms.sort_unstable_by(|a, b| a.0.cmp(&b.0));
            Service(ms).into()
        }
        Nat if up && k < 6 => Int.into(),
        Int if !up && k < 6 => Nat.into(),
        _ => match k {
            0 | 1 if up => Opt(t.clone()).into(),
            2 if up => Reserved.into(),
            3 if !up => Empty.into(),
            4 => g.ty(rng, depth.min(1)),
            5 if !g.names.is_empty() => Var(rng.pick(&g.names).clone()).into(),
            _ => t.clone(),
        },
    }
}

pub fn principal(rng: &mut Rng) -> Principal {
    let n = *rng.pick(&[0usize, 1, 1, 4, 10, 29]);
    Principal::from_slice(&rng.bytes(n))
}

pub fn text(rng: &mut Rng) -> String {
    let n = rng.below(6);
    (0..n)
        .map(|_| match rng.below(8) {
            0 => 'é',
            1 => '\u{1F600}',
            2 => ' ',
            _ => (b'a' + rng.below(26) as u8) as char,
        })
        .collect()
}

fn bignat(rng: &mut Rng) -> BigUint {
    match rng.below(6) {
        0 => BigUint::from(rng.below(128)),
        1 => BigUint::from(rng.next()),
        2 => BigUint::from_bytes_le(&rng.bytes(12)),
        3 => BigUint::from(1u8) << (*rng.pick(&[7usize, 14, 63, 64, 70])),
        _ => BigUint::from(rng.below(100_000)),
    }
}

/// An inhabitant of `t` in `env`, or `None` when none is found within the budget (`empty`, uninhabited
/// recursion).  Values are in the canonical form the decoder and `annotate_type` produce.
pub fn value(rng: &mut Rng, env: &TypeEnv, t: &Type, budget: &mut i32) -> Option<IDLValue> {
    use TypeInner::*;
    *budget -= 1;
    if *budget < 0 {
        return Option::None;
    }
    Some(match t.as_ref() {
        Null => IDLValue::Null,
        Bool => IDLValue::Bool(rng.chance(1, 2)),
        Nat => IDLValue::Nat(candid::Nat(bignat(rng))),
        Int => {
            let m = BigInt::from(bignat(rng));
            IDLValue::Int(candid::Int(if rng.chance(1, 2) { -m } else { m }))
        }
        Nat8 => IDLValue::Nat8(rng.next() as u8),
        Nat16 => IDLValue::Nat16(rng.next() as u16),
        Nat32 => IDLValue::Nat32(rng.next() as u32),
        Nat64 => IDLValue::Nat64(rng.next()),
        Int8 => IDLValue::Int8(rng.next() as i8),
        Int16 => IDLValue::Int16(rng.next() as i16),
        Int32 => IDLValue::Int32(rng.next() as i32),
        Int64 => IDLValue::Int64(rng.next() as i64),
        Float32 => IDLValue::Float32(f32::from_bits(rng.next() as u32)),
        Float64 => IDLValue::Float64(f64::from_bits(rng.next())),
        Text => IDLValue::Text(text(rng)),
        Reserved => IDLValue::Reserved,
        Empty => return Option::None,
        Principal => IDLValue::Principal(principal(rng)),
        Var(x) => {
            let d = env.0.get(x)?;
            return value(rng, env, d, budget);
        }
        Opt(inner) => {
            if rng.chance(1, 3) || *budget < 6 {
                IDLValue::None
            } else {
                match value(rng, env, inner, budget) {
                    Some(v) => IDLValue::Opt(Box::new(v)),
                    Option::None => IDLValue::None,
                }
            }
        }
        Vec(inner) => {
            let n = if *budget < 6 { 0 } else { rng.below(4) };
            if inner.is_blob_elem(env) {
                IDLValue::Blob(rng.bytes(n as usize))
            } else {
                let mut vs = vec![];
                for _ in 0..n {
                    match value(rng, env, inner, budget) {
                        Some(v) => vs.push(v),
                        Option::None => break,
                    }
                }
                IDLValue::Vec(vs)
            }
        }
        Record(fs) => {
            let mut out = vec![];
            for f in fs {
                out.push(IDLField { id: (*f.id).clone(), val: value(rng, env, &f.ty, budget)? });
            }
            IDLValue::Record(out)
        }
        Variant(fs) => {
            if fs.is_empty() {
                return Option::None;
            }
            let start = rng.below(fs.len() as u64) as usize;
            for k in 0..fs.len() {
                let i = (start + k) % fs.len();
                if let Some(v) = value(rng, env, &fs[i].ty, budget) {
                    return Some(IDLValue::Variant(VariantValue(
                        Box::new(IDLField { id: (*fs[i].id).clone(), val: v }),
                        i as u64,
                    )));
                }
            }
            return Option::None;
        }
        Func(_) => IDLValue::Func(principal(rng), rng.pick(&crate::gen::METH_NAMES).to_string()),
        Service(_) => IDLValue::Service(principal(rng)),
        Class(_, _) | Unknown | Future | Knot(_) => return Option::None,
    })
}

pub trait BlobElem {
    fn is_blob_elem(&self, env: &TypeEnv) -> bool;
}
impl BlobElem for Type {
    fn is_blob_elem(&self, env: &TypeEnv) -> bool {
        matches!(env.trace_type(self).as_ref().map(|t| t.as_ref()), Ok(TypeInner::Nat8))
    }
}

#[allow(dead_code)]
pub fn unused(_: Nat, _: Int) {}
