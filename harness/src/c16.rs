//! C16 — principal text form.  Ops (model: lean/CandidModel/Driver/Principal.lean):
//!   pr.toText <hex id>         Principal::try_from_slice + to_text   (+ oracles: round trip, Display, FromStr, upper case)
//!   pr.fromText <hex utf8>     Principal::from_text                  (+ oracle: accepted text is canonical up to case)
//!   pr.trySlice / pr.fromSlice constructors on byte strings
//!   pr.wire <hex body>         a `principal` value inside a Candid message
use crate::{guarded, hex_or_dash, Ctx, Out};
use candid::{Decode, Principal};
use ic_principal::PrincipalError;

fn unhex(h: &str) -> Option<Vec<u8>> {
    if h == "-" {
        Some(vec![])
    } else {
        hex::decode(h).ok()
    }
}

fn errname(e: &PrincipalError) -> &'static str {
    match e {
        PrincipalError::BytesTooLong() => "BytesTooLong",
        PrincipalError::InvalidBase32() => "InvalidBase32",
        PrincipalError::TextTooShort() => "TextTooShort",
        PrincipalError::TextTooLong() => "TextTooLong",
        PrincipalError::CheckSequenceNotMatch() => "CheckSequenceNotMatch",
        PrincipalError::AbnormalGrouped(_) => "AbnormalGrouped",
    }
}

pub fn eval(out: &mut Out, op: &str, args: &[&str]) -> Option<String> {
    let b = unhex(args.first()?)?;
    Some(match op {
        "pr.toText" => {
            let b2 = b.clone();
            match guarded(move || Principal::try_from_slice(&b2)) {
                Err(_) => "panic".into(),
                Ok(Err(e)) => format!("err {}", errname(&e)),
                Ok(Ok(p)) => {
                    let t = p.to_text();
                    let hx = hex_or_dash(&b);
                    if format!("{p}") != t {
                        out.oracle_failure("Display != to_text", &hx);
                    }
                    match Principal::from_text(&t) {
                        Ok(q) if q == p && q.as_slice() == &b[..] => {}
                        _ => out.oracle_failure("from_text(to_text(p)) != p", &hx),
                    }
                    match t.parse::<Principal>() {
                        Ok(q) if q == p => {}
                        _ => out.oracle_failure("FromStr(to_text(p)) != p", &hx),
                    }
                    match Principal::from_text(t.to_ascii_uppercase()) {
                        Ok(q) if q == p => {}
                        _ => out.oracle_failure("from_text(upper(to_text(p))) != p", &hx),
                    }
                    if t != t.to_ascii_lowercase() || t.split('-').any(|g| g.is_empty() && !t.is_empty()) {
                        out.oracle_failure("to_text not lower-case / empty group", &hx);
                    }
                    let groups: Vec<&str> = t.split('-').collect();
                    if groups.iter().rev().skip(1).any(|g| g.len() != 5) || groups.last().map_or(false, |g| g.len() > 5) {
                        out.oracle_failure("to_text groups are not five characters", &hx);
                    }
                    t
                }
            }
        }
        "pr.fromText" => {
            let s = String::from_utf8(b).ok()?;
            let s2 = s.clone();
            match guarded(move || Principal::from_text(&s2)) {
                Err(_) => "panic".into(),
                Ok(Err(e)) => format!("err {}", errname(&e)),
                Ok(Ok(p)) => {
                    if s.to_ascii_lowercase() != p.to_text() {
                        out.oracle_failure("accepted text is not the canonical text up to case", &hex::encode(s.as_bytes()));
                    }
                    if p.as_slice().len() > 29 {
                        out.oracle_failure("accepted principal longer than 29 bytes", &hex::encode(s.as_bytes()));
                    }
                    format!("ok {}", hex_or_dash(p.as_slice()))
                }
            }
        }
        "pr.trySlice" => {
            let b2 = b.clone();
            match guarded(move || Principal::try_from_slice(&b2)) {
                Err(_) => "panic".into(),
                Ok(Err(e)) => format!("err {}", errname(&e)),
                Ok(Ok(p)) => {
                    if p.as_slice() != &b[..] {
                        out.oracle_failure("try_from_slice changed the bytes", &hex_or_dash(&b));
                    }
                    // every other constructor agrees
                    let v1 = Principal::try_from(b.clone()).is_ok();
                    let v2 = Principal::try_from(&b[..]).is_ok();
                    if !v1 || !v2 {
                        out.oracle_failure("TryFrom constructors disagree with try_from_slice", &hex_or_dash(&b));
                    }
                    format!("ok {}", hex_or_dash(p.as_slice()))
                }
            }
        }
        "pr.fromSlice" => {
            let b2 = b.clone();
            match guarded(move || Principal::from_slice(&b2)) {
                Err(_) => {
                    let v1 = Principal::try_from(b.clone()).is_ok();
                    let v2 = Principal::try_from(&b[..]).is_ok();
                    if v1 || v2 {
                        out.oracle_failure("a constructor accepts more than 29 bytes", &hex_or_dash(&b));
                    }
                    "panic".into()
                }
                Ok(p) => format!("ok {}", hex_or_dash(p.as_slice())),
            }
        }
        "pr.wire" => {
            let mut m = b"DIDL\x00\x01\x68".to_vec();
            m.extend_from_slice(&b);
            match guarded(move || Decode!(&m, Principal)) {
                Err(_) => "panic".into(),
                Ok(Err(_)) => "err".into(),
                Ok(Ok(p)) => format!("ok {}", hex_or_dash(p.as_slice())),
            }
        }
        _ => return None,
    })
}

fn text_edits(ctx: &mut Ctx, t: &str, n: usize) {
    let chars: Vec<char> = t.chars().collect();
    let alphabet: Vec<char> = "abcdefghijklmnopqrstuvwxyz234567ABCXYZ0189-=_ .\u{e9}\u{131}\u{212a}".chars().collect();
    for _ in 0..n {
        let mut c = chars.clone();
        match ctx.rng.below(8) {
            0 if !c.is_empty() => {
                let i = ctx.rng.below(c.len() as u64) as usize;
                c[i] = *ctx.rng.pick(&alphabet);
            }
            1 if !c.is_empty() => {
                let i = ctx.rng.below(c.len() as u64) as usize;
                c[i] = c[i].to_ascii_uppercase();
            }
            2 if !c.is_empty() => {
                let i = ctx.rng.below(c.len() as u64) as usize;
                c.remove(i);
            }
            3 => {
                let i = ctx.rng.below(c.len() as u64 + 1) as usize;
                c.insert(i, *ctx.rng.pick(&alphabet));
            }
            4 => {
                // move a dash
                if let Some(i) = c.iter().position(|&x| x == '-') {
                    c.remove(i);
                    let j = ctx.rng.below(c.len() as u64 + 1) as usize;
                    c.insert(j, '-');
                }
            }
            5 if !c.is_empty() => {
                let k = ctx.rng.below(c.len() as u64) as usize;
                c.truncate(k);
            }
            6 => {
                c.retain(|&x| x != '-');
            }
            _ => {
                let up: String = c.iter().collect::<String>().to_ascii_uppercase();
                c = up.chars().collect();
            }
        }
        let s: String = c.into_iter().collect();
        ctx.emit(&format!("pr.fromText\t{}", hex_or_dash(s.as_bytes())), true);
    }
}

fn id_case(ctx: &mut Ctx, b: &[u8], edits: usize) {
    let h = hex_or_dash(b);
    let t = ctx.emit(&format!("pr.toText\t{h}"), b.len() <= 29);
    ctx.emit(&format!("pr.trySlice\t{h}"), true);
    if !t.starts_with("err") && !t.starts_with("panic") {
        ctx.emit(&format!("pr.fromText\t{}", hex_or_dash(t.as_bytes())), true);
        if edits > 0 {
            text_edits(ctx, &t, edits);
        }
    }
}

pub fn run(ctx: &mut Ctx) {
    // 1. exhaustive: every id of length ≤ 2
    id_case(ctx, &[], 20);
    for a in 0..=255u8 {
        id_case(ctx, &[a], 2);
    }
    for a in 0..=255u8 {
        for b in 0..=255u8 {
            id_case(ctx, &[a, b], 0);
        }
    }
    ctx.out.exhaustive.push("all principals of length <= 2: to_text, from_text(to_text), constructors".into());
    // 2. random ids up to 40 bytes (every length), with text edits
    let n = if ctx.thorough { 400_000 } else { 6_000 };
    for i in 0..n {
        let len = if i < 82 { i / 2 } else { ctx.rng.range(0, 40) } as usize;
        let b = ctx.rng.bytes(len);
        id_case(ctx, &b, 4);
        let h = hex_or_dash(&b);
        if len > 26 {
            ctx.emit(&format!("pr.fromSlice\t{h}"), true);
        }
        // the same id on the wire, and with a lying length
        let mut body = vec![1u8, len as u8];
        body.extend_from_slice(&b);
        ctx.emit(&format!("pr.wire\t{}", hex_or_dash(&body)), true);
        if ctx.rng.chance(1, 4) {
            let k = ctx.rng.below(4);
            match k {
                0 => body[0] = ctx.rng.below(3) as u8,
                1 => body[1] = body[1].wrapping_add(1),
                2 => {
                    body.pop();
                }
                _ => body.push(0),
            }
            ctx.emit(&format!("pr.wire\t{}", hex_or_dash(&body)), true);
        }
    }
    // 3. texts whose payload is longer than 29 bytes but otherwise well-formed (must be TextTooLong), built by hand
    for len in [30usize, 31, 35, 40] {
        let b = ctx.rng.bytes(len);
        let crc = crc32(&b);
        let mut all = crc.to_be_bytes().to_vec();
        all.extend_from_slice(&b);
        let s = base32_lower(&all);
        let grouped: Vec<String> = s.as_bytes().chunks(5).map(|c| String::from_utf8(c.to_vec()).unwrap()).collect();
        let t = grouped.join("-");
        ctx.emit(&format!("pr.fromText\t{}", hex_or_dash(t.as_bytes())), true);
    }
    // 4. raw strings from the base32 alphabet (short, every length) and junk
    let m = if ctx.thorough { 200_000 } else { 4_000 };
    let alpha: Vec<char> = "abcdefghijklmnopqrstuvwxyz234567".chars().collect();
    for _ in 0..m {
        let len = ctx.rng.range(0, 14) as usize;
        let s: String = (0..len)
            .map(|i| if i % 6 == 5 && ctx.rng.chance(9, 10) { '-' } else { *ctx.rng.pick(&alpha) })
            .collect();
        ctx.emit(&format!("pr.fromText\t{}", hex_or_dash(s.as_bytes())), true);
    }
}

fn crc32(data: &[u8]) -> u32 {
    let mut crc = 0xFFFF_FFFFu32;
    for &b in data {
        crc ^= b as u32;
        for _ in 0..8 {
            crc = if crc & 1 == 1 { (crc >> 1) ^ 0xEDB8_8320 } else { crc >> 1 };
        }
    }
    !crc
}

fn base32_lower(data: &[u8]) -> String {
    let alpha = b"abcdefghijklmnopqrstuvwxyz234567";
    let mut out = String::new();
    let mut acc: u32 = 0;
    let mut bits = 0;
    for &b in data {
        acc = (acc << 8) | b as u32;
        bits += 8;
        while bits >= 5 {
            out.push(alpha[((acc >> (bits - 5)) & 31) as usize] as char);
            bits -= 5;
        }
    }
    if bits > 0 {
        out.push(alpha[((acc << (5 - bits)) & 31) as usize] as char);
    }
    out
}
