//! C04 — accepted subtyping means decoding at the supertype cannot fail.  Ops (model: Driver/Wire.lean):
//!   sound.pair <env> <t> <t'> <vals>   subtype(t, t'); every value encoded at t decoded at t'
//!                                      (+ oracles: the result inhabits t'; coherence through an intermediate supertype)
use crate::gen;
use crate::sexp;
use crate::{guarded, Ctx, Out};
use candid::types::internal::{Type, TypeInner};
use candid::types::subtype::{subtype, Gamma};
use candid::types::value::IDLValue;
use candid::types::TypeEnv;
use candid::IDLArgs;
use std::collections::HashSet;

/// equality up to `opt v ~ null` (what the spec allows between direct and two-step decoding)
fn coherent(a: &IDLValue, b: &IDLValue) -> bool {
    use IDLValue::*;
    match (a, b) {
        (None, Opt(_)) | (Opt(_), None) | (None, None) => true,
        (Null, None) | (None, Null) => true,
        (Reserved, _) | (_, Reserved) => true,
        (Opt(x), Opt(y)) => coherent(x, y),
        (Vec(x), Vec(y)) => x.len() == y.len() && x.iter().zip(y).all(|(p, q)| coherent(p, q)),
        (Record(x), Record(y)) => {
            x.len() == y.len() && x.iter().zip(y).all(|(f, g)| f.id.get_id() == g.id.get_id() && coherent(&f.val, &g.val))
        }
        (Variant(x), Variant(y)) => x.0.id.get_id() == y.0.id.get_id() && coherent(&x.0.val, &y.0.val),
        (Float32(x), Float32(y)) => x.to_bits() == y.to_bits(),
        (Float64(x), Float64(y)) => x.to_bits() == y.to_bits(),
        (x, y) => x == y,
    }
}

fn sub(env: &TypeEnv, a: &Type, b: &Type) -> Option<bool> {
    let (env, a, b) = (env.clone(), a.clone(), b.clone());
    guarded(move || {
        let mut g: Gamma = HashSet::new();
        subtype(&mut g, &env, &a, &b).is_ok()
    })
    .ok()
}

pub fn eval(out: &mut Out, op: &str, args: &[&str]) -> Option<String> {
    if op != "sound.pair" {
        return None;
    }
    let env = sexp::to_env(&sexp::parse(args.first()?)?)?;
    let t = sexp::to_ty(&sexp::parse(args.get(1)?)?)?;
    let t2 = sexp::to_ty(&sexp::parse(args.get(2)?)?)?;
    let vals = sexp::to_vals(&sexp::parse(args.get(3)?)?)?;
    let line = args.join("\t");
    let s = match sub(&env, &t, &t2) {
        None => return Some("panic".into()),
        Some(b) => b,
    };
    let mut res = vec![];
    for v in &vals {
        let (e1, t1, v1) = (env.clone(), t.clone(), v.clone());
        let enc = guarded(move || IDLArgs { args: vec![v1] }.to_bytes_with_types(&e1, &[t1]));
        let bytes = match enc {
            Ok(Ok(b)) => b,
            Ok(Err(_)) => {
                res.push("enc-err".to_string());
                continue;
            }
            Err(_) => return Some("panic".into()),
        };
        let (e1, tt, b1) = (env.clone(), t2.clone(), bytes.clone());
        match guarded(move || IDLArgs::from_bytes_with_types(&b1, &e1, &[tt])) {
            Err(_) => return Some("panic".into()),
            Ok(Err(_)) => res.push("err".to_string()),
            Ok(Ok(a)) => {
                // the result is a value of t': it encodes at t' and reads back unchanged
                let (e1, tt, a1) = (env.clone(), t2.clone(), a.clone());
                match guarded(move || a1.to_bytes_with_types(&e1, &[tt.clone()]).and_then(|b| IDLArgs::from_bytes_with_types(&b, &e1, &[tt]))) {
                    Ok(Ok(a2)) if sexp::vals(&a2.args, true) == sexp::vals(&a.args, true) => {}
                    _ if empty_record_ref_env(&env, &[&t, &t2]) => out.stat("inhabit:skipped-empty-record-ref-environment"),
                    _ => out.oracle_failure("value decoded at the supertype does not inhabit it", &line),
                }
                res.push(sexp::val(&a.args[0], true));
            }
        }
    }
    Some(format!("sub:{} dec:{}", s, res.join(" ")))
}


/// Known finding KF-C03-empty-record-ref: the decoder replaces uninhabited recursive records (`type T = record { f : T }`)
/// by `empty` before decoding, after which a reference type mentioning one no longer passes its subtype check against
/// the type it was encoded at.  The implementation-level oracles of this file are not run in such an environment (the
/// comparison with the specification still is, and reports the finding by its tag).
fn uninhabited_records(env: &TypeEnv) -> bool {
    use std::collections::HashMap;
    fn inhabited(env: &TypeEnv, inh: &HashMap<String, bool>, t: &Type) -> bool {
        match t.as_ref() {
            TypeInner::Var(x) => *inh.get(x).unwrap_or(&true),
            TypeInner::Record(fs) => fs.iter().all(|f| inhabited(env, inh, &f.ty)),
            _ => true,
        }
    }
    let mut inh: HashMap<String, bool> = env.0.keys().map(|k| (k.clone(), false)).collect();
    loop {
        let mut changed = false;
        for (k, t) in env.0.iter() {
            if !inh[k] && inhabited(env, &inh, t) {
                inh.insert(k.clone(), true);
                changed = true;
            }
        }
        if !changed {
            break;
        }
    }
    inh.values().any(|b| !*b)
}
fn has_ref(t: &Type) -> bool {
    match t.as_ref() {
        TypeInner::Func(_) | TypeInner::Service(_) => true,
        TypeInner::Opt(x) | TypeInner::Vec(x) => has_ref(x),
        TypeInner::Record(fs) | TypeInner::Variant(fs) => fs.iter().any(|f| has_ref(&f.ty)),
        _ => false,
    }
}
fn empty_record_ref_env(env: &TypeEnv, ts: &[&Type]) -> bool {
    uninhabited_records(env) && (ts.iter().any(|t| has_ref(t)) || env.0.values().any(has_ref))
}

/// does `t` unfold to opt (opt (…)) for ever?  (known finding KF-C04-mu-opt: such expected types are excluded
/// from the chain oracle; the pair op reports them under that finding)
fn opt_cycle(env: &TypeEnv, t: &Type) -> bool {
    let mut cur = t.clone();
    let mut seen = 0usize;
    for _ in 0..(16 * (env.0.len() + 2) + 64) {
        match cur.as_ref() {
            TypeInner::Opt(x) => cur = x.clone(),
            TypeInner::Var(x) => {
                if seen > env.0.len() {
                    return true;
                }
                seen += 1;
                match env.0.get(x) {
                    Some(d) => cur = d.clone(),
                    None => return false,
                }
            }
            _ => return false,
        }
    }
    false
}
fn mentions_opt_cycle(env: &TypeEnv, ts: &[&Type]) -> bool {
    env.0.keys().any(|k| opt_cycle(env, &TypeInner::Var(k.clone()).into())) || ts.iter().any(|t| opt_cycle(env, t))
}

/// coherence along a chain t <: t2 <: t3 on the implementation (oracle only)
fn chain_oracle(ctx: &mut Ctx, env: &TypeEnv, t: &Type, t2: &Type, t3: &Type, v: &IDLValue) {
    if sub(env, t, t2) != Some(true) || sub(env, t2, t3) != Some(true) {
        return;
    }
    if mentions_opt_cycle(env, &[t, t2, t3]) {
        ctx.out.stat("chain:skipped-mu-opt-environment");
        return;
    }
    if empty_record_ref_env(env, &[t, t2, t3]) {
        ctx.out.stat("chain:skipped-empty-record-ref-environment");
        return;
    }
    ctx.out.stat("chain:accepted");
    let line = format!("{}\t{}\t{}\t{}\t{}", sexp::env(env), sexp::ty(t), sexp::ty(t2), sexp::ty(t3), sexp::val(v, false));
    let (e, a, b, c, v) = (env.clone(), t.clone(), t2.clone(), t3.clone(), v.clone());
    let r = guarded(move || -> Option<(IDLValue, Option<IDLValue>)> {
        let bytes = IDLArgs { args: vec![v] }.to_bytes_with_types(&e, &[a]).ok()?;
        let mid = IDLArgs::from_bytes_with_types(&bytes, &e, &[b.clone()]).ok()?;
        let bytes2 = mid.to_bytes_with_types(&e, &[b]).ok()?;
        let two = IDLArgs::from_bytes_with_types(&bytes2, &e, &[c.clone()]).ok()?;
        let direct = IDLArgs::from_bytes_with_types(&bytes, &e, &[c]).ok().map(|x| x.args[0].clone());
        Some((two.args[0].clone(), direct))
    });
    match r {
        Ok(Some((two, Some(direct)))) => {
            if !coherent(&two, &direct) {
                ctx.out.oracle_failure("two-step and direct decoding differ by more than opt/null", &line);
            }
        }
        Ok(Some((_, None))) => {
            // transitivity is not a theorem of the spec (record {f:nat} <: record {} <: record {f:null}); only counted
            ctx.out.stat("chain:direct-decode-fails");
        }
        Ok(None) => ctx.out.oracle_failure("accepted chain: a step fails to encode/decode", &line),
        Err(_) => ctx.out.oracle_failure("panic along an accepted chain", &line),
    }
}

pub fn run(ctx: &mut Ctx) {
    let n = if ctx.thorough { 120_000 } else { 5_000 };
    for _ in 0..n {
        let ndefs = ctx.rng.range(0, 4) as usize;
        let refs = ctx.rng.chance(1, 3);
        let named = ctx.rng.chance(1, 3);
        let (env, g) = gen::env(&mut ctx.rng, ndefs, 2, refs, named);
        let t = g.ty(&mut ctx.rng, 3);
        let mut vals = vec![];
        for _ in 0..3 {
            let mut budget = 50;
            if let Some(v) = gen::value(&mut ctx.rng, &env, &t, &mut budget) {
                vals.push(v);
            }
        }
        if vals.is_empty() {
            continue;
        }
        // upgrade chain
        let mut chain = vec![t.clone()];
        for _ in 0..3 {
            let mut nx = chain.last().unwrap().clone();
            for _ in 0..ctx.rng.range(1, 2) {
                nx = gen::step(&mut ctx.rng, &g, &nx, true, 2);
            }
            chain.push(nx);
        }
        for k in 1..chain.len() {
            ctx.emit(
                &format!("sound.pair\t{}\t{}\t{}\t{}", sexp::env(&env), sexp::ty(&t), sexp::ty(&chain[k]), sexp::vals(&vals, false)),
                t != chain[k],
            );
        }
        chain_oracle(ctx, &env, &t, &chain[1], &chain[2], &vals[0]);
        chain_oracle(ctx, &env, &t, &chain[2], &chain[3], &vals[0]);
    }
    let _ = TypeInner::Null;
}
