//! C20 — randomly generated arguments always inhabit the requested types.
//!   rnd.any <env> <(tys)> <seed hex> <config hex>   candid_parser::random::any under catch_unwind; answer `nopanic` | `panic`.
//!         oracles on a returned value: annotate_types against the requested types leaves it unchanged, it encodes at those
//!         types, its nesting stays within the configured depth plus the smallest finite size of the types involved.
//!   rnd.typed <env> <ty> <val>   a value the generator returned, checked against the model's typing relation
//!   rnd.size <env> <ty>          `size` of random.rs (hook, cfg candid_verif) against the model
use crate::gen;
use crate::sexp;
use crate::{guarded, Ctx, Out};
use candid::types::internal::{Type, TypeInner};
use candid::types::value::{IDLArgs, IDLValue};
use candid::types::TypeEnv;

pub fn depth_of(v: &IDLValue) -> usize {
    match v {
        IDLValue::Opt(x) => 1 + depth_of(x),
        IDLValue::Vec(xs) => 1 + xs.iter().map(depth_of).max().unwrap_or(0),
        IDLValue::Record(fs) => 1 + fs.iter().map(|f| depth_of(&f.val)).max().unwrap_or(0),
        IDLValue::Variant(x) => 1 + depth_of(&x.0.val),
        _ => 1,
    }
}

/// `vec nat8` values come back from annotation as blobs: same value, one spelling
pub fn norm(v: &IDLValue) -> IDLValue {
    use candid::types::value::{IDLField, VariantValue};
    match v {
        IDLValue::Blob(b) => IDLValue::Vec(b.iter().map(|x| IDLValue::Nat8(*x)).collect()),
        IDLValue::Opt(x) => IDLValue::Opt(Box::new(norm(x))),
        IDLValue::Vec(xs) => IDLValue::Vec(xs.iter().map(norm).collect()),
        IDLValue::Record(fs) => IDLValue::Record(fs.iter().map(|f| IDLField { id: f.id.clone(), val: norm(&f.val) }).collect()),
        IDLValue::Variant(x) => IDLValue::Variant(VariantValue(Box::new(IDLField { id: x.0.id.clone(), val: norm(&x.0.val) }), x.1)),
        other => other.clone(),
    }
}

pub fn nodes_of(t: &Type) -> usize {
    use TypeInner::*;
    match t.as_ref() {
        Opt(x) | Vec(x) => 1 + nodes_of(x),
        Record(fs) | Variant(fs) => 1 + fs.iter().map(|f| nodes_of(&f.ty)).sum::<usize>(),
        _ => 1,
    }
}

/// some variant written in the environment or the requested types has only alternatives whose size estimate is `None`
/// (each mentions a type that is being defined)
fn has_all_recursive_variant(env: &TypeEnv, tys: &[Type]) -> bool {
    fn walk(env: &TypeEnv, t: &Type) -> bool {
        use TypeInner::*;
        match t.as_ref() {
            Opt(x) | Vec(x) => walk(env, x),
            Record(fs) => fs.iter().any(|f| walk(env, &f.ty)),
            Variant(fs) => {
                (!fs.is_empty() && fs.iter().all(|f| candid_parser::random::verif_size(env, &f.ty).is_none())) || fs.iter().any(|f| walk(env, &f.ty))
            }
            _ => false,
        }
    }
    env.0.values().any(|t| walk(env, t)) || tys.iter().any(|t| walk(env, t))
}

pub struct Cfg {
    pub depth: Option<i64>,
    pub size: Option<i64>,
}

pub fn parse_cfg(toml: &str) -> Cfg {
    // the top-level section `[random]` only; `[random.<name>]` sections are scoped to a type or label
    let mut top = true;
    let mut depth = None;
    let mut size = None;
    for l in toml.lines() {
        let l = l.trim();
        if l.starts_with('[') {
            top = l == "[random]";
            continue;
        }
        if !top {
            continue;
        }
        let get = |k: &str| l.strip_prefix(k).and_then(|r| r.trim().strip_prefix('=')).and_then(|v| v.trim().parse::<i64>().ok());
        if let Some(v) = get("depth") {
            depth = Some(v);
        }
        if let Some(v) = get("size") {
            size = Some(v);
        }
    }
    Cfg { depth: depth.or(Some(10)), size: size.or(Some(100)) }
}

/// the depths configured for single types (`[random.<name>]`): each applies once along a path, where the type is entered
/// from outside (a recursive re-entry keeps the running budget)
pub fn scoped_depths(toml: &str) -> i64 {
    let mut top = true;
    let mut sum = 0i64;
    for l in toml.lines() {
        let l = l.trim();
        if l.starts_with('[') {
            top = l == "[random]";
            continue;
        }
        if top {
            continue;
        }
        if let Some(v) = l.strip_prefix("depth").and_then(|r| r.trim().strip_prefix('=')).and_then(|v| v.trim().parse::<i64>().ok()) {
            sum += v.max(0);
        }
    }
    sum
}

pub fn run_any(env: &TypeEnv, tys: &[Type], seed: &[u8], toml: &str) -> Result<Result<IDLArgs, String>, String> {
    use std::str::FromStr;
    let (e, t, s, c) = (env.clone(), tys.to_vec(), seed.to_vec(), toml.to_string());
    guarded(move || {
        let configs = candid_parser::configs::Configs::from_str(&c).map_err(|e| e.to_string())?;
        candid_parser::random::any(&s, configs, &e, &t, &None).map_err(|e| e.to_string())
    })
}

pub fn eval(out: &mut Out, op: &str, args: &[&str]) -> Option<String> {
    Some(match op {
        "rnd.any" => {
            let env = sexp::to_env(&sexp::parse(args.first()?)?)?;
            let tys = sexp::to_tys(&sexp::parse(args.get(1)?)?)?;
            let seed = sexp::unhx(args.get(2)?)?;
            let toml = String::from_utf8(sexp::unhx(args.get(3)?)?).ok()?;
            let line = args.join("\t");
            match run_any(&env, &tys, &seed, &toml) {
                Err(_) => "panic".into(),
                Ok(Err(msg)) => {
                    out.stat(&format!("err:{}", &msg[..msg.len().min(30)]));
                    "nopanic".into()
                }
                Ok(Ok(vals)) => {
                    out.stat("returned");
                    if std::env::var_os("VERIF_DUMP").is_some() {
                        eprintln!("depths {:?}", vals.args.iter().map(depth_of).collect::<Vec<_>>());
                    }
                    // annotate unchanged
                    let (e2, t2, v2) = (env.clone(), tys.clone(), vals.clone());
                    match guarded(move || v2.annotate_types(true, &e2, &t2)) {
                        Ok(Ok(back)) => {
                            let a: Vec<IDLValue> = back.args.iter().map(norm).collect();
                            let b: Vec<IDLValue> = vals.args.iter().map(norm).collect();
                            if sexp::vals(&a, true) != sexp::vals(&b, true) {
                                out.oracle_failure("annotating a generated value changes it", &line);
                            }
                        }
                        Ok(Err(_)) => out.oracle_failure("a generated value does not annotate at the requested type", &line),
                        Err(_) => out.oracle_failure("annotating a generated value panics", &line),
                    }
                    let (e2, t2, v2) = (env.clone(), tys.clone(), vals.clone());
                    match guarded(move || v2.to_bytes_with_types(&e2, &t2)) {
                        Ok(Ok(_)) => {}
                        Ok(Err(_)) => out.oracle_failure("a generated value does not encode at the requested type", &line),
                        Err(_) => out.oracle_failure("encoding a generated value panics", &line),
                    }
                    // nesting: configured depth, then at most one pass through the type structure (budget spent:
                    // opt and vec stop, variants take a smallest alternative)
                    let cfg = parse_cfg(&toml);
                    let nodes: usize = env.0.values().map(nodes_of).sum::<usize>() + tys.iter().map(nodes_of).sum::<usize>();
                    let bound = cfg.depth.unwrap_or(10).max(0) as usize + scoped_depths(&toml) as usize + 1 + nodes;
                    if let Some(d) = vals.args.iter().map(depth_of).max() {
                        if d > bound {
                            // with the budget spent a variant keeps the alternatives of the smallest size estimate; the
                            // estimate is `None` for anything that mentions a type under recursion, so a variant all of
                            // whose alternatives do is chosen from uniformly for as long as the seed has entropy
                            // (recorded finding KF-C20-recursive-alternatives)
                            let why = if has_all_recursive_variant(&env, &tys) {
                                "a generated value nests deeper than the configured depth allows [every alternative of some variant is recursive]"
                            } else {
                                "a generated value nests deeper than the configured depth allows"
                            };
                            out.oracle_failure(why, &line);
                        }
                    }
                    "nopanic".into()
                }
            }
        }
        "rnd.typed" => {
            let env = sexp::to_env(&sexp::parse(args.first()?)?)?;
            let ty = sexp::to_ty(&sexp::parse(args.get(1)?)?)?;
            let v = sexp::to_val(&sexp::parse(args.get(2)?)?)?;
            let a = IDLArgs { args: vec![v] };
            match guarded(move || a.to_bytes_with_types(&env, &[ty])) {
                Ok(Ok(_)) => "ok".into(),
                Ok(Err(_)) => "err".into(),
                Err(_) => "panic".into(),
            }
        }
        "rnd.size" => {
            let env = sexp::to_env(&sexp::parse(args.first()?)?)?;
            let ty = sexp::to_ty(&sexp::parse(args.get(1)?)?)?;
            match guarded(move || candid_parser::random::verif_size(&env, &ty)) {
                Ok(Some(n)) => format!("some {n}"),
                Ok(None) => "none".into(),
                Err(_) => "panic".into(),
            }
        }
        "rnd.range" | "rnd.inrange" => {
            let prim = args.first()?.to_string();
            let l: i64 = args.get(1)?.parse().ok()?;
            let r: i64 = args.get(2)?.parse().ok()?;
            if op == "rnd.inrange" {
                return Some("in".into());
            }
            let ty = sexp::to_ty(&sexp::parse(&prim)?)?;
            let toml = format!("[random]\nrange = [{l}, {r}]\n");
            match run_any(&TypeEnv::new(), &[ty], &[0x5a; 64], &toml) {
                Err(_) => "panic".into(),
                Ok(Err(_)) => "err".into(),
                Ok(Ok(_)) => "ok".into(),
            }
        }
        _ => return None,
    })
}

pub fn gen_cfg(ctx: &mut Ctx) -> String {
    let mut s = String::from("[random]\n");
    if ctx.rng.chance(2, 3) {
        s.push_str(&format!("depth = {}\n", ctx.rng.pick(&[-1i64, 0, 1, 2, 3, 5, 10, 30])));
    }
    if ctx.rng.chance(2, 3) {
        s.push_str(&format!("size = {}\n", ctx.rng.pick(&[-1i64, 0, 1, 5, 20, 100, 1000])));
    }
    if ctx.rng.chance(1, 2) {
        s.push_str(&format!("width = {}\n", ctx.rng.pick(&[0u64, 1, 2, 5, 10, 40])));
    }
    if ctx.rng.chance(1, 3) {
        let (l, r) = *ctx.rng.pick(&[(0i64, 0i64), (-5, 5), (1, 1000), (-1000000, -1), (i64::MIN, i64::MAX), (200, 300), (5, 1), (-129, -128), (255, 256)]);
        s.push_str(&format!("range = [{l}, {r}]\n"));
    }
    if ctx.rng.chance(1, 3) {
        s.push_str(&format!("text = \"{}\"\n", ctx.rng.pick(&["ascii", "emoji", "name", "name.cn", "path", "country", "company", "bs", "nonsense"])));
    }
    if ctx.rng.chance(1, 12) {
        s.push_str(&format!("value = [{}]\n", ctx.rng.pick(&["\"42\"", "\"null\"", "\"\\\"x\\\"\"", "\"record {}\"", "\"opt 1\"", "\"vec {1;2}\"", "\"(\"", "\"principal \\\"aaaaa-aa\\\"\""])));
    }
    s
}

fn number_of(v: &IDLValue) -> Option<String> {
    Some(match v {
        IDLValue::Nat(n) => n.0.to_string(),
        IDLValue::Int(n) => n.0.to_string(),
        IDLValue::Nat8(n) => n.to_string(),
        IDLValue::Nat16(n) => n.to_string(),
        IDLValue::Nat32(n) => n.to_string(),
        IDLValue::Nat64(n) => n.to_string(),
        IDLValue::Int8(n) => n.to_string(),
        IDLValue::Int16(n) => n.to_string(),
        IDLValue::Int32(n) => n.to_string(),
        IDLValue::Int64(n) => n.to_string(),
        _ => return None,
    })
}

pub fn run(ctx: &mut Ctx) {
    // numbers under a range configuration: every number type, ranges around every type's bounds
    let prims = ["nat8", "nat16", "nat32", "nat64", "nat", "int8", "int16", "int32", "int64", "int"];
    let edges: Vec<i64> = vec![i64::MIN, -(1 << 31) - 1, -(1 << 31), -32769, -32768, -129, -128, -1, 0, 1, 127, 128, 255, 256, 32767, 32768, 65535, 65536, (1 << 31) - 1, 1 << 31, (1 << 32) - 1, 1 << 32, i64::MAX];
    let m = if ctx.thorough { 20_000 } else { 1_500 };
    for _ in 0..m {
        let p = *ctx.rng.pick(&prims);
        let l = *ctx.rng.pick(&edges);
        let r = if ctx.rng.chance(1, 4) { l } else { *ctx.rng.pick(&edges) };
        let ans = ctx.emit(&format!("rnd.range\t{p}\t{l}\t{r}"), true);
        if ans == "ok" {
            let ty = sexp::to_ty(&sexp::parse(p).unwrap()).unwrap();
            let seed = ctx.rng.bytes(32);
            let toml = format!("[random]\nrange = [{l}, {r}]\n");
            if let Ok(Ok(vals)) = run_any(&TypeEnv::new(), &[ty], &seed, &toml) {
                if let Some(n) = vals.args.first().and_then(number_of) {
                    ctx.emit(&format!("rnd.inrange\t{p}\t{l}\t{r}\t{n}"), true);
                }
            }
        }
    }
    let n = if ctx.thorough { 150_000 } else { 6_000 };
    for _ in 0..n {
        let ndefs = ctx.rng.range(0, 4) as usize;
        let (env, g) = gen::env(&mut ctx.rng, ndefs, 2, true, true);
        let k = ctx.rng.range(0, 3);
        let tys: Vec<Type> = (0..k).map(|_| g.ty(&mut ctx.rng, 2)).collect();
        let seed_len = *ctx.rng.pick(&[0usize, 1, 2, 8, 64, 512, 4096]);
        let seed = match ctx.rng.below(4) {
            0 => vec![0u8; seed_len],
            1 => vec![0xffu8; seed_len],
            _ => ctx.rng.bytes(seed_len),
        };
        let mut toml = gen_cfg(ctx);
        // a depth of its own for some of the named types (recursive ones included): it applies where the type is entered
        // from outside, not at a recursive re-entry
        if ctx.rng.chance(1, 3) {
            for k in env.0.keys() {
                if ctx.rng.chance(1, 2) && k.chars().all(|c| c.is_ascii_alphanumeric() || c == '_') {
                    toml.push_str(&format!("[random.{k}]\ndepth = {}\n", ctx.rng.pick(&[0i64, 1, 2, 3, 5])));
                    ctx.out.stat("scoped-depth");
                }
            }
        }
        for t in &tys {
            ctx.emit(&format!("rnd.size\t{}\t{}", sexp::env(&env), sexp::ty(t)), true);
        }
        for k in env.0.keys() {
            let t: Type = TypeInner::Var(k.clone()).into();
            ctx.emit(&format!("rnd.size\t{}\t{}", sexp::env(&env), sexp::ty(&t)), true);
        }
        let line = format!("rnd.any\t{}\t{}\t{}\t{}", sexp::env(&env), sexp::tys(&tys), sexp::hx(&seed), sexp::hx(toml.as_bytes()));
        let ans = ctx.emit(&line, true);
        if ans != "nopanic" {
            continue;
        }
        // the value itself against the model's typing relation, and the depth bound
        if let Ok(Ok(vals)) = run_any(&env, &tys, &seed, &toml) {
            for (t, v) in tys.iter().zip(vals.args.iter()) {
                if depth_of(v) <= 40 && ctx.rng.chance(1, 2) {
                    ctx.emit(&format!("rnd.typed\t{}\t{}\t{}", sexp::env(&env), sexp::ty(t), sexp::val(v, false)), true);
                }
            }
        }
    }
}
