//! S-expression syntax shared with the Lean driver (lean/CandidModel/Sexp.lean) for types,
//! environments and untyped values: printers and parsers (replay files are request lines).
use candid::types::internal::{Field, Function, FuncMode, Label, Type, TypeInner};
use candid::types::value::{IDLField, IDLValue, VariantValue};
use candid::types::TypeEnv;
use candid::{Int, Nat, Principal};
use std::rc::Rc;

pub fn hx(b: &[u8]) -> String {
    if b.is_empty() {
        "-".into()
    } else {
        hex::encode(b)
    }
}
pub fn unhx(h: &str) -> Option<Vec<u8>> {
    if h == "-" {
        Some(vec![])
    } else {
        hex::decode(h).ok()
    }
}
fn hs(s: &str) -> String {
    hx(s.as_bytes())
}
fn unhs(h: &str) -> Option<String> {
    String::from_utf8(unhx(h)?).ok()
}

pub fn label(l: &Label) -> String {
    match l {
        Label::Id(n) => format!("i{n}"),
        Label::Unnamed(n) => format!("u{n}"),
        Label::Named(s) => format!("n{}", if s.is_empty() { String::new() } else { hs(s) }),
    }
}
pub fn parse_label(a: &str) -> Option<Label> {
    let (k, r) = a.split_at(1);
    match k {
        "i" => r.parse().ok().map(Label::Id),
        "u" => r.parse().ok().map(Label::Unnamed),
        "n" => {
            if r.is_empty() {
                Some(Label::Named(String::new()))
            } else {
                unhs(r).map(Label::Named)
            }
        }
        _ => None,
    }
}

pub fn ty(t: &Type) -> String {
    use TypeInner::*;
    match t.as_ref() {
        Null => "null".into(),
        Bool => "bool".into(),
        Nat => "nat".into(),
        Int => "int".into(),
        Nat8 => "nat8".into(),
        Nat16 => "nat16".into(),
        Nat32 => "nat32".into(),
        Nat64 => "nat64".into(),
        Int8 => "int8".into(),
        Int16 => "int16".into(),
        Int32 => "int32".into(),
        Int64 => "int64".into(),
        Float32 => "float32".into(),
        Float64 => "float64".into(),
        Text => "text".into(),
        Reserved => "reserved".into(),
        Empty => "empty".into(),
        Principal => "principal".into(),
        Unknown => "unknown".into(),
        Future => "future".into(),
        // TypeContainer leaves Knot nodes inside the definitions it copies from the memo; the definition
        // they refer to is in the same environment under the TypeId's name
        Knot(id) => format!("(var {})", hs(&format!("{id}"))),
        Var(x) => format!("(var {})", hs(x)),
        Opt(t) => format!("(opt {})", ty(t)),
        Vec(t) => format!("(vec {})", ty(t)),
        Record(fs) => format!("(record{})", fields(fs)),
        Variant(fs) => format!("(variant{})", fields(fs)),
        Func(f) => func(f),
        Service(ms) => format!(
            "(service{})",
            ms.iter().map(|(n, t)| format!(" ({} {})", hs(n), ty(t))).collect::<String>()
        ),
        Class(args, t) => format!("(class ({}) {})", tys_inner(args), ty(t)),
    }
}
fn fields(fs: &[Field]) -> String {
    fs.iter().map(|f| format!(" ({} {})", label(&f.id), ty(&f.ty))).collect()
}
fn tys_inner(ts: &[Type]) -> String {
    ts.iter().map(ty).collect::<Vec<_>>().join(" ")
}
pub fn tys(ts: &[Type]) -> String {
    format!("({})", tys_inner(ts))
}
fn func(f: &Function) -> String {
    let modes: Vec<&str> = f
        .modes
        .iter()
        .map(|m| match m {
            FuncMode::Oneway => "oneway",
            FuncMode::Query => "query",
            FuncMode::CompositeQuery => "composite_query",
        })
        .collect();
    format!("(func ({}) ({}) ({}))", tys_inner(&f.args), tys_inner(&f.rets), modes.join(" "))
}
pub fn env(e: &TypeEnv) -> String {
    format!("(env{})", e.0.iter().map(|(k, t)| format!(" ({} {})", hs(k), ty(t))).collect::<String>())
}

/// value printer. `canon`: labels as numeric ids, variant index dropped (what decode results are compared on).
pub fn val(v: &IDLValue, canon: bool) -> String {
    use IDLValue::*;
    let lab = |l: &Label| if canon { format!("i{}", l.get_id()) } else { label(l) };
    match v {
        Null => "null".into(),
        None => "none".into(),
        Reserved => "reserved".into(),
        Bool(b) => format!("(bool {b})"),
        Nat(n) => format!("(nat {})", n.0),
        Int(n) => format!("(int {})", n.0),
        Nat8(n) => format!("(nat8 {n})"),
        Nat16(n) => format!("(nat16 {n})"),
        Nat32(n) => format!("(nat32 {n})"),
        Nat64(n) => format!("(nat64 {n})"),
        Int8(n) => format!("(int8 {n})"),
        Int16(n) => format!("(int16 {n})"),
        Int32(n) => format!("(int32 {n})"),
        Int64(n) => format!("(int64 {n})"),
        Float32(f) => format!("(f32 {})", f.to_bits()),
        Float64(f) => format!("(f64 {})", f.to_bits()),
        Text(s) => format!("(text {})", hs(s)),
        Number(s) => format!("(number {})", hs(s)),
        Principal(p) => format!("(principal {})", hx(p.as_slice())),
        Service(p) => format!("(service {})", hx(p.as_slice())),
        Func(p, m) => format!("(func {} {})", hx(p.as_slice()), hs(m)),
        Blob(b) => format!("(blob {})", hx(b)),
        Opt(v) => format!("(opt {})", val(v, canon)),
        Vec(vs) => format!("(vec{})", vs.iter().map(|v| format!(" {}", val(v, canon))).collect::<String>()),
        Record(fs) => format!(
            "(record{})",
            fs.iter().map(|f| format!(" ({} {})", lab(&f.id), val(&f.val, canon))).collect::<String>()
        ),
        Variant(VariantValue(f, idx)) => {
            if canon {
                format!("(variant {} {})", lab(&f.id), val(&f.val, canon))
            } else {
                format!("(variant {} {} {})", lab(&f.id), val(&f.val, canon), idx)
            }
        }
    }
}
pub fn vals(vs: &[IDLValue], canon: bool) -> String {
    format!("({})", vs.iter().map(|v| val(v, canon)).collect::<Vec<_>>().join(" "))
}

// ------------------------------------------------------------------------------------------ parser

#[derive(Debug, Clone)]
pub enum S {
    A(String),
    L(Vec<S>),
}

pub fn parse(s: &str) -> Option<S> {
    let mut toks: Vec<String> = vec![];
    let mut cur = String::new();
    for c in s.chars() {
        if c == '(' || c == ')' || c == ' ' {
            if !cur.is_empty() {
                toks.push(std::mem::take(&mut cur));
            }
            if c != ' ' {
                toks.push(c.to_string());
            }
        } else {
            cur.push(c);
        }
    }
    if !cur.is_empty() {
        toks.push(cur);
    }
    let mut pos = 0;
    let r = parse_at(&toks, &mut pos)?;
    if pos == toks.len() {
        Some(r)
    } else {
        None
    }
}
fn parse_at(toks: &[String], pos: &mut usize) -> Option<S> {
    let t = toks.get(*pos)?;
    *pos += 1;
    if t == "(" {
        let mut items = vec![];
        loop {
            let n = toks.get(*pos)?;
            if n == ")" {
                *pos += 1;
                return Some(S::L(items));
            }
            items.push(parse_at(toks, pos)?);
        }
    } else if t == ")" {
        None
    } else {
        Some(S::A(t.clone()))
    }
}

fn atom(s: &S) -> Option<&str> {
    match s {
        S::A(a) => Some(a),
        _ => None,
    }
}
fn list(s: &S) -> Option<&[S]> {
    match s {
        S::L(l) => Some(l),
        _ => None,
    }
}

pub fn to_ty(s: &S) -> Option<Type> {
    use TypeInner::*;
    Some(match s {
        S::A(a) => match a.as_str() {
            "null" => Null,
            "bool" => Bool,
            "nat" => Nat,
            "int" => Int,
            "nat8" => Nat8,
            "nat16" => Nat16,
            "nat32" => Nat32,
            "nat64" => Nat64,
            "int8" => Int8,
            "int16" => Int16,
            "int32" => Int32,
            "int64" => Int64,
            "float32" => Float32,
            "float64" => Float64,
            "text" => Text,
            "reserved" => Reserved,
            "empty" => Empty,
            "principal" => Principal,
            "unknown" => Unknown,
            "future" => Future,
            _ => return Option::None,
        }
        .into(),
        S::L(l) => {
            let head = atom(l.first()?)?;
            match (head, &l[1..]) {
                ("var", [x]) => Var(unhs(atom(x)?)?).into(),
                ("opt", [t]) => Opt(to_ty(t)?).into(),
                ("vec", [t]) => Vec(to_ty(t)?).into(),
                ("record", fs) => Record(to_fields(fs)?).into(),
                ("variant", fs) => Variant(to_fields(fs)?).into(),
                ("func", [a, r, m]) => {
                    let args = list(a)?.iter().map(to_ty).collect::<Option<std::vec::Vec<_>>>()?;
                    let rets = list(r)?.iter().map(to_ty).collect::<Option<std::vec::Vec<_>>>()?;
                    let modes = list(m)?
                        .iter()
                        .map(|m| match atom(m)? {
                            "oneway" => Some(FuncMode::Oneway),
                            "query" => Some(FuncMode::Query),
                            "composite_query" => Some(FuncMode::CompositeQuery),
                            _ => Option::None,
                        })
                        .collect::<Option<std::vec::Vec<_>>>()?;
                    Func(Function { modes, args, rets }).into()
                }
                ("service", ms) => Service(
                    ms.iter()
                        .map(|m| {
                            let m = list(m)?;
                            Some((unhs(atom(m.first()?)?)?, to_ty(m.get(1)?)?))
                        })
                        .collect::<Option<std::vec::Vec<_>>>()?,
                )
                .into(),
                ("class", [a, t]) => {
                    Class(list(a)?.iter().map(to_ty).collect::<Option<std::vec::Vec<_>>>()?, to_ty(t)?).into()
                }
                _ => return Option::None,
            }
        }
    })
}
fn to_fields(fs: &[S]) -> Option<Vec<Field>> {
    fs.iter()
        .map(|f| {
            let f = list(f)?;
            Some(Field { id: Rc::new(parse_label(atom(f.first()?)?)?), ty: to_ty(f.get(1)?)? })
        })
        .collect()
}
pub fn to_tys(s: &S) -> Option<Vec<Type>> {
    list(s)?.iter().map(to_ty).collect()
}
pub fn to_env(s: &S) -> Option<TypeEnv> {
    let l = list(s)?;
    if atom(l.first()?)? != "env" {
        return None;
    }
    let mut e = TypeEnv::new();
    for b in &l[1..] {
        let b = list(b)?;
        e.0.insert(unhs(atom(b.first()?)?)?, to_ty(b.get(1)?)?);
    }
    Some(e)
}

pub fn to_val(s: &S) -> Option<IDLValue> {
    use IDLValue as V;
    Some(match s {
        S::A(a) => match a.as_str() {
            "null" => V::Null,
            "none" => V::None,
            "reserved" => V::Reserved,
            _ => return None,
        },
        S::L(l) => {
            let head = atom(l.first()?)?;
            let a1 = || l.get(1).and_then(atom);
            match head {
                "bool" => V::Bool(a1()? == "true"),
                "nat" => V::Nat(Nat(a1()?.parse().ok()?)),
                "int" => V::Int(Int(a1()?.parse().ok()?)),
                "nat8" => V::Nat8(a1()?.parse().ok()?),
                "nat16" => V::Nat16(a1()?.parse().ok()?),
                "nat32" => V::Nat32(a1()?.parse().ok()?),
                "nat64" => V::Nat64(a1()?.parse().ok()?),
                "int8" => V::Int8(a1()?.parse().ok()?),
                "int16" => V::Int16(a1()?.parse().ok()?),
                "int32" => V::Int32(a1()?.parse().ok()?),
                "int64" => V::Int64(a1()?.parse().ok()?),
                "f32" => V::Float32(f32::from_bits(a1()?.parse().ok()?)),
                "f64" => V::Float64(f64::from_bits(a1()?.parse().ok()?)),
                "text" => V::Text(unhs(a1()?)?),
                "number" => V::Number(unhs(a1()?)?),
                "principal" => V::Principal(Principal::try_from_slice(&unhx(a1()?)?).ok()?),
                "service" => V::Service(Principal::try_from_slice(&unhx(a1()?)?).ok()?),
                "func" => V::Func(Principal::try_from_slice(&unhx(a1()?)?).ok()?, unhs(atom(l.get(2)?)?)?),
                "blob" => V::Blob(unhx(a1()?)?),
                "opt" => V::Opt(Box::new(to_val(l.get(1)?)?)),
                "vec" => V::Vec(l[1..].iter().map(to_val).collect::<Option<Vec<_>>>()?),
                "record" => V::Record(
                    l[1..]
                        .iter()
                        .map(|f| {
                            let f = list(f)?;
                            Some(IDLField { id: parse_label(atom(f.first()?)?)?, val: to_val(f.get(1)?)? })
                        })
                        .collect::<Option<Vec<_>>>()?,
                ),
                "variant" => V::Variant(VariantValue(
                    Box::new(IDLField { id: parse_label(a1()?)?, val: to_val(l.get(2)?)? }),
                    atom(l.get(3)?)?.parse().ok()?,
                )),
                _ => return None,
            }
        }
    })
}
pub fn to_vals(s: &S) -> Option<Vec<IDLValue>> {
    list(s)?.iter().map(to_val).collect()
}
