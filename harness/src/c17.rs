//! C17 — the generated JavaScript binding denotes the same service interface.
//!   js.plan <env> <actor>   which definitions the factory and the init factory emit, in which order, which through
//!                           `IDL.Rec()` (read off the emitted text); compared with the model of analysis.rs
//!   js.eval <env> <actor>   the emitted module is evaluated (jsmini) and the service / init types it builds are
//!                           compared with the program's by the structural equality of subtype.rs
use crate::c14;
use crate::jsmini;
use crate::sexp;
use crate::{guarded, Ctx, Out};
use candid::types::internal::{Type, TypeInner};
use candid::types::TypeEnv;
use std::collections::BTreeMap;

pub fn checked(decs: &[(String, Type)], actor: &Option<Type>) -> Option<(TypeEnv, Option<Type>)> {
    let src = c14::did_prog(decs, actor)?;
    let ast = src.parse::<candid_parser::IDLProg>().ok()?;
    let mut env = TypeEnv::new();
    let actor = candid_parser::check_prog(&mut env, &ast).ok()?;
    Some((env, actor))
}

fn equal_in(env: &TypeEnv, t1: &Type, env2: &TypeEnv, t2: &Type) -> bool {
    use candid::types::subtype::{equal, Gamma};
    // the evaluated environment need not be well-formed; a panic inside /repo's `equal` on it is "not equal"
    let (env, t1, env2, t2) = (env.clone(), t1.clone(), env2.clone(), t2.clone());
    guarded(move || {
        let mut merged = env.clone();
        let t2r = merged.merge_type(env2, t2);
        let mut g = Gamma::new();
        equal(&mut g, &merged, &t1, &t2r).is_ok()
    })
    .unwrap_or(false)
}

pub fn eval(out: &mut Out, op: &str, args: &[&str]) -> Option<String> {
    let env = sexp::to_env(&sexp::parse(args.first()?)?)?;
    let actor = sexp::to_ty(&sexp::parse(args.get(1)?)?)?;
    let line = args.join("\t");
    let (e2, a2) = (env.clone(), actor.clone());
    let js = match guarded(move || candid_parser::bindings::javascript::compile(&e2, &Some(a2))) {
        Ok(js) => js,
        Err(_) => return Some("panic".into()),
    };
    Some(match op {
        "js.plan" => match jsmini::parse_module(&js) {
            Ok((f, i)) => format!("ok F[{}] I[{}]", jsmini::plan(&f), jsmini::plan(&i)),
            Err(why) => format!("err {}", &why[..why.len().min(60)]),
        },
        "js.eval" => {
            let (f, i) = match jsmini::parse_module(&js) {
                Ok(x) => x,
                Err(why) => {
                    out.stat(&format!("js-error:{}", &why[..why.len().min(40)]));
                    return Some(format!("err syntax: {}", &why[..why.len().min(60)]));
                }
            };
            let fe = match jsmini::eval_block(&f) {
                Ok(x) => x,
                Err(why) => {
                    out.stat(&format!("js-error:{}", &why[..why.len().min(40)]));
                    return Some(format!("err factory: {}", &why[..why.len().min(60)]));
                }
            };
            let ie = match jsmini::eval_block(&i) {
                Ok(x) => x,
                Err(why) => {
                    out.stat(&format!("js-error:{}", &why[..why.len().min(40)]));
                    return Some(format!("err init: {}", &why[..why.len().min(60)]));
                }
            };
            let (serv, init): (Type, Vec<Type>) = match actor.as_ref() {
                TypeInner::Class(a, t) => (t.clone(), a.clone()),
                _ => (actor.clone(), vec![]),
            };
            if fe.ret.len() != 1 || !equal_in(&env, &serv, &fe.env, &fe.ret[0]) {
                out.oracle_failure("the JavaScript factory builds a different service type", &line);
                return Some("err service differs".into());
            }
            if ie.ret.len() != init.len() || !init.iter().zip(ie.ret.iter()).all(|(a, b)| equal_in(&env, a, &ie.env, b)) {
                out.oracle_failure("the JavaScript init factory builds different argument types", &line);
                return Some("err init differs".into());
            }
            "ok".into()
        }
        _ => return None,
    })
}

const JS_NAMES: [&str; 20] = [
    "class", "const", "function", "new", "enum", "export", "with", "yield", "let", "char", "var", "default", "static", "delete", "class_", "const_", "new__",
    "IDL", "IDL_", "arguments",
];

pub fn gen_case(ctx: &mut Ctx) -> Option<(TypeEnv, Type)> {
    let (decs, actor, _g, _data) = c14::gen_prog(ctx);
    let actor = actor?;
    // some definitions are named like JavaScript reserved words
    let mut tau: BTreeMap<String, String> = BTreeMap::new();
    for (n, _) in &decs {
        if ctx.rng.chance(1, 4) {
            let k = ctx.rng.pick(&JS_NAMES).to_string();
            if !tau.values().any(|v| *v == k) {
                tau.insert(n.clone(), k);
            }
        }
    }
    let mut decs2: Vec<(String, Type)> = decs.iter().map(|(n, t)| (tau.get(n).cloned().unwrap_or(n.clone()), t.subst(&tau))).collect();
    let mut actor2 = actor.subst(&tau);
    // rarely: a field whose *name* looks like the builder's spelling of a numeric id
    if ctx.rng.chance(1, 40) {
        use candid::types::internal::{Field, Function, Label};
        let f = Field { id: std::rc::Rc::new(Label::Named(format!("_{}_", ctx.rng.below(10)))), ty: TypeInner::Nat.into() };
        decs2.push(("IdLike".into(), TypeInner::Record(vec![f]).into()));
        let m: Type = TypeInner::Func(Function { modes: vec![], args: vec![TypeInner::Var("IdLike".into()).into()], rets: vec![] }).into();
        actor2 = match actor2.as_ref() {
            TypeInner::Service(ms) => {
                let mut ms = ms.clone();
                ms.push(("id_like".into(), m));
                TypeInner::Service(ms).into()
            }
            _ => actor2,
        };
    }
    let (env, actor) = checked(&decs2, &Some(actor2))?;
    Some((env, actor?))
}

pub fn run(ctx: &mut Ctx) {
    let n = if ctx.thorough { 80_000 } else { 3_000 };
    for _ in 0..n {
        let Some((env, actor)) = gen_case(ctx) else {
            ctx.out.stat("skipped");
            continue;
        };
        let has_init_rec = matches!(actor.as_ref(), TypeInner::Class(a, _) if !a.is_empty());
        if has_init_rec {
            ctx.out.stat("with-init-args");
        }
        ctx.out.stat(&format!("defs:{}", env.0.len().min(6)));
        ctx.emit(&format!("js.plan\t{}\t{}", sexp::env(&env), sexp::ty(&actor)), true);
        ctx.emit(&format!("js.eval\t{}\t{}", sexp::env(&env), sexp::ty(&actor)), true);
    }
}
