//! C01 / C08 — native Rust types.  Ops (model: lean/CandidModel/Driver/Wire.lean):
//!   nat.check  <name> <hist> <hex> <env> <ty> <val>   a message produced by Encode! at corpus type <name>: decoded
//!              natively after the call history <hist>; model: the spec decoder at (env, ty); spec: <val>, the
//!              abstract value converted by hand from the Rust value
//!   nat.decode / nat.decodeU <name> <hex> <env> <ty>   any message decoded natively at <name> vs untyped at its
//!              Candid type (decodeU: element order of vectors ignored, for maps and sets)
//!   nat.hl     <name> <hex>                             host-limit cases (no claim, counted)
//!   nat.mirror / nat.mirrorU <name> <rust> <hex> <env> <ty>   the same native decoding against the native decoder mirror
//!              of the model (lean/CandidModel/Native.lean); <rust> describes the Rust type as a term of its grammar
//!   nat.mirrorQ <name> <rust> <hex> <env> <ty> <dq> <sq>      … under quotas, at the implementation's own thresholds
use crate::c02;
use crate::corpus::{self, Entry};
use crate::gen;
use crate::sexp;
use crate::{guarded, Ctx, Out, Rng};
use candid::types::internal::{Type, TypeInner};
use candid::types::value::IDLValue;
use candid::types::TypeEnv;
use candid::IDLArgs;
use std::cell::RefCell;

thread_local! {
    static CORPUS: RefCell<Option<std::rc::Rc<Vec<Entry>>>> = const { RefCell::new(None) };
}
fn entries() -> std::rc::Rc<Vec<Entry>> {
    CORPUS.with(|c| {
        let mut c = c.borrow_mut();
        if c.is_none() {
            *c = Some(std::rc::Rc::new(corpus::all()));
        }
        c.as_ref().unwrap().clone()
    })
}
fn find(name: &str) -> Option<usize> {
    entries().iter().position(|e| e.name == name)
}

/// a call history on this thread: type derivations, encodes, decodes of other corpus types, memo resets
fn run_history(hist: &str) {
    let es = entries();
    for (k, tok) in hist.split(',').enumerate() {
        let Ok(n) = tok.parse::<usize>() else { continue };
        let e = &es[n % es.len()];
        match n / es.len() % 4 {
            0 => (e.touch)(),
            1 => {
                let mut r = Rng(n as u64 * 7919 + k as u64);
                let _ = (e.roundtrip)(&mut r);
            }
            2 => candid::types::internal::env_clear(),
            _ => {
                let _ = (e.decode)(b"DIDL\x00\x00");
            }
        }
    }
}

fn sorted_canon(v: &IDLValue) -> String {
    use IDLValue::*;
    match v {
        Vec(xs) => {
            let mut s: std::vec::Vec<String> = xs.iter().map(sorted_canon).collect();
            s.sort();
            format!("(vec{})", s.iter().map(|x| format!(" {x}")).collect::<String>())
        }
        Blob(b) => {
            let mut s: std::vec::Vec<String> = b.iter().map(|x| format!("(nat8 {x})")).collect();
            s.sort();
            format!("(vec{})", s.iter().map(|x| format!(" {x}")).collect::<String>())
        }
        Opt(x) => format!("(opt {})", sorted_canon(x)),
        Record(fs) => format!("(record{})", fs.iter().map(|f| format!(" (i{} {})", f.id.get_id(), sorted_canon(&f.val))).collect::<String>()),
        Variant(x) => format!("(variant i{} {})", x.0.id.get_id(), sorted_canon(&x.0.val)),
        other => sexp::val(other, true),
    }
}

/// names of the corpus types, and the encoding of a generated value of one of them (for the hostile-input families of C06)
pub fn corpus_names() -> Vec<String> {
    entries().iter().map(|e| e.name.clone()).collect()
}
pub fn corpus_encode(idx: usize, r: &mut crate::Rng) -> Option<Vec<u8>> {
    let es = entries();
    (es[idx % es.len()].encode)(r)
}

pub fn eval(out: &mut Out, op: &str, args: &[&str]) -> Option<String> {
    let name = *args.first()?;
    let idx = find(name)?;
    let es = entries();
    let e = &es[idx];
    match op {
        "nat.check" | "nat.checkU" => {
            let hist = *args.get(1)?;
            let bytes = sexp::unhx(args.get(2)?)?;
            let h = hist.to_string();
            let dec = e.decode;
            Some(match guarded(move || {
                run_history(&h);
                dec(&bytes)
            }) {
                Err(_) => "panic".into(),
                Ok(Err(_)) => "err".into(),
                Ok(Ok(v)) => format!("ok ({})", if op == "nat.checkU" { sorted_canon(&v) } else { sexp::val(&v, true) }),
            })
        }
        "nat.bounded" => {
            let bytes = sexp::unhx(args.get(1)?)?;
            let dec = e.decode;
            Some(match guarded(move || dec(&bytes)) {
                Err(_) => "panic".into(),
                Ok(Err(_)) => "err".into(),
                Ok(Ok(v)) => format!("ok ({})", sexp::val(&v, true)),
            })
        }
        "nat.decode" | "nat.decodeU" => {
            let bytes = sexp::unhx(args.get(1)?)?;
            let env = sexp::to_env(&sexp::parse(args.get(2)?)?)?;
            let ty = sexp::to_ty(&sexp::parse(args.get(3)?)?)?;
            let unordered = op == "nat.decodeU";
            let show = |v: &IDLValue| if unordered { sorted_canon(v) } else { sexp::val(v, true) };
            let dec = e.decode;
            let b1 = bytes.clone();
            let native = guarded(move || dec(&b1));
            if std::env::var("VERIF_DEBUG").is_ok() {
                eprintln!("native: {:?}", native.as_ref().map(|r| r.as_ref().map(|v| sexp::val(v, true))));
            }
            // the implementation's own untyped decoding at the same Candid type (oracle of C08 on the implementation)
            let (b2, e2, t2) = (bytes.clone(), env.clone(), ty.clone());
            let untyped = guarded(move || IDLArgs::from_bytes_with_types(&b2, &e2, &[t2]));
            let line = args.join("\t");
            match (&native, &untyped) {
                (Ok(Ok(n)), Ok(Ok(u))) => {
                    if show(n) != show(&u.args[0]) {
                        out.oracle_failure("native and untyped decoding give different values", &line);
                    }
                }
                (Ok(Ok(_)), Ok(Err(_))) => out.oracle_failure("native decoding accepts what untyped decoding rejects", &line),
                (Ok(Err(_)), Ok(Ok(_))) => {
                    let known = wire_arg_type(&bytes).map_or(false, |(mut tenv, wt)| {
                        let _ = tenv.merge(&env);
                        tuple_nonpositional(&tenv, &wt, &ty, 64)
                    });
                    if known {
                        out.stat("known:tuple-nonpositional");
                    } else {
                        out.oracle_failure("native decoding rejects what untyped decoding accepts", &line)
                    }
                }
                (Err(_), _) | (_, Err(_)) => out.oracle_failure("panic", &line),
                _ => {}
            }
            // quota neutrality for the native visitor (C07 on the implementation)
            if let Ok(Ok(_)) = &native {
                let cfgd = e.decode_cfg;
                let b3 = bytes.clone();
                match guarded(move || cfgd(&b3, Some(1 << 40), Some(1 << 40))) {
                    Ok(Ok(())) => {}
                    _ => out.oracle_failure("native decoding fails under huge quotas", &line),
                }
            }
            Some(match native {
                Err(_) => "panic".into(),
                Ok(Err(_)) => "err".into(),
                Ok(Ok(v)) => format!("ok ({})", show(&v)),
            })
        }
        // host-limit cases and hostile inputs: no claim about the answer, but the call has to return (C06)
        "nat.hl" | "nat.total" => {
            let bytes = sexp::unhx(args.get(1)?)?;
            let dec = e.decode;
            let cfgd = e.decode_cfg;
            let b2 = bytes.clone();
            let plain = guarded(move || dec(&bytes).is_ok());
            let metered = guarded(move || cfgd(&b2, Some(100_000), Some(100_000)).is_ok());
            Some(if plain.is_err() || metered.is_err() {
                "panic".into()
            } else if op == "nat.hl" {
                "hl".into()
            } else {
                "returned".into()
            })
        }
        // the native decoder mirror (lean/CandidModel/Native.lean): same message, same Rust type, described as a term
        // of the mirror's grammar; no oracle here, the model answers for itself
        "nat.mirror" | "nat.mirrorU" => {
            let bytes = sexp::unhx(args.get(2)?)?;
            let dec = e.decode;
            let unordered = op == "nat.mirrorU";
            Some(match guarded(move || dec(&bytes)) {
                Err(_) => "panic".into(),
                Ok(Err(_)) => "err".into(),
                Ok(Ok(v)) => format!("ok ({})", if unordered { sorted_canon(&v) } else { sexp::val(&v, true) }),
            })
        }
        "nat.mirrorQ" => {
            let bytes = sexp::unhx(args.get(2)?)?;
            let q = |s: &str| if s == "-" { None } else { s.parse::<usize>().ok() };
            let (dq, sq) = (q(args.get(5)?), q(args.get(6)?));
            let cfgd = e.decode_cfg;
            Some(match guarded(move || cfgd(&bytes, dq, sq)) {
                Err(_) => "panic".into(),
                Ok(Err(_)) => "err".into(),
                Ok(Ok(())) => "ok".into(),
            })
        }
        _ => None,
    }
}

/// the smallest quota (decoding quota if `decoding`, else skipping quota) under which the implementation decodes
/// `bytes` natively at `e`: the cost the implementation charges, found by bisection
fn native_threshold(e: &Entry, bytes: &[u8], decoding: bool) -> Option<usize> {
    let run = |q: usize| {
        let cfgd = e.decode_cfg;
        let b = bytes.to_vec();
        matches!(guarded(move || if decoding { cfgd(&b, Some(q), None) } else { cfgd(&b, None, Some(q)) }), Ok(Ok(())))
    };
    let mut hi = 64usize;
    while !run(hi) {
        hi = hi.checked_mul(4)?;
        if hi > (1 << 34) {
            return None;
        }
    }
    let mut lo = 0usize; // invariant: run(hi), and lo == 0 or !run(lo - 1)
    while lo < hi {
        let mid = lo + (hi - lo) / 2;
        if run(mid) {
            hi = mid;
        } else {
            lo = mid + 1;
        }
    }
    Some(hi)
}

/// the same message through the native mirror of the model
fn emit_mirror(ctx: &mut Ctx, e: &Entry, bytes: &[u8], untyped_ok: Option<&IDLValue>) {
    let (env, ty) = (e.raw_ty)();
    let (env, ty) = (&env, &ty);
    // sets and maps drop duplicates natively: outside the mirror (and outside the property)
    if let Some(u) = untyped_ok {
        if !(e.no_dups)(u) {
            ctx.out.stat("mirror:skipped-duplicates");
            return;
        }
    }
    let op = if is_unordered(&e.name) { "nat.mirrorU" } else { "nat.mirror" };
    let rd = (e.rdesc)();
    let common = format!("{}\t{}\t{}\t{}\t{}", e.name, rd, sexp::hx(bytes), sexp::env(env), sexp::ty(ty));
    ctx.emit(&format!("{op}\t{common}"), true);
    // the cost accounting of the native path: at the implementation's own thresholds the model must flip too.
    // Not compared when the message's table declares reference types while the Rust type has named definitions:
    // skipping a reference value charges the size of the table, which the mirror's skipping function takes from the
    // merged environment (the header's table plus those names) — a difference of the model's presentation only.
    let refs_in_table = wire_arg_type(bytes).map_or(true, |(tenv, _)| {
        tenv.0.iter().any(|(_, t)| matches!(t.as_ref(), TypeInner::Func(_) | TypeInner::Service(_)))
    });
    if refs_in_table && !env.0.is_empty() {
        ctx.out.stat("mirror:quota-skipped-reference-table");
    } else if ctx.rng.chance(1, 6) {
        for decoding in [true, false] {
            let dec = e.decode;
            let b = bytes.to_vec();
            if !matches!(guarded(move || dec(&b)), Ok(Ok(_))) {
                break;
            }
            if let Some(t) = native_threshold(e, bytes, decoding) {
                ctx.out.stat(if decoding { "mirror:decoding-threshold" } else { "mirror:skipping-threshold" });
                let mut qs = vec![t];
                if t > 0 {
                    qs.push(t - 1);
                }
                for q in qs {
                    let (dq, sq) = if decoding { (q.to_string(), "-".to_string()) } else { ("-".to_string(), q.to_string()) };
                    ctx.emit(&format!("nat.mirrorQ\t{common}\t{dq}\t{sq}"), true);
                }
            }
        }
    }
}

/// known finding KF-C08-tuple-nonpositional: an expected tuple against a wire record that does not start
/// with the positional ids (same predicate as Wire.tupleNonPositional in the Lean driver)
fn tuple_nonpositional(env: &TypeEnv, w: &Type, e: &Type, fuel: u32) -> bool {
    if fuel == 0 {
        return false;
    }
    let (Ok(w), Ok(e)) = (env.trace_type(w), env.trace_type(e)) else { return false };
    match (w.as_ref(), e.as_ref()) {
        (TypeInner::Opt(w2), TypeInner::Opt(e2)) => tuple_nonpositional(env, w2, e2, fuel - 1),
        (_, TypeInner::Opt(e2)) => tuple_nonpositional(env, &w, e2, fuel - 1),
        (TypeInner::Vec(w2), TypeInner::Vec(e2)) => tuple_nonpositional(env, w2, e2, fuel - 1),
        (TypeInner::Record(wfs), TypeInner::Record(efs)) => {
            let is_tuple = !efs.is_empty() && efs.iter().enumerate().all(|(i, f)| f.id.get_id() == i as u32);
            let positional = wfs.iter().take(efs.len()).enumerate().all(|(i, f)| f.id.get_id() == i as u32);
            (is_tuple && !positional)
                || efs.iter().any(|ef| {
                    wfs.iter().find(|wf| wf.id.get_id() == ef.id.get_id()).map_or(false, |wf| tuple_nonpositional(env, &wf.ty, &ef.ty, fuel - 1))
                })
        }
        (TypeInner::Variant(wfs), TypeInner::Variant(efs)) => efs.iter().any(|ef| {
            wfs.iter().find(|wf| wf.id.get_id() == ef.id.get_id()).map_or(false, |wf| tuple_nonpositional(env, &wf.ty, &ef.ty, fuel - 1))
        }),
        _ => false,
    }
}

fn wire_arg_type(bytes: &[u8]) -> Option<(TypeEnv, Type)> {
    use binread::BinRead;
    let mut cur = std::io::Cursor::new(bytes);
    let h = candid::binary_parser::Header::read_args(&mut cur, (None,)).ok()?;
    let (env, args) = h.to_types().ok()?;
    Some((env, args.first()?.clone()))
}

fn is_unordered(name: &str) -> bool {
    let name = name;
    ["BTreeMap", "BTreeSet", "HashMap", "Tree", "Forest"].iter().any(|k| name.contains(k))
}

fn hist(ctx: &mut Ctx) -> String {
    let es = entries();
    let fam: Vec<usize> = es
        .iter()
        .enumerate()
        .filter(|(_, e)| ["List", "Tree", "Forest", "Generic", "Shape", "Pair"].iter().any(|k| e.name.contains(k)))
        .map(|(i, _)| i)
        .collect();
    let k = ctx.rng.range(0, 5);
    (0..k)
        .map(|_| {
            if ctx.rng.chance(1, 2) && !fam.is_empty() {
                // an operation (type derivation / round trip / reset / failing decode) on a recursive family member
                let i = *ctx.rng.pick(&fam);
                let kind = *ctx.rng.pick(&[0usize, 0, 0, 1, 3]);
                (i + kind * es.len()).to_string()
            } else {
                ctx.rng.below(4 * es.len() as u64).to_string()
            }
        })
        .collect::<Vec<_>>()
        .join(",")
}

/// decode `bytes` at corpus entry `e`: emit the right op depending on host limits / duplicates
fn emit_decode(ctx: &mut Ctx, e: &Entry, env: &TypeEnv, ty: &Type, bytes: &[u8]) {
    let (b2, e2, t2) = (bytes.to_vec(), env.clone(), ty.clone());
    let untyped = guarded(move || IDLArgs::from_bytes_with_types(&b2, &e2, &[t2]));
    emit_mirror(ctx, e, bytes, match &untyped {
        Ok(Ok(u)) => u.args.first(),
        _ => None,
    });
    if e.name.starts_with("BoundedVec") {
        // bounded vectors must accept exactly the vectors within their limits
        let within = matches!(&untyped, Ok(Ok(u)) if (e.host_ok)(&u.args[0]));
        ctx.emit(
            &format!("nat.bounded\t{}\t{}\t{}\t{}\t{}", e.name, sexp::hx(bytes), sexp::env(env), sexp::ty(ty), within),
            true,
        );
        return;
    }
    // fixed-size arrays are only compared on messages whose vector has the matching length (the property's
    // quantifier); a message that does not even decode untyped cannot be classified and is left out
    if e.name.contains('[') && !matches!(&untyped, Ok(Ok(_))) {
        ctx.emit(&format!("nat.hl\t{}\t{}", e.name, sexp::hx(bytes)), false);
        return;
    }
    if let Ok(Ok(u)) = &untyped {
        if !(e.host_ok)(&u.args[0]) || !(e.no_dups)(&u.args[0]) {
            ctx.emit(&format!("nat.hl\t{}\t{}", e.name, sexp::hx(bytes)), false);
            return;
        }
    }
    let op = if is_unordered(&e.name) { "nat.decodeU" } else { "nat.decode" };
    ctx.emit(&format!("{op}\t{}\t{}\t{}\t{}", e.name, sexp::hx(bytes), sexp::env(env), sexp::ty(ty)), true);
}

pub fn run_c01(ctx: &mut Ctx) {
    let es = entries();
    ctx.out.stat(&format!("corpus-types:{}", es.len()));
    let per = if ctx.thorough { 400 } else { 12 };
    for e in es.iter() {
        if e.name.starts_with("BoundedVec") {
            // bounded vectors are about their limits (C08), their generator goes beyond them on purpose
            continue;
        }
        for _ in 0..per {
            let h = hist(ctx);
            // the generating side runs under a history too
            let h2 = hist(ctx);
            let mut r = Rng(ctx.rng.next());
            let rt = e.roundtrip;
            let res = guarded(move || {
                run_history(&h2);
                rt(&mut r)
            });
            match res {
                Ok(Ok((bytes, val))) => {
                    let (env, ty) = (e.ty)();
                    let unordered = e.name.contains("HashMap");
                    ctx.emit(
                        &format!(
                            "{}\t{}\t{}\t{}\t{}\t{}\t({})",
                            if unordered { "nat.checkU" } else { "nat.check" },
                            e.name,
                            if h.is_empty() { "-".to_string() } else { h },
                            sexp::hx(&bytes),
                            sexp::env(&env),
                            sexp::ty(&ty),
                            if unordered { sorted_canon(&val) } else { sexp::val(&val, true) }
                        ),
                        true,
                    );
                    // the same message through the native decoder mirror of the model
                    emit_mirror(ctx, e, &bytes, Some(&val));
                }
                Ok(Err(why)) => ctx.out.oracle_failure(&format!("native round trip fails: {why}"), &e.name),
                Err(_) => ctx.out.oracle_failure("native round trip panics", &e.name),
            }
        }
    }
}

/// C03, native half: what the native encoder writes for values of every corpus type is read by the specification's
/// reader at the type the library derives (type table well formed, fields ascending, values as declared)
pub fn run_native_wellformed(ctx: &mut Ctx) {
    let es = entries();
    let per = if ctx.thorough { 40 } else { 2 };
    for e in es.iter() {
        if e.name.starts_with("BoundedVec") {
            continue;
        }
        for _ in 0..per {
            let mut r = Rng(ctx.rng.next());
            let rt = e.roundtrip;
            match guarded(move || rt(&mut r)) {
                Ok(Ok((bytes, val))) => {
                    let (env, ty) = (e.ty)();
                    let unordered = e.name.contains("HashMap");
                    ctx.emit(
                        &format!(
                            "{}\t{}\t-\t{}\t{}\t{}\t({})",
                            if unordered { "nat.checkU" } else { "nat.check" },
                            e.name,
                            sexp::hx(&bytes),
                            sexp::env(&env),
                            sexp::ty(&ty),
                            if unordered { sorted_canon(&val) } else { sexp::val(&val, true) }
                        ),
                        true,
                    );
                    ctx.out.stat("native-wellformed");
                }
                Ok(Err(why)) => ctx.out.oracle_failure(&format!("native round trip fails: {why}"), &e.name),
                Err(_) => ctx.out.oracle_failure("native round trip panics", &e.name),
            }
        }
    }
}

pub fn run_c08(ctx: &mut Ctx) {
    let es = entries();
    ctx.out.stat(&format!("corpus-types:{}", es.len()));
    let per = if ctx.thorough { 60 } else { 3 };
    // messages of every corpus type …
    let mut msgs: Vec<(usize, Vec<u8>)> = vec![];
    for (i, e) in es.iter().enumerate() {
        // bounded vectors: many more values, the generator aims at the limits
        let per = if e.name.starts_with("BoundedVec") { per * 12 } else { per };
        for _ in 0..per {
            let mut r = Rng(ctx.rng.next());
            if e.name.starts_with("BoundedVec") {
                // only encoded here: whether the bounded type takes the message back is what `nat.bounded` compares
                // with the limits (a round trip that fails at a limit must not drop the message from the run)
                let en = e.encode;
                if let Ok(Some(bytes)) = guarded(move || en(&mut r)) {
                    msgs.push((i, bytes));
                }
                continue;
            }
            let rt = e.roundtrip;
            if let Ok(Ok((bytes, _))) = guarded(move || rt(&mut r)) {
                msgs.push((i, bytes));
            }
        }
    }
    // … decoded at their own type, at random other corpus types (layout-alikes included by the cross product),
    // and after byte-level mutation
    let tys: Vec<(TypeEnv, Type)> = es.iter().map(|e| (e.ty)()).collect();
    for (i, bytes) in &msgs {
        let e = &es[*i];
        emit_decode(ctx, e, &tys[*i].0, &tys[*i].1, bytes);
        for _ in 0..(if ctx.thorough { 12 } else { 4 }) {
            let j = ctx.rng.below(es.len() as u64) as usize;
            emit_decode(ctx, &es[j], &tys[j].0, &tys[j].1, bytes);
        }
        let b2 = c02::mutate(ctx, bytes);
        emit_decode(ctx, e, &tys[*i].0, &tys[*i].1, &b2);
    }
    // … and messages of random untyped types that are sub/supertypes of a corpus type
    let n = if ctx.thorough { 20_000 } else { 1_200 };
    for _ in 0..n {
        let j = ctx.rng.below(es.len() as u64) as usize;
        let (env, ty) = (&tys[j].0, &tys[j].1);
        let g = gen::TyGen { names: vec![], refs: false, named: true, max_fields: 3 };
        let mut wt = ty.clone();
        for _ in 0..ctx.rng.range(1, 2) {
            wt = gen::step(&mut ctx.rng, &g, &wt, false, 2);
        }
        let mut budget = 40;
        let Some(v) = gen::value(&mut ctx.rng, env, &wt, &mut budget) else { continue };
        let (e1, t1) = (env.clone(), wt.clone());
        let Ok(Ok(bytes)) = guarded(move || IDLArgs { args: vec![v] }.to_bytes_with_types(&e1, &[t1])) else { continue };
        emit_decode(ctx, &es[j], env, ty, &bytes);
    }
    // map-shaped corpus types (vec record { 0 : K; 1 : V }) against wire entries with a component missing and / or a
    // surplus field: the record rule allows that whenever the missing component is optional
    for (j, e) in es.iter().enumerate() {
        let (env, ty) = (&tys[j].0, &tys[j].1);
        let TypeInner::Vec(entry) = ty.as_ref() else { continue };
        let TypeInner::Record(fs) = entry.as_ref() else { continue };
        if fs.len() != 2 || fs[0].id.get_id() != 0 || fs[1].id.get_id() != 1 {
            continue;
        }
        let extra = candid::types::internal::Field { id: std::rc::Rc::new(candid::types::Label::Id(2)), ty: TypeInner::Nat8.into() };
        let shapes: Vec<Vec<candid::types::internal::Field>> = vec![
            vec![fs[0].clone()],
            vec![fs[1].clone()],
            vec![fs[0].clone(), extra.clone()],
            vec![fs[1].clone(), extra.clone()],
            vec![fs[0].clone(), fs[1].clone(), extra.clone()],
            vec![],
        ];
        for shape in shapes {
            let wt: Type = TypeInner::Vec(TypeInner::Record(shape).into()).into();
            for _ in 0..2 {
                let mut budget = 30;
                let Some(v) = gen::value(&mut ctx.rng, env, &wt, &mut budget) else { continue };
                let (e1, t1) = (env.clone(), wt.clone());
                let Ok(Ok(bytes)) = guarded(move || IDLArgs { args: vec![v] }.to_bytes_with_types(&e1, &[t1])) else { continue };
                emit_decode(ctx, e, env, ty, &bytes);
            }
        }
    }
    // layout-alikes by hand: text vs blob, nat vs nat8, principal vs blob, vec nat8 vs vec int8
    let alikes: Vec<(&str, &str)> = vec![
        ("4449444c0001710568656c6c6f", "ByteBuf"),
        ("4449444c0001710568656c6c6f", "Vec<u8>"),
        ("4449444c016d7b01000568656c6c6f", "String"),
        ("4449444c016d7b01000568656c6c6f", "Principal"),
        ("4449444c016d7701000568656c6c6f", "Vec<u8>"),
        ("4449444c016d7701000568656c6c6f", "ByteBuf"),
        ("4449444c00016801050102030405", "ByteBuf"),
        ("4449444c00017d05", "u8"),
        ("4449444c00017b05", "Nat"),
        ("4449444c026d016c020071017101000101610162", "BTreeMap<String, String>"),
        ("4449444c036d016c02007101026d7b01000101610162", "BTreeMap<String, String>"),
        ("4449444c036d016c02007101026d7b01000101610162", "BTreeMap<String, ByteBuf>"),
    ];
    for (h, name) in alikes {
        if let (Some(b), Some(j)) = (sexp::unhx(h), find(name)) {
            emit_decode(ctx, &es[j], &tys[j].0, &tys[j].1, &b);
        }
    }
    // numbers at the ends of the 128-bit host types, on the wire as `nat` and as `int`, alone and in a vector, decoded at
    // every numeric corpus type (`nat <: int`: an `i128` reads a wire `nat`, which has its own conversion)
    {
        use num_bigint::BigInt;
        let one = BigInt::from(1u8);
        let edges: Vec<BigInt> = vec![
            (one.clone() << 127usize) - 1u8,
            one.clone() << 127usize,
            (one.clone() << 128usize) - 1u8,
            one.clone() << 128usize,
            one.clone() << 63usize,
            (one.clone() << 64usize) - 1u8,
            BigInt::from(42u8),
            -(one.clone() << 127usize),
            -(one.clone() << 127usize) - 1u8,
            -one.clone(),
        ];
        for v in &edges {
            for as_int in [false, true] {
                if !as_int && v < &BigInt::from(0u8) {
                    continue;
                }
                let mut num: Vec<u8> = vec![];
                if as_int {
                    let _ = candid::Int(v.clone()).encode(&mut num);
                } else {
                    let _ = candid::Nat(v.to_biguint().unwrap()).encode(&mut num);
                }
                let opcode: u8 = if as_int { 0x7c } else { 0x7d };
                let mut single = b"DIDL\x00\x01".to_vec();
                single.push(opcode);
                single.extend_from_slice(&num);
                let mut vecm = b"DIDL\x01\x6d".to_vec();
                vecm.push(opcode);
                vecm.extend_from_slice(&[0x01, 0x00, 0x02, 0x2a]);
                vecm.extend_from_slice(&num);
                for name in ["i128", "u128", "Int", "Nat", "Option<u128>", "Wrap<u128>"] {
                    if let Some(j) = find(name) {
                        emit_decode(ctx, &es[j], &tys[j].0, &tys[j].1, &single);
                    }
                }
                for name in ["Vec<i128>", "Vec<u128>", "Vec<Int>", "Vec<Nat>", "[u128;2]"] {
                    if let Some(j) = find(name) {
                        emit_decode(ctx, &es[j], &tys[j].0, &tys[j].1, &vecm);
                    }
                }
            }
        }
    }
    let _ = TypeInner::Null;
}
