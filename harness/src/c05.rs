//! C05 — subtype / equality / upgrade checks.  Ops (model: lean/CandidModel/Driver/Subtype.lean):
//!   sub.subtype <env> <t1> <t2>     subtype() on a fresh memo (+ oracles: report-empty ⇔ ok, reflexivity,
//!                                    equal ⇒ both ways, α-renaming of definitions, field-order permutation)
//!   sub.equal   <env> <t1> <t2>     equal() on a fresh memo
//!   sub.seq     <env> (<a1> <b1> <a2> <b2> …)   queries sharing one memo (reset after a failed query)
//!   sub.compat  <env> <new> <old>   service_compatible / service_compatibility_report / service_equal on printed sources
use crate::gen;
use crate::sexp;
use crate::{guarded, Ctx, Out};
use candid::types::internal::{Field, Type, TypeInner};
use candid::types::subtype::{equal, subtype, subtype_check_all, Gamma};
use candid::types::TypeEnv;
use candid_parser::utils::{service_compatibility_report, service_compatible, service_equal, CandidSource};
use std::collections::{BTreeMap, HashSet};

fn b(r: Result<bool, String>) -> String {
    match r {
        Ok(true) => "true".into(),
        Ok(false) => "false".into(),
        Err(_) => "panic".into(),
    }
}

fn sub_fresh(env: &TypeEnv, t1: &Type, t2: &Type) -> Result<bool, String> {
    let (env, t1, t2) = (env.clone(), t1.clone(), t2.clone());
    guarded(move || {
        let mut g: Gamma = HashSet::new();
        subtype(&mut g, &env, &t1, &t2).is_ok()
    })
}

/// reverse the order of fields / methods everywhere (the checker must not care)
fn permute(t: &Type) -> Type {
    use TypeInner::*;
    match t.as_ref() {
        Opt(x) => Opt(permute(x)).into(),
        Vec(x) => Vec(permute(x)).into(),
        Record(fs) => Record(fs.iter().rev().map(|f| Field { id: f.id.clone(), ty: permute(&f.ty) }).collect()).into(),
        Variant(fs) => Variant(fs.iter().rev().map(|f| Field { id: f.id.clone(), ty: permute(&f.ty) }).collect()).into(),
        Func(f) => {
            let mut f = f.clone();
            f.args = f.args.iter().map(permute).collect();
            f.rets = f.rets.iter().map(permute).collect();
            Func(f).into()
        }
        Service(ms) => Service(ms.iter().rev().map(|(n, t)| (n.clone(), permute(t))).collect()).into(),
        Class(a, t) => Class(a.iter().map(permute).collect(), permute(t)).into(),
        _ => t.clone(),
    }
}

fn rename_env(env: &TypeEnv) -> (TypeEnv, BTreeMap<String, String>) {
    let n = env.0.len();
    let tau: BTreeMap<String, String> =
        env.0.keys().enumerate().map(|(i, k)| (k.clone(), format!("zz_{}", n - i))).collect();
    let mut e = TypeEnv::new();
    for (k, t) in &env.0 {
        e.0.insert(tau[k].clone(), t.subst(&tau));
    }
    (e, tau)
}

fn compat_sources(out: &mut Out, line: &str, new_src: String, old_src: String) -> String {
    let (n1, o1) = (new_src.clone(), old_src.clone());
    let r = guarded(move || service_compatible(CandidSource::Text(&n1), CandidSource::Text(&o1)).is_ok());
    let (n1, o1) = (new_src.clone(), old_src.clone());
    let rep = guarded(move || {
        service_compatibility_report(CandidSource::Text(&n1), CandidSource::Text(&o1)).map(|v| v.is_empty()).unwrap_or(false)
    });
    if rep != r {
        out.oracle_failure("compatibility report empty != service_compatible ok", line);
    }
    let (n1, o1) = (new_src.clone(), old_src.clone());
    let eq = guarded(move || service_equal(CandidSource::Text(&n1), CandidSource::Text(&o1)).is_ok());
    if eq == Ok(true) && r != Ok(true) {
        out.oracle_failure("service_equal holds but service_compatible fails", line);
    }
    b(r)
}

pub fn eval(out: &mut Out, op: &str, args: &[&str]) -> Option<String> {
    let env = sexp::to_env(&sexp::parse(args.first()?)?)?;
    match op {
        "sub.compat2" => {
            let t1 = sexp::to_ty(&sexp::parse(args.get(1)?)?)?;
            let env2 = sexp::to_env(&sexp::parse(args.get(2)?)?)?;
            let t2 = sexp::to_ty(&sexp::parse(args.get(3)?)?)?;
            let line = args.join("\t");
            let new_src = candid::pretty::candid::compile(&env, &Some(t1));
            let old_src = candid::pretty::candid::compile(&env2, &Some(t2));
            Some(compat_sources(out, &line, new_src, old_src))
        }
        "sub.subtype" | "sub.equal" => {
            let t1 = sexp::to_ty(&sexp::parse(args.get(1)?)?)?;
            let t2 = sexp::to_ty(&sexp::parse(args.get(2)?)?)?;
            let line = format!("{}\t{}\t{}", args[0], args[1], args[2]);
            if op == "sub.equal" {
                let (e2, a, c) = (env.clone(), t1.clone(), t2.clone());
                let r = guarded(move || {
                    let mut g: Gamma = HashSet::new();
                    equal(&mut g, &e2, &a, &c).is_ok()
                });
                if r == Ok(true) {
                    if sub_fresh(&env, &t1, &t2) != Ok(true) || sub_fresh(&env, &t2, &t1) != Ok(true) {
                        out.oracle_failure("equal holds but subtype fails one way", &line);
                    }
                }
                return Some(b(r));
            }
            let r = sub_fresh(&env, &t1, &t2);
            // all-errors report is empty exactly when the check succeeds
            {
                let (e2, a, c) = (env.clone(), t1.clone(), t2.clone());
                let rep = guarded(move || {
                    let mut g: Gamma = HashSet::new();
                    subtype_check_all(&mut g, &e2, &a, &c).is_empty()
                });
                if rep != r {
                    out.oracle_failure("subtype_check_all empty != subtype ok", &line);
                }
            }
            // reflexivity
            if sub_fresh(&env, &t1, &t1) != Ok(true) || sub_fresh(&env, &t2, &t2) != Ok(true) {
                out.oracle_failure("subtype not reflexive", &line);
            }
            // independence of definition names
            {
                let (e2, tau) = rename_env(&env);
                if sub_fresh(&e2, &t1.subst(&tau), &t2.subst(&tau)) != r {
                    out.oracle_failure("answer depends on definition names", &line);
                }
            }
            // independence of field / method order
            {
                let mut e3 = TypeEnv::new();
                for (k, t) in &env.0 {
                    e3.0.insert(k.clone(), permute(t));
                }
                if sub_fresh(&e3, &permute(&t1), &permute(&t2)) != r {
                    out.oracle_failure("answer depends on field or method order", &line);
                }
            }
            Some(b(r))
        }
        // transitivity on one triple (the property claims it): "false" only when both premises hold and the conclusion fails
        "sub.trans" => {
            let t1 = sexp::to_ty(&sexp::parse(args.get(1)?)?)?;
            let t2 = sexp::to_ty(&sexp::parse(args.get(2)?)?)?;
            let t3 = sexp::to_ty(&sexp::parse(args.get(3)?)?)?;
            Some(match (sub_fresh(&env, &t1, &t2), sub_fresh(&env, &t2, &t3), sub_fresh(&env, &t1, &t3)) {
                (Ok(a), Ok(b2), Ok(c)) => (if a && b2 && !c { "false" } else { "true" }).into(),
                _ => "panic".into(),
            })
        }
        "sub.seq" => {
            let ts = sexp::to_tys(&sexp::parse(args.get(1)?)?)?;
            let r = guarded(move || {
                let mut g: Gamma = HashSet::new();
                let mut outv = vec![];
                for p in ts.chunks(2) {
                    if p.len() < 2 {
                        break;
                    }
                    let ok = subtype(&mut g, &env, &p[0], &p[1]).is_ok();
                    if !ok {
                        g = HashSet::new();
                    }
                    outv.push(if ok { "true" } else { "false" });
                }
                outv.join(",")
            });
            Some(r.unwrap_or_else(|_| "panic".into()))
        }
        "sub.compat" => {
            let t1 = sexp::to_ty(&sexp::parse(args.get(1)?)?)?;
            let t2 = sexp::to_ty(&sexp::parse(args.get(2)?)?)?;
            let line = format!("{}\t{}\t{}", args[0], args[1], args[2]);
            let new_src = candid::pretty::candid::compile(&env, &Some(t1));
            let old_src = candid::pretty::candid::compile(&env, &Some(t2));
            Some(compat_sources(out, &line, new_src, old_src))
        }
        _ => None,
    }
}

fn emit_pair(ctx: &mut Ctx, env: &TypeEnv, t1: &Type, t2: &Type) {
    let e = sexp::env(env);
    let (a, c) = (sexp::ty(t1), sexp::ty(t2));
    let nt = t1 != t2;
    ctx.emit(&format!("sub.subtype\t{e}\t{a}\t{c}"), nt);
    if ctx.rng.chance(1, 3) {
        ctx.emit(&format!("sub.equal\t{e}\t{a}\t{c}"), nt);
    }
}

/// all types of depth ≤ 1 over a small alphabet (for the exhaustive small-environment family)
fn small_types(names: &[&str]) -> std::vec::Vec<Type> {
    use TypeInner::*;
    let mut base: std::vec::Vec<Type> = vec![Nat.into(), Int.into(), Null.into(), Reserved.into(), Empty.into(), Bool.into()];
    for n in names {
        base.push(Var(n.to_string()).into());
    }
    let mut out = base.clone();
    for t in &base {
        out.push(Opt(t.clone()).into());
        out.push(Vec(t.clone()).into());
        out.push(Record(vec![Field { id: candid::types::Label::Id(0).into(), ty: t.clone() }]).into());
        out.push(Variant(vec![Field { id: candid::types::Label::Id(0).into(), ty: t.clone() }]).into());
    }
    out.push(Record(vec![]).into());
    out.push(Variant(vec![]).into());
    out
}

pub fn run(ctx: &mut Ctx) {
    // 0. hand-written history / probe families (recursive definitions reached first as an opt probe)
    // 1. exhaustive small environments: one or two definitions over a small alphabet, all ordered pairs
    {
        let names = ["A", "B"];
        let tys = small_types(&names);
        let defs: Vec<Type> = tys.iter().filter(|t| !matches!(t.as_ref(), TypeInner::Var(_))).cloned().collect();
        let n_env = if ctx.thorough { 400 } else { 12 };
        for _ in 0..n_env {
            let mut env = TypeEnv::new();
            env.0.insert("A".into(), ctx.rng.pick(&defs).clone());
            env.0.insert("B".into(), ctx.rng.pick(&defs).clone());
            let e = sexp::env(&env);
            for t1 in &tys {
                for t2 in &tys {
                    if ctx.thorough || ctx.rng.chance(1, 3) {
                        ctx.emit(&format!("sub.subtype\t{e}\t{}\t{}", sexp::ty(t1), sexp::ty(t2)), t1 != t2);
                    }
                }
            }
        }
        ctx.out.exhaustive.push(format!(
            "all ordered pairs of the {} types of depth <= 1 over {{nat,int,null,reserved,empty,bool,A,B}} x {{opt,vec,record,variant}} in sampled two-definition environments (thorough: every pair; quick: one third)",
            tys.len()
        ));
    }
    // 1b. transitivity over the same small types: every triple (thorough) or a sample (quick), in a few environments
    {
        let names = ["A", "B"];
        let tys = small_types(&names);
        let defs: Vec<Type> = tys.iter().filter(|t| !matches!(t.as_ref(), TypeInner::Var(_))).cloned().collect();
        let n_env = if ctx.thorough { 6 } else { 2 };
        for _ in 0..n_env {
            let mut env = TypeEnv::new();
            env.0.insert("A".into(), ctx.rng.pick(&defs).clone());
            env.0.insert("B".into(), ctx.rng.pick(&defs).clone());
            let e = sexp::env(&env);
            for t1 in &tys {
                for t2 in &tys {
                    for t3 in &tys {
                        if ctx.thorough || ctx.rng.chance(1, 40) {
                            ctx.emit(&format!("sub.trans\t{e}\t{}\t{}\t{}", sexp::ty(t1), sexp::ty(t2), sexp::ty(t3)), t1 != t2 && t2 != t3);
                        }
                    }
                }
            }
        }
    }
    // 2. random recursive environments, related pairs by upgrade steps
    let n = if ctx.thorough { 60_000 } else { 2_500 };
    for i in 0..n {
        let ndefs = ctx.rng.range(0, 6) as usize;
        let refs = ctx.rng.chance(1, 2);
        let named = ctx.rng.chance(1, 2);
        let (env, g) = gen::env(&mut ctx.rng, ndefs, 2, refs, named);
        let t1 = g.ty(&mut ctx.rng, 3);
        let mut t2 = t1.clone();
        let steps = ctx.rng.range(0, 3);
        let up = ctx.rng.chance(4, 5);
        for _ in 0..steps {
            t2 = gen::step(&mut ctx.rng, &g, &t2, up, 2);
        }
        if ctx.rng.chance(1, 10) {
            t2 = g.ty(&mut ctx.rng, 2);
        }
        emit_pair(ctx, &env, &t1, &t2);
        if ctx.rng.chance(1, 3) {
            emit_pair(ctx, &env, &t2, &t1);
        }
        // 3. histories: several queries on one memo; the last one repeats an earlier or related pair
        if i % 3 == 0 {
            let mut qs: Vec<Type> = vec![];
            let k = ctx.rng.range(2, 5);
            for _ in 0..k {
                let a = if ctx.rng.chance(1, 2) && !g.names.is_empty() {
                    TypeInner::Var(ctx.rng.pick(&g.names).clone()).into()
                } else {
                    g.ty(&mut ctx.rng, 2)
                };
                let mut c = a.clone();
                for _ in 0..ctx.rng.range(0, 2) {
                    c = gen::step(&mut ctx.rng, &g, &c, true, 1);
                }
                if ctx.rng.chance(1, 4) && !g.names.is_empty() {
                    c = TypeInner::Var(ctx.rng.pick(&g.names).clone()).into();
                }
                // wrap into a record that first probes the pair under an option, then uses it directly
                if ctx.rng.chance(1, 3) {
                    let l0 = candid::types::Label::Id(0);
                    let l1 = candid::types::Label::Id(1);
                    let ra: Type = TypeInner::Record(vec![
                        Field { id: l0.clone().into(), ty: TypeInner::Opt(a.clone()).into() },
                        Field { id: l1.clone().into(), ty: a.clone() },
                    ])
                    .into();
                    let rc: Type = TypeInner::Record(vec![
                        Field { id: l0.into(), ty: TypeInner::Opt(c.clone()).into() },
                        Field { id: l1.into(), ty: c.clone() },
                    ])
                    .into();
                    qs.push(ra);
                    qs.push(rc);
                } else {
                    qs.push(a);
                    qs.push(c);
                }
            }
            ctx.emit(&format!("sub.seq\t{}\t{}", sexp::env(&env), sexp::tys(&qs)), true);
        }
        // 4. services through the text-level upgrade check
        if i % 5 == 0 {
            let gs = gen::TyGen { names: g.names.clone(), refs: true, named: true, max_fields: 3 };
            let s1 = gs.service(&mut ctx.rng, 2);
            let t1: Type = TypeInner::Service(s1).into();
            let mut t2 = t1.clone();
            for _ in 0..ctx.rng.range(0, 3) {
                t2 = gen::step(&mut ctx.rng, &gs, &t2, true, 2);
            }
            // only environments whose definitions the printer/parser can carry: every name defined
            let e = sexp::env(&env);
            ctx.emit(&format!("sub.compat\t{e}\t{}\t{}", sexp::ty(&t1), sexp::ty(&t2)), t1 != t2);
            // the old interface has its own environment: same names, some definitions changed
            let mut env2 = TypeEnv::new();
            for (k, t) in &env.0 {
                let mut t = t.clone();
                if ctx.rng.chance(1, 3) {
                    let up = ctx.rng.chance(1, 2);
                    t = gen::step(&mut ctx.rng, &gs, &t, up, 1);
                    if matches!(t.as_ref(), TypeInner::Var(_)) {
                        t = env.0[k].clone();
                    }
                }
                if !ctx.rng.chance(1, 8) {
                    env2.0.insert(k.clone(), t);
                }
            }
            // keep env2 closed: drop-outs are re-added unchanged when referenced
            for (k, t) in &env.0 {
                env2.0.entry(k.clone()).or_insert_with(|| t.clone());
            }
            // make the services use the definitions
            let wrap = |s: &Type, names: &[String], rng: &mut crate::Rng| -> Type {
                if let TypeInner::Service(ms) = s.as_ref() {
                    let mut ms = ms.clone();
                    if !names.is_empty() {
                        let n = rng.pick(names).clone();
                        let f = candid::types::Function { modes: vec![], args: vec![], rets: vec![TypeInner::Var(n).into()] };
                        if !ms.iter().any(|m| m.0 == "zz") {
                            ms.push(("zz".to_string(), TypeInner::Func(f).into()));
                        }
                    }
                    TypeInner::Service(ms).into()
                } else {
                    s.clone()
                }
            };
            // single changed definition, reached (if at all) through other definitions
            if !g.names.is_empty() {
                let j = ctx.rng.pick(&g.names).clone();
                let i = ctx.rng.pick(&g.names).clone();
                let mut env3 = env.clone();
                let changed: Type = match env.0[&j].as_ref() {
                    TypeInner::Text => TypeInner::Nat.into(),
                    TypeInner::Record(fs) => {
                        let mut fs = fs.clone();
                        fs.push(Field { id: candid::types::Label::Id(77).into(), ty: TypeInner::Text.into() });
                        fs.sort_unstable_by_key(|f| f.id.get_id());
                        TypeInner::Record(fs).into()
                    }
                    _ => TypeInner::Text.into(),
                };
                env3.0.insert(j, changed);
                let svc: Type = TypeInner::Service(vec![(
                    "zz".to_string(),
                    TypeInner::Func(candid::types::Function {
                        modes: vec![],
                        args: vec![],
                        rets: vec![TypeInner::Var(i).into()],
                    })
                    .into(),
                )])
                .into();
                let (s1, s2) = (sexp::ty(&svc), sexp::env(&env3));
                ctx.emit(&format!("sub.compat2\t{e}\t{s1}\t{s2}\t{s1}"), true);
                ctx.emit(&format!("sub.compat2\t{s2}\t{s1}\t{e}\t{s1}"), true);
                // … and reached through a definition only ONE side has (a name the two environments do not share,
                // whose body mentions names they do share): merging must still bind those to the side they came from
                for target in g.names.iter().take(3) {
                    let only = "zz_only".to_string();
                    let svc_only: Type = TypeInner::Service(vec![(
                        "zz".to_string(),
                        TypeInner::Func(candid::types::Function {
                            modes: vec![],
                            args: vec![],
                            rets: vec![TypeInner::Var(only.clone()).into()],
                        })
                        .into(),
                    )])
                    .into();
                    let svc_t: Type = TypeInner::Service(vec![(
                        "zz".to_string(),
                        TypeInner::Func(candid::types::Function {
                            modes: vec![],
                            args: vec![],
                            rets: vec![TypeInner::Var(target.clone()).into()],
                        })
                        .into(),
                    )])
                    .into();
                    // the one-sided definition wraps the shared name, so the shared name is always reached
                    let wrap_body: Type = TypeInner::Record(vec![Field {
                        id: candid::types::Label::Named("x".to_string()).into(),
                        ty: TypeInner::Var(target.clone()).into(),
                    }])
                    .into();
                    let wrap_t: Type = TypeInner::Record(vec![Field {
                        id: candid::types::Label::Named("x".to_string()).into(),
                        ty: TypeInner::Var(target.clone()).into(),
                    }])
                    .into();
                    let svc_wrapped: Type = TypeInner::Service(vec![(
                        "zz".to_string(),
                        TypeInner::Func(candid::types::Function { modes: vec![], args: vec![], rets: vec![wrap_t] }).into(),
                    )])
                    .into();
                    let _ = svc_t;
                    let mut old_env = env3.clone();
                    old_env.0.insert(only.clone(), wrap_body.clone());
                    let mut new_env_only = env.clone();
                    new_env_only.0.insert(only.clone(), wrap_body);
                    // old side has the extra name
                    ctx.emit(
                        &format!("sub.compat2\t{e}\t{}\t{}\t{}", sexp::ty(&svc_wrapped), sexp::env(&old_env), sexp::ty(&svc_only)),
                        true,
                    );
                    // new side has the extra name
                    ctx.emit(
                        &format!("sub.compat2\t{}\t{}\t{s2}\t{}", sexp::env(&new_env_only), sexp::ty(&svc_only), sexp::ty(&svc_wrapped)),
                        true,
                    );
                }
            }
            let names = g.names.clone();
            let mut r2 = crate::Rng(ctx.rng.next());
            let mut r3 = crate::Rng(r2.0);
            let n1 = wrap(&t1, &names, &mut r2);
            let n2 = wrap(&t2, &names, &mut r3);
            ctx.emit(
                &format!("sub.compat2\t{e}\t{}\t{}\t{}", sexp::ty(&n1), sexp::env(&env2), sexp::ty(&n2)),
                true,
            );
            ctx.emit(&format!("sub.subtype\t{e}\t{}\t{}", sexp::ty(&t1), sexp::ty(&t2)), t1 != t2);
        }
    }
}
